(* Expression evaluation and node execution (parser_expression.go Evaluate methods,
   variable.go resolve / nodeVariable.Execute, filters.go filterCall.Execute, every
   tags_*.go Execute, template.go newContextForExecution / execute).

   One global stack of frames: a frame is one ExecutionContext.  Every NewChild... pushes a
   copy of its parent's Private on top and pops it when the construct ends; macro and
   block closures refer to the frame that was current when they were bound, by its index
   from the bottom.  Per-execution node state (cycle position, ifchanged memory) is keyed
   by (execution id, node id).  GENERATED from Exec.v.in by tools/bl.py. *)
From PV Require Export Model.ParseDoc Model.Filters.
From PV Require Import gen.Tables.
Open Scope N_scope.

Record frame := mkF {
  f_priv : list (str * cval);
  f_pub : list (str * cval);
  f_auto : bool;
  f_depth : Z;
  f_exec : N;                    (* which execution's node state *)
  f_chain : list template        (* ctx.template and its descendants, root first *)
}.

Inductive nstate :=
| NSCycle (idx : Z)
| NSIfchanged (last_vals : list value) (last_content : option str).

Record mstate := mkM {
  ms_frames : list frame;                    (* innermost first *)
  ms_nodes : list (N * N * nstate);          (* (execution id, node id) -> state *)
  ms_g : gstate                              (* fresh ids, loader log (lazy include compiles) *)
}.

Definition top_frame (st : mstate) : res frame :=
  match ms_frames st with fr :: _ => Ok fr | [] => Panic 90 end.
Definition set_top (st : mstate) (fr : frame) : mstate :=
  match ms_frames st with
  | _ :: rest => mkM (fr :: rest) (ms_nodes st) (ms_g st)
  | [] => st
  end.
Definition push_frame (st : mstate) (fr : frame) : mstate := mkM (fr :: ms_frames st) (ms_nodes st) (ms_g st).
Definition pop_frame (st : mstate) : mstate := mkM (tl (ms_frames st)) (ms_nodes st) (ms_g st).
(* frame by index from the bottom *)
Definition frame_at (st : mstate) (i : nat) : option frame :=
  nth_error (rev (ms_frames st)) i.
Definition cur_index (st : mstate) : nat := length (ms_frames st) - 1.
Fixpoint update_nth {A} (l : list A) (i : nat) (x : A) : list A :=
  match l, i with
  | [], _ => []
  | _ :: r, O => x :: r
  | y :: r, S k => y :: update_nth r k x
  end.
Definition set_frame_at (st : mstate) (i : nat) (fr : frame) : mstate :=
  mkM (rev (update_nth (rev (ms_frames st)) i fr)) (ms_nodes st) (ms_g st).

Definition with_priv (fr : frame) (p : list (str * cval)) : frame :=
  mkF p (f_pub fr) (f_auto fr) (f_depth fr) (f_exec fr) (f_chain fr).
Definition with_auto (fr : frame) (a : bool) : frame :=
  mkF (f_priv fr) (f_pub fr) a (f_depth fr) (f_exec fr) (f_chain fr).
Definition with_depth (fr : frame) (d : Z) : frame :=
  mkF (f_priv fr) (f_pub fr) (f_auto fr) d (f_exec fr) (f_chain fr).
(* NewChildExecutionContext(parent) *)
Definition child_of (parent : frame) : frame :=
  mkF (f_priv parent) (f_pub parent) (f_auto parent) 0 (f_exec parent) (f_chain parent).

Definition set_priv (st : mstate) (k : str) (v : cval) : res mstate :=
  do fr <- top_frame st; Ok (set_top st (with_priv fr (ctx_set k v (f_priv fr)))).

Fixpoint ns_get (e n : N) (l : list (N * N * nstate)) : option nstate :=
  match l with
  | [] => None
  | (e', n', s) :: r => if (e =? e') && (n =? n') then Some s else ns_get e n r
  end.
Definition ns_set (st : mstate) (e n : N) (s : nstate) : mstate :=
  mkM (ms_frames st) ((e, n, s) :: filter (fun x => negb ((fst (fst x) =? e) && (snd (fst x) =? n))) (ms_nodes st)) (ms_g st).

Definition xerr {A} : res A := Err 3.

(* output so far + outcome *)
Definition xres := (str * res mstate)%type.
Definition xok (o : str) (st : mstate) : xres := (o, Ok st).
Definition xfail (o : str) {A} (r : res A) : xres :=
  (o, match r with Ok _ => Panic 91 | Err k => Err k | Unmod => Unmod | Fuel => Fuel | Panic s => Panic s end).

(* reflect.Value.Index on a string yields a byte (uint8) *)
Definition index_val (v : val) (i : Z) : option val :=
  match v with
  | VStr s => if ((0 <=? i) && (i <? Z.of_nat (length s)))%Z then Some (VInt (Z.of_N (nth (Z.to_nat i) s 0))) else None
  | VList l => if ((0 <=? i) && (i <? Z.of_nat (length l)))%Z then Some (nth (Z.to_nat i) l VNil) else None
  | _ => None
  end.
Definition indexable (v : val) : bool := match v with VStr _ | VList _ => true | _ => false end.

(* math.Round then int(), for widthratio *)
Definition f_round_to_int (x : float) : Z :=
  match x with
  | S754_zero _ => 0%Z
  | S754_finite s m e =>
      let mag := if (0 <=? e)%Z then (Zpos m * 2 ^ e)%Z
                 else let den := (2 ^ (- e))%Z in
                      let q := (Zpos m / den)%Z in
                      let r := (Zpos m mod den)%Z in
                      if (den <=? 2 * r)%Z then (q + 1)%Z else q in
      let v := if s then (- mag)%Z else mag in
      if in_int v then v else min_int
  | _ => min_int
  end.

(* the loop information struct of the for tag *)
Definition loop_struct (idx count : Z) (parent : val) : val :=
  VStruct [ ([67; 111; 117; 110; 116; 101; 114] (* Counter *), VInt (idx + 1)); ([67; 111; 117; 110; 116; 101; 114; 48] (* Counter0 *), VInt idx);
            ([82; 101; 118; 99; 111; 117; 110; 116; 101; 114] (* Revcounter *), VInt (count - idx)); ([82; 101; 118; 99; 111; 117; 110; 116; 101; 114; 48] (* Revcounter0 *), VInt (count - (idx + 1)));
            ([70; 105; 114; 115; 116] (* First *), VBool (idx =? 0)%Z); ([76; 97; 115; 116] (* Last *), VBool (idx + 1 =? count)%Z);
            ([80; 97; 114; 101; 110; 116; 108; 111; 111; 112] (* Parentloop *), parent) ].
Definition loop_struct_empty (parent : val) : val :=
  VStruct [ ([67; 111; 117; 110; 116; 101; 114] (* Counter *), VInt 0); ([67; 111; 117; 110; 116; 101; 114; 48] (* Counter0 *), VInt 0); ([82; 101; 118; 99; 111; 117; 110; 116; 101; 114] (* Revcounter *), VInt 0); ([82; 101; 118; 99; 111; 117; 110; 116; 101; 114; 48] (* Revcounter0 *), VInt 0);
            ([70; 105; 114; 115; 116] (* First *), VBool true); ([76; 97; 115; 116] (* Last *), VBool false); ([80; 97; 114; 101; 110; 116; 108; 111; 111; 112] (* Parentloop *), parent) ].
Definition is_loop_struct (v : val) : bool :=
  match v with VStruct (( k, _) :: _) => str_eqb k [67; 111; 117; 110; 116; 101; 114] (* Counter *) | _ => false end.

(* the items a for tag iterates over: (key, optional value) pairs; None = not iterable
   (the empty branch runs) ; Unmod for unsorted maps with more than one key *)
Definition iter_items (v : val) (reversed sorted : bool) : res (option (list (val * option val))) :=
  match v with
  | VMap m =>
      if Nat.leb (length m) 1 || sorted then
        let ks := if sorted && reversed then rev m else m in
        Ok (Some (map (fun kv => (VStr (fst kv), Some (snd kv))) ks))
      else Unmod
  | VList l =>
      if sorted then
        match sort_vals l with
        | Some s => Ok (Some (map (fun x => (x, None)) (if reversed then rev s else s)))
        | None => Unmod
        end
      else Ok (Some (map (fun x => (x, None)) (if reversed then rev l else l)))
  | VStr s =>
      let rs := runes s in
      let rs1 := if sorted then fold_right (fun x acc => let fix ins (y : N) (l : list N) :=
                                                             match l with
                                                             | [] => [y]
                                                             | z :: l' => if z <? y then z :: ins y l' else y :: l
                                                             end in ins x acc) [] rs else rs in
      let rs2 := if reversed then rev rs1 else rs1 in
      Ok (Some (map (fun r => (VStr (encode_rune r), None)) rs2))
  | _ => Ok None
  end.

(* spaceless: the regexp (?U:(<.*>))([\t\n\v\f\r ]+)(?U:(<.*>)) replaced by $1$3 to a fixpoint,
   as a hand matcher: a white-space run is removed when the byte before it is a '>' that has
   a '<' earlier on its line and the byte after it is a '<' that has a '>' later on its line
   ('.' does not match a newline).  One pass works on the original string, like
   ReplaceAllString; passes repeat until nothing changes. *)
Definition is_ws_sl (b : N) : bool := in_rng 9 13 b || (b =? 32).
Fixpoint gt_before_nl (s : str) : bool :=
  match s with
  | [] => false
  | c :: r => if c =? 10 then false else if c =? 62 then true else gt_before_nl r
  end.
Fixpoint ws_run_len (s : str) : nat :=
  match s with c :: r => if is_ws_sl c then S (ws_run_len r) else O | [] => O end.
Fixpoint sl_pass (skip : nat) (lt_seen closing : bool) (s : str) : str * bool :=
  match s with
  | [] => ([], false)
  | c :: r =>
      let lt' := if c =? 10 then false else if c =? 60 then true else lt_seen in
      match skip with
      | S k => sl_pass k lt' false r
      | O =>
          if is_ws_sl c && closing then
            let n := ws_run_len s in
            match skipn n s with
            | 60 :: after => if gt_before_nl after
                             then (fst (sl_pass (n - 1) lt' false r), true)
                             else let '(o, ch) := sl_pass 0 lt' false r in (c :: o, ch)
            | _ => let '(o, ch) := sl_pass 0 lt' false r in (c :: o, ch)
            end
          else
            let '(o, ch) := sl_pass 0 lt' ((c =? 62) && lt_seen) r in (c :: o, ch)
      end
  end.
Fixpoint sl_fix (fuel : nat) (s : str) : str :=
  match fuel with
  | O => s
  | S f => let '(o, ch) := sl_pass 0 false false s in if ch then sl_fix f o else o
  end.
Definition spaceless_model (s : str) : option str := Some (sl_fix (S (length s)) s).

(* cycleOutput *)
Definition cycle_out (fr : frame) (item : expr) (v : value) (st : mstate) : xres :=
  match to_string (vv v) with
  | None => ([], Unmod)
  | Some s =>
      if f_auto fr && negb (vsafe v) && negb (filter_applied [115; 97; 102; 101] (* safe *) item) && is_string (vv v)
      then xok (filter_escape s) st else xok s st
  end.

Section Exec.
  Variable se : senv.
  Variable globals : list (str * cval).

  (* Template.newContextForExecution + newExecutionContext: the root frame of an execution *)
  Definition root_frame (t : template) (ctx : list (str * cval)) (execid : N) : frame :=
    mkF [ ([112; 111; 110; 103; 111; 50] (* pongo2 *), CV (as_value (VMap [ ([118; 101; 114; 115; 105; 111; 110] (* version *), VStr pongo2_version) ]))) ]
        (ctx_update globals ctx) true 0 execid (tpl_chain t).

  (* a filter registered outside the package (the harness's probe) has no model: Unmod;
     a name that is not registered at all is an error *)
  Definition apply_filter_se (name : str) (x p : value) : fres :=
    match assoc_get name filter_impl with
    | Some _ => apply_filter name x p
    | None => if str_in name (cfg_filters (se_cfg se)) then Unmod else Err 5
    end.

  Definition is_ident_key (k : str) : bool :=
    negb (Nat.eqb (length k) 0) && forallb (fun b => is_alpha b || is_digit b || (b =? 95)) k.

  Fixpoint eval (fuel : nat) (st : mstate) (e : expr) {struct fuel} : res (value * mstate) :=
    match fuel with
    | O => Fuel
    | S f =>
        match e with
        | EInt z => Ok (as_value (VInt z), st)
        | EFloat x => Ok (as_value (VFloat x), st)
        | EStr s => Ok (as_value (VStr s), st)
        | EBool b => Ok (as_value (VBool b), st)
        | EArray items =>
            do '(vs, st1) <- eval_list f st items;
            Ok (as_value (VList (map vv vs)), st1)
        | EVar parts => resolve f st parts
        | EFilt e0 chain =>
            do '(v, st1) <- eval f st e0;
            apply_chain f st1 v chain
        | EPow a b =>
            do '(x, st1) <- eval f st a;
            do '(y, st2) <- eval f st1 b;
            do fx <- float_of x; do fy <- float_of y;
            do r <- of_opt (f_pow fx fy);
            Ok (as_value (VFloat r), st2)
        | ETerm op a b =>
            do '(x, st1) <- eval f st a;
            do '(y, st2) <- eval f st1 b;
            let fl := is_float (vv x) || is_float (vv y) in
            if op =? 42 then
              if fl then do fx <- float_of x; do fy <- float_of y; Ok (as_value (VFloat (f_mul fx fy)), st2)
              else do ix <- int_of x; do iy <- int_of y; Ok (as_value (VInt (wrap64 (ix * iy))), st2)
            else if op =? 47 then
              if fl then
                do fy <- float_of y;
                if f_is_zero fy then xerr
                else do fx <- float_of x; Ok (as_value (VFloat (f_div fx fy)), st2)
              else
                do iy <- int_of y;
                if (iy =? 0)%Z then xerr
                else do ix <- int_of x; Ok (as_value (VInt (wrap64 (Z.quot ix iy))), st2)
            else
              do iy <- int_of y;
              if (iy =? 0)%Z then xerr
              else do ix <- int_of x; Ok (as_value (VInt (Z.rem ix iy)), st2)
        | ESimple negsign neg a rest =>
            do '(t1, st1) <- eval f st a;
            let r1 := if neg then as_value (negate (vv t1)) else t1 in
            do r2 <-
              (if negsign then
                 if is_number (vv r1) then
                   if is_float (vv r1) then do x <- float_of r1; Ok (as_value (VFloat (f_neg x)))
                   else do i <- int_of r1; Ok (as_value (VInt (wrap64 (- i))))
                 else xerr
               else Ok r1);
            match rest with
            | None => Ok (r2, st1)
            | Some (op, b) =>
                do '(t2, st2) <- eval f st1 b;
                if op =? 43 then
                  if is_string (vv r2) || is_string (vv t2) then
                    do s1 <- str_of r2; do s2 <- str_of t2; Ok (as_value (VStr (s1 ++ s2)), st2)
                  else if is_float (vv r2) || is_float (vv t2) then
                    do x <- float_of r2; do y <- float_of t2; Ok (as_value (VFloat (f_add x y)), st2)
                  else do x <- int_of r2; do y <- int_of t2; Ok (as_value (VInt (wrap64 (x + y))), st2)
                else
                  if is_float (vv r2) || is_float (vv t2) then
                    do x <- float_of r2; do y <- float_of t2; Ok (as_value (VFloat (f_sub x y)), st2)
                  else do x <- int_of r2; do y <- int_of t2; Ok (as_value (VInt (wrap64 (x - y))), st2)
            end
        | ERel op a b =>
            do '(x, st1) <- eval f st a;
            do '(y, st2) <- eval f st1 b;
            let fl := is_float (vv x) || is_float (vv y) in
            let cmp (fi : Z -> Z -> bool) (ff : float -> float -> bool) : res (value * mstate) :=
              if fl then do fx <- float_of x; do fy <- float_of y; Ok (as_value (VBool (ff fx fy)), st2)
              else do ix <- int_of x; do iy <- int_of y; Ok (as_value (VBool (fi ix iy)), st2) in
            match op with
            | RLe => cmp Z.leb f_leb
            | RGe => cmp (fun p q => Z.leb q p) (fun p q => f_leb q p)
            | RGt => cmp (fun p q => Z.ltb q p) (fun p q => f_ltb q p)
            | RLt => cmp Z.ltb f_ltb
            | REq => do b <- of_opt (equal_value_to (vv x) (vv y)); Ok (as_value (VBool b), st2)
            | RNe => do b <- of_opt (equal_value_to (vv x) (vv y)); Ok (as_value (VBool (negb b)), st2)
            | RIn => do b <- of_opt (val_contains (vv y) (vv x)); Ok (as_value (VBool b), st2)
            end
        | ELogic is_and a b =>
            do '(x, st1) <- eval f st a;
            if is_and then
              if negb (is_true (vv x)) then Ok (as_value (VBool false), st1)
              else do '(y, st2) <- eval f st1 b; Ok (as_value (VBool (is_true (vv y))), st2)
            else
              if is_true (vv x) then Ok (as_value (VBool true), st1)
              else do '(y, st2) <- eval f st1 b; Ok (as_value (VBool (is_true (vv y))), st2)
        end
    end
  with eval_list (fuel : nat) (st : mstate) (es : list expr) {struct fuel} : res (list value * mstate) :=
    match fuel with
    | O => Fuel
    | S f =>
        match es with
        | [] => Ok ([], st)
        | e :: r => do '(v, st1) <- eval f st e; do '(vs, st2) <- eval_list f st1 r; Ok (v :: vs, st2)
        end
    end
  (* filterCall.Execute along a chain *)
  with apply_chain (fuel : nat) (st : mstate) (v : value) (chain : list fcall) {struct fuel} : res (value * mstate) :=
    match fuel with
    | O => Fuel
    | S f =>
        match chain with
        | [] => Ok (v, st)
        | FCall name param :: rest =>
            do '(p, st1) <- (match param with
                             | Some pe => eval f st pe
                             | None => Ok (as_value VNil, st)
                             end);
            do r <- apply_filter_se name v p;
            apply_chain f st1 r rest
        end
    end
  (* variableResolver.resolve *)
  with resolve (fuel : nat) (st : mstate) (parts : list part) {struct fuel} : res (value * mstate) :=
    match fuel with
    | O => Fuel
    | S f =>
        match parts with
        | PIdent name call :: rest =>
            do fr <- top_frame st;
            let entry := match ctx_get name (f_priv fr) with
                         | Some c => Some c
                         | None => ctx_get name (f_pub fr)
                         end in
            match entry with
            | None => Ok (as_value VNil, st)          (* reflect.ValueOf(nil): invalid *)
            | Some (CV v) =>
                match vv v with
                | VNil => Ok (as_value VNil, st)
                | _ =>
                    match call with
                    | Some _ => xerr                   (* not a function *)
                    | None => walk f st (vv v) (vsafe v) rest
                    end
                end
            | Some (CMacro m fidx) =>
                do '(args, st1) <- eval_list f st (match call with Some a => a | None => [] end);
                do '(r, st2) <- call_macro f st1 m fidx args;
                walk f st2 (vv r) (vsafe r) rest
            | Some (CBlock fidx wrappers) =>
                (* only block.Super is modelled *)
                match rest with
                | [PIdent meth mcall] =>
                    if str_eqb meth [83; 117; 112; 101; 114] (* Super *) then
                      match mcall with
                      | Some (_ :: _) => xerr
                      | _ => call_super f st fidx wrappers
                      end
                    else Unmod
                | _ => Unmod
                end
            | Some (CCycle _ _ _ _) => Unmod
            end
        | _ => Panic 92     (* the parser always starts a variable with an identifier *)
        end
    end
  (* the remaining parts of a variable, over plain data *)
  with walk (fuel : nat) (st : mstate) (cur : val) (safe : bool) (parts : list part) {struct fuel} : res (value * mstate) :=
    match fuel with
    | O => Fuel
    | S f =>
        match parts with
        | [] => Ok (mkV cur safe, st)
        | p :: rest =>
            let no_call (c : option (list expr)) (k : res (value * mstate)) : res (value * mstate) :=
              match c with Some _ => (match k with Ok _ => xerr | other => other end) | None => k end in
            match p with
            | PInt i call =>
                if indexable cur then
                  match index_val cur i with
                  | Some v => match v with
                              | VNil => Ok (as_value VNil, st)
                              | _ => match call with Some _ => xerr | None => walk f st v safe rest end
                              end
                  | None => Ok (as_value VNil, st)
                  end
                else xerr
            | PIdent name call =>
                match cur with
                | VStruct m | VMap m =>
                    match assoc_get name m with
                    | Some VNil | None => Ok (as_value VNil, st)
                    | Some v => match call with Some _ => xerr | None => walk f st v safe rest end
                    end
                | _ => xerr
                end
            | PSub e call =>
                match cur with
                | VStr _ | VList _ =>
                    do '(sv, st1) <- eval f st e;
                    match vv sv with
                    | VInt si =>      (* only an integer is an index (fix D38) *)
                        match index_val cur si with
                        | Some VNil | None => Ok (as_value VNil, st1)
                        | Some v => match call with Some _ => xerr | None => walk f st1 v safe rest end
                        end
                    | _ => Ok (as_value VNil, st1)
                    end
                | VStruct m =>
                    do '(sv, st1) <- eval f st e;
                    do k <- str_of sv;
                    match assoc_get k m with
                    | Some VNil | None => Ok (as_value VNil, st1)
                    | Some v => match call with Some _ => xerr | None => walk f st1 v safe rest end
                    end
                | VMap m =>
                    do '(sv, st1) <- eval f st e;
                    match vv sv with
                    | VStr k =>
                        match assoc_get k m with
                        | Some VNil | None => Ok (as_value VNil, st1)
                        | Some v => match call with Some _ => xerr | None => walk f st1 v safe rest end
                        end
                    | _ => Ok (as_value VNil, st1)     (* nil, or a key type that is not string *)
                    end
                | _ => xerr
                end
            end
        end
    end
  (* tagMacroNode.callGuarded + call *)
  with call_macro (fuel : nat) (st : mstate) (m : macro) (fidx : nat) (args : list value) {struct fuel} : res (value * mstate) :=
    match fuel with
    | O => Fuel
    | S f =>
        match m with
        | Macro mname params body _ =>
            match frame_at st fidx with
            | None => Panic 93
            | Some dfr =>
                let d := (f_depth dfr + 1)%Z in
                if (max_macro_depth <? d)%Z then xerr
                else
                  let st0 := set_frame_at st fidx (with_depth dfr d) in
                  (* all defaults are evaluated in the defining context: view the stack up to that frame *)
                  let all := ms_frames st0 in
                  let nup := (length all - S fidx)%nat in
                  let st_in := mkM (skipn nup all) (ms_nodes st0) (ms_g st0) in
                  match macro_defaults f st_in params with
                  | Ok (dvals, st_d) =>
                      let st1 := mkM (firstn nup all ++ ms_frames st_d) (ms_nodes st_d) (ms_g st_d) in
                      if Nat.ltb (length params) (length args) then xerr
                      else
                        match frame_at st1 fidx with
                        | None => Panic 94
                        | Some dfr1 =>
                            let base := ctx_update (f_priv dfr1) dvals in
                            let bound := ctx_update base
                                           (map (fun pa => (fst (fst pa), CV (as_value (vv (snd pa)))))
                                                (combine params args)) in
                            let mfr := with_priv (child_of dfr1) bound in
                            match exec_nodes f (push_frame st1 mfr) body with
                            | (out, Ok st2) =>
                                let st3 := pop_frame st2 in
                                let st4 := match frame_at st3 fidx with
                                           | Some fr' => set_frame_at st3 fidx (with_depth fr' (f_depth fr' - 1))
                                           | None => st3
                                           end in
                                Ok (as_safe_value (VStr out), st4)
                            | (_, Err k) => Err 3
                            | (_, Unmod) => Unmod
                            | (_, Fuel) => Fuel
                            | (_, Panic s) => Panic s
                            end
                        end
                  | Err k => Err 3
                  | Unmod => Unmod
                  | Fuel => Fuel
                  | Panic s => Panic s
                  end
            end
        end
    end
  with macro_defaults (fuel : nat) (st : mstate) (params : list (str * option expr)) {struct fuel}
    : res (list (str * cval) * mstate) :=
    match fuel with
    | O => Fuel
    | S f =>
        match params with
        | [] => Ok ([], st)
        | (name, None) :: rest =>
            do '(r, st1) <- macro_defaults f st rest; Ok ((name, CV (as_value VNil)) :: r, st1)
        | (name, Some e) :: rest =>
            do '(v, st1) <- eval f st e;
            do '(r, st2) <- macro_defaults f st1 rest; Ok ((name, CV v) :: r, st2)
        end
    end
  (* tagBlockInformation.Super *)
  with call_super (fuel : nat) (st : mstate) (fidx : nat) (wrappers : list (list node)) {struct fuel} : res (value * mstate) :=
    match fuel with
    | O => Fuel
    | S f =>
        match rev wrappers with
        | [] => Ok (as_safe_value (VStr []), st)
        | last :: before_rev =>
            match frame_at st fidx with
            | None => Panic 95
            | Some bfr =>
                let sfr := with_priv (child_of bfr) (ctx_set [98; 108; 111; 99; 107] (* block *) (CBlock fidx (rev before_rev)) (f_priv bfr)) in
                match exec_nodes f (push_frame st sfr) last with
                | (out, Ok st1) => Ok (as_safe_value (VStr out), pop_frame st1)
                | (_, Err k) => Err 3
                | (_, Unmod) => Unmod
                | (_, Fuel) => Fuel
                | (_, Panic s) => Panic s
                end
            end
        end
    end
  with exec_nodes (fuel : nat) (st : mstate) (ns : list node) {struct fuel} : xres :=
    match fuel with
    | O => ([], Fuel)
    | S f =>
        match ns with
        | [] => xok [] st
        | n :: rest =>
            match exec_node f st n with
            | (o1, Ok st1) => let '(o2, r) := exec_nodes f st1 rest in (o1 ++ o2, r)
            | (o1, other) => (o1, other)
            end
        end
    end
  with exec_node (fuel : nat) (st : mstate) (n : node) {struct fuel} : xres :=
    match fuel with
    | O => ([], Fuel)
    | S f =>
        let ev (e : expr) (k : value -> mstate -> xres) : xres :=
          match eval f st e with
          | Ok (v, st1) => k v st1
          | other => xfail [] other
          end in
        match n with
        | NHtml owner val trimL trimR after before =>
            match top_frame st with
            | Ok fr =>
                (* the block options of the executed template rewrite its own tokens and those of
                   every template it extends (fix D42; before, only its own) *)
                let entry := last (f_chain fr) (Tpl 0 [] true [] [] [] None false false) in
                let mine := existsb (fun t => tpl_id t =? owner) (f_chain fr) in
                let v1 := if mine && tpl_lstrip entry && before
                          then rev (let fix dropws (l : str) := match l with
                                                                | b :: l' => if (b =? 9) || (b =? 32) then dropws l' else l
                                                                | [] => []
                                                                end in dropws (rev val))
                          else val in
                let v2 := if mine && tpl_trim entry && after
                          then match v1 with 10 :: r => r | _ => v1 end else v1 in
                let ws (b : N) := mem_byte b token_space_chars in
                let fix dropl (l : str) := match l with b :: l' => if ws b then dropl l' else l | [] => [] end in
                let v3 := if trimL then dropl v2 else v2 in
                let v4 := if trimR then rev (dropl (rev v3)) else v3 in
                xok v4 st
            | other => xfail [] other
            end
        | NVar e =>
            ev e (fun v st1 =>
              match top_frame st1 with
              | Ok fr =>
                  match to_string (vv v) with
                  | None => ([], Unmod)
                  | Some s =>
                      if negb (filter_applied [115; 97; 102; 101] (* safe *) e) && negb (vsafe v) && is_string (vv v) && f_auto fr
                      then xok (filter_escape s) st1 else xok s st1
                  end
              | other => xfail [] other
              end)
        | NIf conds wrappers => exec_if f st conds wrappers 0
        | NFor key value obj reversed sorted body empty =>
            match top_frame st with
            | Ok fr =>
                let parent := match ctx_get [102; 111; 114; 108; 111; 111; 112] (* forloop *) (f_priv fr) with
                              | Some (CV v) => if is_loop_struct (vv v) then vv v else VNil
                              | _ => VNil
                              end in
                let ffr := with_priv (child_of fr) (ctx_set [102; 111; 114; 108; 111; 111; 112] (* forloop *) (CV (as_value (loop_struct_empty parent))) (f_priv fr)) in
                let st0 := push_frame st ffr in
                match eval f st0 obj with
                | Ok (ov, st1) =>
                    match iter_items (vv ov) reversed sorted with
                    | Ok (Some ((_ :: _) as items)) =>
                        let '(o, r) := exec_for f st1 key value parent body items 0 (Z.of_nat (length items)) in
                        (o, match r with Ok st2 => Ok (pop_frame st2) | other => other end)
                    | Ok _ =>
                        match empty with
                        | Some eb => let '(o, r) := exec_nodes f st1 eb in
                                     (o, match r with Ok st2 => Ok (pop_frame st2) | other => other end)
                        | None => xok [] (pop_frame st1)
                        end
                    | other => xfail [] other
                    end
                | other => xfail [] other
                end
            | other => xfail [] other
            end
        | NWith pairs body =>
            match top_frame st with
            | Ok fr =>
                match eval_pairs f st pairs with
                | Ok (vals, st1) =>
                    match top_frame st1 with
                    | Ok fr1 =>
                        let wfr := with_priv (child_of fr1) (ctx_update (f_priv fr1) vals) in
                        let '(o, r) := exec_nodes f (push_frame st1 wfr) body in
                        (o, match r with Ok st2 => Ok (pop_frame st2) | other => other end)
                    | other => xfail [] other
                    end
                | other => xfail [] other
                end
            | other => xfail [] other
            end
        | NSet name e =>
            ev e (fun v st1 => match set_priv st1 name (CV v) with Ok st2 => xok [] st2 | other => xfail [] other end)
        | NMacro m =>
            match m with
            | Macro mname _ _ _ =>
                match set_priv st mname (CMacro m (cur_index st)) with Ok st1 => xok [] st1 | other => xfail [] other end
            end
        | NImport ms =>
            match top_frame st with
            | Ok fr =>
                let idx := cur_index st in
                xok [] (set_top st (with_priv fr (ctx_update (f_priv fr) (map (fun am => (fst am, CMacro (snd am) idx)) ms))))
            | other => xfail [] other
            end
        | NBlock bname =>
            match top_frame st with
            | Ok fr =>
                let ws := flat_map (fun t => match assoc_get bname (tpl_blocks t) with Some w => [w] | None => [] end) (f_chain fr) in
                match rev ws with
                | [] => ([], Err 3)
                | last :: before_rev =>
                    let outer := ctx_get [98; 108; 111; 99; 107] (* block *) (f_priv fr) in
                    match set_priv st [98; 108; 111; 99; 107] (* block *) (CBlock (cur_index st) (rev before_rev)) with
                    | Ok st1 =>
                        match exec_nodes f st1 last with
                        | (o, Ok st2) =>
                            (* the enclosing block's "block" is back afterwards *)
                            match top_frame st2 with
                            | Ok fr2 =>
                                let p := match outer with
                                         | Some v => ctx_set [98; 108; 111; 99; 107] (* block *) v (f_priv fr2)
                                         | None => ctx_del [98; 108; 111; 99; 107] (* block *) (f_priv fr2)
                                         end in
                                xok o (set_top st2 (with_priv fr2 p))
                            | other => xfail o other
                            end
                        | other => other
                        end
                    | other => xfail [] other
                    end
                end
            | other => xfail [] other
            end
        | NExtends => xok [] st
        | NIncludeEmpty => xok [] st
        | NInclude tplo fname pairs only ifexists =>
            match top_frame st with
            | Ok fr =>
                let base := if only then [] else ctx_update (f_pub fr) (f_priv fr) in
                match eval_pairs f st pairs with
                | Ok (vals, st1) =>
                    let ictx := ctx_update base vals in
                    match tplo with
                    | Some t => exec_template f st1 t ictx
                    | None =>
                        match fname with
                        | None => ([], Panic 96)
                        | Some fe =>
                            match eval f st1 fe with
                            | Ok (fv, st2) =>
                                match to_string (vv fv) with
                                | None => ([], Unmod)
                                | Some [] => ([], Err 3)
                                | Some fn =>
                                    let root := hd (Tpl 0 [] true [] [] [] None false false) (f_chain fr) in
                                    let iname := resolve_filename (tpl_is_string root) (tpl_name root) fn in
                                    match compile_file se f iname (ms_g st2) with
                                    | Ok (t, g') => exec_template f (mkM (ms_frames st2) (ms_nodes st2) g') t ictx
                                    | Err 4 =>
                                        if ifexists && negb (served (se_loaders se) iname)
                                        then xok [] (mkM (ms_frames st2) (ms_nodes st2) (log_misses (se_loaders se) iname (ms_g st2)))
                                        else ([], Err 4)
                                    | other => xfail [] other
                                    end
                                end
                            | other => xfail [] other
                            end
                        end
                    end
                | other => xfail [] other
                end
            | other => xfail [] other
            end
        | NAutoescape on body =>
            match top_frame st with
            | Ok fr =>
                let old := f_auto fr in
                match exec_nodes f (set_top st (with_auto fr on)) body with
                | (o, Ok st1) =>
                    match top_frame st1 with
                    | Ok fr1 => xok o (set_top st1 (with_auto fr1 old))
                    | other => xfail o other
                    end
                | other => other
                end
            | other => xfail [] other
            end
        | NFilterTag chain body =>
            match exec_nodes f st body with
            | (o, Ok st1) =>
                match apply_tag_chain f st1 (as_value (VStr o)) chain with
                | Ok (v, st2) => match to_string (vv v) with Some s => xok s st2 | None => ([], Unmod) end
                | Err _ => ([], Err 3)
                | other => xfail [] other
                end
            | (_, other) => ([], other)
            end
        | NFirstof args => exec_firstof f st args
        | NCycle id args asname silent =>
            match top_frame st with
            | Ok fr =>
                let idx := match ns_get (f_exec fr) id (ms_nodes st) with Some (NSCycle i) => i | _ => 0%Z end in
                let item := nth (Z.to_nat (Z.rem idx (Z.of_nat (length args)))) args (EBool false) in
                let st0 := ns_set st (f_exec fr) id (NSCycle (idx + 1)) in
                (* {% cycle name %} where name holds a cycle value advances that cycle *)
                let cyc := match item with
                           | EFilt (EVar [PIdent nm None]) [] =>
                               match ctx_get nm (f_priv fr) with
                               | Some (CCycle cid cargs csilent _) => Some (nm, cid, cargs, csilent)
                               | _ => None
                               end
                           | _ => None
                           end in
                match cyc with
                | Some (nm, cid, cargs, csilent) =>
                    let cidx := match ns_get (f_exec fr) cid (ms_nodes st0) with Some (NSCycle i) => i | _ => 0%Z end in
                    let citem := nth (Z.to_nat (Z.rem cidx (Z.of_nat (length cargs)))) cargs (EBool false) in
                    let st1 := ns_set st0 (f_exec fr) cid (NSCycle (cidx + 1)) in
                    match eval f st1 citem with
                    | Ok (v, st2) =>
                        match set_priv st2 nm (CCycle cid cargs csilent v) with
                        | Ok st3 => if csilent then xok [] st3 else cycle_out fr citem v st3
                        | other => xfail [] other
                        end
                    | other => xfail [] other
                    end
                | None =>
                    match eval f st0 item with
                    | Ok (v, st1) =>
                        match (match asname with
                               | [] => Ok st1
                               | _ => set_priv st1 asname (CCycle id args silent v)
                               end) with
                        | Ok st2 => if silent then xok [] st2 else cycle_out fr item v st2
                        | other => xfail [] other
                        end
                    | other => xfail [] other
                    end
                end
            | other => xfail [] other
            end
        | NIfchanged id watched thenb elseb =>
            match top_frame st with
            | Ok fr =>
                let prev := ns_get (f_exec fr) id (ms_nodes st) in
                match watched with
                | [] =>
                    match exec_nodes f st thenb with
                    | (o, Ok st1) =>
                        let lastc := match prev with Some (NSIfchanged _ (Some c)) => Some c | _ => None end in
                        let same := match lastc with Some c => str_eqb c o | None => Nat.eqb (length o) 0 end in
                        if same then xok [] st1
                        else xok o (ns_set st1 (f_exec fr) id (NSIfchanged [] (Some o)))
                    | (_, other) => ([], other)
                    end
                | _ =>
                    match eval_list f st watched with
                    | Ok (now, st1) =>
                        let lastv := match prev with Some (NSIfchanged l _) => l | _ => [] end in
                        match (match lastv with
                               | [] => Some true
                               | _ => fold_right (fun pr acc =>
                                                    match acc, equal_value_to (vv (fst pr)) (vv (snd pr)) with
                                                    | None, _ | _, None => None
                                                    | Some a, Some eq => Some (a || negb eq)
                                                    end) (Some false) (combine lastv now)
                               end) with
                        | None => ([], Unmod)
                        | Some changed =>
                            let st2 := ns_set st1 (f_exec fr) id (NSIfchanged now None) in
                            if changed then exec_nodes f st2 thenb
                            else match elseb with Some eb => exec_nodes f st2 eb | None => xok [] st2 end
                        end
                    | other => xfail [] other
                    end
                end
            | other => xfail [] other
            end
        | NIfequal negated a b thenb elseb =>
            ev a (fun x st1 =>
              match eval f st1 b with
              | Ok (y, st2) =>
                  match equal_value_to (vv x) (vv y) with
                  | None => ([], Unmod)
                  | Some eq =>
                      if Bool.eqb eq (negb negated) then exec_nodes f st2 thenb
                      else match elseb with Some eb => exec_nodes f st2 eb | None => xok [] st2 end
                  end
              | other => xfail [] other
              end)
        | NSpaceless body =>
            match exec_nodes f st body with
            | (o, Ok st1) => match spaceless_model o with Some s => xok s st1 | None => ([], Unmod) end
            | (_, other) => ([], other)
            end
        | NTemplatetag content => xok content st
        | NWidthratio cur mx width ctxname =>
            ev cur (fun c st1 =>
              match eval f st1 mx with
              | Ok (m, st2) =>
                  match eval f st2 width with
                  | Ok (w, st3) =>
                      match to_float (vv c), to_float (vv m), to_float (vv w) with
                      | Some fc, Some fm, Some fw =>
                          (* a maximum of zero gives 0 (fix D48; before, the int conversion of Inf / NaN) *)
                          let v := if f_is_zero fm then 0%Z else f_round_to_int (f_mul (f_div fc fm) fw) in
                          match ctxname with
                          | [] => xok (itoa v) st3
                          | _ => match set_priv st3 ctxname (CV (as_value (VInt v))) with
                                 | Ok st4 => xok [] st4
                                 | other => xfail [] other
                                 end
                          end
                      | _, _, _ => ([], Unmod)
                      end
                  | other => xfail [] other
                  end
              | other => xfail [] other
              end)
        | NComment => xok [] st
        | NSsi content tplo =>
            match tplo with
            | None => xok content st
            | Some t =>
                match top_frame st with
                | Ok fr => exec_template_unbuffered f st t (ctx_update (f_pub fr) (f_priv fr))
                | other => xfail [] other
                end
            end
        | NUnmod => ([], Unmod)
        end
    end
  with exec_if (fuel : nat) (st : mstate) (conds : list expr) (wrappers : list (list node)) (i : nat) {struct fuel} : xres :=
    match fuel with
    | O => ([], Fuel)
    | S f =>
        match nth_error conds i with
        | None => xok [] st
        | Some c =>
            match eval f st c with
            | Ok (v, st1) =>
                if is_true (vv v) then
                  match nth_error wrappers i with Some w => exec_nodes f st1 w | None => ([], Panic 97) end
                else if Nat.eqb (length conds) (S i) && Nat.ltb (S i) (length wrappers) then
                  match nth_error wrappers (S i) with Some w => exec_nodes f st1 w | None => ([], Panic 98) end
                else exec_if f st1 conds wrappers (S i)
            | other => xfail [] other
            end
        end
    end
  with exec_for (fuel : nat) (st : mstate) (key value : str) (parent : val) (body : list node)
                (items : list (val * option val)) (idx count : Z) {struct fuel} : xres :=
    match fuel with
    | O => ([], Fuel)
    | S f =>
        match items with
        | [] => xok [] st
        | (k, vo) :: rest =>
            match top_frame st with
            | Ok fr =>
                let p1 := ctx_set key (CV (as_value k)) (f_priv fr) in
                let p2 := match vo with Some v => ctx_set value (CV (as_value v)) p1 | None => p1 end in
                let p3 := ctx_set [102; 111; 114; 108; 111; 111; 112] (* forloop *) (CV (as_value (loop_struct idx count parent))) p2 in
                match exec_nodes f (set_top st (with_priv fr p3)) body with
                | (o1, Ok st1) => let '(o2, r) := exec_for f st1 key value parent body rest (idx + 1) count in (o1 ++ o2, r)
                | other => other
                end
            | other => xfail [] other
            end
        end
    end
  with exec_firstof (fuel : nat) (st : mstate) (args : list expr) {struct fuel} : xres :=
    match fuel with
    | O => ([], Fuel)
    | S f =>
        match args with
        | [] => xok [] st
        | a :: rest =>
            match eval f st a with
            | Ok (v, st1) =>
                if is_true (vv v) then
                  match top_frame st1 with
                  | Ok fr =>
                      match to_string (vv v) with
                      | None => ([], Unmod)
                      | Some s => if f_auto fr && negb (filter_applied [115; 97; 102; 101] (* safe *) a) then xok (filter_escape s) st1 else xok s st1
                      end
                  | other => xfail [] other
                  end
                else exec_firstof f st1 rest
            | other => xfail [] other
            end
        end
    end
  with eval_pairs (fuel : nat) (st : mstate) (pairs : list (str * expr)) {struct fuel} : res (list (str * cval) * mstate) :=
    match fuel with
    | O => Fuel
    | S f =>
        match pairs with
        | [] => Ok ([], st)
        | (k, e) :: rest =>
            do '(v, st1) <- eval f st e;
            do '(r, st2) <- eval_pairs f st1 rest;
            Ok ((k, CV v) :: r, st2)
        end
    end
  (* the filter tag's chain: ApplyFilter by name at run time *)
  with apply_tag_chain (fuel : nat) (st : mstate) (v : value) (chain : list (str * option expr)) {struct fuel} : res (value * mstate) :=
    match fuel with
    | O => Fuel
    | S f =>
        match chain with
        | [] => Ok (v, st)
        | (name, param) :: rest =>
            do '(p, st1) <- (match param with Some pe => eval f st pe | None => Ok (as_value VNil, st) end);
            do r <- apply_filter_se name v p;
            apply_tag_chain f st1 r rest
        end
    end
  (* Template.ExecuteWriter from a tag: a fresh execution, buffered *)
  with exec_template (fuel : nat) (st : mstate) (t : template) (ctx : list (str * cval)) {struct fuel} : xres :=
    match fuel with
    | O => ([], Fuel)
    | S f =>
        match exec_template_unbuffered f st t ctx with
        | (o, Ok st1) => xok o st1
        | (_, other) => ([], other)
        end
    end
  (* Template.execute *)
  with exec_template_unbuffered (fuel : nat) (st : mstate) (t : template) (ctx : list (str * cval)) {struct fuel} : xres :=
    match fuel with
    | O => ([], Fuel)
    | S f =>
        let merged := ctx_update globals ctx in
        (* (a non-nil context is assumed, as every caller in pongo2 and the harness passes one) *)
        if negb (forallb (fun kv => is_ident_key (fst kv)) merged) then ([], Err 3)
        else if existsb (fun kv => match assoc_get (fst kv) (tpl_exported t) with Some _ => true | None => false end)
                        merged then ([], Err 3)
        else
          let '(execid, g') := g_fresh (ms_g st) in
          let fr := root_frame t ctx execid in
          let root := hd t (tpl_chain t) in
          match exec_nodes f (mkM (fr :: ms_frames st) (ms_nodes st) g') (tpl_root root) with
          | (o, Ok st1) => xok o (pop_frame st1)
          | other => other
          end
    end.
End Exec.
