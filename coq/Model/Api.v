(* Entry points of the executable model, as the correspondence driver calls them. *)
From PV Require Export Model.Exec.
From PV Require Import gen.Tables.
Open Scope N_scope.

Inductive obs :=
| OOk (out : str)
| OCompileErr (kind : N)
| OExecErr (kind : N) (written : str)     (* what had been written when the error occurred *)
| OUnmod
| OFuel
| OPanic (site : N).

Definition big_fuel : nat := N.to_nat 60000.

Record world := mkWorld {
  w_loaders : list loader;
  w_trim : bool;
  w_lstrip : bool;
  w_banned_filters : list str;
  w_banned_tags : list str;
  w_extra_filters : list str;       (* registered by the harness, not modelled *)
  w_extra_tags : list str;
  w_globals : list (str * cval)
}.

Definition world_senv (w : world) : senv :=
  mkSenv (w_loaders w)
         (mkCfg (registered_filters ++ w_extra_filters w) (registered_tags ++ w_extra_tags w)
                (w_banned_filters w) (w_banned_tags w))
         (w_trim w) (w_lstrip w).

Definition g0 : gstate := mkG 1 [].

Definition obs_of_compile {A} (r : res A) : obs :=
  match r with
  | Ok _ => OPanic 99
  | Err k => OCompileErr k
  | Unmod => OUnmod
  | Fuel => OFuel
  | Panic s => OPanic s
  end.

Definition run_template (w : world) (t : template) (g : gstate) (ctx : list (str * cval)) : obs :=
  match exec_template_unbuffered (world_senv w) (w_globals w) big_fuel (mkM [] [] g) t ctx with
  | (o, Ok _) => OOk o
  | (o, Err k) => OExecErr k o
  | (_, Unmod) => OUnmod
  | (_, Fuel) => OFuel
  | (_, Panic s) => OPanic s
  end.

(* set.FromString(src) then Execute(ctx) *)
Definition api_render_string (w : world) (src : str) (ctx : list (str * cval)) : obs :=
  match compile_src (world_senv w) big_fuel [60; 115; 116; 114; 105; 110; 103; 62] true src g0 with
  | Ok (t, g) => run_template w t g ctx
  | other => obs_of_compile other
  end.

(* set.FromFile(name) then Execute(ctx) *)
Definition api_render_file (w : world) (name : str) (ctx : list (str * cval)) : obs :=
  match compile_file (world_senv w) big_fuel name g0 with
  | Ok (t, g) => run_template w t g ctx
  | other => obs_of_compile other
  end.

(* the loaders' Get log of compiling and rendering a file *)
Definition api_compile_only (w : world) (src : str) : obs :=
  match compile_src (world_senv w) big_fuel [60; 115; 116; 114; 105; 110; 103; 62] true src g0 with
  | Ok _ => OOk []
  | other => obs_of_compile other
  end.

(* FromFile + Execute, together with the loaders' access log (oldest first) of a successful run *)
Definition api_render_file_log (w : world) (name : str) (ctx : list (str * cval)) : obs * option (list logent) :=
  match compile_file (world_senv w) big_fuel name g0 with
  | Ok (t, g) =>
      match exec_template_unbuffered (world_senv w) (w_globals w) big_fuel (mkM [] [] g) t ctx with
      | (o, Ok st) => (OOk o, Some (rev (g_log (ms_g st))))
      | (o, Err k) => (OExecErr k o, None)
      | (_, Unmod) => (OUnmod, None)
      | (_, Fuel) => (OFuel, None)
      | (_, Panic s) => (OPanic s, None)
      end
  | other => (obs_of_compile other, None)
  end.
