(* The built-in filters of filters_builtin.go over the value universe of Model/Value.v,
   mirroring the Go control flow.  [Unmod] marks filters or inputs whose behaviour rests
   on library code that is not modelled (time, fmt verbs, Unicode case tables, regexp-based
   urlize, randomness). *)
From PV Require Export Model.Value Model.EscFilters.
From PV Require Import gen.Tables.
Open Scope N_scope.

Definition fres := res value.
Definition okv (v : val) : fres := Ok (as_value v).
Definition ferr : fres := Err 5.
Definition str_of (x : value) : res str := of_opt (to_string (vv x)).
Definition int_of (x : value) : res Z := of_opt (to_integer (vv x)).
Definition float_of (x : value) : res float := of_opt (to_float (vv x)).

Definition spaces (n : Z) : str := repeat_str (Z.to_nat n) [32].

(* strings.Fields: split around runs of white space (unicode.IsSpace) *)
(* a white-space rune of width w: its continuation bytes must not enter a field *)
Fixpoint fields_ws (skip : nat) (inws : bool) (cur : str) (s : str) : list str :=
  let flush (c : str) (rest : list str) := match c with [] => rest | _ => rev c :: rest end in
  match s with
  | [] => flush cur []
  | b :: s' =>
      match skip with
      | S k => if inws then fields_ws k true cur s' else fields_ws k false (b :: cur) s'
      | O =>
          let '(r, w) := decode_rune s in
          if is_space_rune r then flush cur (fields_ws (w - 1) true [] s')
          else fields_ws (w - 1) false (b :: cur) s'
      end
  end.
Definition fields (s : str) : list str := fields_ws 0 false [] s.

Definition all_ascii (s : str) : bool := forallb (fun b => b <? 128) s.
Definition upper_b (b : N) : N := if is_lower b then b - 32 else b.
Definition lower_b (b : N) : N := if is_upper b then b + 32 else b.
(* strings.ToUpper / ToLower on ASCII strings; None otherwise (Unicode case tables) *)
Definition to_upper (s : str) : option str := if all_ascii s then Some (map upper_b s) else None.
Definition to_lower (s : str) : option str := if all_ascii s then Some (map lower_b s) else None.

(* strings.Title on ASCII strings: a letter is upper-cased when the previous byte is a
   separator (not a letter, digit or underscore) *)
Definition is_word_b (b : N) : bool := is_alpha b || is_digit b || (b =? 95).
Fixpoint title_go (prev_sep : bool) (s : str) : str :=
  match s with
  | [] => []
  | b :: s' => (if prev_sep then upper_b b else b) :: title_go (negb (is_word_b b)) s'
  end.

(* strings.Split(s, sep), including the empty separator *)
(* strings.Split(s, ""): one piece per rune, an invalid byte stays as it is *)
Fixpoint rune_chunks (skip : nat) (cur : str) (s : str) : list str :=
  match s with
  | [] => match cur with [] => [] | _ => [rev cur] end
  | b :: s' =>
      match skip with
      | S k => rune_chunks k (b :: cur) s'
      | O => let '(_, w) := decode_rune s in
             match cur with
             | [] => rune_chunks (w - 1) [b] s'
             | _ => rev cur :: rune_chunks (w - 1) [b] s'
             end
      end
  end.
Definition split_any (s sep : str) : list str :=
  match sep with
  | [] => rune_chunks 0 [] s
  | _ => split_go sep 0 [] s
  end.

(* strings.Replace(s, old, "", -1) *)
Definition cut_str (s old : str) : str :=
  match old with [] => s | _ => replace_go old [] 0 s end.

(* filterTruncatecharsHelper *)
Definition ellipsis : str := [46; 46; 46].
Definition truncatechars_helper (s : str) (newlen : Z) : str :=
  if (newlen <=? 0)%Z then s
  else
    let rs := runes s in
    if (newlen <? Z.of_nat (length rs))%Z then
      if (3 <=? newlen)%Z then of_runes (firstn (Z.to_nat (newlen - 3)) rs) ++ ellipsis
      else of_runes (firstn (Z.to_nat newlen) rs)
    else of_runes rs.

(* filterLinebreaks *)
Definition s_p_open : str := [60; 112; 62].
Definition s_p_close : str := [60; 47; 112; 62].
Definition s_br : str := [60; 98; 114; 32; 47; 62].
Definition blank (s : str) : bool := match trim_space s with [] => true | _ => false end.
Fixpoint linebreaks_go (opened : bool) (lines : list str) : str :=
  match lines with
  | [] => if opened then s_p_close else []
  | line :: rest =>
      let pre := if opened then [] else s_p_open in
      match rest with
      | nxt :: _ =>
          if negb (blank line) then
            if blank nxt then pre ++ line ++ s_p_close ++ linebreaks_go false rest
            else pre ++ line ++ s_br ++ linebreaks_go true rest
          else pre ++ line ++ linebreaks_go true rest
      | [] => pre ++ line ++ linebreaks_go true rest
      end
  end.

Fixpoint linenumbers_go (idx : Z) (lines : list str) : list str :=
  match lines with
  | [] => []
  | l :: rest => (itoa idx ++ [46; 32] ++ l) :: linenumbers_go (idx + 1) rest
  end.

Definition phone_digit (b : N) : N :=
  let l := lower_b b in
  if negb (is_lower l) then b
  else if l <=? 99 then 50 else if l <=? 102 then 51 else if l <=? 105 then 52
  else if l <=? 108 then 53 else if l <=? 111 then 54 else if l <=? 115 then 55
  else if l <=? 118 then 56 else 57.

(* wordwrap: lines of wrapAt words *)
Fixpoint chunks {A} (fuel : nat) (n : nat) (l : list A) : list (list A) :=
  match fuel with
  | O => []
  | S f => match l with [] => [] | _ => firstn n l :: chunks f n (skipn n l) end
  end.

Definition list_strings (v : val) : res (list str) :=
  match v with
  | VStr s => Ok (map encode_rune (runes s))
  | VList l => fold_right (fun x acc => do r <- acc; do sx <- of_opt (to_string x); Ok (sx :: r)) (Ok []) l
  | _ => Unmod
  end.

Definition apply_filter (name : str) (x p : value) : fres :=
  match assoc_get name filter_impl with
  | None => Err 5                     (* filter with that name not found *)
  | Some impl =>
    let is n := str_eqb impl n in
    (* the names below are the Go function names of filter_impl *)
    if is [102;105;108;116;101;114;69;115;99;97;112;101] (* filterEscape *) then
      do s <- str_of x; okv (VStr (filter_escape s))
    else if is [102;105;108;116;101;114;83;97;102;101] (* filterSafe *) then Ok x
    else if is [102;105;108;116;101;114;69;115;99;97;112;101;106;115] (* filterEscapejs *) then
      do s <- str_of x; okv (VStr (filter_escapejs s))
    else if is [102;105;108;116;101;114;65;100;100] (* filterAdd *) then
      if is_number (vv x) && is_number (vv p) then
        if is_float (vv x) || is_float (vv p) then
          do a <- float_of x; do b <- float_of p; okv (VFloat (f_add a b))
        else do a <- int_of x; do b <- int_of p; okv (VInt (wrap64 (a + b)))
      else do a <- str_of x; do b <- str_of p; okv (VStr (a ++ b))
    else if is [102;105;108;116;101;114;65;100;100;115;108;97;115;104;101;115] (* filterAddslashes *) then
      do s <- str_of x; okv (VStr (filter_addslashes s))
    else if is [102;105;108;116;101;114;67;97;112;102;105;114;115;116] (* filterCapfirst *) then
      if (val_len (vv x) <=? 0)%Z then okv (VStr [])
      else
        do t <- str_of x;
        match t with
        | b :: rest => if b <? 128 then okv (VStr (upper_b b :: rest)) else Unmod
        | [] => okv (VStr [])
        end
    else if is [102;105;108;116;101;114;67;101;110;116;101;114] (* filterCenter *) then
      do width <- int_of p;
      let slen := val_len (vv x) in
      if (width <=? slen)%Z then Ok x
      else
        let sp := wrap64 (width - slen) in
        if (max_char_padding <? sp)%Z then ferr
        else
          do s <- str_of x;
          let left := (Z.quot sp 2 + Z.rem sp 2)%Z in
          let right := Z.quot sp 2 in
          okv (VStr (spaces left ++ s ++ spaces right))
    else if is [102;105;108;116;101;114;67;117;116] (* filterCut *) then
      do s <- str_of x; do o <- str_of p; okv (VStr (cut_str s o))
    else if is [102;105;108;116;101;114;68;101;102;97;117;108;116] (* filterDefault *) then
      if is_true (vv x) then Ok x else Ok p
    else if is [102;105;108;116;101;114;68;101;102;97;117;108;116;73;102;78;111;110;101] (* filterDefaultIfNone *) then
      if is_nil (vv x) then Ok p else Ok x
    else if is [102;105;108;116;101;114;68;105;118;105;115;105;98;108;101;98;121] (* filterDivisibleby *) then
      do d <- int_of p;
      if (d =? 0)%Z then okv (VBool false)
      else do a <- int_of x; okv (VBool (Z.rem a d =? 0)%Z)
    else if is [102;105;108;116;101;114;70;105;114;115;116] (* filterFirst *) then
      if can_slice (vv x) && (0 <? val_len (vv x))%Z
      then do r <- val_index (vv x) 0; okv r else okv (VStr [])
    else if is [102;105;108;116;101;114;76;97;115;116] (* filterLast *) then
      if can_slice (vv x) && (0 <? val_len (vv x))%Z
      then do r <- val_index (vv x) (val_len (vv x) - 1); okv r else okv (VStr [])
    else if is [102;105;108;116;101;114;70;108;111;97;116;102;111;114;109;97;116] (* filterFloatformat *) then
      do v <- float_of x;
      do d0 <- (if is_nil (vv p) then Ok (-1)%Z else int_of p);
      let trim0 := negb (is_number (vv p)) in
      let '(decimals, trim) := if (d0 <=? 0)%Z then (wrap64 (- d0), true) else (d0, trim0) in
      if trim && f_is_integral v then do i <- int_of x; okv (VInt i)
      else if (max_floatformat_decimals <? decimals)%Z then ferr
      else if (decimals <? 0)%Z then Unmod      (* -MinInt64: FormatFloat with negative precision *)
      else okv (VStr (format_fixed (Z.to_nat decimals) v))
    else if is [102;105;108;116;101;114;71;101;116;100;105;103;105;116] (* filterGetdigit *) then
      do i <- int_of p;
      do s <- str_of x;
      let l := Z.of_nat (length s) in
      if (i <=? 0)%Z || (l <? i)%Z then Ok x
      else
        let c := nth (Z.to_nat (l - i)) s 0%N in
        if (c <? 48)%N || (57 <? c)%N then Ok x      (* no digit there: the input (fix D39) *)
        else okv (VInt (Z.of_N (c - 48)%N))
    else if is [102;105;108;116;101;114;73;114;105;101;110;99;111;100;101] (* filterIriencode *) then
      do s <- str_of x; okv (VStr (filter_iriencode s))
    else if is [102;105;108;116;101;114;74;111;105;110] (* filterJoin *) then
      if negb (can_slice (vv x)) then Ok x
      else
        do sep <- str_of p;
        match sep with
        | [] =>
            (* the empty separator: a string is itself; any other sequence is joined like with
               every separator (fix D46; before, the list's Go placeholder text) *)
            match vv x with
            | VStr s => okv (VStr s)
            | _ => do parts <- list_strings (vv x); okv (VStr (join_go [] parts))
            end
        | _ => do parts <- list_strings (vv x); okv (VStr (join_go sep parts))
        end
    else if is [102;105;108;116;101;114;76;101;110;103;116;104] (* filterLength *) then
      okv (VInt (val_len (vv x)))
    else if is [102;105;108;116;101;114;76;101;110;103;116;104;105;115] (* filterLengthis *) then
      do n <- int_of p; okv (VBool (val_len (vv x) =? n)%Z)
    else if is [102;105;108;116;101;114;76;105;110;101;98;114;101;97;107;115] (* filterLinebreaks *) then
      if (val_len (vv x) =? 0)%Z then Ok x
      else do s <- str_of x; okv (VStr (linebreaks_go false (split_go [10] 0 [] s)))
    else if is [102;105;108;116;101;114;76;105;110;101;98;114;101;97;107;115;98;114] (* filterLinebreaksbr *) then
      do s <- str_of x; okv (VStr (replace_chain linebreaksbr_pairs s))
    else if is [102;105;108;116;101;114;76;105;110;101;110;117;109;98;101;114;115] (* filterLinenumbers *) then
      do s <- str_of x; okv (VStr (join_go [10] (linenumbers_go 1 (split_go [10] 0 [] s))))
    else if is [102;105;108;116;101;114;76;106;117;115;116] (* filterLjust *) then
      do w <- int_of p;
      let t0 := wrap64 (w - val_len (vv x)) in
      let times := if (t0 <? 0)%Z then 0%Z else t0 in
      if (max_char_padding <? times)%Z then ferr
      else do s <- str_of x; okv (VStr (s ++ spaces times))
    else if is [102;105;108;116;101;114;82;106;117;115;116] (* filterRjust *) then
      do w0 <- int_of p;
      let w := if (w0 <? 0)%Z then 0%Z else w0 in
      if (max_char_padding <? w)%Z then ferr
      else do s <- str_of x; okv (VStr (spaces (w - Z.of_nat (length (runes s))) ++ s))
    else if is [102;105;108;116;101;114;76;111;119;101;114] (* filterLower *) then
      do s <- str_of x; do r <- of_opt (to_lower s); okv (VStr r)
    else if is [102;105;108;116;101;114;85;112;112;101;114] (* filterUpper *) then
      do s <- str_of x; do r <- of_opt (to_upper s); okv (VStr r)
    else if is [102;105;108;116;101;114;77;97;107;101;108;105;115;116] (* filterMakelist *) then
      do s <- str_of x; okv (VList (map (fun r => VStr (encode_rune r)) (runes s)))
    else if is [102;105;108;116;101;114;80;104;111;110;101;50;110;117;109;101;114;105;99] (* filterPhone2numeric *) then
      do s <- str_of x; okv (VStr (map phone_digit s))
    else if is [102;105;108;116;101;114;80;108;117;114;97;108;105;122;101] (* filterPluralize *) then
      if is_number (vv x) then
        do n <- int_of x;
        if (0 <? val_len (vv p))%Z then
          do ps <- str_of p;
          let endings := split_go [44] 0 [] ps in
          match endings with
          | [e1] => if (n =? 1)%Z then okv (VStr []) else okv (VStr e1)
          | [e1; e2] => if (n =? 1)%Z then okv (VStr e1) else okv (VStr e2)
          | _ => ferr
          end
        else if (n =? 1)%Z then okv (VStr []) else okv (VStr [115])
      else ferr
    else if is [102;105;108;116;101;114;82;101;109;111;118;101;116;97;103;115] (* filterRemovetags *) then
      do s <- str_of x; do ps <- str_of p;
      match filter_removetags s ps with Some r => okv (VStr r) | None => ferr end
    else if is [102;105;108;116;101;114;83;108;105;99;101] (* filterSlice *) then
      do ps <- str_of p;
      match split_go [58] 0 [] ps with
      | [c0; c1] =>
          if negb (can_slice (vv x)) then Ok x
          else
            do from0 <- of_opt (to_integer (VStr c0));
            do vto0 <- of_opt (to_integer (VStr c1));
            let n := val_len (vv x) in
            let from1 := if (from0 <? 0)%Z then Z.max (wrap64 (n + from0)) 0 else from0 in
            let from := if (n <? from1)%Z then n else from1 in
            let vto1 := if blank c1 then n else vto0 in
            let vto2 := if (vto1 <? 0)%Z then Z.max (wrap64 (n + vto1)) 0 else vto1 in
            let vto := if (vto2 <? from)%Z then from else vto2 in
            let to := if ((from <=? vto) && (vto <=? n))%Z then vto else n in
            do r <- val_slice (vv x) from to; okv r
      | _ => ferr
      end
    else if is [102;105;108;116;101;114;83;112;108;105;116] (* filterSplit *) then
      do s <- str_of x; do sep <- str_of p; okv (VList (map VStr (split_any s sep)))
    else if is [102;105;108;116;101;114;83;116;114;105;112;116;97;103;115] (* filterStriptags *) then
      do s <- str_of x; okv (VStr (filter_striptags s))
    else if is [102;105;108;116;101;114;84;105;116;108;101] (* filterTitle *) then
      if negb (is_string (vv x)) then okv (VStr [])
      else do s <- str_of x; do l <- of_opt (to_lower s); okv (VStr (title_go true l))
    else if is [102;105;108;116;101;114;84;114;117;110;99;97;116;101;99;104;97;114;115] (* filterTruncatechars *) then
      do s <- str_of x; do n <- int_of p; okv (VStr (truncatechars_helper s n))
    else if is [102;105;108;116;101;114;84;114;117;110;99;97;116;101;119;111;114;100;115] (* filterTruncatewords *) then
      do s <- str_of x; do n <- int_of p;
      let words := fields s in
      if (n <=? 0)%Z then okv (VStr [])
      else
        let nlen := Z.min (Z.of_nat (length words)) n in
        let out := firstn (Z.to_nat nlen) words in
        let out' := if (n <? Z.of_nat (length words))%Z then out ++ [ellipsis] else out in
        okv (VStr (join_go [32] out'))
    else if is [102;105;108;116;101;114;85;114;108;101;110;99;111;100;101] (* filterUrlencode *) then
      do s <- str_of x; okv (VStr (filter_urlencode s))
    else if is [102;105;108;116;101;114;87;111;114;100;99;111;117;110;116] (* filterWordcount *) then
      do s <- str_of x; okv (VInt (Z.of_nat (length (fields s))))
    else if is [102;105;108;116;101;114;87;111;114;100;119;114;97;112] (* filterWordwrap *) then
      do s <- str_of x; do w <- int_of p;
      if (w <=? 0)%Z then Ok x
      else
        let words := fields s in
        let n := Z.to_nat (Z.min w (Z.of_nat (length words) + 1)) in
        okv (VStr (join_go [10] (map (join_go [32]) (chunks (length words) n words))))
    else if is [102;105;108;116;101;114;89;101;115;110;111] (* filterYesno *) then
      do ps <- str_of p;
      let custom := split_go [44] 0 [] ps in
      let n := length custom in
      let dflt := ([121; 101; 115], [110; 111], [109; 97; 121; 98; 101]) in
      do '(cy, cn, cm) <-
        (match ps with
         | [] => Ok dflt
         | _ => if Nat.ltb 3 n then Err 5 else if Nat.ltb n 2 then Err 5
                else Ok (nth 0 custom [], nth 1 custom [],
                         if Nat.eqb n 3 then nth 2 custom [] else [109; 97; 121; 98; 101])
         end);
      if is_nil (vv x) then okv (VStr cm)
      else if is_true (vv x) then okv (VStr cy) else okv (VStr cn)
    else if is [102;105;108;116;101;114;70;108;111;97;116] (* filterFloat *) then
      do f <- float_of x; okv (VFloat f)
    else if is [102;105;108;116;101;114;73;110;116;101;103;101;114] (* filterInteger *) then
      do i <- int_of x; okv (VInt i)
    else Unmod   (* date/time, random, stringformat, urlize*, truncate*_html, ... *)
  end.
