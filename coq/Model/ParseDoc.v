(* The document parser (parser.go, parser_document.go, tags.go, every tags_*.go parser) and
   template compilation through the set's loaders (template.go newTemplate,
   template_sets.go resolveFilename/resolveTemplate/FromFile).  Fuelled recursive descent
   over the annotated token list.  GENERATED from ParseDoc.v.in by tools/bl.py (byte
   literals); edit the .in file. *)
From PV Require Export Model.Doc Model.ParseExpr Lib.Path.
From PV Require Import gen.Tables.
Open Scope N_scope.

(* ---------- tokens annotated with what a text node needs to know about its neighbours ---------- *)
Record atok := mkA { a_tok : token; a_trimL : bool; a_trimR : bool; a_after : bool; a_before : bool }.

Definition tok_is_trim_sym (t : token) : bool :=
  match ttyp t with TSymbol => ttrim t | _ => false end.
Definition tok_is_html (t : token) : bool := match ttyp t with THTML => true | _ => false end.

Fixpoint annotate (prev : option token) (ts : list token) : list atok :=
  match ts with
  | [] => []
  | t :: rest =>
      let nxt := match rest with n :: _ => Some n | [] => None end in
      let trimL := match prev with Some p => tok_is_trim_sym p | None => false end in
      let trimR := match nxt with Some n => tok_is_trim_sym n | None => false end in
      let after := match prev with
                   | Some p => negb (tok_is_html p) && str_eqb (tval p) [37; 125] (* %} *)
                   | None => false
                   end in
      let before := match nxt with
                    | Some n => negb (tok_is_html n) && str_eqb (tval n) [123; 37] (* {% *)
                    | None => false
                    end in
      mkA t trimL trimR after before :: annotate (Some t) rest
  end.

(* ---------- loaders and the set ---------- *)
Record loader := mkLoader { l_files : list (str * str) }.   (* Abs = FSLoader's; Get = exact lookup *)

Inductive logent := LGet (loader_idx : nat) (name : str) (hit : bool).

Record senv := mkSenv {
  se_loaders : list loader;
  se_cfg : pcfg;
  se_trim : bool;          (* set.Options.TrimBlocks *)
  se_lstrip : bool         (* set.Options.LStripBlocks *)
}.

(* compile-wide state: fresh ids, the loaders' access log *)
Record gstate := mkG { g_nid : N; g_log : list logent }.   (* log: newest first *)
Definition g_fresh (g : gstate) : N * gstate := (g_nid g, mkG (g_nid g + 1) (g_log g)).
Definition g_logget (g : gstate) (i : nat) (n : str) (hit : bool) : gstate :=
  mkG (g_nid g) (LGet i n hit :: g_log g).

(* per-template state the tag parsers write: blocks, exported macros, parent *)
Record tstate := mkT {
  t_id : N;
  t_name : str;
  t_isstr : bool;
  t_blocks : list (str * list node);
  t_exported : list (str * macro);
  t_parent : option template
}.

(* resolveFilename(tpl, path): string templates keep the path; otherwise the first loader's Abs *)
Definition resolve_filename (isstr : bool) (tname path : str) : str :=
  if isstr then path else fsloader_abs tname path.

(* resolveTemplate(nil, path): loaders in order, first Get that succeeds *)
Fixpoint resolve_template (ls : list loader) (idx : nat) (path : str) (g : gstate) : option str * gstate :=
  match ls with
  | [] => (None, g)
  | l :: rest =>
      let name := fsloader_abs [] path in
      match assoc_get name (l_files l) with
      | Some content => (Some content, g_logget g idx name true)
      | None => resolve_template rest (S idx) path (g_logget g idx name false)
      end
  end.

(* the log of a fetch that finds the name in no loader (used where if_exists swallows it) *)
Definition log_misses (ls : list loader) (path : str) (g : gstate) : gstate :=
  snd (resolve_template (map (fun _ => mkLoader []) ls) 0 path g).

(* some loader of the set has the name (what `if_exists` asks: an error about ANOTHER name, raised
   while compiling a file that exists, is not "the optional file is missing" - fix D41) *)
Definition served (ls : list loader) (path : str) : bool :=
  existsb (fun l => match assoc_get (fsloader_abs [] path) (l_files l) with Some _ => true | None => false end) ls.

Definition toks_of (l : list atok) : list token := map a_tok l.
Fixpoint take_code (l : list atok) : list atok * list atok :=
  match l with
  | a :: rest => if tok_is_html (a_tok a) then ([], l)
                 else let '(c, r) := take_code rest in (a :: c, r)
  | [] => ([], [])
  end.
(* drop from [l] as many leading tokens as were consumed going from [before] to [after] *)
Definition resync (l : list atok) (before after : list token) : list atok :=
  skipn (length before - length after) l.

Definition a_is_sym (a : atok) (s : str) : bool := is_sym (a_tok a) s.
Definition a_is_ident (a : atok) : bool := is_typ (a_tok a) TIdentifier.

Definition match_ident_val (ts : list token) (v : str) : option (list token) :=
  match ts with
  | t :: r => if is_typ t TIdentifier && str_eqb (tval t) v then Some r else None
  | [] => None
  end.
Definition match_kw (ts : list token) (v : str) : option (list token) :=
  match ts with
  | t :: r => if is_kw t v then Some r else None
  | [] => None
  end.
Definition match_sym (ts : list token) (v : str) : option (list token) :=
  match ts with
  | t :: r => if is_sym t v then Some r else None
  | [] => None
  end.
Definition match_ident (ts : list token) : option (str * list token) :=
  match ts with
  | t :: r => if is_typ t TIdentifier then Some (tval t, r) else None
  | [] => None
  end.
Definition match_string (ts : list token) : option (str * list token) :=
  match ts with
  | t :: r => if is_typ t TString then Some (tval t, r) else None
  | [] => None
  end.

Definition pexpr (cfg : pcfg) (ts : list token) : pres := parse_expression cfg (parse_fuel ts) ts.
Definition pvarlit (cfg : pcfg) (ts : list token) : pres := parse_var_or_lit cfg (parse_fuel ts) ts.

(* a sequence of expressions until the arguments are used up (firstof, ifchanged, cycle) *)
Fixpoint pexprs (cfg : pcfg) (fuel : nat) (ts : list token) : res (list expr) :=
  match fuel with
  | O => Fuel
  | S f =>
      match ts with
      | [] => Ok []
      | _ => do '(e, r) <- pexpr cfg ts;
             if Nat.leb (length ts) (length r) then Fuel   (* no progress: cannot happen *)
             else do es <- pexprs cfg f r; Ok (e :: es)
      end
  end.

(* with-style pairs  key=expr ...  (new style) / expr as key ... (old style) *)
Fixpoint with_pairs_new (cfg : pcfg) (fuel : nat) (ts : list token) : res (list (str * expr)) :=
  match fuel with
  | O => Fuel
  | S f =>
      match ts with
      | [] => Ok []
      | _ =>
          match match_ident ts with
          | None => perr
          | Some (k, r) =>
              match match_sym r [61] (* = *) with
              | None => perr
              | Some r1 => do '(e, r2) <- pexpr cfg r1; do rest <- with_pairs_new cfg f r2; Ok ((k, e) :: rest)
              end
          end
      end
  end.
Fixpoint with_pairs_old (cfg : pcfg) (fuel : nat) (ts : list token) : res (list (str * expr)) :=
  match fuel with
  | O => Fuel
  | S f =>
      match ts with
      | [] => Ok []
      | _ =>
          do '(e, r) <- pexpr cfg ts;
          match match_kw r [97; 115] (* as *) with
          | None => perr
          | Some r1 =>
              match match_ident r1 with
              | None => perr
              | Some (k, r2) => do rest <- with_pairs_old cfg f r2; Ok ((k, e) :: rest)
              end
          end
      end
  end.

(* include ... with k=v k=v [only] *)
Fixpoint include_pairs (cfg : pcfg) (fuel : nat) (ts : list token) : res (list (str * expr) * bool * list token) :=
  match fuel with
  | O => Fuel
  | S f =>
      match ts with
      | [] => Ok ([], false, [])
      | _ =>
          match match_ident ts with
          | None => perr
          | Some (k, r) =>
              match match_sym r [61] (* = *) with
              | None => perr
              | Some r1 =>
                  do '(e, r2) <- pexpr cfg r1;
                  match match_ident_val r2 [111; 110; 108; 121] (* only *) with
                  | Some r3 => Ok ([(k, e)], true, r3)
                  | None => do '(rest, only, r4) <- include_pairs cfg f r2; Ok ((k, e) :: rest, only, r4)
                  end
              end
          end
      end
  end.

(* macro parameters after "(" *)
Fixpoint macro_params (cfg : pcfg) (fuel : nat) (ts : list token) : res (list (str * option expr) * list token) :=
  match fuel with
  | O => Fuel
  | S f =>
      match match_sym ts [41] (* ) *) with
      | Some r => Ok ([], r)
      | None =>
          match match_ident ts with
          | None => perr
          | Some (name, r) =>
              do '(dflt, r1) <-
                (match match_sym r [61] (* = *) with
                 | Some r0 => do '(e, r') <- pexpr cfg r0; Ok (Some e, r')
                 | None => Ok (None, r)
                 end);
              match match_sym r1 [41] (* ) *) with
              | Some r2 => Ok ([(name, dflt)], r2)
              | None =>
                  match match_sym r1 [44] (* , *) with
                  | None => perr
                  | Some r2 => do '(rest, r3) <- macro_params cfg f r2; Ok ((name, dflt) :: rest, r3)
                  end
              end
          end
      end
  end.

(* filter-tag chain:  name[:param] | name[:param] ... *)
Fixpoint filter_tag_chain (cfg : pcfg) (fuel : nat) (ts : list token) : res (list (str * option expr) * list token) :=
  match fuel with
  | O => Fuel
  | S f =>
      match ts with
      | [] => Ok ([], [])
      | _ =>
          match match_ident ts with
          | None => perr
          | Some (name, r) =>
              if str_in name (cfg_banned_filters cfg) then perr
              else
                do '(p, r1) <-
                  (match match_sym r [58] (* : *) with
                   | Some r0 => do '(e, r') <- pvarlit cfg r0; Ok (Some e, r')
                   | None => Ok (None, r)
                   end);
                match match_sym r1 [124] (* | *) with
                | None => Ok ([(name, p)], r1)
                | Some r2 => do '(rest, r3) <- filter_tag_chain cfg f r2; Ok ((name, p) :: rest, r3)
                end
          end
      end
  end.

(* cycle arguments *)
Fixpoint cycle_args (cfg : pcfg) (fuel : nat) (ts : list token) : res (list expr * str * bool * list token) :=
  match fuel with
  | O => Fuel
  | S f =>
      match ts with
      | [] => Ok ([], [], false, [])
      | _ =>
          do '(e, r) <- pexpr cfg ts;
          match match_kw r [97; 115] (* as *) with
          | Some r1 =>
              match match_ident r1 with
              | None => perr
              | Some (name, r2) =>
                  match match_ident_val r2 [115; 105; 108; 101; 110; 116] (* silent *) with
                  | Some r3 => Ok ([e], name, true, r3)
                  | None => Ok ([e], name, false, r2)
                  end
              end
          | None =>
              if Nat.leb (length ts) (length r) then Fuel
              else do '(es, name, silent, r') <- cycle_args cfg f r; Ok (e :: es, name, silent, r')
          end
      end
  end.

(* import list:  name [as alias] , ... *)
Fixpoint import_list (fuel : nat) (exported : list (str * macro)) (ts : list token) : res (list (str * macro)) :=
  match fuel with
  | O => Fuel
  | S f =>
      match ts with
      | [] => Ok []
      | _ =>
          match match_ident ts with
          | None => perr
          | Some (name, r) =>
              do '(alias, r1) <-
                (match match_kw r [97; 115] (* as *) with
                 | Some r0 => match match_ident r0 with Some (a, r') => Ok (a, r') | None => perr end
                 | None => Ok (name, r)
                 end);
              match assoc_get name exported with
              | None => perr
              | Some m =>
                  match r1 with
                  | [] => Ok [(alias, m)]
                  | _ => match match_sym r1 [44] (* , *) with
                         | None => perr
                         | Some r2 => do rest <- import_list f exported r2; Ok ((alias, m) :: rest)
                         end
                  end
              end
          end
      end
  end.

Definition has_kw_as (ts : list token) : bool := existsb (fun t => is_kw t [97; 115] (* as *)) ts.

Section Compile.
  Variable se : senv.
  Let cfg := se_cfg se.

  (* the state threaded through one template's parse *)
  Definition pst := (tstate * gstate)%type.

  (* collect the arguments of an end tag up to "%}" *)
  Fixpoint end_args (ts : list atok) (acc : list token) : res (list token * list atok) :=
    match ts with
    | [] => perr
    | a :: r => if a_is_sym a [37; 125] (* %} *) then Ok (rev acc, r) else end_args r (a_tok a :: acc)
    end.

  (* SkipUntilTag: token skipping, not nesting aware *)
  Fixpoint skip_to_close (ts : list atok) : res (list atok) :=
    match ts with
    | [] => perr
    | a :: r => if a_is_sym a [37; 125] (* %} *) then Ok r
                else match r with [] => perr | _ => skip_to_close r end
    end.
  Fixpoint skip_until (names : list str) (ts : list atok) : res (list atok) :=
    match ts with
    | [] => perr
    | a :: r =>
        if a_is_sym a [123; 37] (* {% *) then
          match r with
          | b :: r' => if a_is_ident b && str_in (tval (a_tok b)) names then skip_to_close r'
                       else skip_until names r
          | [] => skip_until names r
          end
        else skip_until names r
    end.

  Definition tag_is (impl name : str) : bool := str_eqb impl name.

  (* FromFile through the set: fetch, then compile. [compile] is passed in to tie the knot
     through fuel. *)
  Definition fetch (path : str) (g : gstate) : res (str * gstate) :=
    let '(c, g') := resolve_template (se_loaders se) 0 path g in
    match c with
    | Some content => Ok (content, g')
    | None => Err 4
    end.

  Fixpoint parse_elem (fuel : nat) (level : nat) (st : pst) (ts : list atok) {struct fuel}
    : res (node * list atok * pst) :=
    match fuel with
    | O => Fuel
    | S f =>
        match ts with
        | [] => perr
        | a :: r =>
            let t := a_tok a in
            match ttyp t with
            | THTML => Ok (NHtml (t_id (fst st)) (tval t) (a_trimL a) (a_trimR a) (a_after a) (a_before a), r, st)
            | TSymbol =>
                if str_eqb (tval t) [123; 123] (* {{ *) then
                  let '(code, _) := take_code r in
                  let ct := toks_of code in
                  do '(e, rt) <- pexpr cfg ct;
                  let r1 := resync r ct rt in
                  match r1 with
                  | c :: r2 => if a_is_sym c [125; 125] (* }} *) then Ok (NVar e, r2, st) else perr
                  | [] => perr
                  end
                else if str_eqb (tval t) [123; 37] (* {% *) then parse_tag f level st r
                else perr
            | _ => perr
            end
        end
    end
  (* WrapUntilTag *)
  with wrap_until (fuel : nat) (level : nat) (names : list str) (st : pst) (ts : list atok) {struct fuel}
    : res (list node * str * list token * list atok * pst) :=
    match fuel with
    | O => Fuel
    | S f =>
        match ts with
        | [] => perr
        | a :: r =>
            let stop :=
              if a_is_sym a [123; 37] (* {% *) then
                match r with
                | b :: r' => if a_is_ident b && str_in (tval (a_tok b)) names then Some (tval (a_tok b), r') else None
                | [] => None
                end
              else None in
            match stop with
            | Some (name, r') => do '(args, r2) <- end_args r' []; Ok ([], name, args, r2, st)
            | None =>
                do '(n, r1, st1) <- parse_elem f level st ts;
                do '(ns, name, args, r2, st2) <- wrap_until f level names st1 r1;
                Ok (n :: ns, name, args, r2, st2)
            end
        end
    end
  (* parseTagElement, after "{%" *)
  with parse_tag (fuel : nat) (level : nat) (st : pst) (ts : list atok) {struct fuel}
    : res (node * list atok * pst) :=
    match fuel with
    | O => Fuel
    | S f =>
        match ts with
        | [] => perr
        | nm :: r =>
            if negb (a_is_ident nm) then perr
            else
              let name := tval (a_tok nm) in
              if negb (str_in name (cfg_tags cfg)) then perr
              else if str_in name (cfg_banned_tags cfg) then perr
              else
              match assoc_get name tag_impl with
              | None => Unmod          (* a tag registered outside the package *)
              | Some impl =>
                    (* arguments up to "%}" *)
                    let fix collect (l : list atok) (acc : list token) : option (list token * list atok) :=
                      match l with
                      | [] => None
                      | x :: l' => if a_is_sym x [37; 125] (* %} *) then Some (rev acc, l') else collect l' (a_tok x :: acc)
                      end in
                    match collect r [] with
                    | None => perr
                    | Some (args, body) => tag_parser f (S level) impl args st body
                    end
              end
        end
    end
  with tag_parser (fuel : nat) (level : nat) (impl : str) (args : list token) (st : pst) (ts : list atok) {struct fuel}
    : res (node * list atok * pst) :=
    match fuel with
    | O => Fuel
    | S f =>
        let af := parse_fuel args in
        if tag_is impl [116; 97; 103; 65; 117; 116; 111; 101; 115; 99; 97; 112; 101; 80; 97; 114; 115; 101; 114] (* tagAutoescapeParser *) then
          do '(body, _, _, r, st1) <- wrap_until f level [ [101; 110; 100; 97; 117; 116; 111; 101; 115; 99; 97; 112; 101] (* endautoescape *) ] st ts;
          match match_ident args with
          | None => perr
          | Some (mode, rest) =>
              if str_eqb mode [111; 110] (* on *) then match rest with [] => Ok (NAutoescape true body, r, st1) | _ => perr end
              else if str_eqb mode [111; 102; 102] (* off *) then match rest with [] => Ok (NAutoescape false body, r, st1) | _ => perr end
              else perr
          end
        else if tag_is impl [116; 97; 103; 66; 108; 111; 99; 107; 80; 97; 114; 115; 101; 114] (* tagBlockParser *) then
          match args with
          | [] => perr
          | _ =>
              match match_ident args with
              | None => perr
              | Some (bname, rest) =>
                  match rest with
                  | _ :: _ => perr
                  | [] =>
                      do '(body, _, eargs, r, st1) <- wrap_until f level [ [101; 110; 100; 98; 108; 111; 99; 107] (* endblock *) ] st ts;
                      do _ <- (match eargs with
                               | [] => Ok tt
                               | _ => match match_ident eargs with
                                      | Some (en, er) =>
                                          if negb (str_eqb en bname) then perr
                                          else match er with [] => Ok tt | _ => perr end
                                      | None => perr
                                      end
                               end);
                      let '(tst, g) := st1 in
                      match assoc_get bname (t_blocks tst) with
                      | Some _ => perr
                      | None =>
                          let tst' := mkT (t_id tst) (t_name tst) (t_isstr tst) (t_blocks tst ++ [(bname, body)])
                                          (t_exported tst) (t_parent tst) in
                          Ok (NBlock bname, r, (tst', g))
                      end
                  end
              end
          end
        else if tag_is impl [116; 97; 103; 67; 111; 109; 109; 101; 110; 116; 80; 97; 114; 115; 101; 114] (* tagCommentParser *) then
          do r <- skip_until [ [101; 110; 100; 99; 111; 109; 109; 101; 110; 116] (* endcomment *) ] ts;
          match args with [] => Ok (NComment, r, st) | _ => perr end
        else if tag_is impl [116; 97; 103; 67; 121; 99; 108; 101; 80; 97; 114; 115; 101; 114] (* tagCycleParser *) then
          do '(es, asname, silent, rest) <- cycle_args cfg af args;
          match rest with
          | _ :: _ => perr
          | [] =>
              match es with
              | [] => perr
              | _ => let '(tst, g) := st in
                     let '(id, g') := g_fresh g in
                     Ok (NCycle id es asname silent, ts, (tst, g'))
              end
          end
        else if tag_is impl [116; 97; 103; 69; 120; 116; 101; 110; 100; 115; 80; 97; 114; 115; 101; 114] (* tagExtendsParser *) then
          let '(tst, g) := st in
          if Nat.ltb 1 level then perr
          else match t_parent tst with
               | Some _ => perr
               | None =>
                   match match_string args with
                   | None => perr
                   | Some (fname, rest) =>
                       let pname := resolve_filename (t_isstr tst) (t_name tst) fname in
                       do '(ptpl, g1) <- compile_file f pname g;
                       match rest with
                       | _ :: _ => perr
                       | [] =>
                           let tst' := mkT (t_id tst) (t_name tst) (t_isstr tst) (t_blocks tst) (t_exported tst) (Some ptpl) in
                           Ok (NExtends, ts, (tst', g1))
                       end
                   end
               end
        else if tag_is impl [116; 97; 103; 70; 105; 108; 116; 101; 114; 80; 97; 114; 115; 101; 114] (* tagFilterParser *) then
          do '(body, _, _, r, st1) <- wrap_until f level [ [101; 110; 100; 102; 105; 108; 116; 101; 114] (* endfilter *) ] st ts;
          do '(chain, rest) <- filter_tag_chain cfg af args;
          match rest with [] => Ok (NFilterTag chain body, r, st1) | _ => perr end
        else if tag_is impl [116; 97; 103; 70; 105; 114; 115; 116; 111; 102; 80; 97; 114; 115; 101; 114] (* tagFirstofParser *) then
          do es <- pexprs cfg af args; Ok (NFirstof es, ts, st)
        else if tag_is impl [116; 97; 103; 70; 111; 114; 80; 97; 114; 115; 101; 114] (* tagForParser *) then
          match match_ident args with
          | None => perr
          | Some (key, r0) =>
              do '(value, r1) <-
                (match match_sym r0 [44] (* , *) with
                 | Some r' => match match_ident r' with Some (v, r'') => Ok (v, r'') | None => perr end
                 | None => Ok ([], r0)
                 end);
              match match_kw r1 [105; 110] (* in *) with
              | None => perr
              | Some r2 =>
                  do '(obj, r3) <- pexpr cfg r2;
                  let '(reversed, r4) := match match_ident_val r3 [114; 101; 118; 101; 114; 115; 101; 100] (* reversed *) with Some x => (true, x) | None => (false, r3) end in
                  let '(sorted, r5) := match match_ident_val r4 [115; 111; 114; 116; 101; 100] (* sorted *) with Some x => (true, x) | None => (false, r4) end in
                  match r5 with
                  | _ :: _ => perr
                  | [] =>
                      do '(body, endtag, eargs, r, st1) <- wrap_until f level [ [101; 109; 112; 116; 121] (* empty *); [101; 110; 100; 102; 111; 114] (* endfor *) ] st ts;
                      match eargs with
                      | _ :: _ => perr
                      | [] =>
                          if str_eqb endtag [101; 109; 112; 116; 121] (* empty *) then
                            do '(ebody, _, eargs2, r', st2) <- wrap_until f level [ [101; 110; 100; 102; 111; 114] (* endfor *) ] st1 r;
                            match eargs2 with
                            | [] => Ok (NFor key value obj reversed sorted body (Some ebody), r', st2)
                            | _ => perr
                            end
                          else Ok (NFor key value obj reversed sorted body None, r, st1)
                      end
                  end
              end
          end
        else if tag_is impl [116; 97; 103; 73; 102; 80; 97; 114; 115; 101; 114] (* tagIfParser *) then
          do '(c0, rest) <- pexpr cfg args;
          match rest with
          | _ :: _ => perr
          | [] => do '(conds, wrappers, r, st1) <- if_branches f level [c0] [] st ts;
                  Ok (NIf conds wrappers, r, st1)
          end
        else if tag_is impl [116; 97; 103; 73; 102; 99; 104; 97; 110; 103; 101; 100; 80; 97; 114; 115; 101; 114] (* tagIfchangedParser *) then
          do es <- pexprs cfg af args;
          do '(body, endtag, eargs, r, st1) <- wrap_until f level [ [101; 108; 115; 101] (* else *); [101; 110; 100; 105; 102; 99; 104; 97; 110; 103; 101; 100] (* endifchanged *) ] st ts;
          match eargs with
          | _ :: _ => perr
          | [] =>
              let '(tst, g) := st1 in
              let '(id, g') := g_fresh g in
              if str_eqb endtag [101; 108; 115; 101] (* else *) then
                do '(ebody, _, eargs2, r', st2) <- wrap_until f level [ [101; 110; 100; 105; 102; 99; 104; 97; 110; 103; 101; 100] (* endifchanged *) ] (tst, g') r;
                match eargs2 with [] => Ok (NIfchanged id es body (Some ebody), r', st2) | _ => perr end
              else Ok (NIfchanged id es body None, r, (tst, g'))
          end
        else if tag_is impl [116; 97; 103; 73; 102; 69; 113; 117; 97; 108; 80; 97; 114; 115; 101; 114] (* tagIfEqualParser *) || tag_is impl [116; 97; 103; 73; 102; 78; 111; 116; 69; 113; 117; 97; 108; 80; 97; 114; 115; 101; 114] (* tagIfNotEqualParser *) then
          let negated := tag_is impl [116; 97; 103; 73; 102; 78; 111; 116; 69; 113; 117; 97; 108; 80; 97; 114; 115; 101; 114] (* tagIfNotEqualParser *) in
          let endname := if negated then [101; 110; 100; 105; 102; 110; 111; 116; 101; 113; 117; 97; 108] (* endifnotequal *) else [101; 110; 100; 105; 102; 101; 113; 117; 97; 108] (* endifequal *) in
          do '(e1, r1) <- pexpr cfg args;
          do '(e2, r2) <- pexpr cfg r1;
          match r2 with
          | _ :: _ => perr
          | [] =>
              do '(body, endtag, eargs, r, st1) <- wrap_until f level [ [101; 108; 115; 101] (* else *); endname ] st ts;
              match eargs with
              | _ :: _ => perr
              | [] =>
                  if str_eqb endtag [101; 108; 115; 101] (* else *) then
                    do '(ebody, _, eargs2, r', st2) <- wrap_until f level [endname] st1 r;
                    match eargs2 with [] => Ok (NIfequal negated e1 e2 body (Some ebody), r', st2) | _ => perr end
                  else Ok (NIfequal negated e1 e2 body None, r, st1)
              end
          end
        else if tag_is impl [116; 97; 103; 73; 109; 112; 111; 114; 116; 80; 97; 114; 115; 101; 114] (* tagImportParser *) then
          let '(tst, g) := st in
          match match_string args with
          | None => perr
          | Some (fname, rest) =>
              let iname := resolve_filename (t_isstr tst) (t_name tst) fname in
              match rest with
              | [] => perr
              | _ =>
                  do '(itpl, g1) <- compile_file f iname g;
                  do ms <- import_list af (tpl_exported itpl) rest;
                  Ok (NImport ms, ts, (tst, g1))
              end
          end
        else if tag_is impl [116; 97; 103; 73; 110; 99; 108; 117; 100; 101; 80; 97; 114; 115; 101; 114] (* tagIncludeParser *) then
          let '(tst, g) := st in
          match match_string args with
          | Some (fname, rest0) =>
              let '(ifexists, rest) := match match_ident_val rest0 [105; 102; 95; 101; 120; 105; 115; 116; 115] (* if_exists *) with Some x => (true, x) | None => (false, rest0) end in
              let iname := resolve_filename (t_isstr tst) (t_name tst) fname in
              match compile_file f iname g with
              | Err 4 => if ifexists && negb (served (se_loaders se) iname)
                         then Ok (NIncludeEmpty, ts, (tst, log_misses (se_loaders se) iname g)) else Err 4
              | Ok (itpl, g1) =>
                  do '(pairs, only, rest') <-
                    (match match_ident_val rest [119; 105; 116; 104] (* with *) with
                     | Some r' => include_pairs cfg af r'
                     | None => Ok ([], false, rest)
                     end);
                  match rest' with
                  | [] => Ok (NInclude (Some itpl) None pairs only false, ts, (tst, g1))
                  | _ => perr
                  end
              | Err k => Err k
              | Unmod => Unmod
              | Fuel => Fuel
              | Panic s => Panic s
              end
          | None =>
              do '(fe, rest0) <- pexpr cfg args;
              let '(ifexists, rest) := match match_ident_val rest0 [105; 102; 95; 101; 120; 105; 115; 116; 115] (* if_exists *) with Some x => (true, x) | None => (false, rest0) end in
              do '(pairs, only, rest') <-
                (match match_ident_val rest [119; 105; 116; 104] (* with *) with
                 | Some r' => include_pairs cfg af r'
                 | None => Ok ([], false, rest)
                 end);
              match rest' with
              | [] => Ok (NInclude None (Some fe) pairs only ifexists, ts, st)
              | _ => perr
              end
          end
        else if tag_is impl [116; 97; 103; 77; 97; 99; 114; 111; 80; 97; 114; 115; 101; 114] (* tagMacroParser *) then
          match match_ident args with
          | None => perr
          | Some (mname, r0) =>
              match match_sym r0 [40] (* ( *) with
              | None => perr
              | Some r1 =>
                  do '(params, r2) <- macro_params cfg af r1;
                  let '(exported, r3) := match match_kw r2 [101; 120; 112; 111; 114; 116] (* export *) with Some x => (true, x) | None => (false, r2) end in
                  match r3 with
                  | _ :: _ => perr
                  | [] =>
                      do '(body, _, eargs, r, st1) <- wrap_until f level [ [101; 110; 100; 109; 97; 99; 114; 111] (* endmacro *) ] st ts;
                      match eargs with
                      | _ :: _ => perr
                      | [] =>
                          let m := Macro mname params body exported in
                          let '(tst, g) := st1 in
                          if exported then
                            match assoc_get mname (t_exported tst) with
                            | Some _ => perr
                            | None =>
                                let tst' := mkT (t_id tst) (t_name tst) (t_isstr tst) (t_blocks tst)
                                                (t_exported tst ++ [(mname, m)]) (t_parent tst) in
                                Ok (NMacro m, r, (tst', g))
                            end
                          else Ok (NMacro m, r, st1)
                      end
                  end
              end
          end
        else if tag_is impl [116; 97; 103; 83; 101; 116; 80; 97; 114; 115; 101; 114] (* tagSetParser *) then
          match match_ident args with
          | None => perr
          | Some (name, r0) =>
              match match_sym r0 [61] (* = *) with
              | None => perr
              | Some r1 => do '(e, r2) <- pexpr cfg r1;
                           match r2 with [] => Ok (NSet name e, ts, st) | _ => perr end
              end
          end
        else if tag_is impl [116; 97; 103; 83; 112; 97; 99; 101; 108; 101; 115; 115; 80; 97; 114; 115; 101; 114] (* tagSpacelessParser *) then
          do '(body, _, _, r, st1) <- wrap_until f level [ [101; 110; 100; 115; 112; 97; 99; 101; 108; 101; 115; 115] (* endspaceless *) ] st ts;
          match args with [] => Ok (NSpaceless body, r, st1) | _ => perr end
        else if tag_is impl [116; 97; 103; 83; 83; 73; 80; 97; 114; 115; 101; 114] (* tagSSIParser *) then
          let '(tst, g) := st in
          match match_string args with
          | None => perr
          | Some (fname, rest) =>
              match match_ident_val rest [112; 97; 114; 115; 101; 100] (* parsed *) with
              | Some rest' =>
                  let iname := resolve_filename (t_isstr tst) (t_name tst) fname in
                  do '(itpl, g1) <- compile_file f iname g;
                  match rest' with [] => Ok (NSsi [] (Some itpl), ts, (tst, g1)) | _ => perr end
              | None =>
                  (* resolveTemplate(doc.template, name): each loader's Abs relative to this template *)
                  let path := if t_isstr tst then fname else fsloader_abs (t_name tst) fname in
                  let '(c, g1) := resolve_template (se_loaders se) 0 path g in
                  match c with
                  | None => Err 2
                  | Some content => match rest with [] => Ok (NSsi content None, ts, (tst, g1)) | _ => perr end
                  end
              end
          end
        else if tag_is impl [116; 97; 103; 84; 101; 109; 112; 108; 97; 116; 101; 84; 97; 103; 80; 97; 114; 115; 101; 114] (* tagTemplateTagParser *) then
          match match_ident args with
          | None => perr
          | Some (w, rest) =>
              match assoc_get w templatetag_map with
              | None => perr
              | Some out => match rest with [] => Ok (NTemplatetag out, ts, st) | _ => perr end
              end
          end
        else if tag_is impl [116; 97; 103; 87; 105; 100; 116; 104; 114; 97; 116; 105; 111; 80; 97; 114; 115; 101; 114] (* tagWidthratioParser *) then
          do '(e1, r1) <- pexpr cfg args;
          do '(e2, r2) <- pexpr cfg r1;
          do '(e3, r3) <- pexpr cfg r2;
          do '(name, r4) <-
            (match match_kw r3 [97; 115] (* as *) with
             | Some r' => match match_ident r' with Some (n, r'') => Ok (n, r'') | None => perr end
             | None => Ok ([], r3)
             end);
          match r4 with [] => Ok (NWidthratio e1 e2 e3 name, ts, st) | _ => perr end
        else if tag_is impl [116; 97; 103; 87; 105; 116; 104; 80; 97; 114; 115; 101; 114] (* tagWithParser *) then
          match args with
          | [] => perr
          | _ =>
              do '(body, _, eargs, r, st1) <- wrap_until f level [ [101; 110; 100; 119; 105; 116; 104] (* endwith *) ] st ts;
              match eargs with
              | _ :: _ => perr
              | [] =>
                  do pairs <- (if has_kw_as args then with_pairs_old cfg af args else with_pairs_new cfg af args);
                  Ok (NWith pairs body, r, st1)
              end
          end
        else Unmod    (* lorem, now, and tags a change may add *)
    end
  (* the if tag's chain of wrappers *)
  with if_branches (fuel : nat) (level : nat) (conds : list expr) (wrappers : list (list node)) (st : pst) (ts : list atok) {struct fuel}
    : res (list expr * list (list node) * list atok * pst) :=
    match fuel with
    | O => Fuel
    | S f =>
        do '(body, endtag, eargs, r, st1) <- wrap_until f level [ [101; 108; 105; 102] (* elif *); [101; 108; 115; 101] (* else *); [101; 110; 100; 105; 102] (* endif *) ] st ts;
        let wrappers' := wrappers ++ [body] in
        if str_eqb endtag [101; 108; 105; 102] (* elif *) then
          do '(c, rest) <- pexpr cfg eargs;
          match rest with
          | _ :: _ => perr
          | [] => if_branches f level (conds ++ [c]) wrappers' st1 r
          end
        else
          match eargs with
          | _ :: _ => perr
          | [] => if str_eqb endtag [101; 110; 100; 105; 102] (* endif *) then Ok (conds, wrappers', r, st1)
                  else if_branches f level conds wrappers' st1 r
          end
    end
  (* parseDocument *)
  with parse_doc (fuel : nat) (st : pst) (ts : list atok) {struct fuel} : res (list node * pst) :=
    match fuel with
    | O => Fuel
    | S f =>
        match ts with
        | [] => Ok ([], st)
        | _ => do '(n, r, st1) <- parse_elem f 0 st ts;
               do '(ns, st2) <- parse_doc f st1 r;
               Ok (n :: ns, st2)
        end
    end
  (* newTemplate *)
  with compile_src (fuel : nat) (name : str) (isstr : bool) (src : str) (g : gstate) {struct fuel}
    : res (template * gstate) :=
    match fuel with
    | O => Fuel
    | S f =>
        match lex src with
        | LexFuel => Fuel
        | LexFail _ => Err 1
        | LexOk toks =>
            let '(id, g1) := g_fresh g in
            let tst := mkT id name isstr [] [] None in
            do '(root, (tst', g2)) <- parse_doc f (tst, g1) (annotate None toks);
            Ok (Tpl id name isstr root (t_blocks tst') (t_exported tst') (t_parent tst') (se_trim se) (se_lstrip se), g2)
        end
    end
  (* set.FromFile *)
  with compile_file (fuel : nat) (path : str) (g : gstate) {struct fuel} : res (template * gstate) :=
    match fuel with
    | O => Fuel
    | S f => do '(content, g1) <- fetch path g; compile_src f path false content g1
    end.
End Compile.
