(* The expression parser (parser_expression.go: ParseExpression .. parseFactor;
   variable.go: parseVariableOrLiteral(WithFilter), parseArray; filters.go: parseFilter),
   as a fuelled recursive descent over the remaining token list. *)
From PV Require Export Model.Ast.
Open Scope N_scope.

Definition pres := res (expr * list token).
Definition perr {A} : res A := Err 2.

Definition is_sym (t : token) (s : str) : bool :=
  match ttyp t with TSymbol => str_eqb (tval t) s | _ => false end.
Definition is_kw (t : token) (s : str) : bool :=
  match ttyp t with TKeyword => str_eqb (tval t) s | _ => false end.
Definition is_typ (t : token) (ty : toktyp) : bool :=
  match ttyp t, ty with
  | TIdentifier, TIdentifier | TNumber, TNumber | TString, TString | TSymbol, TSymbol
  | TKeyword, TKeyword | THTML, THTML => true
  | _, _ => false
  end.

(* symbols as byte strings *)
Definition y_lpar := [40]. Definition y_rpar := [41]. Definition y_lbr := [91]. Definition y_rbr := [93].
Definition y_comma := [44]. Definition y_dot := [46]. Definition y_pipe := [124]. Definition y_colon := [58].
Definition y_caret := [94]. Definition y_bang := [33]. Definition y_plus := [43]. Definition y_minus := [45].
Definition y_var_close := [125; 125].
Definition k_not := [110; 111; 116]. Definition k_in := [105; 110].
Definition k_and := [97; 110; 100]. Definition k_or := [111; 114].
Definition k_true := [116; 114; 117; 101]. Definition k_false := [102; 97; 108; 115; 101].

Definition relop_of (t : token) : option relop :=
  match ttyp t with
  | TSymbol =>
      if str_eqb (tval t) [61; 61] then Some REq
      else if str_eqb (tval t) [60; 61] then Some RLe
      else if str_eqb (tval t) [62; 61] then Some RGe
      else if str_eqb (tval t) [33; 61] then Some RNe
      else if str_eqb (tval t) [60; 62] then Some RNe
      else if str_eqb (tval t) [62] then Some RGt
      else if str_eqb (tval t) [60] then Some RLt
      else None
  | _ => None
  end.

Definition logic_of (t : token) : option bool :=   (* Some true = and *)
  if is_sym t [38; 38] || is_kw t k_and then Some true
  else if is_sym t [124; 124] || is_kw t k_or then Some false
  else None.

Definition term_op (t : token) : option N :=
  if is_sym t [42] then Some 42 else if is_sym t [47] then Some 47 else if is_sym t [37] then Some 37 else None.
Definition add_op (t : token) : option N :=
  if is_sym t y_plus then Some 43 else if is_sym t y_minus then Some 45 else None.

(* strconv.Atoi on a digit string: out of int64 range is an error *)
Definition atoi (s : str) : option Z :=
  match digits_val s 0 with
  | Some z => if (z <=? max_int)%Z then Some z else None
  | None => None
  end.

Section Parser.
  Variable cfg : pcfg.

  Fixpoint parse_expression (fuel : nat) (ts : list token) : pres :=
    match fuel with
    | O => Fuel
    | S f =>
        do '(a, r) <- parse_relational f ts;
        match r with
        | t :: r' =>
            match logic_of t with
            | Some is_and => do '(b, r2) <- parse_expression f r'; Ok (ELogic is_and a b, r2)
            | None => Ok (a, r)
            end
        | [] => Ok (a, r)
        end
    end
  with parse_relational (fuel : nat) (ts : list token) : pres :=
    match fuel with
    | O => Fuel
    | S f =>
        do '(a, r) <- parse_simple f ts;
        match r with
        | t :: r' =>
            match relop_of t with
            | Some op => do '(b, r2) <- parse_relational f r'; Ok (ERel op a b, r2)
            | None =>
                if is_kw t k_in then do '(b, r2) <- parse_simple f r'; Ok (ERel RIn a b, r2)
                else Ok (a, r)
            end
        | [] => Ok (a, r)
        end
    end
  with parse_simple (fuel : nat) (ts : list token) : pres :=
    match fuel with
    | O => Fuel
    | S f =>
        let '(negsign, ts1) :=
          match ts with
          | t :: r => if is_sym t y_plus then (false, r) else if is_sym t y_minus then (true, r) else (false, ts)
          | [] => (false, ts)
          end in
        let '(neg, ts2) :=
          match ts1 with
          | t :: r => if is_sym t y_bang || is_kw t k_not then (true, r) else (false, ts1)
          | [] => (false, ts1)
          end in
        do '(a, r) <- parse_term f ts2;
        match r with
        | t :: r' =>
            match add_op t with
            | Some op => do '(b, r2) <- parse_term f r'; simple_loop f (ESimple negsign neg a (Some (op, b))) r2
            | None => Ok (if negsign || neg then ESimple negsign neg a None else a, r)
            end
        | [] => Ok (if negsign || neg then ESimple negsign neg a None else a, r)
        end
    end
  with simple_loop (fuel : nat) (acc : expr) (ts : list token) : pres :=
    match fuel with
    | O => Fuel
    | S f =>
        match ts with
        | t :: r' =>
            match add_op t with
            | Some op => do '(b, r2) <- parse_term f r'; simple_loop f (ESimple false false acc (Some (op, b))) r2
            | None => Ok (acc, ts)
            end
        | [] => Ok (acc, ts)
        end
    end
  with parse_term (fuel : nat) (ts : list token) : pres :=
    match fuel with
    | O => Fuel
    | S f => do '(a, r) <- parse_power f ts; term_loop f a r
    end
  with term_loop (fuel : nat) (acc : expr) (ts : list token) : pres :=
    match fuel with
    | O => Fuel
    | S f =>
        match ts with
        | t :: r' =>
            match term_op t with
            | Some op => do '(b, r2) <- parse_power f r'; term_loop f (ETerm op acc b) r2
            | None => Ok (acc, ts)
            end
        | [] => Ok (acc, ts)
        end
    end
  with parse_power (fuel : nat) (ts : list token) : pres :=
    match fuel with
    | O => Fuel
    | S f =>
        do '(a, r) <- parse_factor f ts;
        match r with
        | t :: r' =>
            if is_sym t y_caret then do '(b, r2) <- parse_power f r'; Ok (EPow a b, r2)
            else Ok (a, r)
        | [] => Ok (a, r)
        end
    end
  with parse_factor (fuel : nat) (ts : list token) : pres :=
    match fuel with
    | O => Fuel
    | S f =>
        match ts with
        | t :: r =>
            if is_sym t y_lpar then
              do '(e, r1) <- parse_expression f r;
              match r1 with
              | t1 :: r2 => if is_sym t1 y_rpar then Ok (e, r2) else perr
              | [] => perr
              end
            else parse_filtered f ts
        | [] => parse_filtered f ts
        end
    end
  (* parseVariableOrLiteralWithFilter *)
  with parse_filtered (fuel : nat) (ts : list token) : pres :=
    match fuel with
    | O => Fuel
    | S f =>
        do '(e, r) <- parse_var_or_lit f ts;
        do '(chain, r') <- filter_loop f r;
        Ok (EFilt e chain, r')
    end
  with filter_loop (fuel : nat) (ts : list token) : res (list fcall * list token) :=
    match fuel with
    | O => Fuel
    | S f =>
        match ts with
        | t :: r =>
            if is_sym t y_pipe then
              do '(fc, r1) <- parse_filter f r;
              match fc with
              | FCall name _ =>
                  if str_in name (cfg_banned_filters cfg) then perr
                  else do '(rest, r2) <- filter_loop f r1; Ok (fc :: rest, r2)
              end
            else Ok ([], ts)
        | [] => Ok ([], ts)
        end
    end
  (* parseFilter *)
  with parse_filter (fuel : nat) (ts : list token) : res (fcall * list token) :=
    match fuel with
    | O => Fuel
    | S f =>
        match ts with
        | t :: r =>
            if is_typ t TIdentifier then
              if str_in (tval t) (cfg_filters cfg) then
                match r with
                | c :: r1 =>
                    if is_sym c y_colon then
                      match r1 with
                      | p :: _ => if is_sym p y_var_close then perr
                                  else do '(pe, r2) <- parse_var_or_lit f r1; Ok (FCall (tval t) (Some pe), r2)
                      | [] => do '(pe, r2) <- parse_var_or_lit f r1; Ok (FCall (tval t) (Some pe), r2)
                      end
                    else Ok (FCall (tval t) None, r)
                | [] => Ok (FCall (tval t) None, r)
                end
              else perr
            else perr
        | [] => perr
        end
    end
  (* parseVariableOrLiteral *)
  with parse_var_or_lit (fuel : nat) (ts : list token) : pres :=
    match fuel with
    | O => Fuel
    | S f =>
        match ts with
        | [] => perr
        | t :: r =>
            match ttyp t with
            | TNumber =>
                match r with
                | d :: r1 =>
                    if is_sym d y_dot then
                      match r1 with
                      | t2 :: r2 =>
                          if is_typ t2 TNumber then
                            match parse_decimal (tval t) (tval t2) with
                            | Some fl => Ok (EFloat fl, r2)
                            | None => Unmod
                            end
                          else perr
                      | [] => perr
                      end
                    else match atoi (tval t) with Some z => Ok (EInt z, r) | None => perr end
                | [] => match atoi (tval t) with Some z => Ok (EInt z, r) | None => perr end
                end
            | TString => Ok (EStr (tval t), r)
            | TKeyword =>
                if str_eqb (tval t) k_true then Ok (EBool true, r)
                else if str_eqb (tval t) k_false then Ok (EBool false, r)
                else perr
            | TIdentifier => var_loop f [PIdent (tval t) None] r
            | TSymbol => if str_eqb (tval t) y_lbr then parse_array f r else perr
            | _ => perr
            end
        end
    end
  (* the variableLoop; [parts] is reversed *)
  with var_loop (fuel : nat) (parts : list part) (ts : list token) : pres :=
    match fuel with
    | O => Fuel
    | S f =>
        match ts with
        | t :: r =>
            if is_sym t y_dot then
              match r with
              | t2 :: r2 =>
                  match ttyp t2 with
                  | TIdentifier => var_loop f (PIdent (tval t2) None :: parts) r2
                  | TNumber => match atoi (tval t2) with
                               | Some i => var_loop f (PInt i None :: parts) r2
                               | None => perr
                               end
                  | _ => perr
                  end
              | [] => perr
              end
            else if is_sym t y_lbr then
              match r with
              | [] => perr
              | _ =>
                  do '(e, r1) <- parse_expression f r;
                  match r1 with
                  | c :: r2 => if is_sym c y_rbr then var_loop f (PSub e None :: parts) r2 else perr
                  | [] => perr
                  end
              end
            else if is_sym t y_lpar then
              do '(args, r1) <- args_loop f [] r;
              match parts with
              | PIdent s _ :: ps => var_loop f (PIdent s (Some args) :: ps) r1
              | PInt i _ :: ps => var_loop f (PInt i (Some args) :: ps) r1
              | PSub e _ :: ps => var_loop f (PSub e (Some args) :: ps) r1
              | [] => perr
              end
            else Ok (EVar (rev parts), ts)
        | [] => Ok (EVar (rev parts), ts)
        end
    end
  (* the argumentLoop, after "(" ; [acc] is reversed *)
  with args_loop (fuel : nat) (acc : list expr) (ts : list token) : res (list expr * list token) :=
    match fuel with
    | O => Fuel
    | S f =>
        match ts with
        | [] => perr
        | t :: r =>
            if is_sym t y_rpar then Ok (rev acc, r)
            else
              do '(e, r1) <- parse_expression f ts;
              match r1 with
              | c :: r2 =>
                  if is_sym c y_rpar then Ok (rev (e :: acc), r2)
                  else if is_sym c y_comma then args_loop f (e :: acc) r2
                  else perr
              | [] => perr
              end
        end
    end
  (* parseArray, after "[" *)
  with parse_array (fuel : nat) (ts : list token) : pres :=
    match fuel with
    | O => Fuel
    | S f =>
        match ts with
        | t :: r => if is_sym t y_rbr then Ok (EArray [], r) else array_loop f [] ts
        | [] => array_loop f [] ts
        end
    end
  with array_loop (fuel : nat) (acc : list expr) (ts : list token) : pres :=
    match fuel with
    | O => Fuel
    | S f =>
        match ts with
        | [] => perr
        | _ =>
            do '(e, r1) <- parse_expression f ts;
            match r1 with
            | c :: r2 =>
                if is_sym c y_rbr then Ok (EArray (rev (e :: acc)), r2)
                else if is_sym c y_comma then array_loop f (e :: acc) r2
                else perr
            | [] => perr
            end
        end
    end.
End Parser.

(* enough fuel for any token list: every call consumes a token or descends one of
   finitely many grammar levels *)
Definition parse_fuel (ts : list token) : nat := 16 * length ts + 32.
