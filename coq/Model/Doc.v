(* Document trees as pongo2's tag parsers build them, compiled templates, context values. *)
From PV Require Export Model.Ast.
Open Scope N_scope.

Inductive node :=
| NHtml (owner : N) (val : str) (trimL trimR afterBlock beforeBlock : bool)
| NVar (e : expr)
| NIf (conds : list expr) (wrappers : list (list node))
| NFor (key value : str) (obj : expr) (reversed sorted : bool) (body : list node) (empty : option (list node))
| NWith (pairs : list (str * expr)) (body : list node)
| NSet (name : str) (e : expr)
| NMacro (m : macro)
| NImport (ms : list (str * macro))
| NBlock (name : str)
| NExtends
| NInclude (tpl : option template) (fname : option expr) (pairs : list (str * expr)) (only ifexists : bool)
| NIncludeEmpty
| NAutoescape (on : bool) (body : list node)
| NFilterTag (chain : list (str * option expr)) (body : list node)
| NFirstof (args : list expr)
| NCycle (id : N) (args : list expr) (asname : str) (silent : bool)
| NIfchanged (id : N) (watched : list expr) (thenb : list node) (elseb : option (list node))
| NIfequal (negated : bool) (a b : expr) (thenb : list node) (elseb : option (list node))
| NSpaceless (body : list node)
| NTemplatetag (content : str)
| NWidthratio (cur mx width : expr) (ctxname : str)
| NComment
| NSsi (content : str) (tpl : option template)
| NUnmod                                  (* lorem, now: library-driven output *)
with macro :=
| Macro (name : str) (params : list (str * option expr)) (body : list node) (exported : bool)
with template :=
| Tpl (id : N) (name : str) (is_string : bool) (root : list node)
      (blocks : list (str * list node)) (exported : list (str * macro))
      (parent : option template) (trimblocks lstrip : bool).

Definition tpl_id (t : template) := match t with Tpl i _ _ _ _ _ _ _ _ => i end.
Definition tpl_name (t : template) := match t with Tpl _ n _ _ _ _ _ _ _ => n end.
Definition tpl_is_string (t : template) := match t with Tpl _ _ b _ _ _ _ _ _ => b end.
Definition tpl_root (t : template) := match t with Tpl _ _ _ r _ _ _ _ _ => r end.
Definition tpl_blocks (t : template) := match t with Tpl _ _ _ _ b _ _ _ _ => b end.
Definition tpl_exported (t : template) := match t with Tpl _ _ _ _ _ e _ _ _ => e end.
Definition tpl_parent (t : template) := match t with Tpl _ _ _ _ _ _ p _ _ => p end.
Definition tpl_trim (t : template) := match t with Tpl _ _ _ _ _ _ _ a _ => a end.
Definition tpl_lstrip (t : template) := match t with Tpl _ _ _ _ _ _ _ _ b => b end.

(* the inheritance chain of a template, root ancestor first *)
Fixpoint chain_up (fuel : nat) (t : template) (acc : list template) : list template :=
  match fuel with
  | O => t :: acc
  | S f => match tpl_parent t with
           | Some p => chain_up f p (t :: acc)
           | None => t :: acc
           end
  end.
Definition tpl_chain (t : template) : list template := chain_up 1000 t [].

(* what a context entry can hold *)
Inductive cval :=
| CV (v : value)                                          (* a Go value or a *Value *)
| CMacro (m : macro) (frame : nat)                        (* closure over the defining context *)
| CBlock (frame : nat) (wrappers : list (list node))      (* tagBlockInformation *)
| CCycle (id : N) (args : list expr) (silent : bool) (v : value).   (* *tagCycleValue *)

Fixpoint ctx_get (k : str) (m : list (str * cval)) : option cval :=
  match m with
  | [] => None
  | (k', v) :: m' => if str_eqb k k' then Some v else ctx_get k m'
  end.
Fixpoint ctx_del (k : str) (m : list (str * cval)) : list (str * cval) :=
  match m with
  | [] => []
  | (k', v) :: m' => if str_eqb k k' then ctx_del k m' else (k', v) :: ctx_del k m'
  end.
Definition ctx_set (k : str) (v : cval) (m : list (str * cval)) : list (str * cval) :=
  (k, v) :: ctx_del k m.
(* Context.Update: entries of [src] override *)
Definition ctx_update (dst src : list (str * cval)) : list (str * cval) :=
  fold_left (fun acc kv => ctx_set (fst kv) (snd kv) acc) src dst.
