(* The template set as a state machine (template_sets.go: BanTag, BanFilter, FromString,
   FromFile, FromCache, CleanCache, Render*, the Debug switch), over one in-memory loader
   whose files can be changed between operations.  GENERATED from SetModel.v.in by
   tools/bl.py. *)
From PV Require Export Model.Api.
From PV Require Import gen.Tables.
Open Scope N_scope.

Record sstate := mkS {
  s_files : list (str * str);
  s_created : bool;
  s_btags : list str;
  s_bfilters : list str;
  s_cache : list (str * N);        (* cache key -> stamp of the cached template object *)
  s_debug : bool;
  s_stamp : N;                     (* next fresh object stamp *)
  s_fetches : N                    (* loader Get calls so far *)
}.

Definition s_init (files : list (str * str)) : sstate := mkS files false [] [] [] false 1 0.

Inductive sop :=
| OBanTag (n : str)
| OBanFilter (n : str)
| OFromString (src : str)
| OFromFile (name : str)
| OFromCache (name : str)
| ORenderString (src : str)
| ORenderFile (name : str)
| OCleanCache (names : list str)
| OSetDebug (b : bool)
| OSetFile (name content : str).

Inductive sres :=
| RErr                      (* the call returned an error *)
| ROk                       (* BanTag / BanFilter accepted; CleanCache, SetDebug, SetFile done *)
| RTpl (stamp : N)          (* a template object *)
| ROut (o : obs)            (* Render*: what it rendered *)
| RUnmod.

Definition s_world (s : sstate) : world :=
  mkWorld [mkLoader (s_files s)] false false (s_bfilters s) (s_btags s) [] [] [].

Definition with_created (s : sstate) : sstate :=
  mkS (s_files s) true (s_btags s) (s_bfilters s) (s_cache s) (s_debug s) (s_stamp s) (s_fetches s).

Definition count_gets (g : gstate) : N := N.of_nat (length (g_log g)).

(* compile through the set; returns whether it compiled and the number of loader fetches *)
Definition s_compile_string (s : sstate) (src : str) : res template * N :=
  match compile_src (world_senv (s_world s)) big_fuel [60; 115; 116; 114; 105; 110; 103; 62] (* <string> *) true src g0 with
  | Ok (t, g) => (Ok t, count_gets g)
  | Err k => (Err k, 0)
  | Unmod => (Unmod, 0)
  | Fuel => (Fuel, 0)
  | Panic p => (Panic p, 0)
  end.
Definition s_compile_file (s : sstate) (name : str) : res template * N :=
  match compile_file (world_senv (s_world s)) big_fuel name g0 with
  | Ok (t, g) => (Ok t, count_gets g)
  | Err k => (Err k, 0)
  | Unmod => (Unmod, 0)
  | Fuel => (Fuel, 0)
  | Panic p => (Panic p, 0)
  end.

Definition fresh_tpl (s : sstate) (r : res template * N) : sstate * sres :=
  match fst r with
  | Ok _ => (mkS (s_files s) true (s_btags s) (s_bfilters s) (s_cache s) (s_debug s) (s_stamp s + 1) (s_fetches s + snd r),
             RTpl (s_stamp s))
  | Err _ => (with_created s, RErr)
  | _ => (with_created s, RUnmod)
  end.

Definition s_step (s : sstate) (o : sop) : sstate * sres :=
  match o with
  | OBanTag n =>
      if negb (str_in n registered_tags) then (s, RErr)
      else if s_created s then (s, RErr)
      else if str_in n (s_btags s) then (s, RErr)
      else (mkS (s_files s) (s_created s) (n :: s_btags s) (s_bfilters s) (s_cache s) (s_debug s) (s_stamp s) (s_fetches s), ROk)
  | OBanFilter n =>
      if negb (str_in n registered_filters) then (s, RErr)
      else if s_created s then (s, RErr)
      else if str_in n (s_bfilters s) then (s, RErr)
      else (mkS (s_files s) (s_created s) (s_btags s) (n :: s_bfilters s) (s_cache s) (s_debug s) (s_stamp s) (s_fetches s), ROk)
  | OFromString src => fresh_tpl s (s_compile_string s src)
  | OFromFile name => fresh_tpl s (s_compile_file s name)
  | OFromCache name =>
      if s_debug s then fresh_tpl s (s_compile_file s name)
      else
        let key := fsloader_abs [] name in
        match assoc_get key (s_cache s) with
        | Some stamp => (s, RTpl stamp)
        | None =>
            let '(s1, r) := fresh_tpl s (s_compile_file s name) in
            match r with
            | RTpl stamp => (mkS (s_files s1) (s_created s1) (s_btags s1) (s_bfilters s1) ((key, stamp) :: s_cache s1)
                                 (s_debug s1) (s_stamp s1) (s_fetches s1), r)
            | _ => (s1, r)
            end
        end
  | ORenderString src =>
      (with_created s, ROut (api_render_string (s_world s) src []))
  | ORenderFile name =>
      (with_created s, ROut (api_render_file (s_world s) name []))
  | OCleanCache names =>
      let keys := map (fsloader_abs []) names in
      let c := match names with
               | [] => []
               | _ => filter (fun kv => negb (str_in (fst kv) keys)) (s_cache s)
               end in
      (mkS (s_files s) (s_created s) (s_btags s) (s_bfilters s) c (s_debug s) (s_stamp s) (s_fetches s), ROk)
  | OSetDebug b =>
      (mkS (s_files s) (s_created s) (s_btags s) (s_bfilters s) (s_cache s) b (s_stamp s) (s_fetches s), ROk)
  | OSetFile name content =>
      (mkS ((name, content) :: filter (fun kv => negb (str_eqb (fst kv) name)) (s_files s)) (s_created s) (s_btags s)
           (s_bfilters s) (s_cache s) (s_debug s) (s_stamp s) (s_fetches s), ROk)
  end.

Fixpoint s_run (s : sstate) (ops : list sop) : list (sres * sstate) :=
  match ops with
  | [] => []
  | o :: rest => let '(s1, r) := s_step s o in (r, s1) :: s_run s1 rest
  end.
