(* The escaping filters of filters_builtin.go (property C17), written to mirror the Go
   control flow.  Tables come from gen/Tables.v, regenerated from /repo on every run. *)
From PV Require Export Lib.Bytes Lib.Utf8 Lib.GoInt.
From PV Require Import gen.Tables.
Open Scope N_scope.

(* a chain of strings.Replace(s, old, new, -1) calls, applied in table order *)
Definition replace_chain (pairs : list (str * str)) (s : str) : str :=
  fold_left (fun acc p => replace_go (fst p) (snd p) 0 acc) pairs s.

Definition filter_escape (s : str) : str := replace_chain escape_pairs s.
Definition filter_addslashes (s : str) : str := replace_chain addslashes_pairs s.
Definition filter_safe (s : str) : str := s.

(* fmt.Sprintf(`\u%04X`, c): at least four upper-case hex digits *)
Fixpoint hex_digits_go (fuel : nat) (n : N) (acc : str) : str :=
  match fuel with
  | O => acc
  | S f => let acc' := hex_digit (n mod 16) :: acc in
           if n / 16 =? 0 then acc' else hex_digits_go f (n / 16) acc'
  end.
Definition pad4 (s : str) : str := repeat_str (4 - length s) [48] ++ s.
Definition u_escape (c : N) : str := [92; 117] ++ pad4 (hex_digits_go 16 c []).

(* utf16.EncodeRune for a rune above U+FFFF *)
Definition utf16_pair (c : N) : N * N :=
  (55296 + (c - 65536) / 1024, 56320 + (c - 65536) mod 1024).

(* filterEscapejs: one loop iteration per decoded rune; [skip] bytes are dropped first *)
Fixpoint escapejs_go (skip : nat) (s : str) : str :=
  match s with
  | [] => []
  | _ :: s' =>
      match skip with
      | S k => escapejs_go k s'
      | O =>
          let '(c, size) := decode_rune s in
          if (c =? rune_error) && Nat.leb size 1 then escapejs_go (size - 1) s'
          else
            match (if c =? ch_bs then
                     match s' with
                     | 114 :: _ => Some 13     (* \r *)
                     | 110 :: _ => Some 10     (* \n *)
                     | _ => None
                     end
                   else None) with
            | Some ctl => u_escape ctl ++ escapejs_go 1 s'
            | None =>
                (if escapejs_keep (Z.of_N c) then encode_rune c
                 else if 65535 <? c then u_escape (fst (utf16_pair c)) ++ u_escape (snd (utf16_pair c))
                 else u_escape c)
                  ++ escapejs_go (size - 1) s'
            end
      end
  end.
Definition filter_escapejs (s : str) : str := escapejs_go 0 s.

(* net/url.QueryEscape *)
Definition url_unreserved (b : N) : bool :=
  is_alpha b || is_digit b || (b =? 45) || (b =? 95) || (b =? 46) || (b =? 126).
Definition query_escape_byte (b : N) : str :=
  if url_unreserved b then [b]
  else if b =? ch_sp then [ch_plus]
  else ch_pct :: hex2 b.
Definition query_escape (s : str) : str := flat_map query_escape_byte s.
Definition filter_urlencode (s : str) : str := query_escape s.

(* filterIriencode: `for _, r := range s` then ContainsRune / QueryEscape(string(r)) *)
Definition iriencode_rune (r : N) : str :=
  if mem_byte r iri_chars then encode_rune r else query_escape (encode_rune r).
Definition filter_iriencode (s : str) : str := flat_map iriencode_rune (runes s).

(* reStriptags = `<[^>]*?>` with ReplaceAllString(s, ""), then TrimSpace.
   A match starts at the leftmost '<' that is followed, anywhere later, by a '>' and
   ends at the first such '>'.  [in_tag = true]: we are past a '<' that is known to
   close. *)
Fixpoint has_gt (s : str) : bool :=
  match s with [] => false | c :: s' => (c =? ch_gt) || has_gt s' end.
Fixpoint striptags_go (in_tag : bool) (s : str) : str :=
  match s with
  | [] => []
  | c :: s' =>
      if in_tag then (if c =? ch_gt then striptags_go false s' else striptags_go true s')
      else if (c =? ch_lt) && has_gt s' then striptags_go true s'
      else c :: striptags_go false s'
  end.
Definition filter_striptags (s : str) : str := trim_space (striptags_go false s).

(* removetags: for each comma-separated tag (one ASCII letter, else error)
   ReplaceAllString(`</?T/?>`, ""), then TrimSpace *)
Definition tag_forms (t : N) : list str :=
  [[ch_lt; ch_slash; t; ch_slash; ch_gt]; [ch_lt; ch_slash; t; ch_gt];
   [ch_lt; t; ch_slash; ch_gt]; [ch_lt; t; ch_gt]].
Definition match_tag (t : N) (s : str) : nat :=
  match s with
  | 60 :: r1 =>
      let '(r2, n1) := match r1 with 47 :: r => (r, 1%nat) | _ => (r1, 0%nat) end in
      match r2 with
      | c :: r3 =>
          if c =? t then
            let '(r4, n2) := match r3 with 47 :: r => (r, 1%nat) | _ => (r3, 0%nat) end in
            match r4 with
            | 62 :: _ => (3 + n1 + n2)%nat
            | _ => 0%nat
            end
          else 0%nat
      | [] => 0%nat
      end
  | _ => 0%nat
  end.
Fixpoint remove_tag_go (t : N) (skip : nat) (s : str) : str :=
  match s with
  | [] => []
  | c :: s' =>
      match skip with
      | S k => remove_tag_go t k s'
      | O => match match_tag t s with
             | O => c :: remove_tag_go t 0 s'
             | S w => remove_tag_go t w s'
             end
      end
  end.
Definition valid_tag (t : str) : option N :=
  match t with [c] => if is_alpha c then Some c else None | _ => None end.
Fixpoint removetags_loop (tags : list str) (s : str) : option str :=
  match tags with
  | [] => Some s
  | t :: rest =>
      match valid_tag t with
      | None => None
      | Some c => removetags_loop rest (remove_tag_go c 0 s)
      end
  end.
(* None = the filter returns an error (invalid tag name) *)
Definition filter_removetags (s param : str) : option str :=
  match removetags_loop (split_go [44] 0 [] param) s with
  | None => None
  | Some r => Some (trim_space r)
  end.
