(* Expression trees as pongo2's parser builds them (parser_expression.go, variable.go). *)
From PV Require Export Model.Value Model.Lexer.
Open Scope N_scope.

Inductive relop := REq | RNe | RLt | RLe | RGt | RGe | RIn.

Inductive expr :=
| EInt (z : Z)                        (* intResolver *)
| EFloat (f : float)                  (* floatResolver *)
| EStr (s : str)                      (* stringResolver *)
| EBool (b : bool)                    (* boolResolver *)
| EVar (parts : list part)            (* variableResolver; the first part is an identifier *)
| EArray (items : list expr)          (* variableResolver with array parts *)
| EFilt (e : expr) (chain : list fcall)   (* nodeFilteredVariable (also with an empty chain) *)
| EPow (a b : expr)                   (* power *)
| ETerm (op : N) (a b : expr)         (* term; op is the byte of * / % *)
| ESimple (negsign neg : bool) (a : expr) (rest : option (N * expr))   (* simpleExpression; op + - *)
| ERel (op : relop) (a b : expr)      (* relationalExpression *)
| ELogic (is_and : bool) (a b : expr) (* Expression *)
with part :=
| PIdent (s : str) (call : option (list expr))
| PInt (i : Z) (call : option (list expr))
| PSub (e : expr) (call : option (list expr))
with fcall :=
| FCall (name : str) (param : option expr).

(* FilterApplied(name): every leaf of the expression has the filter in its chain *)
Fixpoint filter_applied (name : str) (e : expr) : bool :=
  match e with
  | EFilt _ chain => existsb (fun fc => match fc with FCall n _ => str_eqb n name end) chain
  | EPow a b => filter_applied name a && filter_applied name b
  | ETerm _ a b => filter_applied name a && filter_applied name b
  | ESimple _ _ a rest =>
      filter_applied name a && match rest with Some (_, b) => filter_applied name b | None => true end
  | ERel _ a b => filter_applied name a && filter_applied name b
  | ELogic _ a b => filter_applied name a && filter_applied name b
  | _ => false
  end.

(* what the parser needs to know about the template set *)
Record pcfg := mkCfg {
  cfg_filters : list str;          (* registered filter names *)
  cfg_tags : list str;             (* registered tag names *)
  cfg_banned_filters : list str;
  cfg_banned_tags : list str
}.
Definition str_in (s : str) (l : list str) : bool := existsb (str_eqb s) l.
