(* Bytes, Go strings as byte lists, and the subset of package strings pongo2 uses.
   Model only: no proofs here (proofs live under Proofs/), so the model still runs
   when a proof breaks. *)
From Coq Require Export List NArith ZArith Bool Lia.
Export ListNotations.
Open Scope N_scope.

Definition byte := N.
Definition str := list N.

Fixpoint str_eqb (a b : str) : bool :=
  match a, b with
  | [], [] => true
  | x :: a', y :: b' => (x =? y) && str_eqb a' b'
  | _, _ => false
  end.

(* strings.HasPrefix s p *)
Fixpoint is_prefix (p s : str) : bool :=
  match p, s with
  | [], _ => true
  | a :: p', b :: s' => (a =? b) && is_prefix p' s'
  | _ :: _, [] => false
  end.

Definition has_suffix (s p : str) : bool := is_prefix (rev p) (rev s).

(* strings.Contains s sub *)
Fixpoint contains (sub s : str) : bool :=
  match s with
  | [] => match sub with [] => true | _ => false end
  | _ :: s' => is_prefix sub s || contains sub s'
  end.

Definition mem_byte (b : N) (l : list N) : bool := existsb (N.eqb b) l.

(* strings.Replace(s, old, new, -1) for a non-empty [old]: leftmost, non-overlapping.
   [skip] counts the bytes of a match that are still to be dropped. *)
Fixpoint replace_go (old new : str) (skip : nat) (s : str) : str :=
  match s with
  | [] => []
  | c :: s' =>
      match skip with
      | S k => replace_go old new k s'
      | O => if is_prefix old s
             then new ++ replace_go old new (length old - 1) s'
             else c :: replace_go old new 0 s'
      end
  end.

(* The single-byte case, which is what the escaping filters use. *)
Definition replace1 (o : N) (new : str) (s : str) : str :=
  flat_map (fun b => if b =? o then new else [b]) s.

Fixpoint repeat_str (n : nat) (s : str) : str :=
  match n with O => [] | S k => s ++ repeat_str k s end.

(* strings.Split(s, sep) for a non-empty [sep]; always returns at least one field. *)
Fixpoint split_go (sep : str) (skip : nat) (cur : str) (s : str) : list str :=
  match s with
  | [] => [rev cur]
  | c :: s' =>
      match skip with
      | S k => split_go sep k cur s'
      | O => if is_prefix sep s
             then rev cur :: split_go sep (length sep - 1) [] s'
             else split_go sep 0 (c :: cur) s'
      end
  end.

Fixpoint join_go (sep : str) (l : list str) : str :=
  match l with
  | [] => []
  | [x] => x
  | x :: rest => x ++ sep ++ join_go sep rest
  end.

(* hex digits, upper case, as fmt's %X and net/url print them *)
Definition hex_digit (n : N) : N := if n <? 10 then 48 + n else 55 + n.
Definition hex2 (b : N) : str := [hex_digit (b / 16); hex_digit (b mod 16)].

Definition is_upper (b : N) : bool := (65 <=? b) && (b <=? 90).
Definition is_lower (b : N) : bool := (97 <=? b) && (b <=? 122).
Definition is_alpha (b : N) : bool := is_upper b || is_lower b.
Definition is_digit (b : N) : bool := (48 <=? b) && (b <=? 57).

(* ASCII literals used below and in the tables *)
Definition ch_amp := 38. Definition ch_lt := 60. Definition ch_gt := 62.
Definition ch_dq := 34. Definition ch_sq := 39. Definition ch_bs := 92.
Definition ch_sp := 32. Definition ch_slash := 47. Definition ch_pct := 37.
Definition ch_plus := 43. Definition ch_semi := 59. Definition ch_hash := 35.
