(* Go's unicode/utf8 as pongo2 uses it: DecodeRuneInString, DecodeLastRuneInString,
   EncodeRune / WriteRune / string(rune), []rune(s), `range s`, unicode.IsSpace,
   strings.TrimSpace.  Model only. *)
From PV Require Export Lib.Bytes.
Open Scope N_scope.

Definition rune_error : N := 65533.   (* U+FFFD *)

Definition is_cont (b : N) : bool := (128 <=? b) && (b <=? 191).
Definition in_rng (lo hi b : N) : bool := (lo <=? b) && (b <=? hi).

(* utf8.DecodeRuneInString: (rune, width); width 0 only on the empty string. *)
Definition decode_rune (s : str) : N * nat :=
  match s with
  | [] => (rune_error, 0%nat)
  | b0 :: r =>
    if b0 <? 128 then (b0, 1%nat)
    else if in_rng 194 223 b0 then
      match r with
      | b1 :: _ => if is_cont b1 then ((b0 - 192) * 64 + (b1 - 128), 2%nat)
                   else (rune_error, 1%nat)
      | _ => (rune_error, 1%nat)
      end
    else if in_rng 224 239 b0 then
      match r with
      | b1 :: b2 :: _ =>
          let lo := if b0 =? 224 then 160 else 128 in
          let hi := if b0 =? 237 then 159 else 191 in
          if in_rng lo hi b1 && is_cont b2
          then ((b0 - 224) * 4096 + (b1 - 128) * 64 + (b2 - 128), 3%nat)
          else (rune_error, 1%nat)
      | _ => (rune_error, 1%nat)
      end
    else if in_rng 240 244 b0 then
      match r with
      | b1 :: b2 :: b3 :: _ =>
          let lo := if b0 =? 240 then 144 else 128 in
          let hi := if b0 =? 244 then 143 else 191 in
          if in_rng lo hi b1 && is_cont b2 && is_cont b3
          then ((b0 - 240) * 262144 + (b1 - 128) * 4096 + (b2 - 128) * 64 + (b3 - 128), 4%nat)
          else (rune_error, 1%nat)
      | _ => (rune_error, 1%nat)
      end
    else (rune_error, 1%nat)
  end.

Definition is_surrogate (r : N) : bool := in_rng 55296 57343 r.

(* utf8.EncodeRune (also bytes.Buffer.WriteRune and string(rune)) *)
Definition encode_rune (r : N) : str :=
  if r <? 128 then [r]
  else if r <? 2048 then [192 + r / 64; 128 + r mod 64]
  else if is_surrogate r || (1114111 <? r) then [239; 191; 189]
  else if r <? 65536 then [224 + r / 4096; 128 + (r / 64) mod 64; 128 + r mod 64]
  else [240 + r / 262144; 128 + (r / 4096) mod 64; 128 + (r / 64) mod 64; 128 + r mod 64].

(* `for _, r := range s` / []rune(s): structural on a skip counter *)
Fixpoint runes_go (skip : nat) (s : str) : list N :=
  match s with
  | [] => []
  | _ :: s' =>
      match skip with
      | S k => runes_go k s'
      | O => let '(r, w) := decode_rune s in r :: runes_go (w - 1) s'
      end
  end.
Definition runes (s : str) : list N := runes_go 0 s.
Definition of_runes (rs : list N) : str := flat_map encode_rune rs.

(* unicode.IsSpace *)
Definition is_space_rune (r : N) : bool :=
  in_rng 9 13 r || (r =? 32) || (r =? 133) || (r =? 160) || (r =? 5760)
  || in_rng 8192 8202 r || (r =? 8232) || (r =? 8233) || (r =? 8239)
  || (r =? 8287) || (r =? 12288).

(* strings.TrimLeftFunc(s, unicode.IsSpace) *)
Fixpoint trim_left_go (fuel : nat) (s : str) : str :=
  match fuel with
  | O => s
  | S f =>
      match s with
      | [] => []
      | _ => let '(r, w) := decode_rune s in
             if is_space_rune r then trim_left_go f (skipn w s) else s
      end
  end.
Definition trim_left_space (s : str) : str := trim_left_go (length s) s.

(* utf8.DecodeLastRuneInString on the reversed string [rs] (last byte first).
   Returns (rune, width). *)
Definition rune_start (b : N) : bool := negb (is_cont b).

Definition decode_last_rev (rs : str) : N * nat :=
  match rs with
  | [] => (rune_error, 0%nat)
  | b :: _ =>
    if b <? 128 then (b, 1%nat)
    else
      (* search backwards (at most UTFMax bytes) for a start byte *)
      let try (k : nat) : option (N * nat) :=
        let chunk := rev (firstn k rs) in
        match chunk with
        | c0 :: _ =>
          if rune_start c0 then
            let '(r, w) := decode_rune chunk in
            Some (if Nat.eqb w k then (r, w) else (rune_error, 1%nat))
          else None
        | [] => None
        end in
      let n := length rs in
      (* start-- first, so k begins at 2 *)
      match (if Nat.leb 2 n then try 2%nat else None) with
      | Some x => x
      | None =>
        match (if Nat.leb 3 n then try 3%nat else None) with
        | Some x => x
        | None =>
          match (if Nat.leb 4 n then try 4%nat else None) with
          | Some x => x
          | None =>
            (* no start byte within the window: Go decodes from the clamped start *)
            let k := Nat.min 4 n in
            let chunk := rev (firstn k rs) in
            let '(r, w) := decode_rune chunk in
            if Nat.eqb w k then (r, w) else (rune_error, 1%nat)
          end
        end
      end
  end.

Fixpoint trim_right_go (fuel : nat) (rs : str) : str :=
  match fuel with
  | O => rs
  | S f =>
      match rs with
      | [] => []
      | _ => let '(r, w) := decode_last_rev rs in
             if is_space_rune r then trim_right_go f (skipn w rs) else rs
      end
  end.
Definition trim_right_space (s : str) : str := rev (trim_right_go (length s) (rev s)).

(* strings.TrimSpace *)
Definition trim_space (s : str) : str := trim_right_space (trim_left_space s).
