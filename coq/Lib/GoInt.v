(* Go's int (64 bit, two's complement) over Z. Model only. *)
From Coq Require Export ZArith Bool List.
Import ListNotations.
Open Scope Z_scope.

Definition two63 : Z := 9223372036854775808.
Definition two64 : Z := 18446744073709551616.
Definition min_int : Z := - two63.
Definition max_int : Z := two63 - 1.

(* the value an int64 holds after an operation whose mathematical result is z *)
Definition wrap64 (z : Z) : Z := (z + two63) mod two64 - two63.

Definition in_int (z : Z) : bool := (min_int <=? z) && (z <=? max_int).

(* decimal rendering of an int, as strconv.Itoa / %d *)
Fixpoint dec_digits (fuel : nat) (n : Z) (acc : list N) : list N :=
  match fuel with
  | O => acc
  | S f => let d := Z.to_N (n mod 10) in
           let acc' := (48 + d)%N :: acc in
           if n / 10 =? 0 then acc' else dec_digits f (n / 10) acc'
  end.
Definition itoa (z : Z) : list N :=
  if z <? 0 then 45%N :: dec_digits 25 (- z) [] else dec_digits 25 z [].
