(* Outcomes of model functions: every Go operation that can panic is a partial operation
   with an explicit Panic outcome, every unbounded loop/recursion runs on explicit fuel,
   and behaviour the model does not cover (library code, exotic kinds) is Unmod - a case
   the correspondence check skips and counts, never an alarm. *)
From Coq Require Export NArith List.
Inductive res (A : Type) : Type :=
| Ok (a : A)
| Err (kind : N)      (* a pongo2 *Error; kinds: 1 lex, 2 parse, 3 exec, 4 fromfile, 5 filter *)
| Unmod               (* outside the modelled fragment *)
| Fuel                (* fuel exhausted *)
| Panic (site : N).   (* the Go code would panic here *)
Arguments Ok {A} a. Arguments Err {A} kind. Arguments Unmod {A}. Arguments Fuel {A}.
Arguments Panic {A} site.

Definition bind {A B} (r : res A) (f : A -> res B) : res B :=
  match r with
  | Ok a => f a
  | Err k => Err k
  | Unmod => Unmod
  | Fuel => Fuel
  | Panic s => Panic s
  end.
Notation "'do' x <- r ; k" := (bind r (fun x => k)) (at level 200, x name, r at level 100, k at level 200).
Notation "'do' ' p <- r ; k" := (bind r (fun x => match x with p => k end))
  (at level 200, p pattern, r at level 100, k at level 200).

Definition of_opt {A} (o : option A) : res A := match o with Some a => Ok a | None => Unmod end.
