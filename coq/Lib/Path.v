(* path/filepath on Unix: Clean, Dir, Join, IsAbs (lexical only). Model only. *)
From PV Require Export Lib.Bytes.
Open Scope N_scope.

Definition slash : N := 47.
Definition dot : str := [46].
Definition dotdot : str := [46; 46].

Definition clean_step (rooted : bool) (stack : list str) (e : str) : list str :=
  match e with
  | [] => stack
  | _ =>
      if str_eqb e dot then stack
      else if str_eqb e dotdot then
        match stack with
        | top :: rest => if str_eqb top dotdot then e :: stack else rest
        | [] => if rooted then [] else [e]
        end
      else e :: stack
  end.

Definition path_clean (p : str) : str :=
  match p with
  | [] => dot
  | c :: _ =>
      let rooted := c =? slash in
      let elems := split_go [slash] 0 [] p in
      let stack := fold_left (clean_step rooted) elems [] in
      let body := join_go [slash] (rev stack) in
      match (if rooted then slash :: body else body) with
      | [] => dot
      | r => r
      end
  end.

(* everything up to and including the last slash *)
Fixpoint dir_part (p : str) : str :=
  match p with
  | [] => []
  | c :: p' =>
      let d := dir_part p' in
      match d with
      | [] => if c =? slash then [c] else []
      | _ => c :: d
      end
  end.
Definition path_dir (p : str) : str := path_clean (dir_part p).

Definition path_join2 (a b : str) : str :=
  match a, b with
  | [], [] => []
  | [], _ => path_clean b
  | _, [] => path_clean a
  | _, _ => path_clean (a ++ [slash] ++ b)
  end.

Definition path_is_abs (p : str) : bool := match p with c :: _ => c =? slash | [] => false end.

(* FSLoader.Abs(base, name) = filepath.Join(filepath.Dir(base), name) *)
Definition fsloader_abs (base name : str) : str := path_join2 (path_dir base) name.
