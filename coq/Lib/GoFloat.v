(* Go's float64 as IEEE binary64 through Coq.Floats.SpecFloat (pure Gallina over Z, no
   axioms; extracts with ExtrOcamlBasic).  Model only. *)
From Coq Require Export Floats.SpecFloat.
From PV Require Export Lib.Bytes Lib.GoInt.
Open Scope Z_scope.

Definition float := spec_float.
Definition fprec : Z := 53.
Definition femax : Z := 1024.

Definition f_of_int (z : Z) : float := binary_normalize fprec femax z 0 false.
Definition f_add : float -> float -> float := SFadd fprec femax.
Definition f_sub : float -> float -> float := SFsub fprec femax.
Definition f_mul : float -> float -> float := SFmul fprec femax.
Definition f_div : float -> float -> float := SFdiv fprec femax.
Definition f_neg (x : float) : float := f_mul (f_of_int (-1)) x.   (* Go writes -1 * x *)
Definition f_ltb : float -> float -> bool := SFltb.
Definition f_leb : float -> float -> bool := SFleb.
Definition f_eqb : float -> float -> bool := SFeqb.
Definition f_is_zero (x : float) : bool := match x with S754_zero _ => true | _ => false end.
Definition f_zero : float := S754_zero false.

(* int(f) as amd64 does it: truncation; NaN, infinities and out-of-range values give the
   "integer indefinite" value -2^63 *)
Definition f_to_int (x : float) : Z :=
  match x with
  | S754_zero _ => 0
  | S754_finite s m e =>
      let mag := if 0 <=? e then Zpos m * 2 ^ e else Zpos m / 2 ^ (- e) in
      let v := if s then - mag else mag in
      if in_int v then v else min_int
  | _ => min_int
  end.

(* float64(int(f)) == f : the value is integral and in range *)
Definition f_is_integral (x : float) : bool := f_eqb (f_of_int (f_to_int x)) x.

(* fmt's %f / strconv.FormatFloat(f, 'f', 6, 64): exact decimal expansion of the binary
   value rounded half-to-even at [decimals] digits *)
Definition pad_left_zeros (n : nat) (s : list N) : list N :=
  List.repeat 48%N (n - length s) ++ s.

(* the integral part of a float64 has up to 309 digits: [itoa]'s 25 are not enough here *)
Definition itoa_wide (z : Z) : list N := dec_digits 400 z [].

Definition format_fixed (decimals : nat) (x : float) : list N :=
  match x with
  | S754_nan => [78; 97; 78]%N
  | S754_infinity s => (if s then 45 else 43)%N :: [73; 110; 102]%N
  | S754_zero s =>
      (if s then [45%N] else []) ++ [48%N] ++
      (match decimals with O => [] | _ => 46%N :: List.repeat 48%N decimals end)
  | S754_finite s m e =>
      let scale := 10 ^ Z.of_nat decimals in
      let q :=
        if 0 <=? e then Zpos m * 2 ^ e * scale
        else
          let num := Zpos m * scale in
          let den := 2 ^ (- e) in
          let q0 := num / den in
          let r := num mod den in
          if 2 * r <? den then q0
          else if den <? 2 * r then q0 + 1
          else if Z.even q0 then q0 else q0 + 1 in
      let ip := q / scale in
      let fp := q mod scale in
      (if s then [45%N] else []) ++ itoa_wide ip ++
      (match decimals with
       | O => []
       | _ => 46%N :: pad_left_zeros decimals (itoa fp)
       end)
  end.
Definition format6 (x : float) : list N := format_fixed 6 x.

(* digits of a decimal string as a number; None if a byte is not a digit *)
Fixpoint digits_val (s : list N) (acc : Z) : option Z :=
  match s with
  | [] => Some acc
  | b :: s' => if ((48 <=? b) && (b <=? 57))%N then digits_val s' (acc * 10 + Z.of_N (b - 48)) else None
  end.

(* strconv.ParseFloat on "ip.fp" (both digit strings), exact when the digits fit in 2^53
   and there are at most 15 fractional digits (then both operands of the division are
   exact floats and the quotient is correctly rounded); None = outside the modelled domain *)
Definition two53 : Z := 9007199254740992.
Definition parse_decimal (ip fp : list N) : option float :=
  match digits_val (ip ++ fp) 0 with
  | None => None
  | Some n =>
      if (n <? two53) && Nat.leb (length fp) 15
      then Some (f_div (f_of_int n) (f_of_int (10 ^ Z.of_nat (length fp))))
      else None
  end.

(* math.Pow on the domain the generators use: integral base and small non-negative
   integral exponent with an exactly representable result; None elsewhere *)
Definition f_pow (a b : float) : option float :=
  if f_is_integral a && f_is_integral b then
    let x := f_to_int a in
    let n := f_to_int b in
    if (0 <=? n) && (n <=? 64) && (Z.abs x <? two53) then
      let r := x ^ n in
      if Z.abs r <? two53 then Some (f_of_int r) else None
    else None
  else None.
