(* A small deep-embedded fragment of Go: the syntax that tools/go2v/wrappers.go translates the
   entry-point wrappers of template.go into (gen/Wrappers.v), statement by statement.
   Only syntax here; the meaning is given in Spec/SpecWrappers.v.

   Everything the translator does not recognise becomes GEUnknown / GSUnknown carrying the Go
   source text (and the translator reports a PROBLEM); the interpretation of such a node is the
   distinguished result "not understood", so nothing can be proved about a function that
   contains one on a path that is taken. *)
From Coq Require Export String List.
Export ListNotations.

Inductive gexpr :=
| GEVar (x : string)                                      (* x *)
| GENil                                                   (* nil *)
| GEStr (s : string)                                      (* "..." *)
| GEField (e : gexpr) (f : string)                        (* e.f *)
| GEMethod (recv : gexpr) (m : string) (args : list gexpr)   (* recv.m(args) *)
| GECall (pkg fn : string) (args : list gexpr)            (* pkg.fn(args); pkg = "" for fn(args) *)
| GEAddrStruct (ty : string) (fields : list (string * gexpr))   (* &ty{f: e, ...} *)
| GEConv (ty : string) (e : gexpr)                        (* []byte(e), string(e) *)
| GEEmptyBytes                                            (* make([]byte, 0[, capacity]) - the capacity is a hint, dropped *)
| GENotNil (e : gexpr)                                    (* e != nil *)
| GEIsNil (e : gexpr)                                     (* e == nil *)
| GEUnknown (src : string).                               (* not translated *)

Inductive gstmt :=
| GSDefine (lhs : list string) (rhs : list gexpr)         (* a, b := e   or   a, b := e1, e2 *)
| GSAssign (lhs : list string) (rhs : list gexpr)         (* a, b = e    ("_" discards) *)
| GSIf (init : list gstmt) (cond : gexpr) (thn els : list gstmt)
                                                          (* if init; cond { thn } else { els } - init has 0 or 1 statement *)
| GSReturn (es : list gexpr)                              (* return e1, e2   or   return f() *)
| GSExpr (e : gexpr)                                      (* a call as a statement *)
| GSUnknown (src : string).                               (* not translated *)

(* func (recvname *recvtype) name(params) (nres results) { body } *)
Record gfunc := mkGF {
  gf_recv : option (string * string);   (* receiver name and (pointer-stripped) type *)
  gf_name : string;
  gf_params : list string;
  gf_nres : nat;
  gf_body : list gstmt }.
