(* A small deep-embedded fragment of Go: the syntax that tools/go2v/wrappers.go translates the
   entry-point wrappers of template.go into (gen/Wrappers.v), statement by statement.
   Only syntax here; the meaning is given in Spec/SpecWrappers.v.

   Everything the translator does not recognise becomes GEUnknown / GSUnknown carrying the Go
   source text (and the translator reports a PROBLEM); the interpretation of such a node is the
   distinguished result "not understood", so nothing can be proved about a function that
   contains one on a path that is taken.

   Two interpretations use this syntax: Spec/SpecWrappers.v (gen/Wrappers.v, the wrappers of
   template.go; it covers the constructors above the line "second fragment" only, the others are
   stuck there) and Spec/SpecSetFuncs.v (gen/SetFuncs.v, the template set's functions of
   template_sets.go), which needs maps, a mutex, defer, a range loop and boolean operators.
   A third one, Spec/SpecLoaderFuncs.v (gen/LoaderFuncs.v, the loader lookup of template_sets.go),
   needs the constructors below the line "third fragment" as well; they are stuck in the other
   two interpretations.  A fourth one, Spec/SpecTagFuncs.v (gen/TagFuncs.v, the Execute methods of
   the branching tags: tags_if.go, tags_firstof.go, tags_ifequal.go, tags_ifnotequal.go), adds
   integer + and > ("fourth fragment"; stuck in the other three); its range loop is GSRange, whose
   key is the index.  A fifth one, Spec/SpecTagFuncs2.v (the Execute methods of the tags that keep
   state, also in gen/TagFuncs.v: tags_set.go, tags_autoescape.go, tags_ifchanged.go), adds the
   comma-ok type assertion, append, make of an empty slice, %, break and x.f++ ("fifth fragment";
   stuck in the other four). *)
From Coq Require Export String List.
Export ListNotations.

Inductive gexpr :=
| GEVar (x : string)                                      (* x *)
| GENil                                                   (* nil *)
| GEStr (s : string)                                      (* "..." *)
| GEField (e : gexpr) (f : string)                        (* e.f *)
| GEMethod (recv : gexpr) (m : string) (args : list gexpr)   (* recv.m(args) *)
| GECall (pkg fn : string) (args : list gexpr)            (* pkg.fn(args); pkg = "" for fn(args) *)
| GEAddrStruct (ty : string) (fields : list (string * gexpr))   (* &ty{f: e, ...} *)
| GEConv (ty : string) (e : gexpr)                        (* []byte(e), string(e) *)
| GEEmptyBytes                                            (* make([]byte, 0[, capacity]) - the capacity is a hint, dropped *)
| GENotNil (e : gexpr)                                    (* e != nil *)
| GEIsNil (e : gexpr)                                     (* e == nil *)
| GEUnknown (src : string)                                (* not translated *)
(* --- second fragment (tools/go2v/setfuncs.go) --- *)
| GEBool (b : bool)                                       (* true, false *)
| GEInt (n : nat)                                         (* a non-negative integer literal *)
| GENot (e : gexpr)                                       (* !e *)
| GEAnd (a b : gexpr)                                     (* a && b (b only when a is true) *)
| GEOr (a b : gexpr)                                      (* a || b (b only when a is false) *)
| GEEq (a b : gexpr)                                      (* a == b, neither side the literal nil *)
| GENe (a b : gexpr)                                      (* a != b, neither side the literal nil *)
| GELen (e : gexpr)                                       (* len(e) *)
| GEIndexOk (m k : gexpr)                                 (* m[k] in "v, ok := m[k]" / "v, ok = m[k]": two values *)
| GEMakeMap                                               (* make(map[K]V[, hint]) - a fresh empty map; the hint is dropped *)
| GEAddr (e : gexpr)                                      (* &e, e a field selection *)
(* --- third fragment (tools/go2v/loaderfuncs.go) --- *)
| GEIndex (e i : gexpr)                                   (* e[i], one value; panics when i is out of range *)
(* --- fourth fragment (tools/go2v/tagfuncs.go) --- *)
| GEAdd (a b : gexpr)                                     (* a + b on integers *)
| GEGt (a b : gexpr)                                      (* a > b on integers *)
(* --- fifth fragment (tools/go2v/tagfuncs.go, the tags with state) --- *)
| GETypeAssertOk (e : gexpr) (ty : string)                (* e.( *ty) in "v, ok := e.( *ty)": two values *)
| GEAppend (s x : gexpr)                                  (* append(s, x) *)
| GEEmptySlice (ty : string)                              (* make([]ty, 0[, hint]), ty not byte - empty; the hint is dropped *)
| GERem (a b : gexpr).                                    (* a % b on integers *)

Inductive gstmt :=
| GSDefine (lhs : list string) (rhs : list gexpr)         (* a, b := e   or   a, b := e1, e2 *)
| GSAssign (lhs : list string) (rhs : list gexpr)         (* a, b = e    ("_" discards) *)
| GSIf (init : list gstmt) (cond : gexpr) (thn els : list gstmt)
                                                          (* if init; cond { thn } else { els } - init has 0 or 1 statement *)
| GSReturn (es : list gexpr)                              (* return e1, e2   or   return f() *)
| GSExpr (e : gexpr)                                      (* a call as a statement *)
| GSUnknown (src : string)                                (* not translated *)
(* --- second fragment --- *)
| GSMapStore (m k v : gexpr)                              (* m[k] = v *)
| GSFieldStore (obj : gexpr) (f : string) (v : gexpr)     (* obj.f = v *)
| GSDelete (m k : gexpr)                                  (* delete(m, k) *)
| GSRange (key val : string) (coll : gexpr) (body : list gstmt)
                                                          (* for key, val := range coll { body }  ("_" discards; no break/continue) *)
| GSDefer (call : gexpr)                                  (* defer recv.m(args) *)
(* --- third fragment --- *)
| GSVar (names : list string) (ty : string)               (* var a, b T  - declared with the zero value of T *)
| GSRangeSet (key val : string) (coll : gexpr) (body : list gstmt)
                                                          (* for key, val = range coll { body }: assigns existing
                                                             variables ("_" discards); a return in the body of either
                                                             range form leaves the function *)
| GSResults (decls : list (string * string))              (* the named results (name, type) of the function, as the first
                                                             statement of its body: variables of the function's scope with
                                                             their zero values; GSReturn [] returns their current values *)
(* --- fifth fragment --- *)
| GSBreak                                                 (* break: leaves the innermost range loop *)
| GSIncField (obj : gexpr) (f : string).                  (* obj.f++ *)

(* func (recvname *recvtype) name(params) (nres results) { body } *)
Record gfunc := mkGF {
  gf_recv : option (string * string);   (* receiver name and (pointer-stripped) type *)
  gf_name : string;
  gf_params : list string;
  gf_nres : nat;
  gf_body : list gstmt }.
