(* Property C13 - macros.
   Calling a macro renders its body with the i-th argument bound to the i-th parameter,
   omitted parameters bound to their default expression (or to nil), and returns the rendered
   text as already-escaped markup; too many arguments is an execution error.  An exported
   macro imported into another template (optionally under an alias) behaves exactly like the
   same macro defined locally.  Runaway recursion - direct or mutual, through local or
   imported macros - ends in an execution error after a fixed depth.

   All statements are about [call_macro fuel st m fidx args] of the executor model
   (Model/Exec.v): [m] is the macro, [fidx] the index (from the bottom of the frame stack) of
   the frame it was bound in - a context entry [CMacro m fidx] is such a closure - and
   [args] the evaluated arguments.  Vocabulary (macro_ctx, macro_frame, enter_macro,
   leave_macro, below_view, loops_in, bind_macro ...) in Spec/SpecFlow.v.  How the model
   counts depth: not on the frame a call pushes (always depth 0) but on the defining frame,
   one up for the duration of each call of a macro bound there.

   What each theorem contributes:
     C13_macro_call_step        the call, step by step, when everything succeeds
     C13_macro_call             the same as one equation when the defaults have no side effect
     C13_defaults_pure          what the default bindings are
     C13_macro_binding_*        argument i -> parameter i, default for the rest, closure otherwise
     C13_too_many_args(_err)    never Ok; Err 3 once the defaults are through
     C13_result_safe            an Ok result is safe text
     C13_depth_limit            at the bound: Err 3, body not run
     C13_depth_counts           where the body runs: defining frame one level deeper, new frame on top
     C13_runaway_recursion      any cycle of parameterless macros calling each other: Err 3
     C13_runaway_direct/_mutual the two special cases named in the property
     C13_import_equals_local    import m  =  define m
     C13_import_alias           ... under an alias: the same closure under another name
     C13_call_name_irrelevant   and the name plays no role in a call
     C13_import_many            import of several macros = their definitions in a row
     C13_first_call_allowed     (table) the bound is positive: calls from depth 0 pass the guard *)
(* ---- second part (statements appended below) ---- *)
(* Property C13 - macros, second part: recursion through macros is bounded for ALL macros.

   "Runaway recursion - direct or mutual, through local or imported macros - ends in an
   execution error after a fixed depth instead of exhausting the stack."

   How the executor model (Model/Exec.v) bounds it: [call_macro] counts one level up on the
   depth counter [f_depth] of the frame the macro was bound in (the DEFINING frame, number
   [fidx] from the bottom of the frame stack) for the duration of the call, and refuses
   (Err 3) when the counter would exceed [max_macro_depth] (gen/Tables.v).  Props/C13.v says
   what one call does (C13_depth_limit, C13_depth_counts) and that particular families of
   macros end in Err 3.  This file is about every execution, whatever the templates, the
   context and the macros are:

     - the counters of all frames are within 0 .. max_macro_depth in every state in which one
       of the 17 functions of the executor starts ([depths_ok], a safety invariant);
     - a call that returns leaves every counter as it was;
     - a frame's counter IS the number of active calls of macros bound in that frame, so
       there are never more than max_macro_depth of them.

   Vocabulary (Spec/SpecDepth.v): [call] = one invocation of one of the 17 functions (fuel,
   start state, arguments); [run c] = what it returns (RDone st' / ROutOfFuel / RFailed);
   [sub c c'] = invocation c makes the direct recursive call c' (a transcript of the call
   sites of Model/Exec.v); [path c0 callers c] = c0 calls ... calls c, [callers] being the
   invocations that are active when c starts (the call stack, outermost first);
   [macro_calls_on i callers] = how many of them are calls of a macro bound in frame i;
   [reachable c] = c happens in the execution of some template started on the empty stack.

   What each theorem contributes:
     C13_depth_restored            a call of any of the 17 functions that returns leaves the
                                   counters of all frames as they were
     C13_depths_ok_preserved       ... hence the invariant holds again afterwards
     C13_depths_ok_at_call_sites   every call site starts its callee in a state satisfying the
                                   invariant, if the caller was started in one
     C13_every_call_listed         [sub] misses no call site: an invocation with fuel left runs
                                   out of fuel only if a call listed by [sub] does (or the
                                   template compiler run by a lazy include does)
     C13_listed_calls_happen       and lists no call that is not made: if a listed call runs out
                                   of fuel, so does the caller ([sub] is the call relation)
     C13_calls_use_fuel            every listed call runs on one unit of fuel less
     C13_depths_ok_along_calls     the invariant along a whole chain of nested calls
     C13_depths_ok_reachable       the invariant in every state in which a node, an expression,
                                   ... starts executing, from any root state, for any template
                                   and any context
     C13_call_site_counts          one call site: the counter of a frame that caller and callee
                                   both see is the same, one more if the caller is a call of a
                                   macro bound in that frame
     C13_new_frames_start_at_zero  one call site: frames the caller does not have start at 0
     C13_macro_call_guarded        a macro call that gets as far as calling anything found its
                                   defining frame's counter below the bound
     C13_depth_counts_active_calls along a chain of nested calls during which frame i stays in
                                   view: counter of frame i at the end = counter at the start +
                                   number of active calls of macros bound in frame i
     C13_nesting_bounded           ... so that number never exceeds max_macro_depth
     C13_nesting_bounded_reachable the same inside an execution (no hypothesis on the state)
     C13_frames_pushed_by          one call site adds at most one frame, and only call_macro,
                                   Super, for, with and the entry into a template do
     C13_stack_height              the stack grows by at most the number of such active
                                   invocations (of which the macro calls are bounded per
                                   defining frame by C13_nesting_bounded)
     C13_height_unbounded_for_arbitrary_trees
                                   NEGATIVE: there is no bound on the height of the frame stack
                                   that holds for all syntax trees: a tree whose block table
                                   makes a block contain itself (the parser never builds one)
                                   reaches every height, given fuel, without any macro
     C13b_example_two_active_calls the hypotheses of the chain theorems hold of a concrete run
                                   of {% macro m() %}{{ m() }}{% endmacro %}{{ m() }}
     C13b_macro_depth_nonneg       (table) the bound is not negative: fresh frames are within it

   Not proved: a bound on the HEIGHT of the frame stack in terms of the static nesting depth
   of the templates and max_macro_depth.  For arbitrary trees there is none (see above; also a
   lazy include may include itself); for trees as the parser builds them, without lazy
   includes, the height is at most exponential in the nesting depth (every frame has at most
   max_macro_depth + 1 live children: macro calls on it, and the frame directly above it), but
   that needs an invariant tying every closure to the code of its defining frame and is not
   done here. *)
From PV Require Import Model.Exec Model.Api Spec.SpecFlow.
From PV Require Import gen.Tables.
From PV Require Import gen.Scalar Tie.C13.
From Coq Require Import List ZArith.
From PV Require Import Model.Exec Spec.SpecFlow Spec.SpecDepth.
From PV Require Import Tie.C13b.
Import ListNotations.
Open Scope N_scope.

(* ------------------------------------------------------------------ the call *)

Theorem C13_macro_call_step :
  forall se globals f st mname params body ex fidx args dfr dvals st_d dfr1 out st2,
    frame_at st fidx = Some dfr ->
    (f_depth dfr + 1 <= max_macro_depth)%Z ->
    (* the defaults are evaluated in the defining context: the stack up to frame fidx *)
    macro_defaults se globals f (below_view (enter_macro st fidx dfr) fidx) params = Ok (dvals, st_d) ->
    (length args <= length params)%nat ->
    frame_at (rejoin (frames_above (enter_macro st fidx dfr) fidx) st_d) fidx = Some dfr1 ->
    (* the body runs in a new frame on top, whose context is [macro_ctx] *)
    exec_nodes se globals f
      (push_frame (rejoin (frames_above (enter_macro st fidx dfr) fidx) st_d)
                  (macro_frame dfr1 dvals params args)) body = (out, Ok st2) ->
    call_macro se globals (S f) st (Macro mname params body ex) fidx args =
      Ok (as_safe_value (VStr out), leave_macro st2 fidx).
Proof. exact macro_call_step. Qed.
Print Assumptions C13_macro_call_step.

(* defaults without side effect: the call is the body in the frame [macro_frame] on top of the
   stack (defining frame counted one level deeper); errors of the body become Err 3 *)
Theorem C13_macro_call :
  forall se globals st mname params body ex fidx args dfr ds,
    frame_at st fidx = Some dfr ->
    (f_depth dfr + 1 <= max_macro_depth)%Z ->
    Forall2 (default_evals se globals (below_view (enter_macro st fidx dfr) fidx)) params ds ->
    (length args <= length params)%nat ->
    exists f0, forall f, (f0 <= f)%nat ->
      call_macro se globals (S f) st (Macro mname params body ex) fidx args =
        match exec_nodes se globals f
                (push_frame (enter_macro st fidx dfr)
                   (macro_frame (with_depth dfr (f_depth dfr + 1)) (default_bindings params ds) params args))
                body with
        | (out, Ok st2) => Ok (as_safe_value (VStr out), leave_macro st2 fidx)
        | (_, Err k) => Err 3
        | (_, Unmod) => Unmod
        | (_, Fuel) => Fuel
        | (_, Panic s) => Panic s
        end.
Proof. exact macro_call_pure. Qed.
Print Assumptions C13_macro_call.

Theorem C13_defaults_pure :
  forall se globals st params ds,
    Forall2 (default_evals se globals st) params ds ->
    exists f0, forall f, (f0 <= f)%nat ->
      macro_defaults se globals f st params = Ok (default_bindings params ds, st).
Proof. exact macro_defaults_pure. Qed.
Print Assumptions C13_defaults_pure.

(* ------------------------------------------------------------------ the bindings *)
(* (distinct parameter names; [defctx] is the private context of the defining frame) *)

Theorem C13_macro_binding_arg :
  forall defctx params ds args i nm d a,
    NoDup (map fst params) ->
    nth_error params i = Some (nm, d) -> nth_error args i = Some a ->
    ctx_get nm (macro_ctx defctx (default_bindings params ds) params args) = Some (CV (as_value (vv a))).
Proof. exact macro_ctx_arg. Qed.
Print Assumptions C13_macro_binding_arg.

Theorem C13_macro_binding_default :
  forall defctx params ds args i nm d dv,
    NoDup (map fst params) -> length ds = length params ->
    (length args <= i)%nat ->
    nth_error params i = Some (nm, d) -> nth_error ds i = Some dv ->
    ctx_get nm (macro_ctx defctx (default_bindings params ds) params args) = Some (CV dv).
Proof. exact macro_ctx_default. Qed.
Print Assumptions C13_macro_binding_default.

Theorem C13_macro_binding_other :
  forall defctx params ds args k,
    ~ In k (map fst params) ->
    ctx_get k (macro_ctx defctx (default_bindings params ds) params args) = ctx_get k defctx.
Proof. exact macro_ctx_other. Qed.
Print Assumptions C13_macro_binding_other.

(* non-vacuity: m(a, b=2) called as m(1) from a frame that is not inside a call *)
Example C13_macro_witness : forall se globals st (fidx : nat) (dfr : frame),
  f_depth dfr = 0%Z ->
  let params := [([97], None); ([98], Some (EInt 2))] in
  let ds := [as_value VNil; as_value (VInt 2)] in
  let args := [as_value (VInt 1)] in
  Forall2 (default_evals se globals (below_view (enter_macro st fidx dfr) fidx)) params ds /\
  NoDup (map fst params) /\ (length args <= length params)%nat /\
  ctx_get [97] (macro_ctx (f_priv dfr) (default_bindings params ds) params args) = Some (CV (as_value (VInt 1))) /\
  ctx_get [98] (macro_ctx (f_priv dfr) (default_bindings params ds) params args) = Some (CV (as_value (VInt 2))).
Proof. exact ex_macro_hyps. Qed.

Theorem C13_first_call_allowed : forall dfr : frame,
  f_depth dfr = 0%Z -> (f_depth dfr + 1 <= max_macro_depth)%Z.
Proof. exact tie_first_call_allowed. Qed.
Print Assumptions C13_first_call_allowed.

(* ------------------------------------------------------------------ too many arguments *)

Theorem C13_too_many_args :
  forall se globals fuel st m fidx args r,
    (length (macro_params m) < length args)%nat ->
    call_macro se globals fuel st m fidx args <> Ok r.
Proof. exact too_many_args. Qed.
Print Assumptions C13_too_many_args.

(* it is the execution error Err 3, unless the defaults already failed *)
Theorem C13_too_many_args_err :
  forall se globals f st mname params body ex fidx args dfr dvals st_d,
    (length params < length args)%nat ->
    frame_at st fidx = Some dfr ->
    macro_defaults se globals f (below_view (enter_macro st fidx dfr) fidx) params = Ok (dvals, st_d) ->
    call_macro se globals (S f) st (Macro mname params body ex) fidx args = Err 3.
Proof. exact too_many_args_err. Qed.
Print Assumptions C13_too_many_args_err.

(* ------------------------------------------------------------------ the result *)

Theorem C13_result_safe :
  forall se globals fuel st m fidx args v st',
    call_macro se globals fuel st m fidx args = Ok (v, st') ->
    vsafe v = true /\ exists out, vv v = VStr out.
Proof. exact result_safe. Qed.
Print Assumptions C13_result_safe.

(* ------------------------------------------------------------------ depth *)

Theorem C13_depth_limit :
  forall se globals f st mname params body ex fidx args dfr,
    frame_at st fidx = Some dfr ->
    (max_macro_depth <= f_depth dfr)%Z ->
    call_macro se globals (S f) st (Macro mname params body ex) fidx args = Err 3.
Proof. exact depth_limit. Qed.
Print Assumptions C13_depth_limit.

(* the state the body starts in (see C13_macro_call): the defining frame counts one level
   more - so a call from the body of a macro bound in the same frame is one level deeper -
   and the frame on top is the call's own *)
Theorem C13_depth_counts :
  forall st fidx dfr mfr,
    frame_at st fidx = Some dfr ->
    frame_at (push_frame (enter_macro st fidx dfr) mfr) fidx = Some (with_depth dfr (f_depth dfr + 1))
    /\ top_frame (push_frame (enter_macro st fidx dfr) mfr) = Ok mfr.
Proof. exact macro_body_state. Qed.
Print Assumptions C13_depth_counts.

(* a family of parameterless macros, bound in one frame, each of which just calls one of the
   family: every call into it ends in the execution error, given enough fuel - it is cut by
   the depth guard, not by fuel or a crash *)
Theorem C13_runaway_recursion :
  forall se globals (P : macro -> Prop) fidx st dfr m,
    frame_at st fidx = Some dfr ->
    loops_in (f_priv dfr) fidx P -> P m ->
    exists f0, forall f, (f0 <= f)%nat -> call_macro se globals f st m fidx [] = Err 3.
Proof. exact runaway_recursion. Qed.
Print Assumptions C13_runaway_recursion.

(* {% macro m() %}{{ m() }}{% endmacro %} *)
Theorem C13_runaway_direct :
  forall se globals name ex st fidx dfr,
    frame_at st fidx = Some dfr ->
    ctx_get name (f_priv dfr) = Some (CMacro (Macro name [] [call_node name] ex) fidx) ->
    exists f0, forall f, (f0 <= f)%nat ->
      call_macro se globals f st (Macro name [] [call_node name] ex) fidx [] = Err 3.
Proof. exact runaway_direct. Qed.
Print Assumptions C13_runaway_direct.

(* a() calls b(), b() calls a(); n1, n2 may as well be aliases of imported macros *)
Theorem C13_runaway_mutual :
  forall se globals n1 n2 e1 e2 st fidx dfr,
    frame_at st fidx = Some dfr ->
    ctx_get n1 (f_priv dfr) = Some (CMacro (Macro n1 [] [call_node n2] e1) fidx) ->
    ctx_get n2 (f_priv dfr) = Some (CMacro (Macro n2 [] [call_node n1] e2) fidx) ->
    exists f0, forall f, (f0 <= f)%nat ->
      call_macro se globals f st (Macro n1 [] [call_node n2] e1) fidx [] = Err 3 /\
      call_macro se globals f st (Macro n2 [] [call_node n1] e2) fidx [] = Err 3.
Proof. exact runaway_mutual. Qed.
Print Assumptions C13_runaway_mutual.

(* ------------------------------------------------------------------ import *)

Theorem C13_import_equals_local :
  forall se globals fuel st m,
    exec_node se globals fuel st (NImport [(macro_name m, m)]) = exec_node se globals fuel st (NMacro m).
Proof. exact import_equals_local. Qed.
Print Assumptions C13_import_equals_local.

(* in general both bind a name to the closure of m over the current frame; only the name differs *)
Theorem C13_import_alias :
  forall se globals f st fr alias m,
    top_frame st = Ok fr ->
    exec_node se globals (S f) st (NImport [(alias, m)]) = xok [] (bind_macro st fr alias m) /\
    exec_node se globals (S f) st (NMacro m) = xok [] (bind_macro st fr (macro_name m) m).
Proof. exact macro_import_and_local. Qed.
Print Assumptions C13_import_alias.

Theorem C13_call_name_irrelevant :
  forall se globals fuel st n n' ps b e e' fidx args,
    call_macro se globals fuel st (Macro n ps b e) fidx args =
    call_macro se globals fuel st (Macro n' ps b e') fidx args.
Proof. exact call_macro_name_irrelevant. Qed.
Print Assumptions C13_call_name_irrelevant.

Theorem C13_import_many :
  forall se globals (ms : list (str * macro)) f f' st fr,
    top_frame st = Ok fr ->
    (forall am, In am ms -> fst am = macro_name (snd am)) ->
    exec_node se globals (S f) st (NImport ms) =
    exec_nodes se globals (S (length ms) + f') st (map (fun am => NMacro (snd am)) ms).
Proof. exact import_many. Qed.
Print Assumptions C13_import_many.

(* ------------------------------------------------------------------ whole templates *)
Definition c13_world : world := mkWorld [] false false [] [] [] [] [].

(* {% macro m(a, b=2) %}{{ a }}-{{ b }}{% endmacro %}{{ m(1) }}|{{ m(1,3) }}  renders  1-2|1-3 *)
Example C13_run_macro :
  api_render_string c13_world 
    [123;37;32;109;97;99;114;111;32;109;40;97;44;32;98;61;50;41;32;37;125;123;123;32;97;32;125;125;45;123;123;32;98;32;125;125;123;37;32;101;110;100;109;97;99;114;111;32;37;125;123;123;32;109;40;49;41;32;125;125;124;123;123;32;109;40;49;44;51;41;32;125;125] [] = OOk [49;45;50;124;49;45;51].
Proof. vm_compute. reflexivity. Qed.

(* {% macro m(a) %}<b>{{ a }}</b>{% endmacro %}{{ m('<') }}  renders  <b>&lt;</b> :
   the argument is escaped inside, the result is not escaped again *)
Example C13_run_safe :
  api_render_string c13_world 
    [123;37;32;109;97;99;114;111;32;109;40;97;41;32;37;125;60;98;62;123;123;32;97;32;125;125;60;47;98;62;123;37;32;101;110;100;109;97;99;114;111;32;37;125;123;123;32;109;40;39;60;39;41;32;125;125] [] = OOk [60;98;62;38;108;116;59;60;47;98;62].
Proof. vm_compute. reflexivity. Qed.

(* {% macro m(a) %}{{ a }}{% endmacro %}{{ m(1,2) }} : execution error *)
Example C13_run_too_many :
  api_render_string c13_world 
    [123;37;32;109;97;99;114;111;32;109;40;97;41;32;37;125;123;123;32;97;32;125;125;123;37;32;101;110;100;109;97;99;114;111;32;37;125;123;123;32;109;40;49;44;50;41;32;125;125] [] = OExecErr 3 [].
Proof. vm_compute. reflexivity. Qed.

(* {% macro m() %}{{ m() }}{% endmacro %}{{ m() }} : execution error (about 20 s of computation) *)
Example C13_run_runaway :
  api_render_string c13_world 
    [123;37;32;109;97;99;114;111;32;109;40;41;32;37;125;123;123;32;109;40;41;32;125;125;123;37;32;101;110;100;109;97;99;114;111;32;37;125;123;123;32;109;40;41;32;125;125] [] = OExecErr 3 [].
Proof. vm_cast_no_check (eq_refl (OExecErr 3 [])). Qed.

(* ---- the depth guard is the code's ----
   [go_macro_refuses] (gen/Scalar.v) is callGuarded's increment-and-compare, translated from /repo
   on every run; the model refuses a call exactly when (max_macro_depth <? depth + 1). *)
Theorem C13_depth_guard_is_the_code : forall d : Z,
  (- two63 <= d < two63 - 1)%Z -> go_macro_refuses d = (max_macro_depth <? d + 1)%Z.
Proof. exact e2_macro_guard. Qed.
Print Assumptions C13_depth_guard_is_the_code.


(* ==================== second part ==================== *)

(* ------------------------------------------------------------------ what a call leaves behind *)

Theorem C13_depth_restored :
  forall se globals c st',
    run se globals c = RDone st' -> depths st' = depths (call_state c).
Proof. exact tie_depth_restored. Qed.
Print Assumptions C13_depth_restored.

Theorem C13_depths_ok_preserved :
  forall se globals c st',
    run se globals c = RDone st' -> depths_ok (call_state c) -> depths_ok st'.
Proof. exact tie_depths_ok_preserved. Qed.
Print Assumptions C13_depths_ok_preserved.

(* ------------------------------------------------------------------ the invariant at every call *)

Theorem C13_depths_ok_at_call_sites :
  forall se globals c c',
    sub se globals c c' -> depths_ok (call_state c) -> depths_ok (call_state c').
Proof. exact tie_sub_depths_ok. Qed.
Print Assumptions C13_depths_ok_at_call_sites.

(* the list of call sites is complete: fuel runs out in a call at fuel 0 and every caller hands
   that up, so a call site missing from [sub] would make this false *)
Theorem C13_every_call_listed :
  forall se globals c,
    call_fuel c <> 0%nat -> run se globals c = ROutOfFuel ->
    (exists c', sub se globals c c' /\ run se globals c' = ROutOfFuel) \/ compiler_out_of_fuel se c.
Proof. exact tie_every_call_listed. Qed.
Print Assumptions C13_every_call_listed.

Theorem C13_listed_calls_happen :
  forall se globals c c',
    sub se globals c c' -> run se globals c' = ROutOfFuel -> run se globals c = ROutOfFuel.
Proof. exact tie_listed_calls_happen. Qed.
Print Assumptions C13_listed_calls_happen.

Theorem C13_calls_use_fuel :
  forall se globals c c', sub se globals c c' -> call_fuel c = S (call_fuel c').
Proof. exact tie_sub_fuel. Qed.
Print Assumptions C13_calls_use_fuel.

Theorem C13_depths_ok_along_calls :
  forall se globals c0 callers c,
    path se globals c0 callers c -> depths_ok (call_state c0) -> depths_ok (call_state c).
Proof. exact tie_path_depths_ok. Qed.
Print Assumptions C13_depths_ok_along_calls.

(* from any root state (a template started on the empty stack, any fuel, any id counter), for
   any template and any context *)
Theorem C13_depths_ok_reachable :
  forall se globals c, reachable se globals c -> depths_ok (call_state c).
Proof. exact tie_reachable_depths_ok. Qed.
Print Assumptions C13_depths_ok_reachable.

(* ------------------------------------------------------------------ the counter counts *)

Theorem C13_call_site_counts :
  forall se globals c c' i d d',
    sub se globals c c' ->
    depth_at (call_state c) i = Some d -> depth_at (call_state c') i = Some d' ->
    d' = (d + Z.of_nat (enters c i))%Z.
Proof. exact tie_sub_depth_at. Qed.
Print Assumptions C13_call_site_counts.

Theorem C13_new_frames_start_at_zero :
  forall se globals c c' i d',
    sub se globals c c' ->
    depth_at (call_state c) i = None -> depth_at (call_state c') i = Some d' -> d' = 0%Z.
Proof. exact tie_sub_new_frame_depth. Qed.
Print Assumptions C13_new_frames_start_at_zero.

Theorem C13_macro_call_guarded :
  forall se globals f st m fidx args c',
    sub se globals (KCallMacro f st m fidx args) c' ->
    exists d, depth_at st fidx = Some d /\ (d + 1 <= max_macro_depth)%Z.
Proof. exact tie_sub_macro_guard. Qed.
Print Assumptions C13_macro_call_guarded.

(* frame i is in view of every invocation of the chain: it is the same frame throughout (the
   stack only changes above the frames an active invocation sees, or is cut down to the
   defining frame while a macro's defaults are evaluated) *)
Theorem C13_depth_counts_active_calls :
  forall se globals c0 callers c,
    path se globals c0 callers c -> forall i d0,
    (forall k, In k (callers ++ [c]) -> (i < height (call_state k))%nat) ->
    depth_at (call_state c0) i = Some d0 ->
    depth_at (call_state c) i = Some (d0 + Z.of_nat (macro_calls_on i callers))%Z.
Proof. exact tie_path_depth_counts. Qed.
Print Assumptions C13_depth_counts_active_calls.

Theorem C13_nesting_bounded :
  forall se globals c0 callers c i,
    depths_ok (call_state c0) -> path se globals c0 callers c ->
    (forall k, In k (callers ++ [c]) -> (i < height (call_state k))%nat) ->
    (Z.of_nat (macro_calls_on i callers) <= max_macro_depth)%Z.
Proof. exact tie_nesting_bounded. Qed.
Print Assumptions C13_nesting_bounded.

Theorem C13_nesting_bounded_reachable :
  forall se globals c0 callers c i,
    reachable se globals c0 -> path se globals c0 callers c ->
    (forall k, In k (callers ++ [c]) -> (i < height (call_state k))%nat) ->
    (Z.of_nat (macro_calls_on i callers) <= max_macro_depth)%Z.
Proof. exact tie_reachable_nesting_bounded. Qed.
Print Assumptions C13_nesting_bounded_reachable.

(* ------------------------------------------------------------------ the height of the stack *)

Theorem C13_frames_pushed_by :
  forall se globals c c',
    sub se globals c c' ->
    (height (call_state c') <= S (height (call_state c)))%nat /\
    (height (call_state c') = S (height (call_state c)) -> pushes_frame c = true).
Proof. exact tie_sub_height. Qed.
Print Assumptions C13_frames_pushed_by.

Theorem C13_stack_height :
  forall se globals c0 callers c,
    path se globals c0 callers c ->
    (height (call_state c) <= height (call_state c0) + pushers callers)%nat.
Proof. exact tie_path_height. Qed.
Print Assumptions C13_stack_height.

Theorem C13_height_unbounded_for_arbitrary_trees :
  forall se (g : gstate) (n : nat), exists c,
    reachable se [] c /\ (n <= height (call_state c))%nat.
Proof. exact tie_self_block_height_unbounded. Qed.
Print Assumptions C13_height_unbounded_for_arbitrary_trees.

(* ------------------------------------------------------------------ instances *)

(* a run of ex_template (Spec/SpecDepth.v): c0 executes the template's nodes, c the body of the
   second nested call of m; frame 0 (the root frame, where m is bound) is in view throughout,
   two calls of m are active and the root frame's counter went from 0 to 2 *)
Example C13b_example_two_active_calls :
  exists c0 callers c,
    reachable ex_env [] c0 /\ path ex_env [] c0 callers c /\
    (forall k, In k (callers ++ [c]) -> (0 < height (call_state k))%nat) /\
    macro_calls_on 0 callers = 2%nat /\
    depth_at (call_state c0) 0 = Some 0%Z /\ depth_at (call_state c) 0 = Some 2%Z.
Proof. exact ex_two_active_calls. Qed.
Print Assumptions C13b_example_two_active_calls.

Theorem C13b_macro_depth_nonneg : (0 <=? max_macro_depth)%Z = true.
Proof. exact tie_macro_depth_nonneg. Qed.
Print Assumptions C13b_macro_depth_nonneg.
