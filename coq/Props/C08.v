(* Property C08 - a dotted or subscripted name denotes exactly the value obtained by following
   its steps through the context.
   [follow] (Spec/SpecWalk.v) is the reference, written from the property text: map key, struct
   field, sequence index; a missing key, an out-of-range index or a nil on the way is the empty
   value; a key or an index on something that has none is an execution error.
   Partial: the theorems cover paths of static steps (names and integer indexes, any length)
   over plain data, and the lookup order of the first name; subscripts with computed keys,
   method and function calls, pointers and Go-typed maps are exercised by the correspondence
   run and by the harness's reflection oracle against the real code only. *)
From PV Require Import Model.Exec Spec.SpecWalk.
From PV Require Import Tie.C08.
Open Scope N_scope.

(* following the remaining steps of a name through data is the reference, to any depth;
   in particular it never panics and never yields a wrong value *)
Theorem C08_walk_follows :
  forall se globals steps f st cur safe,
    (length steps < f)%nat ->
    walk se globals f st cur safe (map part_of steps) =
    match follow cur steps with
    | FVal v => Ok (mkV v safe, st)
    | FEmpty => Ok (as_value VNil, st)
    | FError => Err 3
    end.
Proof. exact tie_walk_follows. Qed.
Print Assumptions C08_walk_follows.

(* the first name: what a tag has set (private context) shadows the public context; the
   value found there is then followed by the reference *)
Theorem C08_resolve_data :
  forall se globals f st fr name v steps,
    top_frame st = Ok fr ->
    (match ctx_get name (f_priv fr) with Some c => Some c | None => ctx_get name (f_pub fr) end) = Some (CV v) ->
    (length steps < f)%nat ->
    resolve se globals (S f) st (PIdent name None :: map part_of steps) =
    match follow (vv v) steps with
    | FVal x => match vv v with VNil => Ok (as_value VNil, st) | _ => Ok (mkV x (vsafe v), st) end
    | FEmpty => Ok (as_value VNil, st)
    | FError => match vv v with VNil => Ok (as_value VNil, st) | _ => Err 3 end
    end.
Proof. exact tie_resolve_data. Qed.
Print Assumptions C08_resolve_data.

(* an unknown name is the empty value, whatever follows it *)
Theorem C08_resolve_unknown :
  forall se globals f st fr name steps,
    top_frame st = Ok fr ->
    ctx_get name (f_priv fr) = None -> ctx_get name (f_pub fr) = None ->
    resolve se globals (S f) st (PIdent name None :: map part_of steps) = Ok (as_value VNil, st).
Proof. exact tie_resolve_unknown. Qed.
Print Assumptions C08_resolve_unknown.

(* the public context of an execution is [ctx_update globals ctx] (Model/Exec.v root_frame):
   the caller's keys shadow the set's globals *)
Theorem C08_context_shadows_globals :
  forall ctx globals k,
    ctx_get k (ctx_update globals ctx) =
    match ctx_get k (rev ctx) with Some v => Some v | None => ctx_get k globals end.
Proof. exact tie_ctx_get_update. Qed.
Print Assumptions C08_context_shadows_globals.

Example C08_witness :
  follow w_data [SKey [98]; SKey [120]; SIdx 1] = FVal (VStr [104; 105]) /\
  follow w_data [SKey [98]; SKey [120]; SIdx 2] = FEmpty /\
  follow w_data [SKey [98]; SKey [121]; SIdx 0] = FEmpty /\
  follow w_data [SKey [98]; SKey [120]; SIdx 0; SIdx 0] = FError.
Proof. exact tie_c08_witness. Qed.
