(* Property C08 - a dotted or subscripted name denotes exactly the value obtained by following
   its steps through the context.
   [follow] (Spec/SpecWalk.v) is the reference, written from the property text: map key, struct
   field, sequence index; a missing key, an out-of-range index or a nil on the way is the empty
   value; a key or an index on something that has none is an execution error.
   Partial: the theorems cover paths of static steps (names and integer indexes, any length)
   over plain data, and the lookup order of the first name; subscripts with computed keys,
   method and function calls, pointers and Go-typed maps are exercised by the correspondence
   run and by the harness's reflection oracle against the real code only. *)
(* ---- second part (statements appended below) ---- *)
(* Property C08, second part - subscripts with computed keys, and the lookup order.

   A name  x.a.3[e]["k"]  denotes exactly the value obtained by looking x up and following the
   steps through the data.  [follow2] (Spec/SpecWalk2.v) is the reference, written from the
   property text; it extends Spec/SpecWalk.v's [follow] with the step  a[e]  carrying the
   value k the key expression evaluated to:
     list / string : an integer key indexes, out of range (negative included) is empty;
                     a key that is not an integer is empty;
     map           : a string key looks up; missing, or a key that is not a string, is empty;
     struct        : the key's text names the field;
     anything else : execution error;   a nil met on the way: empty.
   Only an integer is an index ([index_of_key]; pongo2 used to convert any key with
   Value.Integer(), repaired as fix D38); see the findings in Tie/C08b.v (tie_c08b_findings):
   a["1"], a[1.9], a[nil], a[true], a["x"], a[[]] are all empty; m[1] does NOT find the key
   "1" of a map; "abc"[1] is the number 98.
   Scope: key expressions that are PURE in the current state (evaluate without changing it -
   literals and data names are, C08_pure_literal_keys / C08_pure_name_key); parts without
   calls.  Method and function calls, pointers, Go-typed maps remain with the correspondence
   run and the harness's reflection oracle.

   What each theorem contributes:
     C08_walk_follows_subscripts  the remaining parts of a name, computed keys included, to any
                                  depth: the model's walk IS the reference;
     C08_follow2_extends, C08_sub_int_is_index, C08_sub_str_is_name, C08_sub_out_of_range,
     C08_sub_non_integer_key      the reference itself: it agrees with the first part's on static
                                  steps, a[i] is a.i on sequences, a["k"] is a.k on maps and
                                  structs, out of range is empty, a key that is not an integer
                                  is empty on a list or string;
     C08_lookup_order             the first name: private bindings of the top frame, then its
                                  public context; then the reference;
     C08_lookup_order_root        the public context of an execution is the caller's context over
                                  the set's globals: three levels;
     C08_set_shadows / C08_with_shadows / C08_for_shadows / C08_for_iteration_shadows
                                  after set, inside with, inside every iteration of for, the
                                  bound name denotes the bound value WHATEVER the context and
                                  the globals hold under that name (the statements quantify over
                                  every state);
     C08b_witness...              the hypotheses are met by real paths and templates. *)
From PV Require Import Model.Exec Spec.SpecWalk.
From PV Require Import Tie.C08.
From Coq Require Import List NArith ZArith.
From PV Require Import Model.Exec Spec.SpecWalk Spec.SpecWalk2.
From PV Require Import Tie.C08b.
Import ListNotations.
Open Scope N_scope.

(* following the remaining steps of a name through data is the reference, to any depth;
   in particular it never panics and never yields a wrong value *)
Theorem C08_walk_follows :
  forall se globals steps f st cur safe,
    (length steps < f)%nat ->
    walk se globals f st cur safe (map part_of steps) =
    match follow cur steps with
    | FVal v => Ok (mkV v safe, st)
    | FEmpty => Ok (as_value VNil, st)
    | FError => Err 3
    end.
Proof. exact tie_walk_follows. Qed.
Print Assumptions C08_walk_follows.

(* the first name: what a tag has set (private context) shadows the public context; the
   value found there is then followed by the reference *)
Theorem C08_resolve_data :
  forall se globals f st fr name v steps,
    top_frame st = Ok fr ->
    (match ctx_get name (f_priv fr) with Some c => Some c | None => ctx_get name (f_pub fr) end) = Some (CV v) ->
    (length steps < f)%nat ->
    resolve se globals (S f) st (PIdent name None :: map part_of steps) =
    match follow (vv v) steps with
    | FVal x => match vv v with VNil => Ok (as_value VNil, st) | _ => Ok (mkV x (vsafe v), st) end
    | FEmpty => Ok (as_value VNil, st)
    | FError => match vv v with VNil => Ok (as_value VNil, st) | _ => Err 3 end
    end.
Proof. exact tie_resolve_data. Qed.
Print Assumptions C08_resolve_data.

(* an unknown name is the empty value, whatever follows it *)
Theorem C08_resolve_unknown :
  forall se globals f st fr name steps,
    top_frame st = Ok fr ->
    ctx_get name (f_priv fr) = None -> ctx_get name (f_pub fr) = None ->
    resolve se globals (S f) st (PIdent name None :: map part_of steps) = Ok (as_value VNil, st).
Proof. exact tie_resolve_unknown. Qed.
Print Assumptions C08_resolve_unknown.

(* the public context of an execution is [ctx_update globals ctx] (Model/Exec.v root_frame):
   the caller's keys shadow the set's globals *)
Theorem C08_context_shadows_globals :
  forall ctx globals k,
    ctx_get k (ctx_update globals ctx) =
    match ctx_get k (rev ctx) with Some v => Some v | None => ctx_get k globals end.
Proof. exact tie_ctx_get_update. Qed.
Print Assumptions C08_context_shadows_globals.

Example C08_witness :
  follow w_data [SKey [98]; SKey [120]; SIdx 1] = FVal (VStr [104; 105]) /\
  follow w_data [SKey [98]; SKey [120]; SIdx 2] = FEmpty /\
  follow w_data [SKey [98]; SKey [121]; SIdx 0] = FEmpty /\
  follow w_data [SKey [98]; SKey [120]; SIdx 0; SIdx 0] = FError.
Proof. exact tie_c08_witness. Qed.


(* ==================== second part ==================== *)

(* following the parts of a name through data, computed keys included, is the reference, to any
   depth; in particular it never panics, never changes the state, never yields a wrong value *)
Theorem C08_walk_follows_subscripts :
  forall se globals f0 st parts steps,
    Forall2 (denotes (fun e k =>
               exists s, forall f, (f0 <= f)%nat -> eval se globals f st e = Ok (mkV k s, st)))
            parts steps ->
    forall f cur safe,
    (length steps + f0 < f)%nat ->
    walk se globals f st cur safe parts =
    match follow2 cur steps with
    | Found v => Ok (mkV v safe, st)
    | Empty => Ok (as_value VNil, st)
    | ExecError => Err 3
    | NotModelled => Unmod
    end.
Proof. exact tie_walk_follows_subscripts. Qed.
Print Assumptions C08_walk_follows_subscripts.

(* the reference extends the one of the first part *)
Theorem C08_follow2_extends :
  forall steps cur, follow2 cur (map lift_step steps) = lift_found (follow cur steps).
Proof. exact tie_follow2_extends. Qed.
Print Assumptions C08_follow2_extends.

(* a computed integer key is the static index, on everything but maps and structs *)
Theorem C08_sub_int_is_index :
  forall cur i rest, keyed cur = None ->
    follow2 cur (SSub (VInt i) :: rest) = follow2 cur (SIndex i :: rest).
Proof. exact tie_sub_int_is_index. Qed.
Print Assumptions C08_sub_int_is_index.

(* a computed string key is the static name, on everything but lists and strings *)
Theorem C08_sub_str_is_name :
  forall cur k rest, is_seq cur = false ->
    follow2 cur (SSub (VStr k) :: rest) = follow2 cur (SName k :: rest).
Proof. exact tie_sub_str_is_name. Qed.
Print Assumptions C08_sub_str_is_name.

(* negative or too large: empty, whatever follows *)
Theorem C08_sub_out_of_range :
  forall l i rest,
    (i < 0 \/ Z.of_nat (length l) <= i)%Z ->
    follow2 (VList l) (SSub (VInt i) :: rest) = Empty.
Proof. exact tie_sub_out_of_range. Qed.
Print Assumptions C08_sub_out_of_range.

(* on a list or a string only an integer key is an index: any other key (string, float, bool,
   nil, list, map...) is empty, whatever follows *)
Theorem C08_sub_non_integer_key :
  forall cur k rest,
    is_seq cur = true -> (forall i, k <> VInt i) ->
    follow2 cur (SSub k :: rest) = Empty.
Proof. exact tie_sub_non_integer_key. Qed.
Print Assumptions C08_sub_non_integer_key.

(* the first name is searched in the private context of the top frame, then in its public
   context; data found there is followed by the reference, a name found nowhere is empty
   (macros, blocks and cycle values are not data: no claim) *)
Theorem C08_lookup_order :
  forall se globals f0 f st fr name parts steps,
    top_frame st = Ok fr ->
    path_denotes se globals f0 st parts steps ->
    (length steps + f0 < f)%nat ->
    match lookup_name name (f_priv fr) (f_pub fr) with
    | None => resolve se globals (S f) st (PIdent name None :: parts) = Ok (as_value VNil, st)
    | Some (CV v) =>
        resolve se globals (S f) st (PIdent name None :: parts) =
        match vv v with
        | VNil => Ok (as_value VNil, st)
        | _ => answer (vsafe v) st (follow2 (vv v) steps)
        end
    | Some _ => True
    end.
Proof. exact tie_lookup_order. Qed.
Print Assumptions C08_lookup_order.

(* in the root frame of an execution the public context is the caller's context over the set's
   globals (cf. C08_context_shadows_globals), so the order is: private, context, globals *)
Theorem C08_lookup_order_root :
  forall globals name priv t ctx id,
    lookup_name name priv (f_pub (root_frame globals t ctx id)) = lookup_3 name priv ctx globals.
Proof. exact tie_lookup_root. Qed.
Print Assumptions C08_lookup_order_root.

(* {% set name = e %}: in the state after the tag the name denotes the value e had, for every
   path from it - whatever the public context (caller's keys, globals) holds under that name *)
Theorem C08_set_shadows :
  forall se globals f st name e o st',
    exec_node se globals f st (NSet name e) = (o, Ok st') ->
    exists v st1, eval se globals (pred f) st e = Ok (v, st1) /\ denotes_value se globals st' name v.
Proof. exact tie_set_shadows. Qed.
Print Assumptions C08_set_shadows.

(* {% with k1=e1 k2=e2 ... %}body{% endwith %}: the body runs in a state st_in where every name
   of the tag denotes its (last) value; the tag's result is the body's, the frame popped *)
Theorem C08_with_shadows :
  forall se globals f st pairs body fr vals st1,
    top_frame st = Ok fr ->
    eval_pairs se globals f st pairs = Ok (vals, st1) ->
    exists st_in,
      exec_node se globals (S f) st (NWith pairs body) =
        (let '(o, r) := exec_nodes se globals f st_in body in
         (o, match r with Ok st2 => Ok (pop_frame st2) | other => other end)) /\
      map fst vals = map fst pairs /\
      forall name v, ctx_get name (rev vals) = Some (CV v) -> denotes_value se globals st_in name v.
Proof. exact tie_with_shadows. Qed.
Print Assumptions C08_with_shadows.

(* {% for key, value in obj %}: with a first item (k, vo), the tag runs the loop, whose first
   iteration runs the body in a state st_it where the loop's names ([for_binding]: "forloop",
   the value name, the key name) denote the loop information and the item *)
Theorem C08_for_shadows :
  forall se globals f st key value obj rv srt body empty fr ov st1 k vo rest,
    top_frame st = Ok fr ->
    eval se globals (S f) (for_entry_state st fr) obj = Ok (ov, st1) ->
    iter_items (vv ov) rv srt = Ok (Some ((k, vo) :: rest)) ->
    let count := Z.of_nat (length ((k, vo) :: rest)) in
    exists st_it,
      exec_node se globals (S (S f)) st (NFor key value obj rv srt body empty) =
        (let '(o, r) := exec_for se globals (S f) st1 key value (for_parent fr) body ((k, vo) :: rest) 0 count in
         (o, match r with Ok st2 => Ok (pop_frame st2) | other => other end)) /\
      exec_for se globals (S f) st1 key value (for_parent fr) body ((k, vo) :: rest) 0 count =
        match exec_nodes se globals f st_it body with
        | (o1, Ok st2) =>
            let '(o2, r) := exec_for se globals f st2 key value (for_parent fr) body rest (0 + 1) count in
            (o1 ++ o2, r)
        | other => other
        end /\
      forall name x, for_binding name key value k vo (loop_struct 0 count (for_parent fr)) = Some x ->
        denotes_value se globals st_it name (as_value x).
Proof. exact tie_for_shadows. Qed.
Print Assumptions C08_for_shadows.

(* every iteration, not only the first: the loop at item (k, vo), index idx *)
Theorem C08_for_iteration_shadows :
  forall se globals f st key value parent body k vo rest idx count fr,
    top_frame st = Ok fr ->
    exists st_it,
      exec_for se globals (S f) st key value parent body ((k, vo) :: rest) idx count =
        match exec_nodes se globals f st_it body with
        | (o1, Ok st1) =>
            let '(o2, r) := exec_for se globals f st1 key value parent body rest (idx + 1) count in
            (o1 ++ o2, r)
        | other => other
        end /\
      forall name x, for_binding name key value k vo (loop_struct idx count parent) = Some x ->
        denotes_value se globals st_it name (as_value x).
Proof. exact tie_for_iteration_shadows. Qed.
Print Assumptions C08_for_iteration_shadows.

(* keys that are pure: literals, and names of data (with any path that is itself pure) *)
Theorem C08_pure_literal_keys :
  forall se globals st,
    (forall z, pure_key se globals 1 st (EInt z) (VInt z)) /\
    (forall s, pure_key se globals 1 st (EStr s) (VStr s)).
Proof. exact tie_pure_literals. Qed.
Print Assumptions C08_pure_literal_keys.

Theorem C08_pure_name_key :
  forall se globals f0 st fr name v parts steps x,
    top_frame st = Ok fr ->
    lookup_name name (f_priv fr) (f_pub fr) = Some (CV v) ->
    path_denotes se globals f0 st parts steps ->
    follow2 (vv v) steps = Found x ->
    pure_key se globals (length steps + f0 + 3) st (EVar (PIdent name None :: parts)) x.
Proof. exact tie_pure_var. Qed.
Print Assumptions C08_pure_name_key.

(* non-vacuity: the reference on computed keys *)
Example C08b_witness :
  follow2 c08_map [SSub (VStr [108]); SSub (VInt 1)] = Found (VInt 20) /\
  follow2 c08_map [SSub (VStr [108]); SSub (VInt 3)] = Empty /\
  follow2 c08_map [SSub (VStr [108]); SSub (VInt (-1))] = Empty /\
  follow2 c08_map [SSub (VStr [107]); SSub (VInt 0); SName [97]] = Empty /\
  follow2 c08_map [SSub (VStr [108]); SSub (VInt 0); SSub (VInt 0)] = ExecError.
Proof. exact tie_c08b_witness. Qed.

(* non-vacuity: the hypotheses of C08_walk_follows_subscripts hold for the path ["l"][i] in a
   concrete state (i is a key of the context), and the model computes what the theorem says *)
Example C08b_witness_hypotheses :
  path_denotes c08_senv [] 3 c08_state
    [PSub (EStr [108]) None; PSub (EVar [PIdent [105] None]) None]
    [SSub (VStr [108]); SSub (VInt 1)] /\
  walk c08_senv [] 6 c08_state c08_map false
    [PSub (EStr [108]) None; PSub (EVar [PIdent [105] None]) None] =
  Ok (mkV (VInt 20) false, c08_state).
Proof. split; [exact tie_c08b_hyp_witness|exact tie_c08b_model_witness]. Qed.

(* non-vacuity of the lookup order, end to end (compile + execute; x is "g" in the globals and
   "c" in the context): {{ x }} without and with the context; after set; inside and after with;
   inside and after for *)
Example C08b_witness_order :
  (* {{ x }} : a global alone; a context key over it *)
  c08_render c08_globals [] [123; 123; 32; 120; 32; 125; 125] = Some [103] (* g *) /\
  c08_render c08_globals c08_ctx [123; 123; 32; 120; 32; 125; 125] = Some [99] (* c *) /\
  (* {% set x = "s" %}{{ x }} *)
  c08_render c08_globals c08_ctx [123; 37; 32; 115; 101; 116; 32; 120; 32; 61; 32; 34; 115; 34; 32; 37; 125; 123; 123; 32; 120; 32; 125; 125] = Some [115] (* s *) /\
  (* {% with x="w" %}{{ x }}{% endwith %}{{ x }} *)
  c08_render c08_globals c08_ctx [123; 37; 32; 119; 105; 116; 104; 32; 120; 61; 34; 119; 34; 32; 37; 125; 123; 123; 32; 120; 32; 125; 125; 123; 37; 32; 101; 110; 100; 119; 105; 116; 104; 32; 37; 125; 123; 123; 32; 120; 32; 125; 125] = Some [119; 99] (* wc *) /\
  (* {% for x in l %}{{ x }}{% endfor %}{{ x }} *)
  c08_render c08_globals c08_ctx [123; 37; 32; 102; 111; 114; 32; 120; 32; 105; 110; 32; 108; 32; 37; 125; 123; 123; 32; 120; 32; 125; 125; 123; 37; 32; 101; 110; 100; 102; 111; 114; 32; 37; 125; 123; 123; 32; 120; 32; 125; 125] = Some [102; 99] (* fc *).
Proof. exact tie_c08b_order_witness. Qed.

(* non-vacuity of the three shadowing theorems: their hypotheses hold in the concrete state for
   the name i, which the context binds to 1 *)
Example C08b_witness_shadow_hypotheses :
  (exists st', exec_node c08_senv [] 3 c08_state (NSet [105] (* i *) (EStr [115] (* s *))) = ([], Ok st')) /\
  (exists st1, eval_pairs c08_senv [] 3 c08_state [ ([105] (* i *), EStr [119] (* w *)) ] =
               Ok ([ ([105] (* i *), CV (as_value (VStr [119] (* w *)))) ], st1)) /\
  (exists st1, eval c08_senv [] 4 (for_entry_state c08_state c08_frame) (EVar [PIdent [97] (* a *) None]) =
               Ok (as_value c08_list, st1) /\
               iter_items c08_list false false =
               Ok (Some [ (VInt 10, None); (VInt 20, None); (VInt 30, None) ])).
Proof. exact tie_c08b_shadow_hyp_witness. Qed.

(* FINDINGS (evaluated on the model, which mirrors pongo2's variable.go with fix D38): what
   computed keys at the edges of the property do *)
Example C08b_findings :
  (* a[-1]: empty, no counting from the end *)
  c08_sub c08_list (EInt (-1)) = Ok VNil /\
  (* a[1]: the element; only an integer key is an index (fix D38) ... *)
  c08_sub c08_list (EInt 1) = Ok (VInt 20) /\
  (* ... a["1"], a[1.9]: empty - the string is not read as a number, the float is not truncated *)
  c08_sub c08_list (EStr [49] (* 1 *)) = Ok VNil /\
  c08_sub c08_list (EFloat c08_1_9) = Ok VNil /\
  (* a[nil], a[true], a["x"], a[[]]: empty, not element 0 *)
  c08_sub c08_list c08_undefined = Ok VNil /\
  c08_sub c08_list (EBool true) = Ok VNil /\
  c08_sub c08_list (EStr [120] (* x *)) = Ok VNil /\
  c08_sub c08_list (EArray []) = Ok VNil /\
  (* a["1e1"], a["nan"]: empty as well (the string is never parsed, so Go's float syntax does
     not matter here any more) *)
  c08_sub c08_list (EStr [49; 101; 49] (* 1e1 *)) = Ok VNil /\
  c08_sub c08_list (EStr [110; 97; 110] (* nan *)) = Ok VNil /\
  (* "abc"["1"]: the same on a string *)
  c08_sub (VStr [97; 98; 99] (* abc *)) (EStr [49] (* 1 *)) = Ok VNil /\
  (* "abc"[1]: the byte as a number, 98, not the string "b" *)
  c08_sub (VStr [97; 98; 99] (* abc *)) (EInt 1) = Ok (VInt 98) /\
  (* m[1] on a map with the key "1": empty, the integer is not turned into text; m["1"] finds it *)
  c08_sub c08_map (EInt 1) = Ok VNil /\
  c08_sub c08_map (EStr [49] (* 1 *)) = Ok (VStr [111; 110; 101] (* one *)) /\
  (* m[nil]: empty *)
  c08_sub c08_map c08_undefined = Ok VNil /\
  (* s[1] on a struct: the key's text "1" names the field (a Go struct has no such field, the
     model's struct here has one to show the conversion); s[nil] is the field "" : empty *)
  c08_sub c08_struct (EInt 1) = Ok (VInt 6) /\
  c08_sub c08_struct c08_undefined = Ok VNil /\
  (* s[[]]: the text of a list contains Go type syntax: not modelled *)
  c08_sub c08_struct (EArray []) = Unmod /\
  (* 3[0], and a nil reached inside a walk: execution error; a nil found under a key ends the
     walk with the empty value before any further subscript is looked at *)
  c08_sub (VInt 3) (EInt 0) = Err 3 /\
  c08_sub VNil (EInt 0) = Err 3 /\
  walk c08_senv [] 20 c08_state c08_map false
    [PSub (EStr [107] (* k *)) None; PSub (EInt 0) None; PIdent [120] (* x *) None] = Ok (as_value VNil, c08_state).
Proof. exact tie_c08b_findings. Qed.

Example C08b_static_vs_computed :
  follow2 c08_map [SIndex 1] = ExecError /\ follow2 c08_map [SSub (VInt 1)] = Empty /\
  follow2 c08_list [SName [120] (* x *)] = ExecError /\ follow2 c08_list [SSub (VStr [120] (* x *))] = Empty.
Proof. exact tie_c08b_static_vs_computed. Qed.
