(* Property C01 - totality: compiling and executing never panics, crashes or hangs.
   In the model every place where the Go code could panic is an explicit [Panic site] outcome
   and every loop or recursion runs on explicit fuel, so "never panics" is a theorem about the
   outcome type and "never hangs" is structural (every model function is a structural
   fixpoint; the lexer's linear fuel is proved sufficient).
   Partial: the theorems cover the lexer, every built-in filter, name resolution over data,
   the whole compile path (no function of the expression parser, the tag parsers or the
   document parser returns [Panic], for any configuration, loaders, fuel and input) and
   (Props/C13.v) the macro depth guard; that the model's error/fuel/panic
   outcomes are the real code's is the correspondence run, which executes every generated
   case in the real engine under a stack limit and a deadline, in an isolated process for the
   crash-prone ones. Memory exhaustion and goroutine scheduling are outside the model. *)
From PV Require Import Lib.Outcome Model.Lexer Model.ParseExpr Model.ParseDoc Model.Filters Model.Exec Model.Api Spec.SpecWalk Spec.SpecNoPanic Spec.SpecWf.
From PV Require Import Tie.C01.
Open Scope N_scope.

(* the lexer terminates on every byte string within its linear fuel ... *)
Theorem C01_lex_total : forall src : str, lex src <> LexFuel.
Proof. exact tie_lex_total. Qed.
Print Assumptions C01_lex_total.

(* ... no built-in filter reaches an operation that would panic, whatever value and argument ... *)
Theorem C01_filters_never_panic :
  forall (name : str) (x p : value) (site : N), apply_filter name x p <> Panic site.
Proof. exact tie_filters_never_panic. Qed.
Print Assumptions C01_filters_never_panic.

(* ... following a name through data ends in a value, the empty value or an execution error:
   wrong-typed keys and indexes, out-of-range numbers, missing names never panic *)
Theorem C01_walk_never_panics :
  forall se globals steps f st cur safe site,
    (length steps < f)%nat ->
    walk se globals f st cur safe (map part_of steps) <> Panic site.
Proof. exact tie_walk_never_panics. Qed.
Print Assumptions C01_walk_never_panics.

(* ---- the compile path never panics ---- *)

Theorem C01_parse_expr_never_panics : forall (cfg : pcfg) (fuel : nat) (s : N),
  (forall ts, parse_expression cfg fuel ts <> Panic s) /\
  (forall ts, parse_relational cfg fuel ts <> Panic s) /\
  (forall ts, parse_simple cfg fuel ts <> Panic s) /\
  (forall acc ts, simple_loop cfg fuel acc ts <> Panic s) /\
  (forall ts, parse_term cfg fuel ts <> Panic s) /\
  (forall acc ts, term_loop cfg fuel acc ts <> Panic s) /\
  (forall ts, parse_power cfg fuel ts <> Panic s) /\
  (forall ts, parse_factor cfg fuel ts <> Panic s) /\
  (forall ts, parse_filtered cfg fuel ts <> Panic s) /\
  (forall ts, filter_loop cfg fuel ts <> Panic s) /\
  (forall ts, parse_filter cfg fuel ts <> Panic s) /\
  (forall ts, parse_var_or_lit cfg fuel ts <> Panic s) /\
  (forall parts ts, var_loop cfg fuel parts ts <> Panic s) /\
  (forall acc ts, args_loop cfg fuel acc ts <> Panic s) /\
  (forall ts, parse_array cfg fuel ts <> Panic s) /\
  (forall acc ts, array_loop cfg fuel acc ts <> Panic s).
Proof. exact tie_parse_expr_never_panics. Qed.
Print Assumptions C01_parse_expr_never_panics.

Theorem C01_tag_args_never_panic : forall (cfg : pcfg) (fuel : nat) (ts : list token) (s : N),
  pexpr cfg ts <> Panic s /\
  pvarlit cfg ts <> Panic s /\
  pexprs cfg fuel ts <> Panic s /\
  with_pairs_new cfg fuel ts <> Panic s /\
  with_pairs_old cfg fuel ts <> Panic s /\
  include_pairs cfg fuel ts <> Panic s /\
  macro_params cfg fuel ts <> Panic s /\
  filter_tag_chain cfg fuel ts <> Panic s /\
  cycle_args cfg fuel ts <> Panic s /\
  (forall exported, import_list fuel exported ts <> Panic s).
Proof. exact tie_tag_args_never_panic. Qed.
Print Assumptions C01_tag_args_never_panic.

Theorem C01_skippers_never_panic : forall (se : senv) (ts : list atok) (s : N),
  (forall acc, end_args ts acc <> Panic s) /\
  skip_to_close ts <> Panic s /\
  (forall names, skip_until names ts <> Panic s) /\
  (forall path g, fetch se path g <> Panic s).
Proof. exact tie_skippers_never_panic. Qed.
Print Assumptions C01_skippers_never_panic.

Theorem C01_doc_parsers_never_panic : forall (se : senv) (fuel : nat) (s : N),
  (forall level st ts, parse_elem se fuel level st ts <> Panic s) /\
  (forall level names st ts, wrap_until se fuel level names st ts <> Panic s) /\
  (forall level st ts, parse_tag se fuel level st ts <> Panic s) /\
  (forall level impl args st ts, tag_parser se fuel level impl args st ts <> Panic s) /\
  (forall level conds wrappers st ts, if_branches se fuel level conds wrappers st ts <> Panic s) /\
  (forall st ts, parse_doc se fuel st ts <> Panic s).
Proof. exact tie_doc_parsers_never_panic. Qed.
Print Assumptions C01_doc_parsers_never_panic.

Theorem C01_compile_never_panics :
  forall (se : senv) (fuel : nat) (name : str) (isstr : bool) (src : str) (g : gstate) (s : N),
    compile_src se fuel name isstr src g <> Panic s /\
    compile_file se fuel name g <> Panic s.
Proof. exact tie_compile_never_panics. Qed.
Print Assumptions C01_compile_never_panics.

Theorem C01_api_compile_never_panics : forall (w : world) (src : str) (s : N),
  api_compile_only w src <> OPanic s.
Proof. exact tie_api_compile_never_panics. Qed.
Print Assumptions C01_api_compile_never_panics.

(* Non-vacuity: the functions above do not answer Fuel or Unmod on everything. *)
Example C01a_witness :
  (* {% if a %}x{% endif %}{{ b|upper }} *)
  is_ok (np_compile [123; 37; 32; 105; 102; 32; 97; 32; 37; 125; 120; 123; 37; 32; 101; 110; 100;
                     105; 102; 32; 37; 125; 123; 123; 32; 98; 124; 117; 112; 112; 101; 114; 32;
                     125; 125]) = true /\
  (* {% foo %} : unknown tag *)
  np_compile [123; 37; 32; 102; 111; 111; 32; 37; 125] = Err 2 /\
  (* {{ a : not closed *)
  np_compile [123; 123; 32; 97] = Err 2 /\
  (* {% if %} : missing condition *)
  np_compile [123; 37; 32; 105; 102; 32; 37; 125] = Err 2 /\
  (* {{ a|nosuchfilter }} : unknown filter *)
  np_compile [123; 123; 32; 97; 124; 110; 111; 115; 117; 99; 104; 102; 105; 108; 116; 101; 114;
              32; 125; 125] = Err 2 /\
  (* {% include "missing.tpl" %} : no loader has the file *)
  np_compile [123; 37; 32; 105; 110; 99; 108; 117; 100; 101; 32; 34; 109; 105; 115; 115; 105;
              110; 103; 46; 116; 112; 108; 34; 32; 37; 125] = Err 4 /\
  (* {% endif %} : end tag without its opening tag *)
  np_compile [123; 37; 32; 101; 110; 100; 105; 102; 32; 37; 125] = Err 2.
Proof. exact tie_c01a_witness. Qed.

(* ================= the executor never panics ================= *)
(* Property C01 - totality, execution half: executing a well-formed template never panics.

   In the model every place where pongo2's executor would panic is an explicit [Panic site]
   outcome: 90 (no current frame), 91, 92 (a variable that does not start with an identifier),
   93/94 (macro call whose closure points outside the stack), 95 (block.Super likewise), 96
   (include with neither a template nor a name), 97/98 (if with too few bodies), and whatever a
   filter could return (Panic 1..4 of Value.v are only reachable through filters; C01 already
   says no filter returns them).

   Well-formedness (Spec/SpecWf.v): [wf_template t] says that, everywhere in t - its nodes,
   its macros' bodies, its blocks, its parents and every statically included / ssi template -
   variables start with an identifier, an if has as many bodies as conditions (or one more,
   the else), an include has a template or a name.  It is a boolean, checkable by computation
   on any compiled template.  [plain_ctx] says a caller passes plain values (no macro / block
   closures): Go callers cannot build those.  [exec_inv] is the invariant of a running
   execution: the frame stack is not empty and every closure held by the frame at position p
   (from the bottom) points at a position <= p and carries well-formed code.

   RELATIVE TO THE COMPILER.  A lazy include compiles a template at run time; the execution
   theorems therefore assume of the compiler (Model/ParseDoc.v's compile_file) that it
     [compiler_wf se]        only produces well-formed templates, and
     [compiler_no_panic se]  does not panic itself.
   Both are the compile half of C01 (proved separately).  For a set without loaders both hold
   outright (nothing can be fetched), which gives the unconditional instance below.

   - C01_exec_never_panics: the main theorem, for Template.Execute (buffered and unbuffered)
     from the empty stack, any fuel, any caller context.
   - C01_run_template_never_panics: the same for the entry point the correspondence run uses.
   - C01_exec_never_panics_no_loaders: no hypothesis on the compiler when the set has no loader.
   - C01_exec_in_state_never_panics: the general form, from any well-formed stack (what a
     nested include / ssi execution is).
   - C01_eval_never_panics, C01_nodes_never_panic, C01_nodes_keep_invariant: expressions and
     node lists in any state satisfying the invariant, and the invariant is kept.
   - C01_root_state_invariant: the state in which a template's nodes start running satisfies
     the invariant (so the hypotheses of the previous three are met by every real execution).
   The Examples show a compiled template meeting the hypotheses and running, and that each
   hypothesis is needed: ill-formed documents, or closures smuggled in through the caller's
   context, do reach Panic sites. *)

Theorem C01_exec_never_panics :
  forall (se : senv) (globals : list (str * cval)),
    plain_ctx globals -> compiler_wf se -> compiler_no_panic se ->
    forall (fuel : nat) (g : gstate) (t : template) (ctx : list (str * cval)) (site : N),
      wf_template t = true -> plain_ctx ctx ->
      snd (exec_template se globals fuel (mkM [] [] g) t ctx) <> Panic site /\
      snd (exec_template_unbuffered se globals fuel (mkM [] [] g) t ctx) <> Panic site.
Proof. exact tie_exec_never_panics. Qed.
Print Assumptions C01_exec_never_panics.

Theorem C01_run_template_never_panics :
  forall (w : world) (t : template) (g : gstate) (ctx : list (str * cval)) (site : N),
    plain_ctx (w_globals w) -> compiler_wf (world_senv w) -> compiler_no_panic (world_senv w) ->
    wf_template t = true -> plain_ctx ctx ->
    run_template w t g ctx <> OPanic site.
Proof. exact tie_run_template_never_panics. Qed.
Print Assumptions C01_run_template_never_panics.

Theorem C01_exec_never_panics_no_loaders :
  forall (se : senv) (globals : list (str * cval)) (fuel : nat) (g : gstate) (t : template)
         (ctx : list (str * cval)) (site : N),
    se_loaders se = [] -> plain_ctx globals -> wf_template t = true -> plain_ctx ctx ->
    snd (exec_template se globals fuel (mkM [] [] g) t ctx) <> Panic site /\
    snd (exec_template_unbuffered se globals fuel (mkM [] [] g) t ctx) <> Panic site.
Proof. exact tie_exec_never_panics_no_loaders. Qed.
Print Assumptions C01_exec_never_panics_no_loaders.

Theorem C01_exec_in_state_never_panics :
  forall (se : senv) (globals : list (str * cval)),
    plain_ctx globals -> compiler_wf se -> compiler_no_panic se ->
    forall (fuel : nat) (st : mstate) (t : template) (ctx : list (str * cval)) (site : N),
      wf_state st -> wf_template t = true -> wf_ctx (length (ms_frames st)) ctx ->
      snd (exec_template se globals fuel st t ctx) <> Panic site /\
      snd (exec_template_unbuffered se globals fuel st t ctx) <> Panic site.
Proof. exact exec_template_np. Qed.
Print Assumptions C01_exec_in_state_never_panics.

Theorem C01_eval_never_panics :
  forall (se : senv) (globals : list (str * cval)),
    plain_ctx globals -> compiler_wf se -> compiler_no_panic se ->
    forall (fuel : nat) (st : mstate) (e : expr) (site : N),
      exec_inv st -> wf_expr e = true -> eval se globals fuel st e <> Panic site.
Proof. exact tie_eval_never_panics. Qed.
Print Assumptions C01_eval_never_panics.

Theorem C01_nodes_never_panic :
  forall (se : senv) (globals : list (str * cval)),
    plain_ctx globals -> compiler_wf se -> compiler_no_panic se ->
    forall (fuel : nat) (st : mstate) (ns : list node) (site : N),
      exec_inv st -> forallb wf_node ns = true ->
      snd (exec_nodes se globals fuel st ns) <> Panic site.
Proof. exact tie_exec_nodes_never_panic. Qed.
Print Assumptions C01_nodes_never_panic.

Theorem C01_nodes_keep_invariant :
  forall (se : senv) (globals : list (str * cval)),
    plain_ctx globals -> compiler_wf se -> compiler_no_panic se ->
    forall (fuel : nat) (st : mstate) (ns : list node) (o : str) (st' : mstate),
      exec_inv st -> forallb wf_node ns = true ->
      exec_nodes se globals fuel st ns = (o, Ok st') -> exec_inv st'.
Proof. exact tie_exec_nodes_keep_invariant. Qed.
Print Assumptions C01_nodes_keep_invariant.

Theorem C01_root_state_invariant :
  forall (globals : list (str * cval)) (t : template) (ctx : list (str * cval)) (execid : N) n g,
    plain_ctx globals -> wf_template t = true -> plain_ctx ctx ->
    exec_inv (mkM [root_frame globals t ctx execid] n g).
Proof. exact tie_root_state_inv. Qed.
Print Assumptions C01_root_state_invariant.

(* ---- the hypotheses are met by a real, non-trivial template ---- *)
Definition ex_world : world := mkWorld [] false false [] [] [] [] [].
(* {% macro m(x, y=2) %}<{{ x }}{{ y }}>{% endmacro %}{% if a %}{{ m(a) }}{% elif b %}B{% else %}
   {% for i in l %}{{ i }}{{ m(i) }}{% endfor %}{% endif %}{% cycle 'p' 'q' as c %}
   {% with z=m(1) %}{{ z }}{% endwith %}     (on one line) *)
Definition ex_src : str :=
  [123; 37; 32; 109; 97; 99; 114; 111; 32; 109; 40; 120; 44; 32; 121;
   61; 50; 41; 32; 37; 125; 60; 123; 123; 32; 120; 32; 125; 125; 123;
   123; 32; 121; 32; 125; 125; 62; 123; 37; 32; 101; 110; 100; 109; 97;
   99; 114; 111; 32; 37; 125; 123; 37; 32; 105; 102; 32; 97; 32; 37;
   125; 123; 123; 32; 109; 40; 97; 41; 32; 125; 125; 123; 37; 32; 101;
   108; 105; 102; 32; 98; 32; 37; 125; 66; 123; 37; 32; 101; 108; 115;
   101; 32; 37; 125; 123; 37; 32; 102; 111; 114; 32; 105; 32; 105; 110;
   32; 108; 32; 37; 125; 123; 123; 32; 105; 32; 125; 125; 123; 123; 32;
   109; 40; 105; 41; 32; 125; 125; 123; 37; 32; 101; 110; 100; 102; 111;
   114; 32; 37; 125; 123; 37; 32; 101; 110; 100; 105; 102; 32; 37; 125;
   123; 37; 32; 99; 121; 99; 108; 101; 32; 39; 112; 39; 32; 39; 113; 39;
   32; 97; 115; 32; 99; 32; 37; 125; 123; 37; 32; 119; 105; 116; 104;
   32; 122; 61; 109; 40; 49; 41; 32; 37; 125; 123; 123; 32; 122; 32;
   125; 125; 123; 37; 32; 101; 110; 100; 119; 105; 116; 104; 32; 37; 125].
Definition ex_ctx : list (str * cval) :=
  [ ([108] (* l *), CV (as_value (VList [VInt 7; VInt 8]))); ([97] (* a *), CV (as_value (VInt 0))) ].

Example C01b_compiled_template_is_wf :
  match compile_src (world_senv ex_world) big_fuel [60; 115; 62] (* <s> *) true ex_src g0 with
  | Ok (t, _) => wf_template t
  | _ => false
  end = true.
Proof. vm_compute. reflexivity. Qed.

(* it renders "7<72>8<82>p<12>" *)
Example C01b_compiled_template_runs :
  api_render_string ex_world ex_src ex_ctx =
  OOk [55; 60; 55; 50; 62; 56; 60; 56; 50; 62; 112; 60; 49; 50; 62].
Proof. vm_compute. reflexivity. Qed.

Example C01b_ctx_is_plain : plain_ctx ex_ctx.
Proof. intros k c [E|[E|[]]]; injection E as _ <-; eexists; reflexivity. Qed.

(* ---- each hypothesis is needed ---- *)
Definition ex_se : senv := mkSenv [] (mkCfg [] [] [] []) false false.
Definition ex_tpl (root : list node) : template := Tpl 1 [] true root [] [] None false false.
Definition ex_run (root : list node) (ctx : list (str * cval)) : res mstate :=
  snd (exec_template_unbuffered ex_se [] 100 (mkM [] [] g0) (ex_tpl root) ctx).

(* ill-formed documents reach the Panic sites (and are rejected by wf_template) *)
Example C01b_var_without_identifier_panics :
  ex_run [NVar (EVar [PInt 0 None])] [] = Panic 92 /\ wf_template (ex_tpl [NVar (EVar [PInt 0 None])]) = false.
Proof. split; vm_compute; reflexivity. Qed.
Example C01b_if_without_body_panics :
  ex_run [NIf [EBool true] []] [] = Panic 97 /\ wf_template (ex_tpl [NIf [EBool true] []]) = false.
Proof. split; vm_compute; reflexivity. Qed.
Example C01b_include_of_nothing_panics :
  ex_run [NInclude None None [] false false] [] = Panic 96 /\
  wf_template (ex_tpl [NInclude None None [] false false]) = false.
Proof. split; vm_compute; reflexivity. Qed.

(* a well-formed document, but a caller's context holding closures: {{ m() }} with m a macro
   closure over frame 3, {{ block.Super }} with a block closure over frame 3 *)
Example C01b_closure_in_context_panics :
  ex_run [NVar (EVar [PIdent [109] (* m *) (Some [])])]
         [([109] (* m *), CMacro (Macro [109] [] [] false) 3)] = Panic 93 /\
  ex_run [NVar (EVar [PIdent [98; 108; 111; 99; 107] (* block *) None; PIdent [83; 117; 112; 101; 114] (* Super *) None])]
         [([98; 108; 111; 99; 107] (* block *), CBlock 3 [[]])] = Panic 95 /\
  wf_template (ex_tpl [NVar (EVar [PIdent [109] (Some [])])]) = true.
Proof. repeat split; vm_compute; reflexivity. Qed.

(* the compile-half theorem above discharges [compiler_no_panic] for every set *)
Theorem C01_compiler_no_panic_holds : forall se : senv, compiler_no_panic se.
Proof. exact tie_compiler_no_panic_holds. Qed.
Print Assumptions C01_compiler_no_panic_holds.
