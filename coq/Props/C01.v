(* Property C01 - totality: compiling and executing never panics, crashes or hangs.
   In the model every place where the Go code could panic is an explicit [Panic site] outcome
   and every loop or recursion runs on explicit fuel, so "never panics" is a theorem about the
   outcome type and "never hangs" is structural (every model function is a structural
   fixpoint; the lexer's linear fuel is proved sufficient).
   Partial: the theorems cover the lexer, every built-in filter, name resolution over data and
   (C01a, C13) the compiler and the macro depth guard; that the model's error/fuel/panic
   outcomes are the real code's is the correspondence run, which executes every generated
   case in the real engine under a stack limit and a deadline, in an isolated process for the
   crash-prone ones. Memory exhaustion and goroutine scheduling are outside the model. *)
From PV Require Import Model.Lexer Model.Filters Model.Exec Spec.SpecWalk.
From PV Require Import Tie.C01.
Open Scope N_scope.

(* the lexer terminates on every byte string within its linear fuel ... *)
Theorem C01_lex_total : forall src : str, lex src <> LexFuel.
Proof. exact tie_lex_total. Qed.
Print Assumptions C01_lex_total.

(* ... no built-in filter reaches an operation that would panic, whatever value and argument ... *)
Theorem C01_filters_never_panic :
  forall (name : str) (x p : value) (site : N), apply_filter name x p <> Panic site.
Proof. exact tie_filters_never_panic. Qed.
Print Assumptions C01_filters_never_panic.

(* ... following a name through data ends in a value, the empty value or an execution error:
   wrong-typed keys and indexes, out-of-range numbers, missing names never panic *)
Theorem C01_walk_never_panics :
  forall se globals steps f st cur safe site,
    (length steps < f)%nat ->
    walk se globals f st cur safe (map part_of steps) <> Panic site.
Proof. exact tie_walk_never_panics. Qed.
Print Assumptions C01_walk_never_panics.
