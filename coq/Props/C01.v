(* Property C01 - totality: compiling and executing never panics, crashes or hangs.
   In the model every place where the Go code could panic is an explicit [Panic site] outcome
   and every loop or recursion runs on explicit fuel, so "never panics" is a theorem about the
   outcome type and "never hangs" is structural (every model function is a structural
   fixpoint; the lexer's linear fuel is proved sufficient).
   Partial: the theorems cover the lexer, every built-in filter, name resolution over data,
   the whole compile path (no function of the expression parser, the tag parsers or the
   document parser returns [Panic], for any configuration, loaders, fuel and input) and
   (Props/C13.v) the macro depth guard; that the model's error/fuel/panic
   outcomes are the real code's is the correspondence run, which executes every generated
   case in the real engine under a stack limit and a deadline, in an isolated process for the
   crash-prone ones. Memory exhaustion and goroutine scheduling are outside the model. *)
From PV Require Import Lib.Outcome Model.Lexer Model.ParseExpr Model.ParseDoc Model.Filters Model.Exec Model.Api Spec.SpecWalk Spec.SpecNoPanic Spec.SpecWf Spec.SpecWfParse.
From PV Require Import Tie.C01 Tie.C01c.
Open Scope N_scope.

(* the lexer terminates on every byte string within its linear fuel ... *)
Theorem C01_lex_total : forall src : str, lex src <> LexFuel.
Proof. exact tie_lex_total. Qed.
Print Assumptions C01_lex_total.

(* ... no built-in filter reaches an operation that would panic, whatever value and argument ... *)
Theorem C01_filters_never_panic :
  forall (name : str) (x p : value) (site : N), apply_filter name x p <> Panic site.
Proof. exact tie_filters_never_panic. Qed.
Print Assumptions C01_filters_never_panic.

(* ... following a name through data ends in a value, the empty value or an execution error:
   wrong-typed keys and indexes, out-of-range numbers, missing names never panic *)
Theorem C01_walk_never_panics :
  forall se globals steps f st cur safe site,
    (length steps < f)%nat ->
    walk se globals f st cur safe (map part_of steps) <> Panic site.
Proof. exact tie_walk_never_panics. Qed.
Print Assumptions C01_walk_never_panics.

(* ---- the compile path never panics ---- *)

Theorem C01_parse_expr_never_panics : forall (cfg : pcfg) (fuel : nat) (s : N),
  (forall ts, parse_expression cfg fuel ts <> Panic s) /\
  (forall ts, parse_relational cfg fuel ts <> Panic s) /\
  (forall ts, parse_simple cfg fuel ts <> Panic s) /\
  (forall acc ts, simple_loop cfg fuel acc ts <> Panic s) /\
  (forall ts, parse_term cfg fuel ts <> Panic s) /\
  (forall acc ts, term_loop cfg fuel acc ts <> Panic s) /\
  (forall ts, parse_power cfg fuel ts <> Panic s) /\
  (forall ts, parse_factor cfg fuel ts <> Panic s) /\
  (forall ts, parse_filtered cfg fuel ts <> Panic s) /\
  (forall ts, filter_loop cfg fuel ts <> Panic s) /\
  (forall ts, parse_filter cfg fuel ts <> Panic s) /\
  (forall ts, parse_var_or_lit cfg fuel ts <> Panic s) /\
  (forall parts ts, var_loop cfg fuel parts ts <> Panic s) /\
  (forall acc ts, args_loop cfg fuel acc ts <> Panic s) /\
  (forall ts, parse_array cfg fuel ts <> Panic s) /\
  (forall acc ts, array_loop cfg fuel acc ts <> Panic s).
Proof. exact tie_parse_expr_never_panics. Qed.
Print Assumptions C01_parse_expr_never_panics.

Theorem C01_tag_args_never_panic : forall (cfg : pcfg) (fuel : nat) (ts : list token) (s : N),
  pexpr cfg ts <> Panic s /\
  pvarlit cfg ts <> Panic s /\
  pexprs cfg fuel ts <> Panic s /\
  with_pairs_new cfg fuel ts <> Panic s /\
  with_pairs_old cfg fuel ts <> Panic s /\
  include_pairs cfg fuel ts <> Panic s /\
  macro_params cfg fuel ts <> Panic s /\
  filter_tag_chain cfg fuel ts <> Panic s /\
  cycle_args cfg fuel ts <> Panic s /\
  (forall exported, import_list fuel exported ts <> Panic s).
Proof. exact tie_tag_args_never_panic. Qed.
Print Assumptions C01_tag_args_never_panic.

Theorem C01_skippers_never_panic : forall (se : senv) (ts : list atok) (s : N),
  (forall acc, end_args ts acc <> Panic s) /\
  skip_to_close ts <> Panic s /\
  (forall names, skip_until names ts <> Panic s) /\
  (forall path g, fetch se path g <> Panic s).
Proof. exact tie_skippers_never_panic. Qed.
Print Assumptions C01_skippers_never_panic.

Theorem C01_doc_parsers_never_panic : forall (se : senv) (fuel : nat) (s : N),
  (forall level st ts, parse_elem se fuel level st ts <> Panic s) /\
  (forall level names st ts, wrap_until se fuel level names st ts <> Panic s) /\
  (forall level st ts, parse_tag se fuel level st ts <> Panic s) /\
  (forall level impl args st ts, tag_parser se fuel level impl args st ts <> Panic s) /\
  (forall level conds wrappers st ts, if_branches se fuel level conds wrappers st ts <> Panic s) /\
  (forall st ts, parse_doc se fuel st ts <> Panic s).
Proof. exact tie_doc_parsers_never_panic. Qed.
Print Assumptions C01_doc_parsers_never_panic.

Theorem C01_compile_never_panics :
  forall (se : senv) (fuel : nat) (name : str) (isstr : bool) (src : str) (g : gstate) (s : N),
    compile_src se fuel name isstr src g <> Panic s /\
    compile_file se fuel name g <> Panic s.
Proof. exact tie_compile_never_panics. Qed.
Print Assumptions C01_compile_never_panics.

Theorem C01_api_compile_never_panics : forall (w : world) (src : str) (s : N),
  api_compile_only w src <> OPanic s.
Proof. exact tie_api_compile_never_panics. Qed.
Print Assumptions C01_api_compile_never_panics.

(* Non-vacuity: the functions above do not answer Fuel or Unmod on everything. *)
Example C01a_witness :
  (* {% if a %}x{% endif %}{{ b|upper }} *)
  is_ok (np_compile [123; 37; 32; 105; 102; 32; 97; 32; 37; 125; 120; 123; 37; 32; 101; 110; 100;
                     105; 102; 32; 37; 125; 123; 123; 32; 98; 124; 117; 112; 112; 101; 114; 32;
                     125; 125]) = true /\
  (* {% foo %} : unknown tag *)
  np_compile [123; 37; 32; 102; 111; 111; 32; 37; 125] = Err 2 /\
  (* {{ a : not closed *)
  np_compile [123; 123; 32; 97] = Err 2 /\
  (* {% if %} : missing condition *)
  np_compile [123; 37; 32; 105; 102; 32; 37; 125] = Err 2 /\
  (* {{ a|nosuchfilter }} : unknown filter *)
  np_compile [123; 123; 32; 97; 124; 110; 111; 115; 117; 99; 104; 102; 105; 108; 116; 101; 114;
              32; 125; 125] = Err 2 /\
  (* {% include "missing.tpl" %} : no loader has the file *)
  np_compile [123; 37; 32; 105; 110; 99; 108; 117; 100; 101; 32; 34; 109; 105; 115; 115; 105;
              110; 103; 46; 116; 112; 108; 34; 32; 37; 125] = Err 4 /\
  (* {% endif %} : end tag without its opening tag *)
  np_compile [123; 37; 32; 101; 110; 100; 105; 102; 32; 37; 125] = Err 2.
Proof. exact tie_c01a_witness. Qed.

(* ================= the executor never panics ================= *)
(* Property C01 - totality, execution half: executing a well-formed template never panics.

   In the model every place where pongo2's executor would panic is an explicit [Panic site]
   outcome: 90 (no current frame), 91, 92 (a variable that does not start with an identifier),
   93/94 (macro call whose closure points outside the stack), 95 (block.Super likewise), 96
   (include with neither a template nor a name), 97/98 (if with too few bodies), and whatever a
   filter could return (Panic 1..4 of Value.v are only reachable through filters; C01 already
   says no filter returns them).

   Well-formedness (Spec/SpecWf.v): [wf_template t] says that, everywhere in t - its nodes,
   its macros' bodies, its blocks, its parents and every statically included / ssi template -
   variables start with an identifier, an if has as many bodies as conditions (or one more,
   the else), an include has a template or a name.  It is a boolean, checkable by computation
   on any compiled template.  [plain_ctx] says a caller passes plain values (no macro / block
   closures): Go callers cannot build those.  [exec_inv] is the invariant of a running
   execution: the frame stack is not empty and every closure held by the frame at position p
   (from the bottom) points at a position <= p and carries well-formed code.

   RELATIVE TO THE COMPILER.  A lazy include compiles a template at run time; the execution
   theorems therefore assume of the compiler (Model/ParseDoc.v's compile_file) that it
     [compiler_wf se]        only produces well-formed templates, and
     [compiler_no_panic se]  does not panic itself.
   Both are the compile half of C01 (proved separately).  For a set without loaders both hold
   outright (nothing can be fetched), which gives the unconditional instance below.

   - C01_exec_never_panics: the main theorem, for Template.Execute (buffered and unbuffered)
     from the empty stack, any fuel, any caller context.
   - C01_run_template_never_panics: the same for the entry point the correspondence run uses.
   - C01_exec_never_panics_no_loaders: no hypothesis on the compiler when the set has no loader.
   - C01_exec_in_state_never_panics: the general form, from any well-formed stack (what a
     nested include / ssi execution is).
   - C01_eval_never_panics, C01_nodes_never_panic, C01_nodes_keep_invariant: expressions and
     node lists in any state satisfying the invariant, and the invariant is kept.
   - C01_root_state_invariant: the state in which a template's nodes start running satisfies
     the invariant (so the hypotheses of the previous three are met by every real execution).
   The Examples show a compiled template meeting the hypotheses and running, and that each
   hypothesis is needed: ill-formed documents, or closures smuggled in through the caller's
   context, do reach Panic sites. *)

Theorem C01_exec_never_panics :
  forall (se : senv) (globals : list (str * cval)),
    plain_ctx globals -> compiler_wf se -> compiler_no_panic se ->
    forall (fuel : nat) (g : gstate) (t : template) (ctx : list (str * cval)) (site : N),
      wf_template t = true -> plain_ctx ctx ->
      snd (exec_template se globals fuel (mkM [] [] g) t ctx) <> Panic site /\
      snd (exec_template_unbuffered se globals fuel (mkM [] [] g) t ctx) <> Panic site.
Proof. exact tie_exec_never_panics. Qed.
Print Assumptions C01_exec_never_panics.

Theorem C01_run_template_never_panics :
  forall (w : world) (t : template) (g : gstate) (ctx : list (str * cval)) (site : N),
    plain_ctx (w_globals w) -> compiler_wf (world_senv w) -> compiler_no_panic (world_senv w) ->
    wf_template t = true -> plain_ctx ctx ->
    run_template w t g ctx <> OPanic site.
Proof. exact tie_run_template_never_panics. Qed.
Print Assumptions C01_run_template_never_panics.

Theorem C01_exec_never_panics_no_loaders :
  forall (se : senv) (globals : list (str * cval)) (fuel : nat) (g : gstate) (t : template)
         (ctx : list (str * cval)) (site : N),
    se_loaders se = [] -> plain_ctx globals -> wf_template t = true -> plain_ctx ctx ->
    snd (exec_template se globals fuel (mkM [] [] g) t ctx) <> Panic site /\
    snd (exec_template_unbuffered se globals fuel (mkM [] [] g) t ctx) <> Panic site.
Proof. exact tie_exec_never_panics_no_loaders. Qed.
Print Assumptions C01_exec_never_panics_no_loaders.

Theorem C01_exec_in_state_never_panics :
  forall (se : senv) (globals : list (str * cval)),
    plain_ctx globals -> compiler_wf se -> compiler_no_panic se ->
    forall (fuel : nat) (st : mstate) (t : template) (ctx : list (str * cval)) (site : N),
      wf_state st -> wf_template t = true -> wf_ctx (length (ms_frames st)) ctx ->
      snd (exec_template se globals fuel st t ctx) <> Panic site /\
      snd (exec_template_unbuffered se globals fuel st t ctx) <> Panic site.
Proof. exact exec_template_np. Qed.
Print Assumptions C01_exec_in_state_never_panics.

Theorem C01_eval_never_panics :
  forall (se : senv) (globals : list (str * cval)),
    plain_ctx globals -> compiler_wf se -> compiler_no_panic se ->
    forall (fuel : nat) (st : mstate) (e : expr) (site : N),
      exec_inv st -> wf_expr e = true -> eval se globals fuel st e <> Panic site.
Proof. exact tie_eval_never_panics. Qed.
Print Assumptions C01_eval_never_panics.

Theorem C01_nodes_never_panic :
  forall (se : senv) (globals : list (str * cval)),
    plain_ctx globals -> compiler_wf se -> compiler_no_panic se ->
    forall (fuel : nat) (st : mstate) (ns : list node) (site : N),
      exec_inv st -> forallb wf_node ns = true ->
      snd (exec_nodes se globals fuel st ns) <> Panic site.
Proof. exact tie_exec_nodes_never_panic. Qed.
Print Assumptions C01_nodes_never_panic.

Theorem C01_nodes_keep_invariant :
  forall (se : senv) (globals : list (str * cval)),
    plain_ctx globals -> compiler_wf se -> compiler_no_panic se ->
    forall (fuel : nat) (st : mstate) (ns : list node) (o : str) (st' : mstate),
      exec_inv st -> forallb wf_node ns = true ->
      exec_nodes se globals fuel st ns = (o, Ok st') -> exec_inv st'.
Proof. exact tie_exec_nodes_keep_invariant. Qed.
Print Assumptions C01_nodes_keep_invariant.

Theorem C01_root_state_invariant :
  forall (globals : list (str * cval)) (t : template) (ctx : list (str * cval)) (execid : N) n g,
    plain_ctx globals -> wf_template t = true -> plain_ctx ctx ->
    exec_inv (mkM [root_frame globals t ctx execid] n g).
Proof. exact tie_root_state_inv. Qed.
Print Assumptions C01_root_state_invariant.

(* ---- the hypotheses are met by a real, non-trivial template ---- *)
Definition ex_world : world := mkWorld [] false false [] [] [] [] [].
(* {% macro m(x, y=2) %}<{{ x }}{{ y }}>{% endmacro %}{% if a %}{{ m(a) }}{% elif b %}B{% else %}
   {% for i in l %}{{ i }}{{ m(i) }}{% endfor %}{% endif %}{% cycle 'p' 'q' as c %}
   {% with z=m(1) %}{{ z }}{% endwith %}     (on one line) *)
Definition ex_src : str :=
  [123; 37; 32; 109; 97; 99; 114; 111; 32; 109; 40; 120; 44; 32; 121;
   61; 50; 41; 32; 37; 125; 60; 123; 123; 32; 120; 32; 125; 125; 123;
   123; 32; 121; 32; 125; 125; 62; 123; 37; 32; 101; 110; 100; 109; 97;
   99; 114; 111; 32; 37; 125; 123; 37; 32; 105; 102; 32; 97; 32; 37;
   125; 123; 123; 32; 109; 40; 97; 41; 32; 125; 125; 123; 37; 32; 101;
   108; 105; 102; 32; 98; 32; 37; 125; 66; 123; 37; 32; 101; 108; 115;
   101; 32; 37; 125; 123; 37; 32; 102; 111; 114; 32; 105; 32; 105; 110;
   32; 108; 32; 37; 125; 123; 123; 32; 105; 32; 125; 125; 123; 123; 32;
   109; 40; 105; 41; 32; 125; 125; 123; 37; 32; 101; 110; 100; 102; 111;
   114; 32; 37; 125; 123; 37; 32; 101; 110; 100; 105; 102; 32; 37; 125;
   123; 37; 32; 99; 121; 99; 108; 101; 32; 39; 112; 39; 32; 39; 113; 39;
   32; 97; 115; 32; 99; 32; 37; 125; 123; 37; 32; 119; 105; 116; 104;
   32; 122; 61; 109; 40; 49; 41; 32; 37; 125; 123; 123; 32; 122; 32;
   125; 125; 123; 37; 32; 101; 110; 100; 119; 105; 116; 104; 32; 37; 125].
Definition ex_ctx : list (str * cval) :=
  [ ([108] (* l *), CV (as_value (VList [VInt 7; VInt 8]))); ([97] (* a *), CV (as_value (VInt 0))) ].

Example C01b_compiled_template_is_wf :
  match compile_src (world_senv ex_world) big_fuel [60; 115; 62] (* <s> *) true ex_src g0 with
  | Ok (t, _) => wf_template t
  | _ => false
  end = true.
Proof. vm_compute. reflexivity. Qed.

(* it renders "7<72>8<82>p<12>" *)
Example C01b_compiled_template_runs :
  api_render_string ex_world ex_src ex_ctx =
  OOk [55; 60; 55; 50; 62; 56; 60; 56; 50; 62; 112; 60; 49; 50; 62].
Proof. vm_compute. reflexivity. Qed.

Example C01b_ctx_is_plain : plain_ctx ex_ctx.
Proof. intros k c [E|[E|[]]]; injection E as _ <-; eexists; reflexivity. Qed.

(* ---- each hypothesis is needed ---- *)
Definition ex_se : senv := mkSenv [] (mkCfg [] [] [] []) false false.
Definition ex_tpl (root : list node) : template := Tpl 1 [] true root [] [] None false false.
Definition ex_run (root : list node) (ctx : list (str * cval)) : res mstate :=
  snd (exec_template_unbuffered ex_se [] 100 (mkM [] [] g0) (ex_tpl root) ctx).

(* ill-formed documents reach the Panic sites (and are rejected by wf_template) *)
Example C01b_var_without_identifier_panics :
  ex_run [NVar (EVar [PInt 0 None])] [] = Panic 92 /\ wf_template (ex_tpl [NVar (EVar [PInt 0 None])]) = false.
Proof. split; vm_compute; reflexivity. Qed.
Example C01b_if_without_body_panics :
  ex_run [NIf [EBool true] []] [] = Panic 97 /\ wf_template (ex_tpl [NIf [EBool true] []]) = false.
Proof. split; vm_compute; reflexivity. Qed.
Example C01b_include_of_nothing_panics :
  ex_run [NInclude None None [] false false] [] = Panic 96 /\
  wf_template (ex_tpl [NInclude None None [] false false]) = false.
Proof. split; vm_compute; reflexivity. Qed.

(* a well-formed document, but a caller's context holding closures: {{ m() }} with m a macro
   closure over frame 3, {{ block.Super }} with a block closure over frame 3 *)
Example C01b_closure_in_context_panics :
  ex_run [NVar (EVar [PIdent [109] (* m *) (Some [])])]
         [([109] (* m *), CMacro (Macro [109] [] [] false) 3)] = Panic 93 /\
  ex_run [NVar (EVar [PIdent [98; 108; 111; 99; 107] (* block *) None; PIdent [83; 117; 112; 101; 114] (* Super *) None])]
         [([98; 108; 111; 99; 107] (* block *), CBlock 3 [[]])] = Panic 95 /\
  wf_template (ex_tpl [NVar (EVar [PIdent [109] (Some [])])]) = true.
Proof. repeat split; vm_compute; reflexivity. Qed.

(* the compile-half theorem above discharges [compiler_no_panic] for every set *)
Theorem C01_compiler_no_panic_holds : forall se : senv, compiler_no_panic se.
Proof. exact tie_compiler_no_panic_holds. Qed.
Print Assumptions C01_compiler_no_panic_holds.

(* ================= the compiler produces executable templates; end to end ================= *)
(* Property C01 - totality, the link between the two halves: THE COMPILER ONLY PRODUCES
   WELL-FORMED TEMPLATES, hence compiling any byte string (or any file of any set of loaders)
   and executing the result with plain values never reaches a panic site of the model.

   Props/C01.v proves "executing a well-formed template never panics" relative to two facts
   about the compiler, [compiler_no_panic se] (proved there) and [compiler_wf se]
   (Spec/SpecWf.v: every template compile_file returns satisfies wf_template).

   FINDING.  [compiler_wf] as stated is FALSE.  wf_node asks of an if node "as many bodies as
   conditions, or exactly one more".  The if parser (as pongo2's tagIfParser) accepts a
   repeated else:  {% if a %}x{% else %}y{% else %}z{% endif %}  compiles to ONE condition
   with THREE bodies (C01_compiler_wf_is_false, by computation).  This is not a panic path:
   the executor only ever indexes bodies 0 .. number of conditions, so what it needs is the
   lower bound "at least as many bodies as conditions" - the third body is dead code (the
   example renders "y").  Spec/SpecWfParse.v therefore defines cwf_node / cwf_macro /
   cwf_template: Spec/SpecWf.v's definitions with that one clause weakened to the lower bound
   (expressions keep wf_expr unchanged), and the same state invariant over cwf_ code.  With it:

   what the compiler guarantees (all for every configuration, loaders, fuel and input)
   - C01_parse_expr_wf: each of the 16 functions of the expression parser returns well-formed
     expressions (wf_expr: every variable, at any depth - subscripts, call arguments, filter
     parameters, array items - starts with an identifier); the loops keep their accumulators
     well-formed, in particular the variable loop started by parse_var_or_lit.
   - C01_tag_args_wf: the argument parsers of the tags return well-formed expressions, pairs,
     parameter lists; an import list drawn from a well-formed export table is well-formed.
   - C01_doc_parsers_wf: the six document parsers (parse_elem, wrap_until, parse_tag,
     tag_parser - every built-in tag -, if_branches, parse_doc) return cwf_ nodes and keep the
     per-template state (blocks, exported macros, parent) cwf_; if_branches returns at least
     as many bodies as conditions; include nodes carry a template or a name expression;
     templates reached through extends / include / import / ssi are results of compile_file,
     hence cwf_ by the induction on the fuel that ties the parser and the compiler together.
   - C01_compile_src_wf_partial, C01_compiler_wf_partial: compile_src and compile_file only
     return cwf_ templates.  "partial" = relative to the requested [compiler_wf]: the upper
     bound on the number of bodies of an if is missing, because it is false.
   - C01_wf_implies_cwf: every wf_ document is a cwf_ document (so nothing of Props/C01.v is
     lost), and C01_compiler_wf_is_false: the converse fails on a compiled template.

   what follows for execution (no hypothesis about the compiler left)
   - C01_exec_compiled_never_panics: Template.Execute (buffered and unbuffered) of any cwf_
     template, any set, any fuel, plain globals and context, never panics.
   - C01_exec_never_panics_unconditional, C01_run_template_never_panics_unconditional: the
     main theorems of Props/C01.v with both compiler hypotheses discharged (same statement,
     wf_template hypothesis).
   - C01_exec_in_state / C01_eval / C01_nodes ... _unconditional: the general forms, from any
     state satisfying the invariant [cexec_inv]; C01_root_state_cinvariant: the state in which
     a template's nodes start running satisfies it.
   - C01_render_string_never_panics, C01_render_file_never_panics (and the access-log
     variant): END TO END - for every world, every source text / file name, every plain
     context, the observation is never [OPanic site].  ([obs_of_compile] maps an Ok outcome
     to OPanic 99, but the entry points only call it on outcomes that are not Ok.)
   The Examples show the hypotheses met by a non-trivial set (extends, block.Super, include of
   the two-else template, a loop with subscripts and a filter parameter), rendered without
   panic, and that this compiled template is cwf_ but not wf_. *)

(* ================= what the compiler guarantees ================= *)

Theorem C01_parse_expr_wf : forall (cfg : pcfg) (fuel : nat),
  (forall ts e rest, parse_expression cfg fuel ts = Ok (e, rest) -> wf_expr e = true) /\
  (forall ts e rest, parse_relational cfg fuel ts = Ok (e, rest) -> wf_expr e = true) /\
  (forall ts e rest, parse_simple cfg fuel ts = Ok (e, rest) -> wf_expr e = true) /\
  (forall acc ts e rest, wf_expr acc = true -> simple_loop cfg fuel acc ts = Ok (e, rest) -> wf_expr e = true) /\
  (forall ts e rest, parse_term cfg fuel ts = Ok (e, rest) -> wf_expr e = true) /\
  (forall acc ts e rest, wf_expr acc = true -> term_loop cfg fuel acc ts = Ok (e, rest) -> wf_expr e = true) /\
  (forall ts e rest, parse_power cfg fuel ts = Ok (e, rest) -> wf_expr e = true) /\
  (forall ts e rest, parse_factor cfg fuel ts = Ok (e, rest) -> wf_expr e = true) /\
  (forall ts e rest, parse_filtered cfg fuel ts = Ok (e, rest) -> wf_expr e = true) /\
  (forall ts chain rest, filter_loop cfg fuel ts = Ok (chain, rest) -> forallb wf_fcall chain = true) /\
  (forall ts fc rest, parse_filter cfg fuel ts = Ok (fc, rest) -> wf_fcall fc = true) /\
  (forall ts e rest, parse_var_or_lit cfg fuel ts = Ok (e, rest) -> wf_expr e = true) /\
  (* [parts] is the reversed list of the parts read so far: the first one read is an identifier *)
  (forall parts ts e rest, wf_expr (EVar (rev parts)) = true ->
     var_loop cfg fuel parts ts = Ok (e, rest) -> wf_expr e = true) /\
  (forall acc ts args rest, forallb wf_expr acc = true ->
     args_loop cfg fuel acc ts = Ok (args, rest) -> forallb wf_expr args = true) /\
  (forall ts e rest, parse_array cfg fuel ts = Ok (e, rest) -> wf_expr e = true) /\
  (forall acc ts e rest, forallb wf_expr acc = true ->
     array_loop cfg fuel acc ts = Ok (e, rest) -> wf_expr e = true).
Proof. exact tie_parse_expr_wf. Qed.
Print Assumptions C01_parse_expr_wf.

Theorem C01_tag_args_wf : forall (cfg : pcfg) (fuel : nat) (ts : list token),
  (forall e rest, pexpr cfg ts = Ok (e, rest) -> wf_expr e = true) /\
  (forall e rest, pvarlit cfg ts = Ok (e, rest) -> wf_expr e = true) /\
  (forall es, pexprs cfg fuel ts = Ok es -> forallb wf_expr es = true) /\
  (forall ps, with_pairs_new cfg fuel ts = Ok ps -> wf_pairs ps = true) /\
  (forall ps, with_pairs_old cfg fuel ts = Ok ps -> wf_pairs ps = true) /\
  (forall ps only rest, include_pairs cfg fuel ts = Ok (ps, only, rest) -> wf_pairs ps = true) /\
  (forall ps rest, macro_params cfg fuel ts = Ok (ps, rest) -> wf_oparams ps = true) /\
  (forall ps rest, filter_tag_chain cfg fuel ts = Ok (ps, rest) -> wf_oparams ps = true) /\
  (forall es name silent rest, cycle_args cfg fuel ts = Ok (es, name, silent, rest) ->
                               forallb wf_expr es = true) /\
  (forall exported ms, forallb (fun m => cwf_macro (snd m)) exported = true ->
                       import_list fuel exported ts = Ok ms ->
                       forallb (fun am => cwf_macro (snd am)) ms = true).
Proof. exact tie_tag_args_wf. Qed.
Print Assumptions C01_tag_args_wf.

Theorem C01_doc_parsers_wf : forall (se : senv) (fuel : nat),
  (forall level st ts n r st', wf_pst st ->
     parse_elem se fuel level st ts = Ok (n, r, st') -> cwf_node n = true /\ wf_pst st') /\
  (forall level names st ts ns name args r st', wf_pst st ->
     wrap_until se fuel level names st ts = Ok (ns, name, args, r, st') ->
     forallb cwf_node ns = true /\ wf_pst st') /\
  (forall level st ts n r st', wf_pst st ->
     parse_tag se fuel level st ts = Ok (n, r, st') -> cwf_node n = true /\ wf_pst st') /\
  (forall level impl args st ts n r st', wf_pst st ->
     tag_parser se fuel level impl args st ts = Ok (n, r, st') -> cwf_node n = true /\ wf_pst st') /\
  (* entered with one condition and no body, re-entered with at most one condition more than
     bodies; returns at least as many bodies as conditions *)
  (forall level conds wrappers st ts conds' wrappers' r st',
     forallb wf_expr conds = true -> forallb (forallb cwf_node) wrappers = true ->
     (length conds <= S (length wrappers))%nat -> wf_pst st ->
     if_branches se fuel level conds wrappers st ts = Ok (conds', wrappers', r, st') ->
     forallb wf_expr conds' = true /\ forallb (forallb cwf_node) wrappers' = true /\
     (length conds' <= length wrappers')%nat /\ wf_pst st') /\
  (forall st ts ns st', wf_pst st ->
     parse_doc se fuel st ts = Ok (ns, st') -> forallb cwf_node ns = true /\ wf_pst st').
Proof. exact tie_doc_parsers_wf. Qed.
Print Assumptions C01_doc_parsers_wf.

(* the state compile_src starts parse_doc in meets the hypothesis of the previous theorem *)
Theorem C01_initial_parse_state_wf :
  forall (id : N) (name : str) (isstr : bool) (g : gstate), wf_pst (mkT id name isstr [] [] None, g).
Proof. exact tie_initial_pst_wf. Qed.
Print Assumptions C01_initial_parse_state_wf.

Theorem C01_compile_src_wf_partial :
  forall (se : senv) (fuel : nat) (name : str) (isstr : bool) (src : str) (g : gstate)
         (t : template) (g' : gstate),
    compile_src se fuel name isstr src g = Ok (t, g') -> cwf_template t = true.
Proof. exact tie_compile_src_cwf. Qed.
Print Assumptions C01_compile_src_wf_partial.

(* [compiler_cwf se]: forall f name g t g', compile_file se f name g = Ok (t, g') -> cwf_template t = true *)
Theorem C01_compiler_wf_partial : forall se : senv, compiler_cwf se.
Proof. exact tie_compiler_cwf_holds. Qed.
Print Assumptions C01_compiler_wf_partial.

(* ---- relation with Spec/SpecWf.v ---- *)
Theorem C01_wf_implies_cwf : forall t : template, wf_template t = true -> cwf_template t = true.
Proof. exact tie_wf_template_cwf. Qed.
Print Assumptions C01_wf_implies_cwf.

Theorem C01_wf_node_implies_cwf : forall n : node, wf_node n = true -> cwf_node n = true.
Proof. exact tie_wf_node_cwf. Qed.
Print Assumptions C01_wf_node_implies_cwf.

(* the file "t" = {% if a %}x{% else %}y{% else %}z{% endif %} compiles to one condition with
   three bodies: not wf_, but cwf_ *)
Example C01_two_else_compiles_to_three_bodies :
  match compile_file (world_senv cx_world) 100 cx_name g0 with
  | Ok (t, _) => (wf_template t, cwf_template t, tpl_root t)
  | _ => (true, false, [])
  end = (false, true,
         [NIf [EFilt (EVar [PIdent [97] (* a *) None]) []]
              [[NHtml 1 [120] (* x *) false false true true];
               [NHtml 1 [121] (* y *) false false true true];
               [NHtml 1 [122] (* z *) false false true true]]]).
Proof. exact tie_cx_compiled_not_wf. Qed.

Theorem C01_compiler_wf_is_false : ~ compiler_wf (world_senv cx_world).
Proof. exact tie_compiler_wf_is_false. Qed.
Print Assumptions C01_compiler_wf_is_false.

(* ... and it runs, without panic: the third body is never reached *)
Example C01_two_else_renders :
  api_render_file cx_world cx_name [] = OOk [121] (* y *) /\
  api_render_file cx_world cx_name [([97] (* a *), CV (as_value (VInt 1)))] = OOk [120] (* x *).
Proof. split; vm_compute; reflexivity. Qed.

(* ================= execution, with nothing assumed about the compiler ================= *)

Theorem C01_exec_compiled_never_panics :
  forall (se : senv) (globals : list (str * cval)), plain_ctx globals ->
  forall (fuel : nat) (g : gstate) (t : template) (ctx : list (str * cval)) (site : N),
    cwf_template t = true -> plain_ctx ctx ->
    snd (exec_template se globals fuel (mkM [] [] g) t ctx) <> Panic site /\
    snd (exec_template_unbuffered se globals fuel (mkM [] [] g) t ctx) <> Panic site.
Proof. exact tie_exec_compiled_never_panics. Qed.
Print Assumptions C01_exec_compiled_never_panics.

(* Props/C01.v's C01_exec_never_panics without [compiler_wf se] and [compiler_no_panic se] *)
Theorem C01_exec_never_panics_unconditional :
  forall (se : senv) (globals : list (str * cval)), plain_ctx globals ->
  forall (fuel : nat) (g : gstate) (t : template) (ctx : list (str * cval)) (site : N),
    wf_template t = true -> plain_ctx ctx ->
    snd (exec_template se globals fuel (mkM [] [] g) t ctx) <> Panic site /\
    snd (exec_template_unbuffered se globals fuel (mkM [] [] g) t ctx) <> Panic site.
Proof. exact tie_exec_never_panics_unconditional. Qed.
Print Assumptions C01_exec_never_panics_unconditional.

(* Props/C01.v's C01_run_template_never_panics likewise, and its form for compiled templates *)
Theorem C01_run_template_never_panics_unconditional :
  forall (w : world) (t : template) (g : gstate) (ctx : list (str * cval)) (site : N),
    plain_ctx (w_globals w) -> wf_template t = true -> plain_ctx ctx ->
    run_template w t g ctx <> OPanic site.
Proof. exact tie_run_template_never_panics_unconditional. Qed.
Print Assumptions C01_run_template_never_panics_unconditional.

Theorem C01_run_compiled_never_panics :
  forall (w : world) (t : template) (g : gstate) (ctx : list (str * cval)) (site : N),
    plain_ctx (w_globals w) -> cwf_template t = true -> plain_ctx ctx ->
    run_template w t g ctx <> OPanic site.
Proof. exact tie_run_compiled_never_panics. Qed.
Print Assumptions C01_run_compiled_never_panics.

(* the general forms, from any state satisfying the invariant *)
Theorem C01_exec_in_state_never_panics_unconditional :
  forall (se : senv) (globals : list (str * cval)), plain_ctx globals ->
  forall (fuel : nat) (st : mstate) (t : template) (ctx : list (str * cval)) (site : N),
    cwf_state st -> cwf_template t = true -> cwf_ctx (length (ms_frames st)) ctx ->
    snd (exec_template se globals fuel st t ctx) <> Panic site /\
    snd (exec_template_unbuffered se globals fuel st t ctx) <> Panic site.
Proof. exact tie_exec_in_state_never_panics_unconditional. Qed.
Print Assumptions C01_exec_in_state_never_panics_unconditional.

Theorem C01_eval_never_panics_unconditional :
  forall (se : senv) (globals : list (str * cval)), plain_ctx globals ->
  forall (fuel : nat) (st : mstate) (e : expr) (site : N),
    cexec_inv st -> wf_expr e = true -> eval se globals fuel st e <> Panic site.
Proof. exact tie_eval_never_panics_unconditional. Qed.
Print Assumptions C01_eval_never_panics_unconditional.

Theorem C01_nodes_never_panic_unconditional :
  forall (se : senv) (globals : list (str * cval)), plain_ctx globals ->
  forall (fuel : nat) (st : mstate) (ns : list node) (site : N),
    cexec_inv st -> forallb cwf_node ns = true ->
    snd (exec_nodes se globals fuel st ns) <> Panic site.
Proof. exact tie_nodes_never_panic_unconditional. Qed.
Print Assumptions C01_nodes_never_panic_unconditional.

Theorem C01_nodes_keep_invariant_unconditional :
  forall (se : senv) (globals : list (str * cval)), plain_ctx globals ->
  forall (fuel : nat) (st : mstate) (ns : list node) (o : str) (st' : mstate),
    cexec_inv st -> forallb cwf_node ns = true ->
    exec_nodes se globals fuel st ns = (o, Ok st') -> cexec_inv st'.
Proof. exact tie_nodes_keep_invariant_unconditional. Qed.
Print Assumptions C01_nodes_keep_invariant_unconditional.

Theorem C01_root_state_cinvariant :
  forall (globals : list (str * cval)) (t : template) (ctx : list (str * cval)) (execid : N) n g,
    plain_ctx globals -> cwf_template t = true -> plain_ctx ctx ->
    cexec_inv (mkM [root_frame globals t ctx execid] n g).
Proof. exact tie_root_state_cinv. Qed.
Print Assumptions C01_root_state_cinvariant.

(* ================= end to end ================= *)

(* set.FromString(src) then Execute(ctx): any world, any byte string, any plain context *)
Theorem C01_render_string_never_panics :
  forall (w : world) (src : str) (ctx : list (str * cval)) (site : N),
    plain_ctx (w_globals w) -> plain_ctx ctx -> api_render_string w src ctx <> OPanic site.
Proof. exact tie_render_string_never_panics. Qed.
Print Assumptions C01_render_string_never_panics.

(* set.FromFile(name) then Execute(ctx): any loaders, any file name *)
Theorem C01_render_file_never_panics :
  forall (w : world) (name : str) (ctx : list (str * cval)) (site : N),
    plain_ctx (w_globals w) -> plain_ctx ctx -> api_render_file w name ctx <> OPanic site.
Proof. exact tie_render_file_never_panics. Qed.
Print Assumptions C01_render_file_never_panics.

Theorem C01_render_file_log_never_panics :
  forall (w : world) (name : str) (ctx : list (str * cval)) (site : N),
    plain_ctx (w_globals w) -> plain_ctx ctx -> fst (api_render_file_log w name ctx) <> OPanic site.
Proof. exact tie_render_file_log_never_panics. Qed.
Print Assumptions C01_render_file_log_never_panics.

(* ---- the hypotheses are met by a real, non-trivial set of templates ---- *)
(* base: <{% block b %}B{% endblock %}>      inc: {% if a %}x{% else %}y{% else %}z{% endif %}
   t:    {% extends "base" %}{% block b %}{{ block.Super }}{% include "inc" %}
         {% for i in l %}{{ i.0|add:n[0] }}{% endfor %}{% endblock %}     (on one line) *)
Example C01c_compiled_set_is_cwf_not_wf :
  match compile_file (world_senv wfx_world) big_fuel wfx_name g0 with
  | Ok (t, _) => (cwf_template t, wf_template t)
  | _ => (false, false)
  end = (true, false).
Proof. vm_compute. reflexivity. Qed.

Example C01c_ctx_and_globals_are_plain : plain_ctx wfx_ctx /\ plain_ctx (w_globals wfx_world).
Proof.
  split.
  - intros k c [E|[E|[]]]; injection E as _ <-; eexists; reflexivity.
  - intros k c [].
Qed.

(* it renders "<By1115>" *)
Example C01c_compiled_set_runs :
  api_render_file wfx_world wfx_name wfx_ctx = OOk [60; 66; 121; 49; 49; 49; 53; 62].
Proof. vm_compute. reflexivity. Qed.

(* the parser's hypotheses are met as well: an expression, and a variable loop entered by
   parse_var_or_lit on  a.b[c](d, 2)|add:n[0]  (tokens written out) *)
Example C01c_expression_parses_wf :
  match lex [123; 123; 32; 97; 46; 98; 91; 99; 93; 40; 100; 44; 32; 50; 41; 124; 97; 100; 100; 58;
             110; 91; 48; 93; 32; 43; 32; 49; 32; 125; 125] (* {{ a.b[c](d, 2)|add:n[0] + 1 }} *) with
  | LexOk (_ :: ts) =>
      match pexpr (se_cfg (world_senv wfx_world)) ts with
      | Ok (e, _) => wf_expr e
      | _ => false
      end
  | _ => false
  end = true.
Proof. vm_compute. reflexivity. Qed.
