(* Property C01 - totality: compiling and executing never panics, crashes or hangs.
   In the model every place where the Go code could panic is an explicit [Panic site] outcome
   and every loop or recursion runs on explicit fuel, so "never panics" is a theorem about the
   outcome type and "never hangs" is structural (every model function is a structural
   fixpoint; the lexer's linear fuel is proved sufficient).
   Partial: the theorems cover the lexer, every built-in filter, name resolution over data,
   the whole compile path (no function of the expression parser, the tag parsers or the
   document parser returns [Panic], for any configuration, loaders, fuel and input) and
   (Props/C13.v) the macro depth guard; that the model's error/fuel/panic
   outcomes are the real code's is the correspondence run, which executes every generated
   case in the real engine under a stack limit and a deadline, in an isolated process for the
   crash-prone ones. Memory exhaustion and goroutine scheduling are outside the model. *)
From PV Require Import Lib.Outcome Model.Lexer Model.ParseExpr Model.ParseDoc Model.Filters Model.Exec Model.Api Spec.SpecWalk Spec.SpecNoPanic.
From PV Require Import Tie.C01.
Open Scope N_scope.

(* the lexer terminates on every byte string within its linear fuel ... *)
Theorem C01_lex_total : forall src : str, lex src <> LexFuel.
Proof. exact tie_lex_total. Qed.
Print Assumptions C01_lex_total.

(* ... no built-in filter reaches an operation that would panic, whatever value and argument ... *)
Theorem C01_filters_never_panic :
  forall (name : str) (x p : value) (site : N), apply_filter name x p <> Panic site.
Proof. exact tie_filters_never_panic. Qed.
Print Assumptions C01_filters_never_panic.

(* ... following a name through data ends in a value, the empty value or an execution error:
   wrong-typed keys and indexes, out-of-range numbers, missing names never panic *)
Theorem C01_walk_never_panics :
  forall se globals steps f st cur safe site,
    (length steps < f)%nat ->
    walk se globals f st cur safe (map part_of steps) <> Panic site.
Proof. exact tie_walk_never_panics. Qed.
Print Assumptions C01_walk_never_panics.

(* ---- the compile path never panics ---- *)

Theorem C01_parse_expr_never_panics : forall (cfg : pcfg) (fuel : nat) (s : N),
  (forall ts, parse_expression cfg fuel ts <> Panic s) /\
  (forall ts, parse_relational cfg fuel ts <> Panic s) /\
  (forall ts, parse_simple cfg fuel ts <> Panic s) /\
  (forall acc ts, simple_loop cfg fuel acc ts <> Panic s) /\
  (forall ts, parse_term cfg fuel ts <> Panic s) /\
  (forall acc ts, term_loop cfg fuel acc ts <> Panic s) /\
  (forall ts, parse_power cfg fuel ts <> Panic s) /\
  (forall ts, parse_factor cfg fuel ts <> Panic s) /\
  (forall ts, parse_filtered cfg fuel ts <> Panic s) /\
  (forall ts, filter_loop cfg fuel ts <> Panic s) /\
  (forall ts, parse_filter cfg fuel ts <> Panic s) /\
  (forall ts, parse_var_or_lit cfg fuel ts <> Panic s) /\
  (forall parts ts, var_loop cfg fuel parts ts <> Panic s) /\
  (forall acc ts, args_loop cfg fuel acc ts <> Panic s) /\
  (forall ts, parse_array cfg fuel ts <> Panic s) /\
  (forall acc ts, array_loop cfg fuel acc ts <> Panic s).
Proof. exact tie_parse_expr_never_panics. Qed.
Print Assumptions C01_parse_expr_never_panics.

Theorem C01_tag_args_never_panic : forall (cfg : pcfg) (fuel : nat) (ts : list token) (s : N),
  pexpr cfg ts <> Panic s /\
  pvarlit cfg ts <> Panic s /\
  pexprs cfg fuel ts <> Panic s /\
  with_pairs_new cfg fuel ts <> Panic s /\
  with_pairs_old cfg fuel ts <> Panic s /\
  include_pairs cfg fuel ts <> Panic s /\
  macro_params cfg fuel ts <> Panic s /\
  filter_tag_chain cfg fuel ts <> Panic s /\
  cycle_args cfg fuel ts <> Panic s /\
  (forall exported, import_list fuel exported ts <> Panic s).
Proof. exact tie_tag_args_never_panic. Qed.
Print Assumptions C01_tag_args_never_panic.

Theorem C01_skippers_never_panic : forall (se : senv) (ts : list atok) (s : N),
  (forall acc, end_args ts acc <> Panic s) /\
  skip_to_close ts <> Panic s /\
  (forall names, skip_until names ts <> Panic s) /\
  (forall path g, fetch se path g <> Panic s).
Proof. exact tie_skippers_never_panic. Qed.
Print Assumptions C01_skippers_never_panic.

Theorem C01_doc_parsers_never_panic : forall (se : senv) (fuel : nat) (s : N),
  (forall level st ts, parse_elem se fuel level st ts <> Panic s) /\
  (forall level names st ts, wrap_until se fuel level names st ts <> Panic s) /\
  (forall level st ts, parse_tag se fuel level st ts <> Panic s) /\
  (forall level impl args st ts, tag_parser se fuel level impl args st ts <> Panic s) /\
  (forall level conds wrappers st ts, if_branches se fuel level conds wrappers st ts <> Panic s) /\
  (forall st ts, parse_doc se fuel st ts <> Panic s).
Proof. exact tie_doc_parsers_never_panic. Qed.
Print Assumptions C01_doc_parsers_never_panic.

Theorem C01_compile_never_panics :
  forall (se : senv) (fuel : nat) (name : str) (isstr : bool) (src : str) (g : gstate) (s : N),
    compile_src se fuel name isstr src g <> Panic s /\
    compile_file se fuel name g <> Panic s.
Proof. exact tie_compile_never_panics. Qed.
Print Assumptions C01_compile_never_panics.

Theorem C01_api_compile_never_panics : forall (w : world) (src : str) (s : N),
  api_compile_only w src <> OPanic s.
Proof. exact tie_api_compile_never_panics. Qed.
Print Assumptions C01_api_compile_never_panics.

(* Non-vacuity: the functions above do not answer Fuel or Unmod on everything. *)
Example C01a_witness :
  (* {% if a %}x{% endif %}{{ b|upper }} *)
  is_ok (np_compile [123; 37; 32; 105; 102; 32; 97; 32; 37; 125; 120; 123; 37; 32; 101; 110; 100;
                     105; 102; 32; 37; 125; 123; 123; 32; 98; 124; 117; 112; 112; 101; 114; 32;
                     125; 125]) = true /\
  (* {% foo %} : unknown tag *)
  np_compile [123; 37; 32; 102; 111; 111; 32; 37; 125] = Err 2 /\
  (* {{ a : not closed *)
  np_compile [123; 123; 32; 97] = Err 2 /\
  (* {% if %} : missing condition *)
  np_compile [123; 37; 32; 105; 102; 32; 37; 125] = Err 2 /\
  (* {{ a|nosuchfilter }} : unknown filter *)
  np_compile [123; 123; 32; 97; 124; 110; 111; 115; 117; 99; 104; 102; 105; 108; 116; 101; 114;
              32; 125; 125] = Err 2 /\
  (* {% include "missing.tpl" %} : no loader has the file *)
  np_compile [123; 37; 32; 105; 110; 99; 108; 117; 100; 101; 32; 34; 109; 105; 115; 115; 105;
              110; 103; 46; 116; 112; 108; 34; 32; 37; 125] = Err 4 /\
  (* {% endif %} : end tag without its opening tag *)
  np_compile [123; 37; 32; 101; 110; 100; 105; 102; 32; 37; 125] = Err 2.
Proof. exact tie_c01a_witness. Qed.
