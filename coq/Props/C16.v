(* Property C16 - diagnostics point at the right place (lexer part proved here; parser and
   execution errors carry a token of the token list, whose position is covered by
   C16_lex_positions; which token they pick is checked against the source by the
   implementation-level oracle of the correspondence run). *)
From PV Require Import Lib.Bytes Lib.GoInt gen.Tables Model.Lexer Spec.SpecLex.
From PV Require Import Tie.C16.
Open Scope N_scope.

(* every token records the line and column at which its text really starts *)
Theorem C16_lex_positions : forall (src : str) (toks : list token),
  lex src = LexOk toks -> Forall (tok_at src) toks.
Proof. exact tie_lex_positions. Qed.
Print Assumptions C16_lex_positions.

(* a lexer error points to a line/column inside the source *)
Theorem C16_lex_error_position : forall (src : str) (l c : Z) (m : N),
  lex src = LexFail (LexErr l c m) ->
  exists off, (off <= length src)%nat /\ pos_at src off = (l, c).
Proof. exact tie_lex_error_position. Qed.
Print Assumptions C16_lex_error_position.

(* inserting text in front of a construct shifts the recorded positions by exactly the
   inserted lines and columns *)
Theorem C16_insert_shifts : forall (pre : str) (l : list frag),
  frags_ok (FText pre :: l) ->
  lex (frags_src l) = LexOk (frags_toks l (1, 1)%Z) /\
  lex (pre ++ frags_src l) =
    LexOk (html_tokens pre (1, 1)%Z ++ map (shift_tok (advs (1, 1)%Z pre)) (frags_toks l (1, 1)%Z)).
Proof. exact tie_insert_shifts. Qed.
Print Assumptions C16_insert_shifts.

(* the lexer terminates on every input within its linear fuel *)
Theorem C16_lex_total : forall src : str, lex src <> LexFuel.
Proof. exact tie_lex_total. Qed.
Print Assumptions C16_lex_total.

(* Non-vacuity: a document with text, a comment, a variable and a verbatim block meets
   frags_ok, and its tokens are what frags_toks says. *)
Example C16_witness : exists l, frags_ok l /\ length l = 5%nat /\
  lex (frags_src l) = LexOk (frags_toks l (1, 1)%Z).
Proof. exact tie_c16_witness. Qed.
