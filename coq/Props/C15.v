(* Property C15 - whitespace control.
   A "-" next to a delimiter removes all white space of the adjacent literal text on that side
   and nothing else; TrimBlocks removes the first newline directly after a block tag,
   LStripBlocks the spaces and tabs directly before one; spaceless removes white-space runs
   between two HTML tags of its rendered body; the result is what rendering the source with
   that white space deleted by hand gives, and no other byte changes.

   What each theorem contributes:
   - C15_html_trim_spec: the text node (NHtml) writes exactly [trim_spec ...] of its text,
     where trim_spec (Spec/SpecTrim.v) is written from the sentence above; the options are
     those of the template that is executed (the last template of the frame's chain
     base <- ... <- child) and they count for the texts of EVERY template of that chain (owner
     = id of any member: [owned_by_chain], Spec/SpecTrim.v), as in pongo2 after fix D42, where
     the options rewrite the tokens of the executed template and of all templates it extends
     (before the fix: only its own tokens, so the text of an extended base - which is the
     document that gets rendered - was left alone).
   - C15_block_options_cover_chain: hence a text of any member of the chain is rewritten under
     exactly the two flags of the last member.  C15_block_options_cover_parents (fix D42): for
     a chain [base; ...; child] of any length, a text of the base is rewritten under the
     child's TrimBlocks / LStripBlocks exactly like a text of the child itself.
     C15_example_block_options_cover_parents runs it through the whole pipeline: a child that
     only extends base.tpl, TrimBlocks on, renders what base.tpl rendered directly renders, and
     what base.tpl with the newlines deleted by hand renders without the option.
   - C15_trim_removes_only_outer_space / C15_html_substring: the output is the text minus a
     prefix and a suffix that consist of white space only - no other byte changes.
   - C15_dash_left / C15_dash_right / C15_dash_idem: a marker = deleting that white space from
     the source by hand (for every text, every combination of the other flags), and deleting
     by hand what a marker deletes anyway changes nothing.
   - C15_annotate, C15_annotate_tokens, C15_text_node_flags: the parser sets the four flags of
     a text from its two neighbour tokens and from nothing else: trimR iff the next token is a
     delimiter written with "-", trimL iff the previous one is, afterBlock iff the previous
     token is "%}", beforeBlock iff the next one is "{%"; stated for every token list and
     every position.
   - C15_spaceless_*: the spaceless matcher only deletes white-space bytes (every other byte
     stays, in order), for every input; its result is stable (running it again changes
     nothing); the tag writes exactly that.  WHICH runs are deleted (the ones between ">" and
     "<" on a line that has the matching "<" and ">") is the definition of the matcher
     (Model/Exec.v sl_pass, validated against the regular expression by the correspondence
     run) and is not re-specified here.
   The examples at the end run the whole pipeline (lexer, parser, executor) on sources that
   use each feature and on the same sources with the white space deleted by hand. *)
From PV Require Import Model.Exec Model.Api Spec.SpecComposeExamples Spec.SpecTrim.
From PV Require Import Tie.C15.
From PV Require Import Lib.Bytes Lib.GoInt Model.Lexer Model.Api.
From PV Require Import Spec.SpecLex Spec.SpecRender Spec.SpecTrim Spec.SpecDash.
From PV Require Import Tie.C15e.
Open Scope N_scope.

Theorem C15_html_trim_spec :
  forall se globals f st fr pre entry owner val trimL trimR after before,
    top_frame st = Ok fr -> f_chain fr = pre ++ [entry] ->
    exec_node se globals (S f) st (NHtml owner val trimL trimR after before) =
      xok (trim_spec (owned_by_chain (map tpl_id (pre ++ [entry])) owner && tpl_trim entry)
                     (owned_by_chain (map tpl_id (pre ++ [entry])) owner && tpl_lstrip entry)
                     trimL trimR after before val) st.
Proof. exact tie_html_trim_spec. Qed.
Print Assumptions C15_html_trim_spec.

Theorem C15_block_options_cover_chain :
  forall se globals f st fr pre entry m val trimL trimR after before,
    top_frame st = Ok fr -> f_chain fr = pre ++ [entry] -> In m (pre ++ [entry]) ->
    exec_node se globals (S f) st (NHtml (tpl_id m) val trimL trimR after before) =
      xok (trim_spec (tpl_trim entry) (tpl_lstrip entry) trimL trimR after before val) st.
Proof. exact tie_html_trim_member. Qed.
Print Assumptions C15_block_options_cover_chain.

Theorem C15_block_options_cover_parents :
  forall se globals f st fr base mid child val trimL trimR after before,
    top_frame st = Ok fr -> f_chain fr = base :: mid ++ [child] ->
    exec_node se globals (S f) st (NHtml (tpl_id base) val trimL trimR after before) =
      xok (trim_spec (tpl_trim child) (tpl_lstrip child) trimL trimR after before val) st /\
    exec_node se globals (S f) st (NHtml (tpl_id base) val trimL trimR after before) =
    exec_node se globals (S f) st (NHtml (tpl_id child) val trimL trimR after before).
Proof. exact tie_html_cover_parents. Qed.
Print Assumptions C15_block_options_cover_parents.

Theorem C15_trim_removes_only_outer_space : forall tb ls tl tr af bf val,
  exists a b, val = a ++ trim_spec tb ls tl tr af bf val ++ b /\
              forallb is_tpl_space a = true /\ forallb is_tpl_space b = true.
Proof. exact trim_spec_substring. Qed.
Print Assumptions C15_trim_removes_only_outer_space.

Theorem C15_html_substring :
  forall se globals f st fr owner val trimL trimR after before,
    top_frame st = Ok fr ->
    exists out a b,
      exec_node se globals (S f) st (NHtml owner val trimL trimR after before) = xok out st /\
      val = a ++ out ++ b /\ forallb is_tpl_space a = true /\ forallb is_tpl_space b = true.
Proof. exact tie_html_substring. Qed.
Print Assumptions C15_html_substring.

Theorem C15_no_marker_no_change : forall af bf val, trim_spec false false false false af bf val = val.
Proof. exact trim_spec_plain. Qed.
Print Assumptions C15_no_marker_no_change.

Theorem C15_dash_left :
  forall se globals f st owner val trimR after before,
    exec_node se globals f st (NHtml owner val true trimR after before) =
    exec_node se globals f st (NHtml owner (drop_leading is_tpl_space val) false trimR after before).
Proof. exact tie_html_dash_left. Qed.
Print Assumptions C15_dash_left.

Theorem C15_dash_right :
  forall se globals f st owner val trimL after before,
    exec_node se globals f st (NHtml owner val trimL true after before) =
    exec_node se globals f st (NHtml owner (drop_trailing is_tpl_space val) trimL false after before).
Proof. exact tie_html_dash_right. Qed.
Print Assumptions C15_dash_right.

Theorem C15_dash_idem :
  forall se globals f st owner val trimL trimR after before,
    exec_node se globals f st
      (NHtml owner (drop_leading is_tpl_space (drop_trailing is_tpl_space val)) true true after before) =
    exec_node se globals f st (NHtml owner val true true after before) /\
    (trimL = true -> exec_node se globals f st (NHtml owner (drop_leading is_tpl_space val) trimL trimR after before) =
                     exec_node se globals f st (NHtml owner val trimL trimR after before)) /\
    (trimR = true -> exec_node se globals f st (NHtml owner (drop_trailing is_tpl_space val) trimL trimR after before) =
                     exec_node se globals f st (NHtml owner val trimL trimR after before)).
Proof. exact tie_html_dash_idem. Qed.
Print Assumptions C15_dash_idem.

(* hand deletion itself: what is cut is white space, what is left starts / ends with none *)
Theorem C15_hand_strip : forall p l,
  (exists a, l = a ++ drop_leading p l /\ forallb p a = true) /\
  (exists b, l = drop_trailing p l ++ b /\ forallb p b = true) /\
  match drop_leading p l with c :: _ => p c = false | [] => True end /\
  (forall a c, drop_trailing p l = a ++ [c] -> p c = false).
Proof. exact hand_strip_facts. Qed.
Print Assumptions C15_hand_strip.

Theorem C15_annotate : forall ts prev i a,
  nth_error (annotate prev ts) i = Some a ->
  nth_error ts i = Some (a_tok a) /\
  a_trimL a = holds carries_dash (tok_before prev ts i) /\
  a_trimR a = holds carries_dash (tok_after ts i) /\
  a_after a = holds closes_tag (tok_before prev ts i) /\
  a_before a = holds opens_tag (tok_after ts i).
Proof. exact annotate_nth. Qed.
Print Assumptions C15_annotate.

Theorem C15_annotate_tokens : forall ts prev,
  map a_tok (annotate prev ts) = ts /\ length (annotate prev ts) = length ts.
Proof. exact annotate_tokens. Qed.
Print Assumptions C15_annotate_tokens.

Theorem C15_text_node_flags : forall se f level st a r,
  ttyp (a_tok a) = THTML ->
  parse_elem se (S f) level st (a :: r) =
    Ok (NHtml (t_id (fst st)) (tval (a_tok a)) (a_trimL a) (a_trimR a) (a_after a) (a_before a), r, st).
Proof. exact parse_elem_html. Qed.
Print Assumptions C15_text_node_flags.

Theorem C15_spaceless_deletes_only_space : forall s o,
  spaceless_model s = Some o -> deleted_ws s o /\ visible o = visible s.
Proof. exact spaceless_only_space. Qed.
Print Assumptions C15_spaceless_deletes_only_space.

Theorem C15_spaceless_pass_deletes_only_space : forall s lt_seen closing,
  deleted_ws s (fst (sl_pass 0 lt_seen closing s)).
Proof. exact sl_pass_only_space. Qed.
Print Assumptions C15_spaceless_pass_deletes_only_space.

Theorem C15_spaceless_idem : forall s o, spaceless_model s = Some o -> spaceless_model o = Some o.
Proof. exact spaceless_idem. Qed.
Print Assumptions C15_spaceless_idem.

Theorem C15_spaceless_exec : forall se globals f st body o st1,
  exec_nodes se globals f st body = (o, Ok st1) ->
  exists o', exec_node se globals (S f) st (NSpaceless body) = (o', Ok st1) /\
             deleted_ws o o' /\ visible o' = visible o /\ spaceless_model o' = Some o'.
Proof. exact exec_spaceless. Qed.
Print Assumptions C15_spaceless_exec.

(* ---------- non-vacuity and end-to-end instances ---------- *)
(* w_plain: no options; w_trim_lstrip: TrimBlocks and LStripBlocks (Spec/SpecComposeExamples.v) *)
(* every marker at once, and the same source with that white space deleted by hand *)
Example C15_example_dashes :
  api_render_string w_plain [97; 32; 10; 32; 123; 123; 45; 32; 49; 32; 45; 125; 125; 32; 9; 32; 98; 32; 10; 123; 37; 45; 32; 105; 102; 32; 49; 32; 37; 125; 10; 32; 32; 120; 32; 32; 123; 37; 32; 101; 110; 100; 105; 102; 32; 45; 37; 125; 10; 32; 99]
    (* a \n {{- 1 -}} \t b \n{%- if 1 %}\n  x  {% endif -%}\n c *) [] =
  OOk [97; 49; 98; 10; 32; 32; 120; 32; 32; 99] (* a1b\n  x  c *).
Proof. vm_compute. reflexivity. Qed.

Example C15_example_dashes_by_hand :
  api_render_string w_plain [97; 123; 123; 32; 49; 32; 125; 125; 98; 123; 37; 32; 105; 102; 32; 49; 32; 37; 125; 10; 32; 32; 120; 32; 32; 123; 37; 32; 101; 110; 100; 105; 102; 32; 37; 125; 99]
    (* a{{ 1 }}b{% if 1 %}\n  x  {% endif %}c *) [] =
  OOk [97; 49; 98; 10; 32; 32; 120; 32; 32; 99] (* a1b\n  x  c *).
Proof. vm_compute. reflexivity. Qed.

(* TrimBlocks + LStripBlocks, and the source with the newline after / the blanks before each
   block tag deleted by hand, rendered without the options *)
Example C15_example_block_options :
  api_render_string w_trim_lstrip [60; 100; 105; 118; 62; 10; 32; 32; 123; 37; 32; 105; 102; 32; 49; 32; 37; 125; 10; 121; 101; 115; 10; 32; 32; 123; 37; 32; 101; 110; 100; 105; 102; 32; 37; 125; 10; 60; 47; 100; 105; 118; 62]
    (* <div>\n  {% if 1 %}\nyes\n  {% endif %}\n</div> *) [] =
  OOk [60; 100; 105; 118; 62; 10; 121; 101; 115; 10; 60; 47; 100; 105; 118; 62] (* <div>\nyes\n</div> *).
Proof. vm_compute. reflexivity. Qed.

Example C15_example_block_options_by_hand :
  api_render_string w_plain [60; 100; 105; 118; 62; 10; 123; 37; 32; 105; 102; 32; 49; 32; 37; 125; 121; 101; 115; 10; 123; 37; 32; 101; 110; 100; 105; 102; 32; 37; 125; 60; 47; 100; 105; 118; 62]
    (* <div>\n{% if 1 %}yes\n{% endif %}</div> *) [] =
  OOk [60; 100; 105; 118; 62; 10; 121; 101; 115; 10; 60; 47; 100; 105; 118; 62] (* <div>\nyes\n</div> *).
Proof. vm_compute. reflexivity. Qed.

Example C15_example_spaceless :
  api_render_string w_plain [123; 37; 32; 115; 112; 97; 99; 101; 108; 101; 115; 115; 32; 37; 125; 60; 97; 62; 32; 60; 98; 62; 120; 32; 121; 60; 47; 98; 62; 10; 9; 60; 99; 62; 32; 60; 47; 99; 62; 32; 60; 47; 97; 62; 32; 122; 123; 37; 32; 101; 110; 100; 115; 112; 97; 99; 101; 108; 101; 115; 115; 32; 37; 125]
    (* {% spaceless %}<a> <b>x y</b>\n\t<c> </c> </a> z{% endspaceless %} *) [] =
  OOk [60; 97; 62; 60; 98; 62; 120; 32; 121; 60; 47; 98; 62; 60; 99; 62; 60; 47; 99; 62; 60; 47; 97; 62; 32; 122] (* <a><b>x y</b><c></c></a> z *).
Proof. vm_compute. reflexivity. Qed.

(* the flags the parser computes for  a {{- 1 }} b {% if 1 -%} c{% endif %} : the text before "{{-" gets trimR,
   the text after "-%}" gets trimL and afterBlock, the text before "{%" gets beforeBlock *)
Example C15_example_annotate :
  match lex [97; 32; 123; 123; 45; 32; 49; 32; 125; 125; 32; 98; 32; 123; 37; 32; 105; 102; 32; 49; 32; 45; 37; 125; 32; 99; 123; 37; 32; 101; 110; 100; 105; 102; 32; 37; 125] with
  | LexOk ts => map (fun a => (is_text (a_tok a), a_trimL a, a_trimR a, a_after a, a_before a))
                    (filter (fun a => is_text (a_tok a)) (annotate None ts))
  | _ => []
  end = [(true, false, true, false, false); (true, false, false, false, true); (true, true, false, true, true)].
Proof. vm_compute. reflexivity. Qed.

(* the hypotheses of C15_html_trim_spec are met by the frame an execution starts in *)
Example C15_example_hypotheses :
  let t := Tpl 7 [116] false [] [] [] None true true in
  let st := mkM [root_frame [] t [] 1] [] (mkG 2 []) in
  exists fr, top_frame st = Ok fr /\ f_chain fr = [] ++ [t] /\
    exec_node (world_senv w_plain) [] 1 st (NHtml 7 [10; 32; 120; 32; 9] false true true true) =
      xok [32; 120] st.
Proof. eexists. split; [reflexivity|]. split; vm_compute; reflexivity. Qed.

(* the hypotheses of C15_block_options_cover_parents are met by a frame whose chain has three
   members with different ids and different flags: the text is owned by the base (id 3, no
   option of its own) and is rewritten under the options of the child (id 7, both on); a text
   owned by no member of the chain (id 9) is left alone *)
Example C15_example_cover_parents_hypotheses :
  let base := Tpl 3 [98] false [] [] [] None false false in
  let mid := Tpl 5 [109] false [] [] [] (Some base) true false in
  let child := Tpl 7 [99] false [] [] [] (Some mid) true true in
  let fr := mkF [] [] true 0 1 [base; mid; child] in
  let st := mkM [fr] [] (mkG 8 []) in
  top_frame st = Ok fr /\ f_chain fr = base :: [mid] ++ [child] /\
  exec_node (world_senv w_plain) [] 1 st (NHtml 3 [10; 32; 120; 32; 9] false false true true) =
    xok [32; 120] st /\
  exec_node (world_senv w_plain) [] 1 st (NHtml 7 [10; 32; 120; 32; 9] false false true true) =
    xok [32; 120] st /\
  exec_node (world_senv w_plain) [] 1 st (NHtml 9 [10; 32; 120; 32; 9] false false true true) =
    xok [10; 32; 120; 32; 9] st.
Proof. repeat split; vm_compute; reflexivity. Qed.

(* fix D42 through the whole pipeline (lexer, parser, loader, executor).  The only file is
   base.tpl = "a\n{% if x %}\nb{% endif %}\nc"; the executed template is the string
   {% extends "base.tpl" %}; x is true.  With TrimBlocks on, the newline after each of the
   base's two block tags is deleted although the base is not the executed template: the output
   is that of base.tpl rendered directly with TrimBlocks, and that of the base with these two
   newlines deleted by hand rendered without the option.  Without the option nothing is
   deleted. *)
Example C15_example_block_options_cover_parents :
  api_render_string d42_world_trim d42_child_src d42_ctx = OOk [97; 10; 98; 99] (* a\nbc *) /\
  api_render_string d42_world_trim d42_child_src d42_ctx =
    api_render_file d42_world_trim [98; 97; 115; 101; 46; 116; 112; 108] (* base.tpl *) d42_ctx /\
  api_render_string d42_world_trim d42_child_src d42_ctx =
    api_render_string d42_world_plain d42_base_by_hand d42_ctx /\
  api_render_string d42_world_plain d42_child_src d42_ctx =
    OOk [97; 10; 10; 98; 10; 99] (* a\n\nb\nc *).
Proof. repeat split; vm_compute; reflexivity. Qed.

(* ================= end to end: a dash marker equals deleting the whitespace by hand ================= *)
(* Property C15, end to end - a "-" marker equals deleting the white space by hand.

   "A "-" next to a delimiter ({{-, -}}) removes all white space of the adjacent literal text on
   that side and nothing else; the result equals rendering the source from which that white
   space was deleted by hand, and no other byte of the output changes."

   Props/C15.v states this node by node.  Here it is stated on SOURCE TEXTS, through the lexer,
   the parser and the executor, for the documents of Spec/SpecDash.v: any number of items, an
   item being a literal text or a variable {{ name }} whose delimiters may each carry a "-".
   [doc_src d] is the source of d with its markers; [doc_strip d] is d with, for every "{{-",
   the trailing white space of the text before it deleted, for every "-}}" the leading white
   space of the text after it, and all markers cleared.  [doc_ok d]: names are letters and no
   reserved word, two texts are never adjacent, a text opens no delimiter - also not together
   with the "{" that follows it, before or after the deletion (see finding 1 below).

   What each theorem contributes:
   - C15_dash_end_to_end_partial (main): for every world (all loaders, BOTH BLOCK OPTIONS IN ANY
     SETTING, bans, globals), every context that passes the key check and holds no macro, and
     every well-formed document of up to 59000 items:
         api_render_string w (doc_src d) ctx = api_render_string w (doc_src (doc_strip d)) ctx
     - same output bytes, same outcome (also when a variable fails: same error, same bytes
     written before it).  "partial" because of the hypothesis macro_free: for a context that
     holds a macro the equation is false IN THE MODEL at the fuel boundary (finding 2 below:
     the marked document has more nodes, so its variables run on less fuel); pongo2 has no
     fuel.  The block options need no hypothesis: they only act next to {% %} tags.
   - C15e_render_shape: what both sides are equal to.  There is a function vt from names to
     outputs (it depends on the world and the context only, not on the position, not on the
     markers) such that every well-formed document renders to [doc_out vt]: its texts, each
     stripped on exactly the sides where a marker stands, and the outputs of its variables, in
     order.  So a marker changes nothing but the white space of the adjacent text.
   - C15e_hand_deletion_pure: on [doc_out] the marker and the deletion by hand coincide, for
     every document and every vt; a well-formed document stays well-formed.
   The stages, each for every well-formed document of any length:
   - C15e_lex: the lexer produces [doc_toks]: one text token per non-empty text, and per
     variable "{{" (flag = written "{{-"), the identifier, "}}" (flag = written "-}}"), with
     their positions (by the composition theorem C06_lex_compose; C15e_var_fragment: a
     variable is a self-contained code fragment in the sense of Spec/SpecLex.v).
   - C15e_parse / C15e_compile: the document parser turns these tokens into [doc_nodes]: a
     text node per non-empty text with trimL = the variable before it was written "-}}",
     trimR = the variable after it is written "{{-", no block flag; a variable node per
     variable; compile_src returns the template with exactly these nodes.
   - C15e_exec_nodes: node level, ARBITRARY expressions between the braces, any state, any
     fuel, any context: the marked node list and the node list stripped by hand execute alike
     (here every text, also an empty one, is a node, so both lists have the same length; by
     C15_dash_left / C15_dash_right along the list).
   - C15e_exec_doc_nodes: the parser's node lists of d and of doc_strip d (which may be
     shorter: a text that becomes empty is no node) execute alike in every state whose top
     frame holds no macro, on any two sufficient amounts of fuel.
   Examples: a document with every combination of markers, a text that vanishes, a stray "{",
   a string that autoescape rewrites and an unknown name meets all hypotheses; its source,
   its source stripped by hand, and both renderings (computed).  Then the two findings. *)
Theorem C15_dash_end_to_end_partial : forall (w : world) (ctx : list (str * cval)) (d : doc),
  doc_ok d = true -> N.of_nat (length d) <= 59000 ->
  keys_ok (ctx_update (w_globals w) ctx) = true ->
  macro_free (ctx_update (w_globals w) ctx) = true ->
  api_render_string w (doc_src d) ctx = api_render_string w (doc_src (doc_strip d)) ctx.
Proof. exact tie_dash_end_to_end. Qed.
Print Assumptions C15_dash_end_to_end_partial.

Theorem C15e_render_shape : forall (w : world) (ctx : list (str * cval)),
  keys_ok (ctx_update (w_globals w) ctx) = true ->
  macro_free (ctx_update (w_globals w) ctx) = true ->
  exists vt : str -> res str, forall d : doc,
    doc_ok d = true -> N.of_nat (length d) <= 59000 ->
    api_render_string w (doc_src d) ctx = obs_of_out (doc_out vt false d).
Proof. exact tie_render_shape. Qed.
Print Assumptions C15e_render_shape.

Theorem C15e_hand_deletion_pure :
  (forall (vt : str -> res str) (d : doc), doc_out vt false d = doc_out vt false (doc_strip d)) /\
  (forall d : doc, doc_ok d = true -> doc_ok (doc_strip d) = true).
Proof. exact (conj tie_doc_out_strip tie_doc_ok_strip). Qed.
Print Assumptions C15e_hand_deletion_pure.

(* the hypothesis on the merged context follows from the same on globals and context *)
Theorem C15e_macro_free_merged : forall (globals ctx : list (str * cval)),
  macro_free globals = true -> macro_free ctx = true -> macro_free (ctx_update globals ctx) = true.
Proof. exact tie_macro_free_merged. Qed.
Print Assumptions C15e_macro_free_merged.

(* ---------- the stages ---------- *)
Theorem C15e_lex : forall d : doc,
  doc_ok d = true -> lex (doc_src d) = LexOk (doc_toks d (1, 1)%Z).
Proof. exact tie_lex_doc. Qed.
Print Assumptions C15e_lex.

Theorem C15e_var_fragment : forall (n : str) (dl dr : bool),
  name_ok n = true -> code_ok (var_src n dl dr) (var_toks n dl dr).
Proof. exact tie_var_code_ok. Qed.
Print Assumptions C15e_var_fragment.

Theorem C15e_parse : forall (se : senv) (d : doc) (p : Z * Z) (F : nat) (st : pst),
  doc_ok d = true -> (length d + 2 <= F)%nat ->
  parse_doc se F st (annotate None (doc_toks d p)) = Ok (doc_nodes (t_id (fst st)) false d, st).
Proof. exact tie_parse_doc_top. Qed.
Print Assumptions C15e_parse.

Theorem C15e_compile : forall (se : senv) (d : doc) (F : nat) (name : str) (isstr : bool) (g : gstate),
  doc_ok d = true -> (length d + 2 <= F)%nat ->
  compile_src se (S F) name isstr (doc_src d) g =
  Ok (Tpl (g_nid g) name isstr (doc_nodes (g_nid g) false d) [] [] None (se_trim se) (se_lstrip se),
      mkG (g_nid g + 1) (g_log g)).
Proof. exact tie_compile_doc. Qed.
Print Assumptions C15e_compile.

Theorem C15e_exec_nodes : forall (se : senv) (globals : list (str * cval)) (owner : N)
                                 (d : list (item expr)) (prev : bool) (f : nat) (st : mstate),
  exec_nodes se globals f st (item_nodes owner prev d) =
  exec_nodes se globals f st (item_nodes owner false (strip_from prev d)).
Proof. exact tie_exec_item_nodes_strip. Qed.
Print Assumptions C15e_exec_nodes.

Theorem C15e_exec_doc_nodes : forall (se : senv) (globals : list (str * cval)) (owner : N) (d : doc)
                                     (F F' : nat) (st : mstate) (fr : frame),
  doc_ok d = true -> top_frame st = Ok fr ->
  macro_free (f_priv fr) = true -> macro_free (f_pub fr) = true ->
  (length d + 6 <= F)%nat -> (length d + 6 <= F')%nat ->
  exec_nodes se globals F st (doc_nodes owner false d) =
  exec_nodes se globals F' st (doc_nodes owner false (doc_strip d)).
Proof. exact tie_exec_doc_nodes. Qed.
Print Assumptions C15e_exec_doc_nodes.

(* ---------- non-vacuity ---------- *)
(* c15e_world: TrimBlocks and LStripBlocks on, a global yy = 42; c15e_ctx: x = "<hi>";
   c15e_doc:  a \n {{- x -}} \t {{- yy -}} b{ {{ z -}} c\n
   stripped by hand:  a{{ x }}{{ yy }}b{ {{ z }}c\n  ; both render to  a&lt;hi&gt;42b{ c\n *)
Example C15e_witness :
  doc_ok c15e_doc = true /\ N.of_nat (length c15e_doc) <= 59000 /\
  keys_ok (ctx_update (w_globals c15e_world) c15e_ctx) = true /\
  macro_free (ctx_update (w_globals c15e_world) c15e_ctx) = true /\
  doc_src c15e_doc =
    [97; 32; 10; 32; 123; 123; 45; 32; 120; 32; 45; 125; 125; 32; 9; 32; 123; 123; 45; 32; 121; 121;
     32; 45; 125; 125; 32; 98; 123; 32; 123; 123; 32; 122; 32; 45; 125; 125; 32; 99; 10] /\
  doc_src (doc_strip c15e_doc) =
    [97; 123; 123; 32; 120; 32; 125; 125; 123; 123; 32; 121; 121; 32; 125; 125; 98; 123; 32; 123;
     123; 32; 122; 32; 125; 125; 99; 10] /\
  api_render_string c15e_world (doc_src c15e_doc) c15e_ctx =
    OOk [97; 38; 108; 116; 59; 104; 105; 38; 103; 116; 59; 52; 50; 98; 123; 32; 99; 10] /\
  api_render_string c15e_world (doc_src (doc_strip c15e_doc)) c15e_ctx =
    OOk [97; 38; 108; 116; 59; 104; 105; 38; 103; 116; 59; 52; 50; 98; 123; 32; 99; 10].
Proof. exact tie_c15e_witness. Qed.

(* the same document stage by stage (computed): its tokens, its nodes with their flags *)
Example C15e_witness_stages :
  lex (doc_src c15e_doc) = LexOk (doc_toks c15e_doc (1, 1)%Z) /\
  parse_doc (world_senv c15e_world) 20 (mkT 1 [] true [] [] None, g0)
            (annotate None (doc_toks c15e_doc (1, 1)%Z)) =
    Ok (doc_nodes 1 false c15e_doc, (mkT 1 [] true [] [] None, g0)) /\
  doc_nodes 1 false c15e_doc =
    [ NHtml 1 [97; 32; 10; 32] false true false false; NVar (var_expr [120]);
      NHtml 1 [32; 9; 32] true true false false; NVar (var_expr [121; 121]);
      NHtml 1 [32; 98; 123; 32] true false false false; NVar (var_expr [122]);
      NHtml 1 [32; 99; 10] true false false false ].
Proof. exact tie_c15e_witness_stages. Qed.

(* ---------- findings: what the two side conditions exclude ---------- *)
(* 1.  a{ {{- x }}  renders to  a{&lt;hi&gt;  ; with the blank deleted by hand it reads
   a{{{ x }}  and does not compile: the deletion has created a delimiter.  doc_ok says no. *)
Example C15e_brace_counterexample :
  doc_ok c15e_bad_doc = false /\
  doc_src c15e_bad_doc = [97; 123; 32; 123; 123; 45; 32; 120; 32; 125; 125] /\
  doc_src (doc_strip c15e_bad_doc) = [97; 123; 123; 123; 32; 120; 32; 125; 125] /\
  api_render_string c15e_world (doc_src c15e_bad_doc) c15e_ctx =
    OOk [97; 123; 38; 108; 116; 59; 104; 105; 38; 103; 116; 59] /\
  api_render_string c15e_world (doc_src (doc_strip c15e_bad_doc)) c15e_ctx = OCompileErr 2.
Proof. exact tie_c15e_brace_counterexample. Qed.

(* 2.  " {{- x }}a{{ m }}" in a context where m is a macro whose body is nested 29995 deep:
   the model runs out of fuel on the marked source and not on the stripped one (it has one
   node less).  An artefact of the model's fuel; the reason for macro_free above. *)
Example C15e_macro_fuel_artefact :
  doc_ok c15e_macro_doc = true /\
  keys_ok (ctx_update [] c15e_macro_ctx) = true /\
  macro_free (ctx_update [] c15e_macro_ctx) = false /\
  api_render_string (mkWorld [] false false [] [] [] [] []) (doc_src c15e_macro_doc) c15e_macro_ctx = OFuel /\
  api_render_string (mkWorld [] false false [] [] [] [] []) (doc_src (doc_strip c15e_macro_doc)) c15e_macro_ctx
    = OOk [97].
Proof. exact tie_c15e_macro_fuel_artefact. Qed.
