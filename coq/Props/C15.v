(* Property C15 - whitespace control.
   A "-" next to a delimiter removes all white space of the adjacent literal text on that side
   and nothing else; TrimBlocks removes the first newline directly after a block tag,
   LStripBlocks the spaces and tabs directly before one; spaceless removes white-space runs
   between two HTML tags of its rendered body; the result is what rendering the source with
   that white space deleted by hand gives, and no other byte changes.

   What each theorem contributes:
   - C15_html_trim_spec: the text node (NHtml) writes exactly [trim_spec ...] of its text,
     where trim_spec (Spec/SpecTrim.v) is written from the sentence above; the options count
     only for texts of the template that is executed itself (owner = id of the last template
     of the chain), as in pongo2, where the options rewrite that template's tokens.
   - C15_trim_removes_only_outer_space / C15_html_substring: the output is the text minus a
     prefix and a suffix that consist of white space only - no other byte changes.
   - C15_dash_left / C15_dash_right / C15_dash_idem: a marker = deleting that white space from
     the source by hand (for every text, every combination of the other flags), and deleting
     by hand what a marker deletes anyway changes nothing.
   - C15_annotate, C15_annotate_tokens, C15_text_node_flags: the parser sets the four flags of
     a text from its two neighbour tokens and from nothing else: trimR iff the next token is a
     delimiter written with "-", trimL iff the previous one is, afterBlock iff the previous
     token is "%}", beforeBlock iff the next one is "{%"; stated for every token list and
     every position.
   - C15_spaceless_*: the spaceless matcher only deletes white-space bytes (every other byte
     stays, in order), for every input; its result is stable (running it again changes
     nothing); the tag writes exactly that.  WHICH runs are deleted (the ones between ">" and
     "<" on a line that has the matching "<" and ">") is the definition of the matcher
     (Model/Exec.v sl_pass, validated against the regular expression by the correspondence
     run) and is not re-specified here.
   The examples at the end run the whole pipeline (lexer, parser, executor) on sources that
   use each feature and on the same sources with the white space deleted by hand. *)
From PV Require Import Model.Exec Model.Api Spec.SpecComposeExamples Spec.SpecTrim.
From PV Require Import Tie.C15.
Open Scope N_scope.

Theorem C15_html_trim_spec :
  forall se globals f st fr pre entry owner val trimL trimR after before,
    top_frame st = Ok fr -> f_chain fr = pre ++ [entry] ->
    exec_node se globals (S f) st (NHtml owner val trimL trimR after before) =
      xok (trim_spec ((tpl_id entry =? owner) && tpl_trim entry)
                     ((tpl_id entry =? owner) && tpl_lstrip entry)
                     trimL trimR after before val) st.
Proof. exact tie_html_trim_spec. Qed.
Print Assumptions C15_html_trim_spec.

Theorem C15_trim_removes_only_outer_space : forall tb ls tl tr af bf val,
  exists a b, val = a ++ trim_spec tb ls tl tr af bf val ++ b /\
              forallb is_tpl_space a = true /\ forallb is_tpl_space b = true.
Proof. exact trim_spec_substring. Qed.
Print Assumptions C15_trim_removes_only_outer_space.

Theorem C15_html_substring :
  forall se globals f st fr owner val trimL trimR after before,
    top_frame st = Ok fr ->
    exists out a b,
      exec_node se globals (S f) st (NHtml owner val trimL trimR after before) = xok out st /\
      val = a ++ out ++ b /\ forallb is_tpl_space a = true /\ forallb is_tpl_space b = true.
Proof. exact tie_html_substring. Qed.
Print Assumptions C15_html_substring.

Theorem C15_no_marker_no_change : forall af bf val, trim_spec false false false false af bf val = val.
Proof. exact trim_spec_plain. Qed.
Print Assumptions C15_no_marker_no_change.

Theorem C15_dash_left :
  forall se globals f st owner val trimR after before,
    exec_node se globals f st (NHtml owner val true trimR after before) =
    exec_node se globals f st (NHtml owner (drop_leading is_tpl_space val) false trimR after before).
Proof. exact tie_html_dash_left. Qed.
Print Assumptions C15_dash_left.

Theorem C15_dash_right :
  forall se globals f st owner val trimL after before,
    exec_node se globals f st (NHtml owner val trimL true after before) =
    exec_node se globals f st (NHtml owner (drop_trailing is_tpl_space val) trimL false after before).
Proof. exact tie_html_dash_right. Qed.
Print Assumptions C15_dash_right.

Theorem C15_dash_idem :
  forall se globals f st owner val trimL trimR after before,
    exec_node se globals f st
      (NHtml owner (drop_leading is_tpl_space (drop_trailing is_tpl_space val)) true true after before) =
    exec_node se globals f st (NHtml owner val true true after before) /\
    (trimL = true -> exec_node se globals f st (NHtml owner (drop_leading is_tpl_space val) trimL trimR after before) =
                     exec_node se globals f st (NHtml owner val trimL trimR after before)) /\
    (trimR = true -> exec_node se globals f st (NHtml owner (drop_trailing is_tpl_space val) trimL trimR after before) =
                     exec_node se globals f st (NHtml owner val trimL trimR after before)).
Proof. exact tie_html_dash_idem. Qed.
Print Assumptions C15_dash_idem.

(* hand deletion itself: what is cut is white space, what is left starts / ends with none *)
Theorem C15_hand_strip : forall p l,
  (exists a, l = a ++ drop_leading p l /\ forallb p a = true) /\
  (exists b, l = drop_trailing p l ++ b /\ forallb p b = true) /\
  match drop_leading p l with c :: _ => p c = false | [] => True end /\
  (forall a c, drop_trailing p l = a ++ [c] -> p c = false).
Proof. exact hand_strip_facts. Qed.
Print Assumptions C15_hand_strip.

Theorem C15_annotate : forall ts prev i a,
  nth_error (annotate prev ts) i = Some a ->
  nth_error ts i = Some (a_tok a) /\
  a_trimL a = holds carries_dash (tok_before prev ts i) /\
  a_trimR a = holds carries_dash (tok_after ts i) /\
  a_after a = holds closes_tag (tok_before prev ts i) /\
  a_before a = holds opens_tag (tok_after ts i).
Proof. exact annotate_nth. Qed.
Print Assumptions C15_annotate.

Theorem C15_annotate_tokens : forall ts prev,
  map a_tok (annotate prev ts) = ts /\ length (annotate prev ts) = length ts.
Proof. exact annotate_tokens. Qed.
Print Assumptions C15_annotate_tokens.

Theorem C15_text_node_flags : forall se f level st a r,
  ttyp (a_tok a) = THTML ->
  parse_elem se (S f) level st (a :: r) =
    Ok (NHtml (t_id (fst st)) (tval (a_tok a)) (a_trimL a) (a_trimR a) (a_after a) (a_before a), r, st).
Proof. exact parse_elem_html. Qed.
Print Assumptions C15_text_node_flags.

Theorem C15_spaceless_deletes_only_space : forall s o,
  spaceless_model s = Some o -> deleted_ws s o /\ visible o = visible s.
Proof. exact spaceless_only_space. Qed.
Print Assumptions C15_spaceless_deletes_only_space.

Theorem C15_spaceless_pass_deletes_only_space : forall s lt_seen closing,
  deleted_ws s (fst (sl_pass 0 lt_seen closing s)).
Proof. exact sl_pass_only_space. Qed.
Print Assumptions C15_spaceless_pass_deletes_only_space.

Theorem C15_spaceless_idem : forall s o, spaceless_model s = Some o -> spaceless_model o = Some o.
Proof. exact spaceless_idem. Qed.
Print Assumptions C15_spaceless_idem.

Theorem C15_spaceless_exec : forall se globals f st body o st1,
  exec_nodes se globals f st body = (o, Ok st1) ->
  exists o', exec_node se globals (S f) st (NSpaceless body) = (o', Ok st1) /\
             deleted_ws o o' /\ visible o' = visible o /\ spaceless_model o' = Some o'.
Proof. exact exec_spaceless. Qed.
Print Assumptions C15_spaceless_exec.

(* ---------- non-vacuity and end-to-end instances ---------- *)
(* w_plain: no options; w_trim_lstrip: TrimBlocks and LStripBlocks (Spec/SpecComposeExamples.v) *)
(* every marker at once, and the same source with that white space deleted by hand *)
Example C15_example_dashes :
  api_render_string w_plain [97; 32; 10; 32; 123; 123; 45; 32; 49; 32; 45; 125; 125; 32; 9; 32; 98; 32; 10; 123; 37; 45; 32; 105; 102; 32; 49; 32; 37; 125; 10; 32; 32; 120; 32; 32; 123; 37; 32; 101; 110; 100; 105; 102; 32; 45; 37; 125; 10; 32; 99]
    (* a \n {{- 1 -}} \t b \n{%- if 1 %}\n  x  {% endif -%}\n c *) [] =
  OOk [97; 49; 98; 10; 32; 32; 120; 32; 32; 99] (* a1b\n  x  c *).
Proof. vm_compute. reflexivity. Qed.

Example C15_example_dashes_by_hand :
  api_render_string w_plain [97; 123; 123; 32; 49; 32; 125; 125; 98; 123; 37; 32; 105; 102; 32; 49; 32; 37; 125; 10; 32; 32; 120; 32; 32; 123; 37; 32; 101; 110; 100; 105; 102; 32; 37; 125; 99]
    (* a{{ 1 }}b{% if 1 %}\n  x  {% endif %}c *) [] =
  OOk [97; 49; 98; 10; 32; 32; 120; 32; 32; 99] (* a1b\n  x  c *).
Proof. vm_compute. reflexivity. Qed.

(* TrimBlocks + LStripBlocks, and the source with the newline after / the blanks before each
   block tag deleted by hand, rendered without the options *)
Example C15_example_block_options :
  api_render_string w_trim_lstrip [60; 100; 105; 118; 62; 10; 32; 32; 123; 37; 32; 105; 102; 32; 49; 32; 37; 125; 10; 121; 101; 115; 10; 32; 32; 123; 37; 32; 101; 110; 100; 105; 102; 32; 37; 125; 10; 60; 47; 100; 105; 118; 62]
    (* <div>\n  {% if 1 %}\nyes\n  {% endif %}\n</div> *) [] =
  OOk [60; 100; 105; 118; 62; 10; 121; 101; 115; 10; 60; 47; 100; 105; 118; 62] (* <div>\nyes\n</div> *).
Proof. vm_compute. reflexivity. Qed.

Example C15_example_block_options_by_hand :
  api_render_string w_plain [60; 100; 105; 118; 62; 10; 123; 37; 32; 105; 102; 32; 49; 32; 37; 125; 121; 101; 115; 10; 123; 37; 32; 101; 110; 100; 105; 102; 32; 37; 125; 60; 47; 100; 105; 118; 62]
    (* <div>\n{% if 1 %}yes\n{% endif %}</div> *) [] =
  OOk [60; 100; 105; 118; 62; 10; 121; 101; 115; 10; 60; 47; 100; 105; 118; 62] (* <div>\nyes\n</div> *).
Proof. vm_compute. reflexivity. Qed.

Example C15_example_spaceless :
  api_render_string w_plain [123; 37; 32; 115; 112; 97; 99; 101; 108; 101; 115; 115; 32; 37; 125; 60; 97; 62; 32; 60; 98; 62; 120; 32; 121; 60; 47; 98; 62; 10; 9; 60; 99; 62; 32; 60; 47; 99; 62; 32; 60; 47; 97; 62; 32; 122; 123; 37; 32; 101; 110; 100; 115; 112; 97; 99; 101; 108; 101; 115; 115; 32; 37; 125]
    (* {% spaceless %}<a> <b>x y</b>\n\t<c> </c> </a> z{% endspaceless %} *) [] =
  OOk [60; 97; 62; 60; 98; 62; 120; 32; 121; 60; 47; 98; 62; 60; 99; 62; 60; 47; 99; 62; 60; 47; 97; 62; 32; 122] (* <a><b>x y</b><c></c></a> z *).
Proof. vm_compute. reflexivity. Qed.

(* the flags the parser computes for  a {{- 1 }} b {% if 1 -%} c{% endif %} : the text before "{{-" gets trimR,
   the text after "-%}" gets trimL and afterBlock, the text before "{%" gets beforeBlock *)
Example C15_example_annotate :
  match lex [97; 32; 123; 123; 45; 32; 49; 32; 125; 125; 32; 98; 32; 123; 37; 32; 105; 102; 32; 49; 32; 45; 37; 125; 32; 99; 123; 37; 32; 101; 110; 100; 105; 102; 32; 37; 125] with
  | LexOk ts => map (fun a => (is_text (a_tok a), a_trimL a, a_trimR a, a_after a, a_before a))
                    (filter (fun a => is_text (a_tok a)) (annotate None ts))
  | _ => []
  end = [(true, false, true, false, false); (true, false, false, false, true); (true, true, false, true, true)].
Proof. vm_compute. reflexivity. Qed.

(* the hypotheses of C15_html_trim_spec are met by the frame an execution starts in *)
Example C15_example_hypotheses :
  let t := Tpl 7 [116] false [] [] [] None true true in
  let st := mkM [root_frame [] t [] 1] [] (mkG 2 []) in
  exists fr, top_frame st = Ok fr /\ f_chain fr = [] ++ [t] /\
    exec_node (world_senv w_plain) [] 1 st (NHtml 7 [10; 32; 120; 32; 9] false true true true) =
      xok [32; 120] st.
Proof. eexists. split; [reflexivity|]. split; vm_compute; reflexivity. Qed.
