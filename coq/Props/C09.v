(* Property C09 - branching and looping tags.
   if/elif/else renders exactly the first branch whose condition is true (the else branch if
   none is, nothing if there is none); ifequal and ifnotequal are complementary; firstof
   prints the first true argument.  for renders its body once per element, in order
   (reversed, sorted, key/value over maps as requested), runs `empty` exactly when there is
   nothing to iterate, and forloop.Counter/Counter0/Revcounter/Revcounter0/First/Last/
   Parentloop describe the position at every nesting depth.  Within one render, cycle walks
   its arguments round-robin and ifchanged prints only when the watched values differ from
   those of its previous execution.

   All statements are about the executor model (Model/Exec.v): [exec_node fuel st n] gives
   (output, outcome); [xok o st] is "printed o, ended in st".  Fuel is explicit: either "for
   all sufficiently large fuel", or an exact equation between the tag at fuel k+f and its
   chosen branch at fuel f.  The vocabulary (first_true, for_bind, loop_field, cycle_pos,
   round_robin, ifchanged_fires, evals_pure ...) is in Spec/SpecFlow.v.

   What each theorem contributes:
     C09_if_first_true / _else / _none      which wrapper an if node runs (any number of elifs)
     C09_ifequal_complementary / _branch    ifnotequal a b T else E  =  ifequal a b E else T
     C09_firstof_first_true / _none         firstof prints the first true argument, else nothing
     C09_iter_*                             what a for tag iterates over, and in which order
     C09_for_per_element / _bindings        one iteration: what is bound, what runs, what follows
     C09_for_nonempty / _empty              body loop vs. empty branch
     C09_for_invariant / _renders_each      the loop rule: outputs concatenated in order
     C09_for_stateless_body / _prints_ints* corollaries for bodies that restore the state
     C09_forloop_fields / _field_eval / _nested   the loop information, at every depth
     C09_cycle_*                            cycle: argument (position mod n), position + 1
     C09_ifchanged_*                        ifchanged: when it fires, what it remembers *)
(* ---- second part (statements appended below) ---- *)
(* Property C09, syntax half - the SYNTAX of if / for: print-then-compile gives the tree back.

   Props/C09.v states what the nodes NIf / NFor / ... do.  Here the written syntax is tied to
   those nodes: for the document language of Spec/SpecSyntax.v

       dnode ::= DText s                                 literal text (non-empty, opens no delimiter)
               | DVar n                                  {{ n }}
               | DIf c body [(c_i, body_i) ...] else?    {% if c %} .. {% elif c_i %} .. {% else %} .. {% endif %}
               | DFor x seq reversed? sorted? body empty?  {% for x in seq [reversed] [sorted] %} .. {% empty %} .. {% endfor %}

   (conditions c: a name or "not" name; bodies are lists of dnode, arbitrary nesting, any number
   of elif), [print_doc d] is the source text, and compiling that text - lexer, annotation pass,
   document parser, every tag parser involved - gives exactly the template whose root is
   [to_nodes d]:  an if becomes an NIf with the conditions IN ORDER and one wrapper per body in
   order, the else wrapper last; a for an NFor with the loop variable, no second variable, the
   sequence and the flags as written, the body and the optional empty branch; a text an NHtml
   with no trimming flag.  (The two block flags of a text node are not "no flag": the model's
   parser sets afterBlock / beforeBlock on a text that touches a tag, as pongo2 does for its
   block options; [to_nodes] says exactly when: the neighbour is an if / a for, or the text is
   the first / last element of a body.)

   [wf_doc d]: names are letters and no reserved word, a text is non-empty and opens no
   delimiter (also not together with a "{" that follows it), two texts are never adjacent.
   [doc_size d]: a count of the constructs of d, the fuel the statement needs.
   [syntax_cfg_ok cfg]: if and for are registered and not banned in the template set.

   What each theorem contributes:
   - C09_syntax_roundtrip (main): for every set, every well-formed document of any length and
     nesting, and all fuel above doc_size: compile_src on print_doc d returns the template with
     root to_nodes d, no blocks, no macros, no parent, the set's options, and the next fresh id.
   - C09_syntax_stages: the two halves separately: the lexer accepts the printed text, and the
     parser on the lexer's token list, annotated, gives to_nodes d in an unchanged parser state.
   - C09_syntax_render: through the API (FromString + Execute) for every world that does not ban
     the two tags: rendering the printed text is executing the expected tree.
   - C09_if_source_semantics: the theorems of Props/C09.v about NIf become statements about the
     written if: the template compiled from the text of an if has one root node, and that node
     executes the (nodes of the) source body of the first true condition - whatever the later
     conditions would do -, the else body if none is true, nothing if there is no else.
   - C09s_hypotheses_needed: each condition of wf_doc excludes documents for which the statement
     is false (adjacent texts are one text, an empty text is no node, a text ending in "{" opens
     a delimiter with the construct after it, a reserved word is no name).
   - C09s_example, C09s_if_example: the hypotheses are met by a document that uses every
     construct (nested, empty bodies, names that coincide with tag words), and by an if in the
     state an execution starts in; the model's compiler and the API, run by vm_compute, agree. *)
From PV Require Import Model.Exec Model.Api Spec.SpecFlow.
From PV Require Import gen.Scalar Tie.C09.
From Coq Require Import Sorting.Permutation Sorting.Sorted.
From PV Require Import Lib.Bytes Lib.Outcome Model.Lexer Model.Api.
From PV Require Import Spec.SpecDash Spec.SpecFlow Spec.SpecSyntax.
From PV Require Import Tie.C09s.
Open Scope N_scope.

(* ------------------------------------------------------------------ if *)

(* the conditions before and including the first true one evaluate (without side effect) to
   vs; the k-th is the first true one: the node runs wrapper k - whatever the later
   conditions would do *)
Theorem C09_if_first_true :
  forall se globals st (conds : list expr) (ws : list (list node)) (vs : list value) k w,
    prefix_evals se globals st conds vs ->
    first_true (map truth vs) = Some k ->
    nth_error ws k = Some w ->
    exists f0, forall f, (f0 <= f)%nat ->
      exec_node se globals (S (S k) + f) st (NIf conds ws) = exec_nodes se globals f st w.
Proof. exact if_first_true. Qed.
Print Assumptions C09_if_first_true.

(* no condition is true and there is one wrapper more than conditions: the else branch *)
Theorem C09_if_else :
  forall se globals st (conds : list expr) (ws : list (list node)) (vs : list value) w,
    Forall2 (evals_pure se globals st) conds vs ->
    conds <> [] ->
    first_true (map truth vs) = None ->
    nth_error ws (length conds) = Some w ->
    exists f0, forall f, (f0 <= f)%nat ->
      exec_node se globals (S (length conds) + f) st (NIf conds ws) = exec_nodes se globals f st w.
Proof. exact if_else. Qed.
Print Assumptions C09_if_else.

(* no condition is true and there is no else branch: no output, state unchanged *)
Theorem C09_if_none :
  forall se globals st (conds : list expr) (ws : list (list node)) (vs : list value),
    Forall2 (evals_pure se globals st) conds vs ->
    first_true (map truth vs) = None ->
    nth_error ws (length conds) = None ->
    exists f0, forall f, (f0 <= f)%nat ->
      exec_node se globals f st (NIf conds ws) = xok [] st.
Proof. exact if_none. Qed.
Print Assumptions C09_if_none.

(* why C09_if_else asks for at least one condition: the else branch is only looked at after
   the last condition, so a (never parsed) if node without conditions runs nothing at all *)
Theorem C09_if_no_conditions : forall se globals f st ws,
  exec_node se globals (S (S f)) st (NIf [] ws) = xok [] st.
Proof. exact if_no_conditions. Qed.
Print Assumptions C09_if_no_conditions.

(* non-vacuity: three literal conditions and a fourth arbitrary one *)
Example C09_if_witness : forall se globals st (crash : expr),
  let conds := [EBool false; EInt 0; EStr [120]; crash] in
  let vs := [as_value (VBool false); as_value (VInt 0); as_value (VStr [120])] in
  prefix_evals se globals st conds vs /\ first_true (map truth vs) = Some 2%nat.
Proof. exact ex_if_hyps. Qed.

(* ------------------------------------------------------------------ ifequal / ifnotequal *)

Theorem C09_ifequal_complementary :
  forall se globals fuel st a b (t e : list node),
    exec_node se globals fuel st (NIfequal false a b t (Some e)) =
    exec_node se globals fuel st (NIfequal true a b e (Some t)).
Proof. exact ifequal_complementary. Qed.
Print Assumptions C09_ifequal_complementary.

(* [neg] is true for ifnotequal: the then-branch runs iff (values equal) xor neg *)
Theorem C09_ifequal_branch :
  forall se globals f st neg a b t eb x st1 y st2 eq,
    eval se globals f st a = Ok (x, st1) ->
    eval se globals f st1 b = Ok (y, st2) ->
    equal_value_to (vv x) (vv y) = Some eq ->
    exec_node se globals (S f) st (NIfequal neg a b t eb) =
      if xorb eq neg then exec_nodes se globals f st2 t
      else match eb with Some e => exec_nodes se globals f st2 e | None => xok [] st2 end.
Proof. exact ifequal_branch. Qed.
Print Assumptions C09_ifequal_branch.

(* ------------------------------------------------------------------ firstof *)

Theorem C09_firstof_first_true :
  forall se globals st fr (args : list expr) (vs : list value) k a v s,
    top_frame st = Ok fr ->
    prefix_evals se globals st args vs ->
    first_true (map truth vs) = Some k ->
    nth_error args k = Some a -> nth_error vs k = Some v ->
    to_string (vv v) = Some s ->
    exists f0, forall f, (f0 <= f)%nat ->
      exec_node se globals f st (NFirstof args) = xok (firstof_text (f_auto fr) a s) st.
Proof. exact firstof_first_true. Qed.
Print Assumptions C09_firstof_first_true.

Theorem C09_firstof_none :
  forall se globals st (args : list expr) (vs : list value),
    Forall2 (evals_pure se globals st) args vs ->
    first_true (map truth vs) = None ->
    exists f0, forall f, (f0 <= f)%nat ->
      exec_node se globals f st (NFirstof args) = xok [] st.
Proof. exact firstof_none. Qed.
Print Assumptions C09_firstof_none.

(* ------------------------------------------------------------------ for: what is iterated *)

Theorem C09_iter_list_in_order : forall l,
  iter_items (VList l) false false = Ok (Some (map plain_item l)).
Proof. exact iter_list_in_order. Qed.
Print Assumptions C09_iter_list_in_order.

Theorem C09_iter_list_reversed : forall l,
  iter_items (VList l) true false = Ok (Some (map plain_item (rev l))).
Proof. exact iter_list_reversed. Qed.
Print Assumptions C09_iter_list_reversed.

(* sorted: a permutation of the list, ascending (then reversed if asked).  The model sorts
   only all-integer and all-string lists (mixed lists: Unmod, lemma
   iter_list_sorted_mixed_unmodelled) *)
Theorem C09_iter_list_sorted_ints : forall (zs : list Z) reversed,
  exists s, Permutation zs s /\ StronglySorted Z.le s /\
    iter_items (VList (map VInt zs)) reversed true =
      Ok (Some (map plain_item (map VInt (if reversed then rev s else s)))).
Proof. exact iter_list_sorted_ints. Qed.
Print Assumptions C09_iter_list_sorted_ints.

(* strings: ascending in Go's byte-wise order (no element is smaller than an earlier one) *)
Theorem C09_iter_list_sorted_strs : forall (ss : list str) reversed,
  exists s, Permutation ss s /\ StronglySorted (fun a b => str_ltb b a = false) s /\
    iter_items (VList (map VStr ss)) reversed true =
      Ok (Some (map plain_item (map VStr (if reversed then rev s else s)))).
Proof. exact iter_list_sorted_strs. Qed.
Print Assumptions C09_iter_list_sorted_strs.

(* maps (entries are kept in key order): key/value pairs in key order.  Unsorted loops over
   maps with several keys follow Go's random order and are outside the model
   (iter_map_unsorted_unmodelled); with at most one key there is only one order *)
Theorem C09_iter_map_key_order : forall m reversed,
  iter_items (VMap m) reversed true = Ok (Some (map kv_item (if reversed then rev m else m))).
Proof. exact iter_map_key_order. Qed.
Print Assumptions C09_iter_map_key_order.

Theorem C09_iter_map_small : forall m reversed, (length m <= 1)%nat ->
  iter_items (VMap m) reversed false = Ok (Some (map kv_item m)).
Proof. exact iter_map_small. Qed.
Print Assumptions C09_iter_map_small.

Theorem C09_iter_string_runes : forall s,
  iter_items (VStr s) false false = Ok (Some (map (fun r => plain_item (VStr (encode_rune r))) (runes s))).
Proof. exact iter_string_runes. Qed.
Print Assumptions C09_iter_string_runes.

Theorem C09_iter_not_iterable : forall v reversed sorted,
  match v with VNil | VBool _ | VInt _ | VFloat _ | VStruct _ => True | _ => False end ->
  iter_items v reversed sorted = Ok None.
Proof. exact iter_not_iterable. Qed.
Print Assumptions C09_iter_not_iterable.

(* ------------------------------------------------------------------ for: one iteration *)

(* at position idx the body runs once, in the state [for_state] (the top frame rebound by
   [for_bind]); the rest of the items follow at idx+1; outputs are concatenated *)
Theorem C09_for_per_element :
  forall se globals f st fr key value parent body (x : item) rest idx count,
    top_frame st = Ok fr ->
    exec_for se globals (S f) st key value parent body (x :: rest) idx count =
      match exec_nodes se globals f (for_state st fr key value x idx count parent) body with
      | (o1, Ok st1) =>
          let '(o2, r) := exec_for se globals f st1 key value parent body rest (idx + 1) count in
          (o1 ++ o2, r)
      | other => other
      end.
Proof. exact for_per_element. Qed.
Print Assumptions C09_for_per_element.

(* what [for_bind] binds: forloop, the key, the value (for maps), and nothing else *)
Theorem C09_for_bindings :
  forall key value (x : item) idx count parent priv,
    ctx_get n_forloop (for_bind key value x idx count parent priv)
      = Some (CV (as_value (loop_struct idx count parent)))
    /\ (key <> n_forloop -> (snd x = None \/ key <> value) ->
        ctx_get key (for_bind key value x idx count parent priv) = Some (CV (as_value (fst x))))
    /\ (forall v, snd x = Some v -> value <> n_forloop ->
        ctx_get value (for_bind key value x idx count parent priv) = Some (CV (as_value v)))
    /\ (forall n, n <> n_forloop -> n <> key -> (snd x = None \/ n <> value) ->
        ctx_get n (for_bind key value x idx count parent priv) = ctx_get n priv).
Proof. exact for_bindings. Qed.
Print Assumptions C09_for_bindings.

(* something to iterate: the loop runs, from position 0, with the enclosing loop as parent,
   in the frame the tag pushes; that frame is popped afterwards *)
Theorem C09_for_nonempty :
  forall se globals f st fr key value obj reversed sorted body empty ov st1 x items,
    top_frame st = Ok fr ->
    eval se globals f (push_frame st (for_frame fr)) obj = Ok (ov, st1) ->
    iter_items (vv ov) reversed sorted = Ok (Some (x :: items)) ->
    exec_node se globals (S f) st (NFor key value obj reversed sorted body empty) =
      let '(o, r) := exec_for se globals f st1 key value (for_parent fr) body (x :: items) 0
                              (Z.of_nat (length (x :: items))) in
      (o, match r with Ok st2 => Ok (pop_frame st2) | other => other end).
Proof. exact for_nonempty. Qed.
Print Assumptions C09_for_nonempty.

(* nothing to iterate (no items, or not iterable): exactly the empty branch, or nothing *)
Theorem C09_for_empty :
  forall se globals f st fr key value obj reversed sorted body empty ov st1,
    top_frame st = Ok fr ->
    eval se globals f (push_frame st (for_frame fr)) obj = Ok (ov, st1) ->
    (iter_items (vv ov) reversed sorted = Ok (Some []) \/ iter_items (vv ov) reversed sorted = Ok None) ->
    exec_node se globals (S f) st (NFor key value obj reversed sorted body empty) =
      match empty with
      | Some eb => let '(o, r) := exec_nodes se globals f st1 eb in
                   (o, match r with Ok st2 => Ok (pop_frame st2) | other => other end)
      | None => xok [] (pop_frame st1)
      end.
Proof. exact for_empty. Qed.
Print Assumptions C09_for_empty.

(* ------------------------------------------------------------------ for: the whole loop *)

(* the loop rule.  If an invariant (indexed by the position) guarantees that the body, run
   at position idx over item x, prints [g idx x] and re-establishes the invariant at idx+1,
   the loop prints the concatenation of g over the items, in order *)
Theorem C09_for_invariant :
  forall se globals key value parent body count (Inv : Z -> mstate -> Prop)
         (g : Z -> item -> str) (all : list item) f0,
    (forall idx st, Inv idx st -> exists fr, top_frame st = Ok fr) ->
    (forall f, (f0 <= f)%nat -> forall idx st fr x,
        Inv idx st -> top_frame st = Ok fr -> In x all ->
        exists st', exec_nodes se globals f (for_state st fr key value x idx count parent) body = (g idx x, Ok st')
                    /\ Inv (idx + 1)%Z st') ->
    forall items, incl items all ->
    forall idx st, Inv idx st ->
    forall f, (f0 <= f)%nat ->
      exists st', exec_for se globals (S (length items) + f) st key value parent body items idx count
                    = (for_output g idx items, Ok st')
                  /\ Inv (idx + Z.of_nat (length items))%Z st'.
Proof. exact for_invariant. Qed.
Print Assumptions C09_for_invariant.

(* ... and for the tag as a whole *)
Theorem C09_for_renders_each :
  forall se globals st fr key value obj reversed sorted body empty ov st1 items
         (Inv : Z -> mstate -> Prop) (g : Z -> item -> str) fe fb,
    top_frame st = Ok fr ->
    (forall f, (fe <= f)%nat -> eval se globals f (push_frame st (for_frame fr)) obj = Ok (ov, st1)) ->
    iter_items (vv ov) reversed sorted = Ok (Some items) -> items <> [] ->
    (forall idx st', Inv idx st' -> exists fr', top_frame st' = Ok fr') ->
    (forall f, (fb <= f)%nat -> forall idx st' fr' x,
        Inv idx st' -> top_frame st' = Ok fr' -> In x items ->
        exists st'', exec_nodes se globals f
                       (for_state st' fr' key value x idx (Z.of_nat (length items)) (for_parent fr)) body
                     = (g idx x, Ok st'')
                     /\ Inv (idx + 1)%Z st'') ->
    Inv 0%Z st1 ->
    exists f0, forall f, (f0 <= f)%nat ->
      exists st2, exec_node se globals f st (NFor key value obj reversed sorted body empty)
                    = (for_output g 0 items, Ok (pop_frame st2))
                  /\ Inv (Z.of_nat (length items)) st2.
Proof. exact for_renders_each. Qed.
Print Assumptions C09_for_renders_each.

(* a body that prints [g idx x] and leaves the state of its iteration as it found it: the tag
   prints g over the items in order and restores the state it started from *)
Theorem C09_for_stateless_body :
  forall se globals st fr key value obj reversed sorted body empty ov items (g : Z -> item -> str),
    top_frame st = Ok fr ->
    evals_pure se globals (push_frame st (for_frame fr)) obj ov ->
    iter_items (vv ov) reversed sorted = Ok (Some items) -> items <> [] ->
    (exists fb, forall f, (fb <= f)%nat -> forall st' fr' x idx,
        In x items -> top_frame st' = Ok fr' ->
        exec_nodes se globals f
          (for_state st' fr' key value x idx (Z.of_nat (length items)) (for_parent fr)) body
        = (g idx x, Ok (for_state st' fr' key value x idx (Z.of_nat (length items)) (for_parent fr)))) ->
    exists f0, forall f, (f0 <= f)%nat ->
      exec_node se globals f st (NFor key value obj reversed sorted body empty)
        = (for_output g 0 items, Ok st).
Proof. exact for_stateless_body. Qed.
Print Assumptions C09_for_stateless_body.

(* {% for x in l [reversed] %}{{ x }}{% endfor %} over integers: the numbers, in (reversed) order *)
Theorem C09_for_prints_ints :
  forall se globals st fr key obj empty ov (zs : list Z) reversed,
    key <> n_forloop -> zs <> [] ->
    top_frame st = Ok fr ->
    evals_pure se globals (push_frame st (for_frame fr)) obj ov ->
    vv ov = VList (map VInt zs) ->
    exists f0, forall f, (f0 <= f)%nat ->
      exec_node se globals f st (NFor key [] obj reversed false [NVar (EVar [PIdent key None])] empty)
        = (concat (map itoa (if reversed then rev zs else zs)), Ok st).
Proof. exact for_prints_ints. Qed.
Print Assumptions C09_for_prints_ints.

(* ... sorted: an ascending permutation *)
Theorem C09_for_prints_ints_sorted :
  forall se globals st fr key obj empty ov (zs : list Z) reversed,
    key <> n_forloop -> zs <> [] ->
    top_frame st = Ok fr ->
    evals_pure se globals (push_frame st (for_frame fr)) obj ov ->
    vv ov = VList (map VInt zs) ->
    exists s, Permutation zs s /\ StronglySorted Z.le s /\
      exists f0, forall f, (f0 <= f)%nat ->
        exec_node se globals f st (NFor key [] obj reversed true [NVar (EVar [PIdent key None])] empty)
          = (concat (map itoa (if reversed then rev s else s)), Ok st).
Proof. exact for_prints_ints_sorted. Qed.
Print Assumptions C09_for_prints_ints_sorted.

(* non-vacuity, symbolically: in any state with a frame,
   {% for x in [3, 1, 2] reversed %}{{ x }}{% endfor %} prints 213 and restores the state *)
Example C09_for_witness : forall se globals st fr,
  top_frame st = Ok fr ->
  exists f0, forall f, (f0 <= f)%nat ->
    exec_node se globals f st
      (NFor [120] [] (EArray [EInt 3; EInt 1; EInt 2]) true false [NVar (EVar [PIdent [120] None])] None)
    = ([50; 49; 51], Ok st).
Proof. exact ex_for_prints. Qed.

(* a body of constant text meets the hypothesis of C09_for_stateless_body *)
Example C09_for_body_witness : forall se globals f st t,
  exec_nodes se globals (S (S f)) st [NTemplatetag t] = (t, Ok st).
Proof. exact templatetag_body_const. Qed.

(* ------------------------------------------------------------------ forloop.* *)

(* the struct bound to "forloop" at position idx of count has exactly the documented fields *)
Theorem C09_forloop_fields : forall fld idx count parent,
  exists m, loop_struct idx count parent = VStruct m /\
            assoc_get fld m = loop_field fld idx count parent.
Proof. exact loop_field_lookup. Qed.
Print Assumptions C09_forloop_fields.

(* ... and {{ forloop.<Field> }} evaluates to it *)
Theorem C09_forloop_field_eval :
  forall se globals f st fr fld idx count parent v,
    top_frame st = Ok fr ->
    ctx_get n_forloop (f_priv fr) = Some (CV (as_value (loop_struct idx count parent))) ->
    loop_field fld idx count parent = Some v -> v <> VNil ->
    eval se globals (4 + f) st (EVar [PIdent n_forloop None; PIdent fld None]) = Ok (as_value v, st).
Proof. exact forloop_field_eval. Qed.
Print Assumptions C09_forloop_field_eval.

(* nesting: in the state in which the body of iteration idx runs, "the enclosing loop" (what
   an inner for tag takes as its Parentloop, see C09_for_nonempty) is this loop at idx *)
Theorem C09_forloop_nested :
  forall st fr key value (x : item) idx count parent,
    top_frame st = Ok fr ->
    exists fr', top_frame (for_state st fr key value x idx count parent) = Ok fr' /\
                f_priv fr' = for_bind key value x idx count parent (f_priv fr) /\
                for_parent fr' = loop_struct idx count parent.
Proof. exact for_state_top. Qed.
Print Assumptions C09_forloop_nested.

Example C09_forloop_witness :
  loop_field n_Counter 2 5 VNil = Some (VInt 3) /\ loop_field n_Revcounter0 2 5 VNil = Some (VInt 2) /\
  loop_field n_Last 4 5 VNil = Some (VBool true) /\ loop_field n_First 4 5 VNil = Some (VBool false) /\
  loop_field n_Parentloop 0 1 (loop_struct 3 4 VNil) = Some (loop_struct 3 4 VNil).
Proof. vm_compute. repeat split. Qed.

(* ------------------------------------------------------------------ cycle *)

(* one execution of {% cycle a0 a1 ... %} standing at position p: prints argument p mod n,
   evaluated in the state where the position is already p+1 *)
Theorem C09_cycle_step :
  forall se globals f st fr id (args : list expr) (p : nat) a v st1 s,
    top_frame st = Ok fr ->
    cycle_pos st (f_exec fr) id = Z.of_nat p ->
    args <> [] ->
    a = nth (p mod length args) args (EBool false) ->
    refers_to_cycle (f_priv fr) a = false ->
    eval se globals f (ns_set st (f_exec fr) id (NSCycle (Z.of_nat (S p)))) a = Ok (v, st1) ->
    to_string (vv v) = Some s ->
    exec_node se globals (S f) st (NCycle id args [] false) = xok (cycle_text (f_auto fr) a v s) st1.
Proof. exact cycle_step. Qed.
Print Assumptions C09_cycle_step.

(* a fresh render has no node state: position 0 *)
Theorem C09_cycle_fresh : forall st e id,
  ns_get e id (ms_nodes st) = None -> cycle_pos st e id = 0%Z.
Proof. exact cycle_pos_fresh. Qed.
Print Assumptions C09_cycle_fresh.

Theorem C09_cycle_stores : forall st e id j,
  cycle_pos (ns_set st e id (NSCycle j)) e id = j.
Proof. exact cycle_pos_set. Qed.
Print Assumptions C09_cycle_stores.

(* k executions in a row (arguments that evaluate without side effect whatever the node
   state is): round-robin from the current position, which advances by k *)
Theorem C09_cycle_round_robin :
  forall se globals f fr id (args : list expr) (out : nat -> str) frames,
    args <> [] ->
    (forall a, In a args -> refers_to_cycle (f_priv fr) a = false) ->
    (forall st', ms_frames st' = frames -> forall j, (j < length args)%nat ->
       exists v s, eval se globals f st' (nth j args (EBool false)) = Ok (v, st') /\
                   to_string (vv v) = Some s /\
                   cycle_text (f_auto fr) (nth j args (EBool false)) v s = out j) ->
    forall k st p,
      ms_frames st = frames -> top_frame st = Ok fr ->
      cycle_pos st (f_exec fr) id = Z.of_nat p ->
      exists st', exec_times se globals (S f) st (NCycle id args [] false) k
                    = (round_robin out (length args) p k, Ok st')
                  /\ ms_frames st' = frames
                  /\ cycle_pos st' (f_exec fr) id = Z.of_nat (p + k).
Proof. exact cycle_round_robin. Qed.
Print Assumptions C09_cycle_round_robin.

(* ... instance: string literals (escaped when autoescape is on) *)
Theorem C09_cycle_round_robin_literals :
  forall se globals f fr id (ss : list str) k st p,
    ss <> [] ->
    top_frame st = Ok fr ->
    cycle_pos st (f_exec fr) id = Z.of_nat p ->
    exists st', exec_times se globals (S (S f)) st (NCycle id (map EStr ss) [] false) k
                  = (round_robin (fun j => if f_auto fr then filter_escape (nth j ss []) else nth j ss [])
                                 (length ss) p k, Ok st')
                /\ ms_frames st' = ms_frames st
                /\ cycle_pos st' (f_exec fr) id = Z.of_nat (p + k).
Proof. exact cycle_round_robin_literals. Qed.
Print Assumptions C09_cycle_round_robin_literals.

Example C09_round_robin_witness :
  round_robin (fun j => nth j [[97]; [98]; [99]] []) 3 0 7 = [97; 98; 99; 97; 98; 99; 97].
Proof. vm_compute. reflexivity. Qed.

(* ------------------------------------------------------------------ ifchanged *)

(* with watched expressions: compares their values with those remembered for this node in this
   render; fires when nothing is remembered or some value differs; remembers the new values *)
Theorem C09_ifchanged_watched :
  forall se globals f st fr id w ws thenb elseb now st1,
    top_frame st = Ok fr ->
    eval_list se globals f st (w :: ws) = Ok (now, st1) ->
    exec_node se globals (S f) st (NIfchanged id (w :: ws) thenb elseb) =
      let st2 := ns_set st1 (f_exec fr) id (NSIfchanged now None) in
      match ifchanged_fires (stored_vals (ns_get (f_exec fr) id (ms_nodes st))) now with
      | None => ([], Unmod)
      | Some true => exec_nodes se globals f st2 thenb
      | Some false => match elseb with Some eb => exec_nodes se globals f st2 eb | None => xok [] st2 end
      end.
Proof. exact ifchanged_watched. Qed.
Print Assumptions C09_ifchanged_watched.

Theorem C09_ifchanged_stores : forall st1 e id now,
  stored_vals (ns_get e id (ms_nodes (ns_set st1 e id (NSIfchanged now None)))) = now.
Proof. exact ifchanged_stores. Qed.
Print Assumptions C09_ifchanged_stores.

(* what firing means, position by position *)
Theorem C09_ifchanged_fires_true : forall last now,
  ifchanged_fires last now = Some true ->
  last = [] \/ exists i x y, nth_error last i = Some x /\ nth_error now i = Some y /\
                             equal_value_to (vv x) (vv y) = Some false.
Proof. exact ifchanged_fires_true. Qed.
Theorem C09_ifchanged_fires_false : forall last now,
  ifchanged_fires last now = Some false ->
  last <> [] /\ forall i x y, nth_error last i = Some x -> nth_error now i = Some y ->
                              equal_value_to (vv x) (vv y) = Some true.
Proof. exact ifchanged_fires_false. Qed.
Print Assumptions C09_ifchanged_fires_true.
Print Assumptions C09_ifchanged_fires_false.

(* without watched expressions: compares the rendered body with the remembered rendering *)
Theorem C09_ifchanged_content :
  forall se globals f st fr id thenb elseb o st1,
    top_frame st = Ok fr ->
    exec_nodes se globals f st thenb = (o, Ok st1) ->
    exec_node se globals (S f) st (NIfchanged id [] thenb elseb) =
      match stored_content (ns_get (f_exec fr) id (ms_nodes st)) with
      | Some c => if str_eqb c o then xok [] st1
                  else xok o (ns_set st1 (f_exec fr) id (NSIfchanged [] (Some o)))
      | None => if Nat.eqb (length o) 0 then xok [] st1
                else xok o (ns_set st1 (f_exec fr) id (NSIfchanged [] (Some o)))
      end.
Proof. exact ifchanged_content. Qed.
Print Assumptions C09_ifchanged_content.

Example C09_ifchanged_witness :
  ifchanged_fires [] [as_value (VInt 1)] = Some true /\
  ifchanged_fires [as_value (VInt 1)] [as_value (VInt 1)] = Some false /\
  ifchanged_fires [as_value (VInt 1); as_value (VStr [97])] [as_value (VInt 1); as_value (VStr [98])] = Some true.
Proof. vm_compute. repeat split. Qed.

(* ------------------------------------------------------------------ whole templates *)
(* The model run on source text (parser + executor), by computation: the situations the
   theorems talk about do arise. *)
Definition c09_world : world := mkWorld [] false false [] [] [] [] [].

(* {% if a %}A{% elif b %}B{% else %}C{% endif %}  with a = 0, b = 1  renders  B *)
Example C09_run_if :
  api_render_string c09_world
    [123;37;32;105;102;32;97;32;37;125;65;123;37;32;101;108;105;102;32;98;32;37;125;66;123;37;32;101;108;115;101;32;37;125;67;123;37;32;101;110;100;105;102;32;37;125]
    [([97], CV (as_value (VInt 0))); ([98], CV (as_value (VInt 1)))] = OOk [66].
Proof. vm_compute. reflexivity. Qed.

(* {% for x in l %}{% for y in l %}{{ forloop.Parentloop.Counter }}{{ forloop.Counter }} {% endfor %}{% endfor %}
   with l = [5, 6]  renders  "11 12 21 22 " *)
Example C09_run_nested_for :
  api_render_string c09_world
    [123;37;32;102;111;114;32;120;32;105;110;32;108;32;37;125;123;37;32;102;111;114;32;121;32;105;110;32;108;32;37;125;123;123;32;102;111;114;108;111;111;112;46;80;97;114;101;110;116;108;111;111;112;46;67;111;117;110;116;101;114;32;125;125;123;123;32;102;111;114;108;111;111;112;46;67;111;117;110;116;101;114;32;125;125;32;123;37;32;101;110;100;102;111;114;32;37;125;123;37;32;101;110;100;102;111;114;32;37;125]
    [([108], CV (as_value (VList [VInt 5; VInt 6])))] = OOk [49; 49; 32; 49; 50; 32; 50; 49; 32; 50; 50; 32].
Proof. vm_compute. reflexivity. Qed.

(* {% for x in l sorted %}{{ x }},{% empty %}none{% endfor %}  with l = [3, 1, 2]: "1,2,3,";  with l = []: "none" *)
Example C09_run_sorted_empty :
  let src := [123;37;32;102;111;114;32;120;32;105;110;32;108;32;115;111;114;116;101;100;32;37;125;123;123;32;120;32;125;125;44;123;37;32;101;109;112;116;121;32;37;125;110;111;110;101;123;37;32;101;110;100;102;111;114;32;37;125] in
  api_render_string c09_world src [([108], CV (as_value (VList [VInt 3; VInt 1; VInt 2])))] = OOk [49; 44; 50; 44; 51; 44] /\
  api_render_string c09_world src [([108], CV (as_value (VList [])))] = OOk [110; 111; 110; 101].
Proof. vm_compute. split; reflexivity. Qed.

(* {% for x in l %}{% cycle 'a' 'b' %}{% ifchanged x %}{{ x }}{% else %}={% endifchanged %}{% endfor %}
   with l = [1, 1, 2, 2, 1]  renders  "a1b=a2b=a1" *)
Example C09_run_cycle_ifchanged :
  api_render_string c09_world
    [123;37;32;102;111;114;32;120;32;105;110;32;108;32;37;125;123;37;32;99;121;99;108;101;32;39;97;39;32;39;98;39;32;37;125;123;37;32;105;102;99;104;97;110;103;101;100;32;120;32;37;125;123;123;32;120;32;125;125;123;37;32;101;108;115;101;32;37;125;61;123;37;32;101;110;100;105;102;99;104;97;110;103;101;100;32;37;125;123;37;32;101;110;100;102;111;114;32;37;125]
    [([108], CV (as_value (VList [VInt 1; VInt 1; VInt 2; VInt 2; VInt 1])))]
  = OOk [97; 49; 98; 61; 97; 50; 98; 61; 97; 49].
Proof. vm_compute. reflexivity. Qed.

(* ---- the loop bookkeeping is the code's ----
   [go_for_step] / [go_for_init] (gen/Scalar.v) are the statements of tagForNode.Execute that
   update the loop information, translated from /repo on every run; [go_for_after k count] is
   the loop information after iterations 0..k. It holds exactly the documented values, and
   the model's forloop value carries those under the Go field names. *)
Theorem C09_forloop_bookkeeping_is_the_code : forall (k : nat) (count : Z),
  (Z.of_nat k < count)%Z -> (count < two63)%Z ->
  go_for_after k count =
  (Z.of_nat k + 1, Z.of_nat k, count - Z.of_nat k, count - (Z.of_nat k + 1),
   (Z.of_nat k =? 0), (Z.of_nat k + 1 =? count))%Z.
Proof. exact e2_for_fields. Qed.
Print Assumptions C09_forloop_bookkeeping_is_the_code.

Theorem C09_forloop_struct_is_the_record : forall idx count parent,
  match loop_struct idx count parent with
  | VStruct fields =>
      map fst fields = go_for_fields ++ [[80; 97; 114; 101; 110; 116; 108; 111; 111; 112]%N] /\
      map snd fields = [VInt (idx + 1); VInt idx; VInt (count - idx); VInt (count - (idx + 1));
                        VBool (idx =? 0); VBool (idx + 1 =? count); parent]%Z
  | _ => False
  end.
Proof. exact e2_loop_struct. Qed.
Print Assumptions C09_forloop_struct_is_the_record.


(* ==================== second part ==================== *)

Theorem C09_syntax_roundtrip :
  forall (se : senv) (d : list dnode) (F : nat) (name : str) (isstr : bool) (g : gstate),
    syntax_cfg_ok (se_cfg se) = true -> wf_doc d = true -> (doc_size d <= F)%nat ->
    compile_src se (S F) name isstr (print_doc d) g =
    Ok (Tpl (g_nid g) name isstr (to_nodes (g_nid g) d) [] [] None (se_trim se) (se_lstrip se),
        mkG (g_nid g + 1) (g_log g)).
Proof. exact tie_compile_syntax. Qed.
Print Assumptions C09_syntax_roundtrip.

Theorem C09_syntax_stages : forall d : list dnode, wf_doc d = true ->
  exists toks : list token,
    lex (print_doc d) = LexOk toks /\
    forall (se : senv) (F : nat) (st : pst),
      syntax_cfg_ok (se_cfg se) = true -> (doc_size d <= F)%nat ->
      parse_doc se F st (annotate None toks) = Ok (to_nodes (t_id (fst st)) d, st).
Proof. exact tie_syntax_stages. Qed.
Print Assumptions C09_syntax_stages.

Theorem C09_syntax_render : forall (w : world) (d : list dnode) (ctx : list (str * cval)),
  str_in w_if (w_banned_tags w) = false -> str_in w_for (w_banned_tags w) = false ->
  wf_doc d = true -> N.of_nat (doc_size d) <= 59000 ->
  api_render_string w (print_doc d) ctx =
  run_template w (Tpl 1 [60; 115; 116; 114; 105; 110; 103; 62] (* <string> *) true (to_nodes 1 d)
                      [] [] None (w_trim w) (w_lstrip w)) (mkG 2 []) ctx.
Proof. exact tie_render_syntax. Qed.
Print Assumptions C09_syntax_render.

(* [if_conds c elifs]: the conditions in source order; [if_bodies b elifs els]: the bodies in
   source order, the else body last; [body_nodes owner l]: the nodes of a body.  prefix_evals /
   evals_pure / first_true / truth are those of Props/C09.v (Spec/SpecFlow.v). *)
Theorem C09_if_source_semantics :
  forall (se : senv) (globals : list (str * cval)) (c : cond) (b : list dnode)
         (elifs : list (cond * list dnode)) (els : option (list dnode))
         (F : nat) (name : str) (isstr : bool) (g : gstate),
  syntax_cfg_ok (se_cfg se) = true ->
  wf_doc [DIf c b elifs els] = true -> (doc_size [DIf c b elifs els] <= F)%nat ->
  exists n,
    compile_src se (S F) name isstr (print_doc [DIf c b elifs els]) g =
      Ok (Tpl (g_nid g) name isstr [n] [] [] None (se_trim se) (se_lstrip se), mkG (g_nid g + 1) (g_log g)) /\
    (* the first true condition is the k-th: its body runs *)
    (forall st vs k body,
       prefix_evals se globals st (if_conds c elifs) vs ->
       first_true (map truth vs) = Some k ->
       nth_error (if_bodies b elifs els) k = Some body ->
       exists f0, forall f, (f0 <= f)%nat ->
         exec_node se globals (S (S k) + f) st n = exec_nodes se globals f st (body_nodes (g_nid g) body)) /\
    (* no condition is true: the else body runs, or nothing *)
    (forall st vs,
       Forall2 (evals_pure se globals st) (if_conds c elifs) vs ->
       first_true (map truth vs) = None ->
       exists f0, forall f, (f0 <= f)%nat ->
         exec_node se globals (S (length (if_conds c elifs)) + f) st n =
         match els with
         | Some e => exec_nodes se globals f st (body_nodes (g_nid g) e)
         | None => xok [] st
         end).
Proof. exact tie_if_source_semantics. Qed.
Print Assumptions C09_if_source_semantics.

(* ---------- non-vacuity ---------- *)
(* a\n{% if not x %}b{{ y }}{% for i in xs reversed sorted %}{{ i }} {% empty %}{% endfor %}
   {% elif z %}{% elif not endif %}c{% if q %}{% endif %}d{% else %}e{% endif %}
   {% for reversed in sorted sorted %}f{% endfor %}{{ v }}      (without the line breaks):
   every construct, nesting, empty bodies, an empty "empty" branch, names that are tag words *)
Example C09s_example :
  wf_doc c09s_doc = true /\ doc_size c09s_doc = 53%nat /\
  syntax_cfg_ok (se_cfg (world_senv c09s_world)) = true /\
  print_doc c09s_doc =
    [97; 10; 123; 37; 32; 105; 102; 32; 110; 111; 116; 32; 120; 32; 37; 125; 98; 123; 123; 32; 121; 32; 125;
     125; 123; 37; 32; 102; 111; 114; 32; 105; 32; 105; 110; 32; 120; 115; 32; 114; 101; 118; 101; 114; 115;
     101; 100; 32; 115; 111; 114; 116; 101; 100; 32; 37; 125; 123; 123; 32; 105; 32; 125; 125; 32; 123; 37;
     32; 101; 109; 112; 116; 121; 32; 37; 125; 123; 37; 32; 101; 110; 100; 102; 111; 114; 32; 37; 125; 123;
     37; 32; 101; 108; 105; 102; 32; 122; 32; 37; 125; 123; 37; 32; 101; 108; 105; 102; 32; 110; 111; 116;
     32; 101; 110; 100; 105; 102; 32; 37; 125; 99; 123; 37; 32; 105; 102; 32; 113; 32; 37; 125; 123; 37; 32;
     101; 110; 100; 105; 102; 32; 37; 125; 100; 123; 37; 32; 101; 108; 115; 101; 32; 37; 125; 101; 123; 37;
     32; 101; 110; 100; 105; 102; 32; 37; 125; 123; 37; 32; 102; 111; 114; 32; 114; 101; 118; 101; 114; 115;
     101; 100; 32; 105; 110; 32; 115; 111; 114; 116; 101; 100; 32; 115; 111; 114; 116; 101; 100; 32; 37; 125;
     102; 123; 37; 32; 101; 110; 100; 102; 111; 114; 32; 37; 125; 123; 123; 32; 118; 32; 125; 125] /\
  to_nodes 1 c09s_doc =
    [ NHtml 1 [97; 10] false false false true;
      NIf [ESimple false true (var_expr [120]) None; var_expr [122];
           ESimple false true (var_expr [101; 110; 100; 105; 102]) None]
          [ [NHtml 1 [98] false false true false; NVar (var_expr [121]);
             NFor [105] [] (var_expr [120; 115]) true true
                  [NVar (var_expr [105]); NHtml 1 [32] false false false true] (Some [])];
            [];
            [NHtml 1 [99] false false true true; NIf [var_expr [113]] [[]];
             NHtml 1 [100] false false true true];
            [NHtml 1 [101] false false true true] ];
      NFor [114; 101; 118; 101; 114; 115; 101; 100] [] (var_expr [115; 111; 114; 116; 101; 100]) false true
           [NHtml 1 [102] false false true true] None;
      NVar (var_expr [118]) ] /\
  (* the model's compiler, run on the printed text with the fuel of the theorem *)
  compile_src (world_senv c09s_world) (S (doc_size c09s_doc)) [60; 115; 116; 114; 105; 110; 103; 62] true
              (print_doc c09s_doc) g0 =
    Ok (Tpl 1 [60; 115; 116; 114; 105; 110; 103; 62] true (to_nodes 1 c09s_doc) [] [] None false false, mkG 2 []).
Proof. exact tie_c09s_witness. Qed.

(* x = 0, y = "a":  {% if x %}A{% elif not y %}B{% elif y %}{{ x }}C{% else %}D{% endif %}
   in the state an execution starts in: the first two conditions evaluate, without side effect,
   to 0 and False, the third to "a": the third body, "{{ x }}C", runs; the API prints "0C" *)
Example C09s_if_example :
  wf_doc [c09s_if] = true /\ doc_size [c09s_if] = 23%nat /\
  prefix_evals (world_senv c09s_world) [] c09s_state
               (if_conds (CName [120]) [(CNot [121], [DText [66]]); (CName [121], [DVar [120]; DText [67]])])
               c09s_vals /\
  first_true (map truth c09s_vals) = Some 2%nat /\
  nth_error (if_bodies [DText [65]] [(CNot [121], [DText [66]]); (CName [121], [DVar [120]; DText [67]])]
                       (Some [DText [68]])) 2 = Some [DVar [120]; DText [67]] /\
  api_render_string c09s_world (print_doc [c09s_if]) c09s_ctx = OOk [48; 67].
Proof. exact tie_c09s_if_witness. Qed.
Print Assumptions C09s_example.
Print Assumptions C09s_if_example.

(* [c09s_compile d]: the root the model's compiler builds from print_doc d, or its error *)
Example C09s_hypotheses_needed :
  (* two adjacent texts are one text *)
  wf_doc [DText [97]; DText [98]] = false /\
  c09s_compile [DText [97]; DText [98]] = Ok [NHtml 1 [97; 98] false false false false] /\
  to_nodes 1 [DText [97]; DText [98]] =
    [NHtml 1 [97] false false false false; NHtml 1 [98] false false false false] /\
  (* an empty text is no node *)
  wf_doc [DText []] = false /\ c09s_compile [DText []] = Ok [] /\
  (* "a{" before "{{ x }}" / before "{% if x %}": the text's brace opens the delimiter *)
  wf_doc [DText [97; 123]; DVar [120]] = false /\ c09s_compile [DText [97; 123]; DVar [120]] = Err 2 /\
  wf_doc [DText [97; 123]; DIf (CName [120]) [] [] None] = false /\
  c09s_compile [DText [97; 123]; DIf (CName [120]) [] [] None] = Err 2 /\
  (* a reserved word is no name:  {% if in %}   {% for x in not %} *)
  wf_doc [DIf (CName [105; 110]) [] [] None] = false /\
  c09s_compile [DIf (CName [105; 110]) [] [] None] = Err 2 /\
  wf_doc [DFor [120] [110; 111; 116] false false [] None] = false /\
  c09s_compile [DFor [120] [110; 111; 116] false false [] None] = Err 2.
Proof. exact tie_c09s_needed. Qed.


(* ==================== part: Execute methods translated from the Go sources (Props/C09w) ==================== *)

(* Property C09 (translated) - the branching tags' Execute methods ARE the model's executor.

   Props/C09.v states what if / firstof / ifequal / ifnotequal do, about the hand-written executor
   model (Model/Exec.v, exec_node on NIf, NFirstof, NIfequal).  This file ties that part of the model
   to the Go source by TRANSLATION: tools/go2v translates, statement by statement and on every run,
       tagIfNode.Execute (tags_if.go), tagFirstofNode.Execute (tags_firstof.go),
       tagIfEqualNode.Execute (tags_ifequal.go), tagIfNotEqualNode.Execute (tags_ifnotequal.go)
   into terms of the small Go fragment of Lib/GoStmt.v (gen/TagFuncs.v: go_tagfuncs).
   Spec/SpecTagFuncs.v gives those terms a meaning ([tag_execute]: the run of node.Execute(ctx, writer)
   in a world that holds what the writer was handed so far, the model's execution state and the
   model's fuel), in which only what the methods CALL is taken from the model: expression
   evaluation, truthiness, value equality, String, FilterApplied, ApplyFilter, ctx.Autoescape,
   NodeWrapper.Execute, writer.WriteString.  The loops, the index arithmetic, the early returns, the
   order of the tests and the error handling are those of the Go text.
   [read_exec site r] reads a run back as an outcome of the model's executor (output, state or
   failure); a run-time panic of the translated code itself (index out of range) is read as the
   model's Panic [site].  [after o0 x] is the model's outcome x after the writer already held o0.
   [d] bounds the call depth of the interpretation (2 is enough).

   What each theorem contributes:
     C09w_if_is_model            tagIfNode.Execute = exec_node on NIf: for EVERY list of conditions and of
                                 wrappers (any lengths, also shapes the parser never builds), every
                                 state, every fuel, every output before; the panic of
                                 node.wrappers[i] is the model's Panic 97 (its Panic 98, for
                                 node.wrappers[i+1], is thereby shown to be impossible)
     C09w_if_parser_shape_safe   with as many wrappers as conditions, or one more (the shapes of
                                 tagIfParser), the Go code never panics on an index
     C09w_parsed_if_has_parser_shape / C09w_parsed_if_never_panics
                                 every if tag of a document in the syntax of Spec/SpecSyntax.v (any
                                 number of elif blocks, else or not) becomes - by node_of, which is
                                 what the model's parser builds (Props/C09.v, C09_syntax_roundtrip) -
                                 a node of that shape; so its Execute never panics
     C09w_if_panic_only_when_a_wrapper_is_missing
                                 if it does panic, there are fewer wrappers than conditions, and the
                                 model's outcome is Panic 97
     C09w_firstof_is_model       tagFirstofNode.Execute = exec_node on NFirstof, any argument list
     C09w_ifequal_is_model       tagIfEqualNode.Execute = exec_node on NIfequal false ...
     C09w_ifnotequal_is_model    tagIfNotEqualNode.Execute = exec_node on NIfequal true ...
                                 (no index in these three: [site] is arbitrary)
     C09w_tag_execute_is_exec_node
                                 the four in one statement: for a node n of the model that is one of
                                 these tags ([tag_value n = Some v]), v.Execute is exec_node on n
   Examples: compiled if tags have the parser's shape; the translated code run on a compiled tag
   (output, out of fuel, equal to the model); a missing wrapper does make the Go code panic; firstof
   escapes, ifequal / ifnotequal choose opposite blocks.

   No difference between the model and the Go code was found for these four methods: the ties hold
   without any excluding hypothesis (none is named _partial). *)
From PV Require Import Model.Exec Model.Api Lib.GoStmt Spec.SpecSyntax Spec.SpecTagFuncs gen.TagFuncs.
From PV Require Import Tie.C09s Tie.C09w.
From Coq Require Import String.
Open Scope string_scope.

Theorem C09w_if_is_model : forall d, (2 <= d)%nat -> forall se globals conds ws o0 st fuel,
  read_exec 97 (tag_execute se globals go_tagfuncs d (TVIfNode conds ws) o0 st fuel)
  = Some (after o0 (exec_node se globals fuel st (NIf conds ws))).
Proof. exact tie_tagIfNode_Execute. Qed.
Print Assumptions C09w_if_is_model.

Theorem C09w_if_parser_shape_safe : forall d, (2 <= d)%nat -> forall se globals conds ws o0 st fuel,
  parser_shape conds ws ->
  go_panics (tag_execute se globals go_tagfuncs d (TVIfNode conds ws) o0 st fuel) = false.
Proof. exact tie_tagIfNode_Execute_parser_shape. Qed.
Print Assumptions C09w_if_parser_shape_safe.

Theorem C09w_parsed_if_has_parser_shape : forall owner aft bef c body elifs els,
  exists conds ws, node_of owner aft bef (DIf c body elifs els) = NIf conds ws /\ parser_shape conds ws.
Proof. exact tie_node_of_if_parser_shape. Qed.
Print Assumptions C09w_parsed_if_has_parser_shape.

Theorem C09w_parsed_if_never_panics : forall d, (2 <= d)%nat ->
  forall se globals owner aft bef c body elifs els v o0 st fuel,
  tag_value (node_of owner aft bef (DIf c body elifs els)) = Some v ->
  go_panics (tag_execute se globals go_tagfuncs d v o0 st fuel) = false.
Proof. exact tie_parsed_if_never_panics. Qed.
Print Assumptions C09w_parsed_if_never_panics.

Theorem C09w_if_panic_only_when_a_wrapper_is_missing : forall d, (2 <= d)%nat ->
  forall se globals conds ws o0 st fuel,
  go_panics (tag_execute se globals go_tagfuncs d (TVIfNode conds ws) o0 st fuel) = true ->
  (List.length ws < List.length conds)%nat /\ snd (exec_node se globals fuel st (NIf conds ws)) = Panic 97.
Proof. exact tie_tagIfNode_Execute_panic. Qed.
Print Assumptions C09w_if_panic_only_when_a_wrapper_is_missing.

Theorem C09w_firstof_is_model : forall site d, (2 <= d)%nat -> forall se globals args o0 st fuel,
  read_exec site (tag_execute se globals go_tagfuncs d (TVFirstofNode args) o0 st fuel)
  = Some (after o0 (exec_node se globals fuel st (NFirstof args))).
Proof. exact tie_tagFirstofNode_Execute. Qed.
Print Assumptions C09w_firstof_is_model.

Theorem C09w_ifequal_is_model : forall site d, (2 <= d)%nat -> forall se globals a b thenb elseb o0 st fuel,
  read_exec site (tag_execute se globals go_tagfuncs d (TVIfEqualNode a b thenb elseb) o0 st fuel)
  = Some (after o0 (exec_node se globals fuel st (NIfequal false a b thenb elseb))).
Proof. exact tie_tagIfEqualNode_Execute. Qed.
Print Assumptions C09w_ifequal_is_model.

Theorem C09w_ifnotequal_is_model : forall site d, (2 <= d)%nat -> forall se globals a b thenb elseb o0 st fuel,
  read_exec site (tag_execute se globals go_tagfuncs d (TVIfNotEqualNode a b thenb elseb) o0 st fuel)
  = Some (after o0 (exec_node se globals fuel st (NIfequal true a b thenb elseb))).
Proof. exact tie_tagIfNotEqualNode_Execute. Qed.
Print Assumptions C09w_ifnotequal_is_model.

Theorem C09w_tag_execute_is_exec_node : forall d, (2 <= d)%nat -> forall se globals n v o0 st fuel,
  tag_value n = Some v ->
  read_exec 97 (tag_execute se globals go_tagfuncs d v o0 st fuel)
  = Some (after o0 (exec_node se globals fuel st n)).
Proof. exact tie_tag_Execute_is_exec_node. Qed.
Print Assumptions C09w_tag_execute_is_exec_node.

(* ---------- non-vacuity ---------- *)
(* {% if x %}A{% elif not y %}B{% elif y %}{{ x }}C{% else %}D{% endif %}  and  {% if x %}A{% endif %},
   compiled by the model's parser, have the parser's shape: 3 conditions / 4 wrappers, 1 / 1 *)
Example C09w_compiled_if_has_parser_shape :
  option_map if_node_parser_shape (c09w_if_node c09s_if) = Some true /\
  option_map if_node_parser_shape (c09w_if_node c09w_if_plain) = Some true /\
  option_map (fun n => match n with NIf c w => (List.length c, List.length w) | _ => (0, 0)%nat end)
             (c09w_if_node c09s_if) = Some (3, 4)%nat /\
  option_map (fun n => match n with NIf c w => (List.length c, List.length w) | _ => (0, 0)%nat end)
             (c09w_if_node c09w_if_plain) = Some (1, 1)%nat.
Proof. exact tie_c09w_shape_witness. Qed.

(* the translated Execute, run on the first of them with x = 0, y = "a" after "<<" was written:
   "<<0C" with fuel 20; out of fuel with 3; and the model's outcome *)
Example C09w_run_compiled_if :
  option_map (option_map fst) (c09w_run (c09w_if_node c09s_if) [60; 60] c09s_state 20) = Some (Some [60; 60; 48; 67]) /\
  option_map (option_map fst) (c09w_run (c09w_if_node c09s_if) [60; 60] c09s_state 3) = Some (Some [60; 60]) /\
  option_map (option_map snd) (c09w_run (c09w_if_node c09s_if) [60; 60] c09s_state 3) = Some (Some Fuel) /\
  c09w_run (c09w_if_node c09s_if) [60; 60] c09s_state 20 =
    option_map (fun n => Some (after [60; 60] (exec_node (world_senv c09s_world) [] 20 c09s_state n))) (c09w_if_node c09s_if).
Proof. exact tie_c09w_run_witness. Qed.

(* a true condition without its wrapper: the Go code panics, the model says Panic 97; a false one does not *)
Example C09w_missing_wrapper_panics :
  go_panics (tag_execute (world_senv c09s_world) [] go_tagfuncs 2 (TVIfNode [EBool true] []) [] c09s_state 20) = true /\
  exec_node (world_senv c09s_world) [] 20 c09s_state (NIf [EBool true] []) = ([], Panic 97) /\
  go_panics (tag_execute (world_senv c09s_world) [] go_tagfuncs 2
                         (TVIfNode [EBool false; EBool true] [[NHtml 1 [65] false false false false]]) [] c09s_state 20) = true /\
  go_panics (tag_execute (world_senv c09s_world) [] go_tagfuncs 2 (TVIfNode [EBool false] []) [] c09s_state 20) = false.
Proof. exact tie_c09w_panic_witness. Qed.

(* {% firstof z "<b>" %} (z unset, autoescape on) prints &lt;b&gt;; ifequal 1 1 takes the then block A,
   ifnotequal 1 1 the else block B *)
Example C09w_run_firstof_ifequal :
  option_map fst (read_exec 0 (tag_execute (world_senv c09s_world) [] go_tagfuncs 2
     (TVFirstofNode [EVar [PIdent [122] None]; EStr [60; 98; 62]]) [] c09s_state 20)) = Some [38; 108; 116; 59; 98; 38; 103; 116; 59] /\
  option_map fst (read_exec 0 (tag_execute (world_senv c09s_world) [] go_tagfuncs 2
     (TVIfEqualNode (EInt 1) (EInt 1) [NHtml 1 [65] false false false false] (Some [NHtml 1 [66] false false false false]))
     [] c09s_state 20)) = Some [65] /\
  option_map fst (read_exec 0 (tag_execute (world_senv c09s_world) [] go_tagfuncs 2
     (TVIfNotEqualNode (EInt 1) (EInt 1) [NHtml 1 [65] false false false false] (Some [NHtml 1 [66] false false false false]))
     [] c09s_state 20)) = Some [66].
Proof. exact tie_c09w_other_witness. Qed.
Print Assumptions C09w_compiled_if_has_parser_shape.
Print Assumptions C09w_run_compiled_if.
Print Assumptions C09w_missing_wrapper_panics.
Print Assumptions C09w_run_firstof_ifequal.


(* ==================== part: Execute methods translated from the Go sources (Props/C09x) ==================== *)

(* Property C09 (translated, the tags that keep state) - tagSetNode.Execute and
   tagAutoescapeNode.Execute ARE the model's executor.

   tools/go2v (tagfuncs.go) translates, statement by statement and on every run,
       tagSetNode.Execute (tags_set.go), tagAutoescapeNode.Execute (tags_autoescape.go),
       tagIfchangedNode.state and tagIfchangedNode.Execute (tags_ifchanged.go)
   into terms of the Go fragment of Lib/GoStmt.v (gen/TagFuncs.v: go_statefuncs).
   Spec/SpecTagFuncs2.v gives those terms a meaning ([state_tag_execute]: the run of
   node.Execute(ctx, writer) in a world that holds what the writer was handed so far, the model's
   execution state, the model's fuel and a heap), in which only what the methods CALL or TOUCH is
   taken from the model: expression evaluation, NodeWrapper.Execute, the writer, and the data of the
   context - ctx.Autoescape is f_auto of the top frame, ctx.Private[k] = v is set_priv, ctx.nodeState
   is ms_nodes.  The order of the statements, the early returns and the error handling are those of
   the Go text.  [uread_exec site r] reads a run back as an outcome of the model's executor; [after o0 x]
   is the model's outcome x after the writer already held o0; [d] bounds the call depth (3 is enough).

   What each theorem contributes:
     C09x_set_is_model         tagSetNode.Execute = exec_node on NSet: every name, expression, state,
                               fuel, output before (evaluate; on an error return it; otherwise store
                               the value under the name in ctx.Private of the current context)
     C09x_autoescape_is_model  tagAutoescapeNode.Execute = exec_node on NAutoescape: every body, flag,
                               state, fuel: the flag is set, the body runs, the OLD flag is put back
                               when the body succeeded.  When the body FAILS the Go code returns the
                               error with ctx.Autoescape still set to the node's flag; the model's
                               outcome of a failure carries no state, so the tie holds without an
                               excluding hypothesis (and nothing in pongo2 goes on with a context
                               after an error: every Execute returns it to the top).
     C09x_state_tag_execute_is_exec_node   the two in one statement, by [state_tag_value]
   Examples: set stores and writes nothing; autoescape off/on changes what {{ "<" }} prints and the flag is
   back afterwards; the translated ifchanged code run on two instances equals the model.

   NOT proved here: the general tie of tagIfchangedNode.Execute (the term is translated without any
   GSUnknown, its meaning is defined, instances run; see the report for the hypotheses such a tie needs:
   the Go code reads the node's entry AFTER rendering the body / evaluating the watched expressions, the
   model BEFORE). *)
From PV Require Import Model.Exec Model.Api Lib.GoStmt Spec.SpecTagFuncs Spec.SpecTagFuncs2 gen.TagFuncs.
From PV Require Import Tie.C09s Tie.C09x.
From Coq Require Import String.
Open Scope string_scope.

Theorem C09x_set_is_model : forall site d, (3 <= d)%nat -> forall se globals name e o0 st fuel,
  uread_exec site (state_tag_execute se globals go_statefuncs d (UVSetNode name e) o0 st fuel)
  = Some (after o0 (exec_node se globals fuel st (NSet name e))).
Proof. exact tie_tagSetNode_Execute. Qed.
Print Assumptions C09x_set_is_model.

Theorem C09x_autoescape_is_model : forall site d, (3 <= d)%nat -> forall se globals on body o0 st fuel,
  uread_exec site (state_tag_execute se globals go_statefuncs d (UVAutoescapeNode body on) o0 st fuel)
  = Some (after o0 (exec_node se globals fuel st (NAutoescape on body))).
Proof. exact tie_tagAutoescapeNode_Execute. Qed.
Print Assumptions C09x_autoescape_is_model.

Theorem C09x_state_tag_execute_is_exec_node : forall site d, (3 <= d)%nat -> forall se globals n v o0 st fuel,
  match n with NSet _ _ | NAutoescape _ _ => True | _ => False end ->
  state_tag_value n = Some v ->
  uread_exec site (state_tag_execute se globals go_statefuncs d v o0 st fuel)
  = Some (after o0 (exec_node se globals fuel st n)).
Proof. exact tie_state_tag_Execute_is_exec_node. Qed.
Print Assumptions C09x_state_tag_execute_is_exec_node.

(* ---------- non-vacuity ---------- *)
Example C09x_run_set :
  option_map fst (c09x_run (UVSetNode [122] (EInt 7)) [60] 20) = Some [60] /\
  c09x_priv (c09x_run (UVSetNode [122] (EInt 7)) [60] 20) [122] = Some (Some (CV (as_value (VInt 7)))) /\
  option_map snd (c09x_run (UVSetNode [122] (EInt 7)) [60] 1) = Some Fuel.
Proof. exact tie_c09x_set_witness. Qed.

Example C09x_run_autoescape :
  option_map fst (c09x_run (UVAutoescapeNode [NVar (EStr [60])] false) [] 20) = Some [60] /\
  option_map fst (c09x_run (UVAutoescapeNode [NVar (EStr [60])] true) [] 20) = Some [38; 108; 116; 59] /\
  c09x_auto (c09x_run (UVAutoescapeNode [NVar (EStr [60])] false) [] 20) = c09x_auto (Some ([], Ok c09s_state)).
Proof. exact tie_c09x_autoescape_witness. Qed.

Example C09x_run_ifchanged_instances :
  c09x_run (UVIfchangedNode 7 [] [c09x_html [65]] None) [60] 20 =
    Some (after [60] (exec_node (world_senv c09s_world) [] 20 c09s_state (NIfchanged 7 [] [c09x_html [65]] None))) /\
  option_map fst (c09x_run (UVIfchangedNode 7 [] [c09x_html [65]] None) [60] 20) = Some [60; 65] /\
  c09x_run (UVIfchangedNode 7 [EInt 1; EInt 2] [c09x_html [65]] (Some [c09x_html [66]])) [60] 20 =
    Some (after [60] (exec_node (world_senv c09s_world) [] 20 c09s_state
                                (NIfchanged 7 [EInt 1; EInt 2] [c09x_html [65]] (Some [c09x_html [66]])))) /\
  option_map fst (c09x_run (UVIfchangedNode 7 [EInt 1; EInt 2] [c09x_html [65]] (Some [c09x_html [66]])) [60] 20) = Some [60; 65].
Proof. exact tie_c09x_ifchanged_instances. Qed.
Print Assumptions C09x_run_set.
Print Assumptions C09x_run_autoescape.
Print Assumptions C09x_run_ifchanged_instances.


(* ==================== part: the general tie of ifchanged (Props/C09y) ==================== *)

(* Property C09 (translated, the ifchanged tag) - tagIfchangedNode.Execute IS the model's executor,
   in both modes.

   tools/go2v (tagfuncs.go) translates tagIfchangedNode.state and tagIfchangedNode.Execute
   (tags_ifchanged.go) statement by statement, on every run, into terms of the Go fragment of
   Lib/GoStmt.v (gen/TagFuncs.v: go_statefuncs); Spec/SpecTagFuncs2.v gives the terms their meaning
   ([state_tag_execute]: the run of node.Execute(ctx, writer) in a world that holds what the writer was
   handed so far, the model's execution state, the model's fuel and a heap for the bytes.Buffer and a
   fresh state object); only what the methods CALL or TOUCH is taken from the model (expression
   evaluation, NodeWrapper.Execute, EqualValueTo, the writer, ctx.nodeState = ms_nodes).  The order of
   the statements, the early returns, the loop with its break and the index are those of the Go text.
   [uread_exec site r] reads a run back as an outcome of the model's executor, [after o0 x] is the
   model's outcome x after the writer already held o0, [d] bounds the call depth (3 is enough).

   The theorems are named _partial because a hypothesis on the node's entry in ctx.nodeState remains
   (Spec/SpecTagFuncs3.v says why each part is needed; no state reached by executing templates
   violates them, since a node has its own key and its list of watched expressions never changes):
     content mode  [ifch_body_keeps_mode]     when the body has run, the entry holds no remembered values
                                              (the model's store drops them, the Go code keeps them)
     watched mode  [ifch_watched_keeps_mode]  not more values remembered than expressions watched (else
                                              the Go code panics on nowValues[idx], the model does not);
                                              when the expressions have run the entry holds no content (the
                                              model's store drops it, the Go code keeps it); comparing
                                              the remembered with the new values is covered by the model
                                              (the Go code stops at the first unequal pair, the model's
                                              fold sees a later struct comparison and says Unmod)
   Nothing is assumed about fuel, the body, the else block, the frames, the writer, or entries of
   other nodes; a missing entry and a zero state object are the same in the interpretation.

   What each theorem contributes:
     C09y_ifchanged_content_is_model_partial   {% ifchanged %}body{% endifchanged %}: for every body,
                                 state, fuel: the last content is read BEFORE the body is rendered into
                                 the buffer; an error of the body is returned and nothing is written;
                                 equal content writes nothing and stores nothing; changed content is
                                 written and stored
     C09y_ifchanged_watched_is_model_partial   {% ifchanged e1 .. en %}: for every non-empty list of
                                 expressions, both blocks: the last values are read BEFORE the
                                 expressions are evaluated (in order, first error returned), compared
                                 pairwise, the new values stored, then the then / else block runs
     C09y_ifchanged_is_model_partial           the two in one statement
   Examples: the hypotheses hold before the first execution of the tag and in the states its
   execution reaches; the second execution prints nothing (content) / takes the else block (watched);
   on two states no execution reaches, where the hypotheses fail, the Go code and the model differ. *)
From PV Require Import Model.Exec Model.Api Lib.GoStmt Spec.SpecTagFuncs Spec.SpecTagFuncs2 Spec.SpecTagFuncs3 gen.TagFuncs.
From PV Require Import Tie.C09s Tie.C09x Tie.C09y.
From Coq Require Import String.
Open Scope string_scope.

Theorem C09y_ifchanged_content_is_model_partial : forall site d, (3 <= d)%nat -> forall se globals id thenb elseb o0 st fuel,
  ifch_body_keeps_mode se globals fuel st id thenb ->
  uread_exec site (state_tag_execute se globals go_statefuncs d (UVIfchangedNode id [] thenb elseb) o0 st fuel)
  = Some (after o0 (exec_node se globals fuel st (NIfchanged id [] thenb elseb))).
Proof. exact tie_tagIfchangedNode_Execute_content. Qed.
Print Assumptions C09y_ifchanged_content_is_model_partial.

Theorem C09y_ifchanged_watched_is_model_partial : forall site d, (3 <= d)%nat -> forall se globals id w ws thenb elseb o0 st fuel,
  ifch_watched_keeps_mode se globals fuel st id (w :: ws) ->
  uread_exec site (state_tag_execute se globals go_statefuncs d (UVIfchangedNode id (w :: ws) thenb elseb) o0 st fuel)
  = Some (after o0 (exec_node se globals fuel st (NIfchanged id (w :: ws) thenb elseb))).
Proof. exact tie_tagIfchangedNode_Execute_watched. Qed.
Print Assumptions C09y_ifchanged_watched_is_model_partial.

Theorem C09y_ifchanged_is_model_partial : forall site d, (3 <= d)%nat -> forall se globals id watched thenb elseb o0 st fuel,
  ifch_tie_hyps se globals fuel st id watched thenb ->
  uread_exec site (state_tag_execute se globals go_statefuncs d (UVIfchangedNode id watched thenb elseb) o0 st fuel)
  = Some (after o0 (exec_node se globals fuel st (NIfchanged id watched thenb elseb))).
Proof. exact tie_tagIfchangedNode_Execute. Qed.
Print Assumptions C09y_ifchanged_is_model_partial.

(* ---------- non-vacuity ---------- *)
(* {% ifchanged %}A{% endifchanged %} is node 7, {% ifchanged 1 2 %}A{% else %}B{% endifchanged %} node 8;
   c09y_st1 / c09y_st2 are the states after executing them once from c09s_state *)
Example C09y_hypotheses_hold_in_reached_states :
  ifch_tie_hyps c09y_se [] 20 c09s_state 7 [] c09y_body /\
  ifch_tie_hyps c09y_se [] 20 c09y_st1 7 [] c09y_body /\
  ifch_tie_hyps c09y_se [] 20 c09s_state 8 c09y_watched c09y_body /\
  ifch_tie_hyps c09y_se [] 20 c09y_st2 8 c09y_watched c09y_body /\
  ifch_content c09y_st1 c09y_exec 7 = Some [65] /\
  List.length (ifch_vals c09y_st2 c09y_exec 8) = 2%nat.
Proof. exact tie_c09y_hyps_reached. Qed.

Example C09y_second_execution :
  option_map fst (c09y_run (UVIfchangedNode 7 [] c09y_body None) c09y_st1 [60]) = Some [60] /\
  option_map fst (c09y_run (UVIfchangedNode 8 c09y_watched c09y_body (Some c09y_else)) c09y_st2 [60]) = Some [60; 66] /\
  c09y_run (UVIfchangedNode 8 c09y_watched c09y_body (Some c09y_else)) c09y_st2 [60] =
    Some (after [60] (exec_node c09y_se [] 20 c09y_st2 (NIfchanged 8 c09y_watched c09y_body (Some c09y_else)))).
Proof. exact tie_c09y_second_run. Qed.

(* where the hypotheses fail, the Go code and the model do differ *)
Example C09y_long_entry_differs :
  ugo_panics (state_tag_execute c09y_se [] go_statefuncs 3 (UVIfchangedNode 8 [EInt 1] c09y_body (Some c09y_else)) [] c09y_st_long 20) = true /\
  fst (exec_node c09y_se [] 20 c09y_st_long (NIfchanged 8 [EInt 1] c09y_body (Some c09y_else))) = [66].
Proof. exact tie_c09y_long_entry_differs. Qed.

Example C09y_mixed_entry_differs :
  option_map (fun x => match snd x with Ok st' => ifch_vals st' c09y_exec 7 | _ => [] end)
             (c09y_run (UVIfchangedNode 7 [] c09y_body None) c09y_st_mixed []) = Some [as_value (VInt 1)] /\
  match snd (exec_node c09y_se [] 20 c09y_st_mixed (NIfchanged 7 [] c09y_body None)) with
  | Ok st' => ifch_vals st' c09y_exec 7 | _ => [as_value (VInt 1)] end = [].
Proof. exact tie_c09y_mixed_entry_differs. Qed.
Print Assumptions C09y_hypotheses_hold_in_reached_states.
Print Assumptions C09y_second_execution.
Print Assumptions C09y_long_entry_differs.
Print Assumptions C09y_mixed_entry_differs.
