(* Property C11 - templates come from the set's loaders and from nowhere else.
   include, extends, import and ssi obtain exactly the templates they name - resolved relative
   to the referring template, or from the loader's root for rooted names - through the set's
   loaders; the first loader that has a name wins, a missing name is an error (or nothing, with
   if_exists), and no name is fetched that the templates involved do not reference.  An
   included template sees the includer's variables plus the with-pairs, or only the pairs with
   "only", and a rooted name renders the same whether it is a literal or computed at run time.

   What each theorem contributes (definitions: Spec/SpecLoaders.v):
   - C11_first_loader_wins / C11_found_only_if_held / C11_none_iff_absent: a fetch returns the
     content held by the first loader, in list order, that has the name; None exactly when no
     loader has it.
   - C11_fetch_log_exact: a fetch extends the access log by exactly [attempts name idx loaders]
     (a miss per loader before the first holder, then one hit) and touches nothing else;
     C11_attempts_shape: every attempt asks for the one name [loader_name path], the k-th one
     asks loader idx+k, only the last can be a hit, and hit/miss is what that loader holds;
     C11_if_exists_log: what if_exists records for a missing name: one miss per loader.
   - C11_compile_file_found / _missing: compiling a file is fetching that name (first holder
     wins) and compiling the content under that name; a name nobody holds is error 4.
   - C11_extends_fetch, C11_import_fetch, C11_ssi_fetch, C11_include_static_fetch: the one
     name each tag compiles or fetches is resolve_filename of the written name against the
     template being parsed (one-step characterisations of the tag parsers);
     C11_include_lazy_parse: an include whose name is an expression fetches nothing at parse
     time.  C11_referrer_fixed (proved over the whole parser): the name those tag parsers read
     from the parser state is, throughout the parse of a template, the name it is compiled
     under; C11_compiled_template_identity / _file_identity: and that is the name the compiled
     template carries (so a template that is executed itself resolves computed names against
     the same name its literals were resolved against).
   - paths (for all strings): C11_dir_part: the referrer's directory part is everything up
     to and including its last slash; C11_string_template_name: string templates keep the name
     as written; C11_relative_against_referrer_dir: otherwise the name is joined to the
     referrer's directory and cleaned; C11_same_dir_same_name: only the directory of the
     referrer matters; C11_top_level_from_root: from a referrer in the top directory every
     name is taken from the loader's root.
   - FOUND FALSE IN THE MODEL: "a rooted name is resolved from the loader's root /
     independently of the referrer".  The model's Abs is filepath.Join(filepath.Dir(base), name)
     with no test for a leading slash, so C11_rooted_like_relative holds instead: "/n" resolves
     exactly like "n", against the referrer's directory; C11_rooted_depends_on_referrer is the
     counterexample ("/x" from "a/b" is "a/x", from "c/d" is "c/x", from the top it is "x").
   - C11_include_context: an include of a compiled template executes it with exactly
     [include_ctx only frame pairs]; C11_include_ctx_lookup: looking a key up there gives the
     last with-pair for it, else - unless "only" - the includer's private, then public binding;
     C11_with_pairs_keys: the pairs are bound under their own names, in order, to values.
   - C11_include_lazy_found / _missing / _empty_name, C11_include_static_missing / _found,
     C11_include_empty_renders_nothing: a name that NO LOADER HOLDS ([served ... = false],
     C11_served_false / C11_served_true say what that means) is error 4, or with if_exists no
     output, frames and node states unchanged, one logged miss per loader - at run time for
     computed names, at parse time for literals.
   - C11_if_exists_does_not_hide_errors (fix D41): if_exists forgives only the absence of the
     named file itself.  If some loader holds the included name and compiling it fails with
     error 4 (e.g. it refers, further down, to a file that is missing), the include fails with
     error 4 with or without if_exists - the literal form when the tag is parsed, the computed
     form when the node is executed.  Before the fix every "not found" raised anywhere below
     the included file was swallowed and the file rendered as nothing.  Examples
     C11_example_if_exists_broken_file / _missing_file / _lazy and C11f_example_if_exists_inner_error.
   - C11_literal_equals_computed_name: a literal and a computed name are resolved by the same
     function, the literal against the template that contains the tag, the computed one against
     the BASE of the executing chain; they are the same file name whenever those two live in
     the same directory (and are both files), rooted or not.  FOUND FALSE IN THE MODEL as
     stated in the property ("a rooted name renders the same"): example
     C11_example_literal_vs_computed renders  {% include "/x" %}|{% include n %}  with n = "/x"
     from a child in directory a/ whose base is in the top directory: the literal gives a/x,
     the computed name gives x.
   - NOT PROVED as one statement: "no name is fetched that the templates involved do not
     reference", over a whole compilation and execution.  It is covered step by step (each tag
     fetches the one resolved name, each fetch logs exactly its attempts, a computed include
     fetches nothing before it runs); the examples show the complete logs of two runs. *)
From PV Require Import Model.Exec Model.Api Spec.SpecComposeExamples Spec.SpecLoaders.
From PV Require Import Tie.C11.
From PV Require Import Model.ParseDoc Spec.SpecLoaders Spec.SpecFetch.
From PV Require Import Tie.C11f.
Open Scope N_scope.

Theorem C11_first_loader_wins : forall pre l post idx path g c,
  (forall x, In x pre -> assoc_get (loader_name path) (l_files x) = None) ->
  assoc_get (loader_name path) (l_files l) = Some c ->
  fst (resolve_template (pre ++ l :: post) idx path g) = Some c.
Proof. exact resolve_template_first. Qed.
Print Assumptions C11_first_loader_wins.

Theorem C11_found_only_if_held : forall ls idx path g c,
  fst (resolve_template ls idx path g) = Some c ->
  exists pre l post, ls = pre ++ l :: post /\
    (forall x, In x pre -> assoc_get (loader_name path) (l_files x) = None) /\
    assoc_get (loader_name path) (l_files l) = Some c.
Proof. exact resolve_template_some. Qed.
Print Assumptions C11_found_only_if_held.

Theorem C11_none_iff_absent : forall ls idx path g,
  fst (resolve_template ls idx path g) = None <->
  (forall x, In x ls -> assoc_get (loader_name path) (l_files x) = None).
Proof. exact resolve_template_none. Qed.
Print Assumptions C11_none_iff_absent.

Theorem C11_fetch_log_exact : forall ls idx path g,
  log_grows_by g (snd (resolve_template ls idx path g)) (attempts (loader_name path) idx ls).
Proof. exact resolve_template_attempts. Qed.
Print Assumptions C11_fetch_log_exact.

Theorem C11_attempts_shape : forall name ls idx k e,
  nth_error (attempts name idx ls) k = Some e ->
  attempt_name e = name /\ attempt_loader e = (idx + k)%nat /\ (k < length ls)%nat /\
  (attempt_hit e = true -> S k = length (attempts name idx ls)) /\
  (exists l, nth_error ls k = Some l /\ loader_has name l = attempt_hit e).
Proof. exact attempts_shape. Qed.
Print Assumptions C11_attempts_shape.

Theorem C11_if_exists_log : forall ls path g,
  log_grows_by g (log_misses ls path g)
               (map (fun i => LGet i (loader_name path) false) (seq 0 (length ls))).
Proof. exact log_misses_spec. Qed.
Print Assumptions C11_if_exists_log.

Theorem C11_compile_file_found : forall se f path g pre l post c,
  se_loaders se = pre ++ l :: post ->
  (forall x, In x pre -> assoc_get (loader_name path) (l_files x) = None) ->
  assoc_get (loader_name path) (l_files l) = Some c ->
  compile_file se (S f) path g =
    compile_src se f path false c (snd (resolve_template (se_loaders se) 0 path g)).
Proof. exact compile_file_found. Qed.
Print Assumptions C11_compile_file_found.

Theorem C11_compile_file_missing : forall se f path g,
  (forall l, In l (se_loaders se) -> assoc_get (loader_name path) (l_files l) = None) ->
  compile_file se (S f) path g = Err 4.
Proof. exact compile_file_missing. Qed.
Print Assumptions C11_compile_file_missing.

(* ---- the one name each tag compiles or fetches ---- *)
Theorem C11_extends_fetch : forall se f level args tst g ts,
  tag_parser se (S f) level tagExtendsParser args (tst, g) ts =
    if Nat.ltb 1 level then perr
    else match t_parent tst with
         | Some _ => perr
         | None =>
             match match_string args with
             | None => perr
             | Some (fname, rest) =>
                 let pname := resolve_filename (t_isstr tst) (t_name tst) fname in
                 do '(ptpl, g1) <- compile_file se f pname g;
                 match rest with
                 | _ :: _ => perr
                 | [] =>
                     let tst' := mkT (t_id tst) (t_name tst) (t_isstr tst) (t_blocks tst) (t_exported tst) (Some ptpl) in
                     Ok (NExtends, ts, (tst', g1))
                 end
             end
         end.
Proof. exact tag_parser_S_extends. Qed.
Print Assumptions C11_extends_fetch.

Theorem C11_import_fetch : forall se f level args tst g ts,
  tag_parser se (S f) level tagImportParser args (tst, g) ts =
    match match_string args with
    | None => perr
    | Some (fname, rest) =>
        let iname := resolve_filename (t_isstr tst) (t_name tst) fname in
        match rest with
        | [] => perr
        | _ =>
            do '(itpl, g1) <- compile_file se f iname g;
            do ms <- import_list (parse_fuel args) (tpl_exported itpl) rest;
            Ok (NImport ms, ts, (tst, g1))
        end
    end.
Proof. exact tag_parser_S_import. Qed.
Print Assumptions C11_import_fetch.

Theorem C11_ssi_fetch : forall se f level args tst g ts,
  tag_parser se (S f) level tagSSIParser args (tst, g) ts =
    match match_string args with
    | None => perr
    | Some (fname, rest) =>
        match match_ident_val rest kw_parsed with
        | Some rest' =>
            let iname := resolve_filename (t_isstr tst) (t_name tst) fname in
            do '(itpl, g1) <- compile_file se f iname g;
            match rest' with [] => Ok (NSsi [] (Some itpl), ts, (tst, g1)) | _ => perr end
        | None =>
            let path := if t_isstr tst then fname else fsloader_abs (t_name tst) fname in
            let '(c, g1) := resolve_template (se_loaders se) 0 path g in
            match c with
            | None => Err 2
            | Some content => match rest with [] => Ok (NSsi content None, ts, (tst, g1)) | _ => perr end
            end
        end
    end.
Proof. exact tag_parser_S_ssi. Qed.
Print Assumptions C11_ssi_fetch.

Theorem C11_include_static_fetch : forall se f level args tst g ts fname rest0,
  match_string args = Some (fname, rest0) ->
  tag_parser se (S f) level tagIncludeParser args (tst, g) ts =
    let '(ifexists, rest) := match match_ident_val rest0 kw_if_exists with Some x => (true, x) | None => (false, rest0) end in
    let iname := resolve_filename (t_isstr tst) (t_name tst) fname in
    match compile_file se f iname g with
    | Err 4 => if ifexists && negb (served (se_loaders se) iname)
               then Ok (NIncludeEmpty, ts, (tst, log_misses (se_loaders se) iname g)) else Err 4
    | Ok (itpl, g1) =>
        do '(pairs, only, rest') <-
          (match match_ident_val rest kw_with with
           | Some r' => include_pairs (se_cfg se) (parse_fuel args) r'
           | None => Ok ([], false, rest)
           end);
        match rest' with
        | [] => Ok (NInclude (Some itpl) None pairs only false, ts, (tst, g1))
        | _ => perr
        end
    | Err k => Err k
    | Unmod => Unmod
    | Fuel => Fuel
    | Panic s => Panic s
    end.
Proof. exact tag_parser_S_include_static. Qed.
Print Assumptions C11_include_static_fetch.

Theorem C11_include_lazy_parse : forall se f level args tst g ts n r st',
  match_string args = None ->
  tag_parser se (S f) level tagIncludeParser args (tst, g) ts = Ok (n, r, st') ->
  st' = (tst, g) /\ r = ts /\
  exists fe pairs only ifx rest0, pexpr (se_cfg se) args = Ok (fe, rest0) /\
                                   n = NInclude None (Some fe) pairs only ifx.
Proof. exact include_lazy_parse. Qed.
Print Assumptions C11_include_lazy_parse.

(* "the referring template": while a template is parsed, the id, name and kind in the parser
   state never change, and the compiled template carries exactly them *)
Theorem C11_referrer_fixed : forall se f,
  (forall level st ts n r st', parse_elem se f level st ts = Ok (n, r, st') -> same_ident st st') /\
  (forall level names st ts ns nm args r st',
      wrap_until se f level names st ts = Ok (ns, nm, args, r, st') -> same_ident st st') /\
  (forall level st ts n r st', parse_tag se f level st ts = Ok (n, r, st') -> same_ident st st') /\
  (forall level impl args st ts n r st',
      tag_parser se f level impl args st ts = Ok (n, r, st') -> same_ident st st') /\
  (forall level conds ws st ts cs ws' r st',
      if_branches se f level conds ws st ts = Ok (cs, ws', r, st') -> same_ident st st') /\
  (forall st ts ns st', parse_doc se f st ts = Ok (ns, st') -> same_ident st st').
Proof. exact ident_inv_all. Qed.
Print Assumptions C11_referrer_fixed.

Theorem C11_compiled_template_identity : forall se f name isstr src g t g',
  compile_src se f name isstr src g = Ok (t, g') ->
  tpl_name t = name /\ tpl_is_string t = isstr /\ tpl_id t = g_nid g /\
  tpl_trim t = se_trim se /\ tpl_lstrip t = se_lstrip se.
Proof. exact compile_src_ident. Qed.
Print Assumptions C11_compiled_template_identity.

Theorem C11_compiled_file_identity : forall se f path g t g',
  compile_file se f path g = Ok (t, g') -> tpl_name t = path /\ tpl_is_string t = false.
Proof. exact compile_file_ident. Qed.
Print Assumptions C11_compiled_file_identity.

(* ---- paths ---- *)
Theorem C11_dir_part : forall p,
  (exists base, p = dir_part p ++ base /\ no_slash base = true) /\
  (dir_part p = [] \/ exists d, dir_part p = d ++ [slash]) /\
  (no_slash p = true -> dir_part p = []).
Proof. exact dir_part_facts. Qed.
Print Assumptions C11_dir_part.

Theorem C11_string_template_name : forall tname path, resolve_filename true tname path = path.
Proof. exact resolve_filename_string. Qed.
Print Assumptions C11_string_template_name.

Theorem C11_relative_against_referrer_dir : forall tname c path,
  resolve_filename false tname (c :: path) = path_clean (path_dir tname ++ [slash] ++ c :: path).
Proof. exact resolve_filename_relative. Qed.
Print Assumptions C11_relative_against_referrer_dir.

Theorem C11_same_dir_same_name : forall isstr t1 t2 path,
  dir_part t1 = dir_part t2 -> resolve_filename isstr t1 path = resolve_filename isstr t2 path.
Proof. exact resolve_filename_same_dir. Qed.
Print Assumptions C11_same_dir_same_name.

Theorem C11_top_level_from_root : forall tname path,
  no_slash tname = true -> resolve_filename false tname path = loader_name path.
Proof. exact resolve_filename_top. Qed.
Print Assumptions C11_top_level_from_root.

Theorem C11_rooted_like_relative : forall base c n,
  fsloader_abs base (slash :: c :: n) = fsloader_abs base (c :: n).
Proof. exact fsloader_abs_rooted. Qed.
Print Assumptions C11_rooted_like_relative.

(* the counterexample to "a rooted name resolves independently of the referrer":
   "/x" referred to from "a/b", from "c/d", and asked of a loader directly *)
Theorem C11_rooted_depends_on_referrer :
  resolve_filename false [97; 47; 98] (* a/b *) [47; 120] (* /x *) = [97; 47; 120] (* a/x *) /\
  resolve_filename false [99; 47; 100] (* c/d *) [47; 120] (* /x *) = [99; 47; 120] (* c/x *) /\
  loader_name [47; 120] (* /x *) = [120] (* x *).
Proof. exact rooted_depends_on_referrer. Qed.
Print Assumptions C11_rooted_depends_on_referrer.

(* ---- what an included template sees ---- *)
Theorem C11_include_context : forall se globals f st fr t fname pairs only ifx vals st1,
  top_frame st = Ok fr ->
  eval_pairs se globals f st pairs = Ok (vals, st1) ->
  exec_node se globals (S f) st (NInclude (Some t) fname pairs only ifx) =
    exec_template se globals f st1 t (include_ctx only fr vals).
Proof. exact include_static_ctx. Qed.
Print Assumptions C11_include_context.

Theorem C11_include_ctx_lookup : forall only fr withs k,
  ctx_get k (include_ctx only fr withs) =
    or_else (last_binding k withs)
            (if only then None
             else or_else (last_binding k (f_priv fr)) (ctx_get k (f_pub fr))).
Proof. exact include_ctx_lookup. Qed.
Print Assumptions C11_include_ctx_lookup.

Theorem C11_with_pairs_keys : forall se globals f st pairs vals st1,
  eval_pairs se globals f st pairs = Ok (vals, st1) ->
  map fst vals = map fst pairs /\ Forall (fun kv => exists v, snd kv = CV v) vals.
Proof. exact eval_pairs_keys. Qed.
Print Assumptions C11_with_pairs_keys.

(* [served ls name]: some loader of the list holds the name, i.e. a fetch would find it *)
Theorem C11_served_false : forall ls path,
  served ls path = false <-> (forall l, In l ls -> assoc_get (loader_name path) (l_files l) = None).
Proof. exact served_false_iff. Qed.
Print Assumptions C11_served_false.

Theorem C11_served_true : forall ls path,
  served ls path = true <-> exists l c, In l ls /\ assoc_get (loader_name path) (l_files l) = Some c.
Proof. exact served_true_iff. Qed.
Print Assumptions C11_served_true.

Theorem C11_served_iff_fetch_finds : forall ls idx path g,
  served ls path = false <-> fst (resolve_template ls idx path g) = None.
Proof. exact served_false_fetch_none. Qed.
Print Assumptions C11_served_iff_fetch_finds.

Theorem C11_include_lazy_found :
  forall se globals f st fr fe pairs only ifx vals st1 fv st2 c fn root rest t g',
    top_frame st = Ok fr ->
    eval_pairs se globals f st pairs = Ok (vals, st1) ->
    eval se globals f st1 fe = Ok (fv, st2) ->
    to_string (vv fv) = Some (c :: fn) ->
    f_chain fr = root :: rest ->
    compile_file se f (resolve_filename (tpl_is_string root) (tpl_name root) (c :: fn)) (ms_g st2) = Ok (t, g') ->
    exec_node se globals (S f) st (NInclude None (Some fe) pairs only ifx) =
      exec_template se globals f (mkM (ms_frames st2) (ms_nodes st2) g') t (include_ctx only fr vals).
Proof. exact include_lazy_found. Qed.
Print Assumptions C11_include_lazy_found.

Theorem C11_include_lazy_missing :
  forall se globals f st fr fe pairs only ifx vals st1 fv st2 c fn root rest,
    top_frame st = Ok fr ->
    eval_pairs se globals f st pairs = Ok (vals, st1) ->
    eval se globals f st1 fe = Ok (fv, st2) ->
    to_string (vv fv) = Some (c :: fn) ->
    f_chain fr = root :: rest ->
    let iname := resolve_filename (tpl_is_string root) (tpl_name root) (c :: fn) in
    compile_file se f iname (ms_g st2) = Err 4 ->
    served (se_loaders se) iname = false ->
    exec_node se globals (S f) st (NInclude None (Some fe) pairs only ifx) =
      if ifx then xok [] (mkM (ms_frames st2) (ms_nodes st2) (log_misses (se_loaders se) iname (ms_g st2)))
      else ([], Err 4).
Proof. exact include_lazy_missing. Qed.
Print Assumptions C11_include_lazy_missing.

Theorem C11_include_lazy_empty_name : forall se globals f st fr fe pairs only ifx vals st1 fv st2,
  top_frame st = Ok fr ->
  eval_pairs se globals f st pairs = Ok (vals, st1) ->
  eval se globals f st1 fe = Ok (fv, st2) ->
  to_string (vv fv) = Some [] ->
  exec_node se globals (S f) st (NInclude None (Some fe) pairs only ifx) = ([], Err 3).
Proof. exact include_empty_name. Qed.
Print Assumptions C11_include_lazy_empty_name.

Theorem C11_include_static_missing : forall se f level args tst g ts fname rest0,
  match_string args = Some (fname, rest0) ->
  compile_file se f (resolve_filename (t_isstr tst) (t_name tst) fname) g = Err 4 ->
  served (se_loaders se) (resolve_filename (t_isstr tst) (t_name tst) fname) = false ->
  tag_parser se (S f) level tagIncludeParser args (tst, g) ts =
    match match_ident_val rest0 kw_if_exists with
    | Some _ => Ok (NIncludeEmpty, ts,
                    (tst, log_misses (se_loaders se) (resolve_filename (t_isstr tst) (t_name tst) fname) g))
    | None => Err 4
    end.
Proof. exact include_static_missing. Qed.
Print Assumptions C11_include_static_missing.

(* fix D41: an included file that exists and fails to compile with error 4 is an error even
   with if_exists - (1) a literal name, when the tag is parsed (whatever follows the name: the
   result does not depend on rest0); (2) a computed name, when the node is executed (whatever
   the flag ifx) *)
Theorem C11_if_exists_does_not_hide_errors :
  (forall se f level args tst g ts fname rest0,
     match_string args = Some (fname, rest0) ->
     let iname := resolve_filename (t_isstr tst) (t_name tst) fname in
     served (se_loaders se) iname = true ->
     compile_file se f iname g = Err 4 ->
     tag_parser se (S f) level tagIncludeParser args (tst, g) ts = Err 4) /\
  (forall se globals f st fr fe pairs only ifx vals st1 fv st2 c fn root rest,
     top_frame st = Ok fr ->
     eval_pairs se globals f st pairs = Ok (vals, st1) ->
     eval se globals f st1 fe = Ok (fv, st2) ->
     to_string (vv fv) = Some (c :: fn) ->
     f_chain fr = root :: rest ->
     let iname := resolve_filename (tpl_is_string root) (tpl_name root) (c :: fn) in
     served (se_loaders se) iname = true ->
     compile_file se f iname (ms_g st2) = Err 4 ->
     exec_node se globals (S f) st (NInclude None (Some fe) pairs only ifx) = ([], Err 4)).
Proof. exact tie_if_exists_does_not_hide_errors. Qed.
Print Assumptions C11_if_exists_does_not_hide_errors.

Theorem C11_include_static_found : forall se f level args tst g ts fname rest0 itpl g1 n r st',
  match_string args = Some (fname, rest0) ->
  compile_file se f (resolve_filename (t_isstr tst) (t_name tst) fname) g = Ok (itpl, g1) ->
  tag_parser se (S f) level tagIncludeParser args (tst, g) ts = Ok (n, r, st') ->
  st' = (tst, g1) /\ r = ts /\ exists pairs only, n = NInclude (Some itpl) None pairs only false.
Proof. exact include_static_found. Qed.
Print Assumptions C11_include_static_found.

Theorem C11_include_empty_renders_nothing : forall se globals f st,
  exec_node se globals (S f) st NIncludeEmpty = xok [] st.
Proof. exact exec_node_S_include_empty. Qed.
Print Assumptions C11_include_empty_renders_nothing.

Theorem C11_literal_equals_computed_name : forall tst root fname,
  tpl_is_string root = t_isstr tst ->
  dir_part (tpl_name root) = dir_part (t_name tst) ->
  resolve_filename (tpl_is_string root) (tpl_name root) fname =
  resolve_filename (t_isstr tst) (t_name tst) fname.
Proof. exact literal_equals_computed_name. Qed.
Print Assumptions C11_literal_equals_computed_name.

(* ---------- non-vacuity and end-to-end instances ---------- *)
(* the example set c11_world (Spec/SpecComposeExamples.v) has two loaders; the first shadows
   a/x of the second and lacks base, inc and x *)
Example C11_example_first_loader_hypotheses :
  assoc_get (loader_name [98; 97; 115; 101] (* base *)) c11_loader0 = None /\
  assoc_get (loader_name [98; 97; 115; 101] (* base *)) c11_loader1 = Some [123; 37; 32; 98; 108; 111; 99; 107; 32; 98; 32; 37; 125; 123; 37; 32; 101; 110; 100; 98; 108; 111; 99; 107; 32; 37; 125] (* {% block b %}{% endblock %} *) /\
  attempts (loader_name [98; 97; 115; 101] (* base *)) 0 [mkLoader c11_loader0; mkLoader c11_loader1] =
    [LGet 0 [98; 97; 115; 101] false; LGet 1 [98; 97; 115; 101] true].
Proof. vm_compute. repeat split. Qed.

(* the child a/child extends ../base (top directory) and includes, inside its block, the
   literal "/x", the computed name n = "/x" and the literal "x": the literals resolve against
   a/child (a/x, held by the first loader), the computed one against the base (x, second
   loader).  The log shows every attempt, oldest first, and nothing else. *)
Example C11_example_literal_vs_computed :
  api_render_file_log c11_world [97; 47; 99; 104; 105; 108; 100] (* a/child *) [([110] (* n *), str_val [47; 120] (* /x *))] =
    (OOk [65; 124; 82; 124; 65] (* A|R|A *),
     Some [LGet 0 [97; 47; 99; 104; 105; 108; 100] (* a/child *) true;
         LGet 0 [98; 97; 115; 101] (* base *) false;
         LGet 1 [98; 97; 115; 101] (* base *) true;
         LGet 0 [97; 47; 120] (* a/x *) true;
         LGet 0 [97; 47; 120] (* a/x *) true;
         LGet 0 [120] (* x *) false;
         LGet 1 [120] (* x *) true]).
Proof. vm_compute. reflexivity. Qed.

(* with-pairs, only, if_exists (literal and computed), with p set by the includer, q given by
   the caller and m = "nope": inc prints a, p, q *)
Example C11_example_include_context :
  api_render_file_log c11_world [109; 97; 105; 110] (* main *)
      [([113] (* q *), CV (as_value (VInt 7))); ([109] (* m *), str_val [110; 111; 112; 101] (* nope *))] =
    (OOk [50; 49; 55; 124; 51; 124; 124; 46] (* 217|3||. *),
     Some [LGet 0 [109; 97; 105; 110] (* main *) true;
         LGet 0 [105; 110; 99] (* inc *) false;
         LGet 1 [105; 110; 99] (* inc *) true;
         LGet 0 [105; 110; 99] (* inc *) false;
         LGet 1 [105; 110; 99] (* inc *) true;
         LGet 0 [110; 111; 112; 101] (* nope *) false;
         LGet 1 [110; 111; 112; 101] (* nope *) false;
         LGet 0 [110; 111; 112; 101] (* nope *) false;
         LGet 1 [110; 111; 112; 101] (* nope *) false]).
Proof. vm_compute. reflexivity. Qed.

Example C11_example_missing_literal :
  api_render_file c11_world [109; 105; 115; 115] (* miss *) [] = OCompileErr 4.
Proof. vm_compute. reflexivity. Qed.
Example C11_example_missing_computed :
  api_render_file c11_world [108; 97; 122; 121; 109; 105; 115; 115] (* lazymiss *) [([109] (* m *), str_val [110; 111; 112; 101] (* nope *))] = OExecErr 4 [].
Proof. vm_compute. reflexivity. Qed.

(* fix D41 on the world d41_world (Spec/SpecComposeExamples.v): one loader, one file
   b = B{% include "c" %}; c and zz are held by nobody.  The hypotheses of
   C11_if_exists_does_not_hide_errors hold for b: it is served, and compiling it is error 4 *)
Example C11_example_if_exists_hypotheses :
  served (se_loaders (world_senv d41_world)) [98] (* b *) = true /\
  compile_file (world_senv d41_world) 1000 [98] (* b *) g0 = Err 4 /\
  served (se_loaders (world_senv d41_world)) [122; 122] (* zz *) = false /\
  compile_file (world_senv d41_world) 1000 [122; 122] (* zz *) g0 = Err 4.
Proof. vm_compute. repeat split; reflexivity. Qed.

(* [{% include "b" if_exists %}]: b exists and is broken - a compile error, not "[]" *)
Example C11_example_if_exists_broken_file :
  api_render_string d41_world d41_src_b [] = OCompileErr 4.
Proof. vm_compute. reflexivity. Qed.
(* [{% include "zz" if_exists %}]: zz is missing - renders [] *)
Example C11_example_if_exists_missing_file :
  api_render_string d41_world d41_src_zz [] = OOk [91; 93] (* [] *).
Proof. vm_compute. reflexivity. Qed.
(* [{% include n if_exists %}] with n = "b": an execution error after "[" was written;
   with n = "zz": renders [] *)
Example C11_example_if_exists_lazy :
  api_render_string d41_world d41_src_lazy [([110] (* n *), str_val [98] (* b *))] = OExecErr 4 [91] (* [ *) /\
  api_render_string d41_world d41_src_lazy [([110] (* n *), str_val [122; 122] (* zz *))] = OOk [91; 93] (* [] *).
Proof. vm_compute. split; reflexivity. Qed.

(* ================= whole compilation: nothing is fetched that is not referenced ================= *)
(* Property C11, the whole-compilation part: "include, extends, import and ssi obtain exactly the
   templates they name ... through the set's loaders and from nowhere else; ... and no name is
   fetched that the templates involved do not reference."

   Props/C11.v says, tag by tag, which one name each tag fetches and what one fetch writes to
   the loaders' access log.  This file closes the gap it lists as NOT PROVED, for compilation:
   over a WHOLE compilation (any number of files, any nesting of tags, any depth of
   include/extends/import/ssi chains) every entry the access log gains is an attempt for a file
   name that the templates involved reference.

   Definitions (Spec/SpecFetch.v, none of them mentions the parser):
   - [names_in_source src]: the literal strings that directly follow the tag name of an
     include / extends / import / ssi tag in the token list of [src] ("{%", tag name, string).
     It is read off the source text, and it is generous on purpose (a tag inside a comment
     block or one the parser later rejects still "names" its file): the theorems bound what is
     fetched from above, so a generous reading asks less trust in the parser, not more.
     A name computed at run time is not named by the source, and indeed nothing is fetched for
     it at compile time.
   - [resolved_from referrer n] = resolve_filename for a file template: the name as the first
     loader resolves it relative to the referring file.
   - [source_of se p]: the content of the first loader, in order, that holds [loader_name p].
   - [reach se entry]: the least set containing [entry] and closed under
     "p in the set, source_of se p = Some src, src names n  =>  resolved_from p n in the set".
   - [log_added g g' added]: the log of g' is [added] on top of the log of g (newest first);
     [attempt_for p e]: log entry e asks a loader for [loader_name p].

   What each theorem contributes:
   - C11_compile_fetches_only_referenced (main): if compile_file succeeds, every log entry
     added is an attempt for a name in [reach se name].  For every set, fuel, name and state.
   - C11_compile_source_fetches_only_referenced: the same for compile_src (a template given as
     a string, FromString, when isstr = true; then names are taken as written): every entry
     added is for a name reachable from one of the files the source itself names.
   - C11_fetches_within_closed_set: the form used for a concrete world: any set of names that
     contains the entry and is closed under literal references contains every name asked for.
   - C11_leaf_fetches_exactly_itself: a file whose source names nothing: compiling it adds to
     the log EXACTLY the attempts for its own name - a miss for every loader before the first
     holder, one hit - and nothing else (no hypothesis about what the file contains otherwise).
   - C11_reach_upto_sound / _complete: [reach] is what the level-by-level computation
     [reach_upto] enumerates, so the set can be computed for a concrete world.
   - Examples on a world of two loaders (Spec/SpecFetch.v fx_*: main extends base, includes
     sub/part and a computed name; sub/part ssi's "deep" and includes "gone" if_exists; one
     file "unused" that nobody references): the complete log, the exact reach set, the unused
     file is neither reached nor fetched, the computed include fetches nothing, the hypotheses
     of the theorems hold for it.

   ERROR CASES.  The model returns the compile-wide state (fresh ids, access log) only with a
   successful result: [res (template * gstate)] carries no state on Err / Fuel / Unmod, so
   "a failed compilation also fetched only reachable names" cannot be stated of compile_file
   in this model (the log is dropped, not threaded, through errors).  The one error that is
   swallowed INSIDE a successful compilation - a literal include with if_exists whose file is
   missing - is covered by the main theorem: what it records are misses for the named file.
   Since fix D41 that is the only case in which if_exists swallows an error: when the named
   file EXISTS but its own compilation fails with "not found" further down, the whole
   compilation fails (C11_if_exists_does_not_hide_errors; example
   C11f_example_if_exists_inner_error), so a successful compilation no longer contains a log
   in which a held name is recorded as one miss per loader. *)
Theorem C11_compile_fetches_only_referenced : forall se fuel name g t g',
  compile_file se fuel name g = Ok (t, g') ->
  exists added, log_added g g' added /\
    forall e, In e added -> exists p, reach se name p /\ attempt_for p e.
Proof. exact tie_compile_fetches_only_referenced. Qed.
Print Assumptions C11_compile_fetches_only_referenced.

Theorem C11_compile_source_fetches_only_referenced : forall se fuel name isstr src g t g',
  compile_src se fuel name isstr src g = Ok (t, g') ->
  exists added, log_added g g' added /\
    forall e, In e added ->
      exists n p, In n (names_in_source src) /\
                  reach se (resolve_filename isstr name n) p /\ attempt_for p e.
Proof. exact tie_compile_src_fetches_only_referenced. Qed.
Print Assumptions C11_compile_source_fetches_only_referenced.

Theorem C11_fetches_within_closed_set : forall se (S : str -> Prop),
  (forall p src n, S p -> source_of se p = Some src -> In n (names_in_source src) -> S (resolved_from p n)) ->
  forall fuel name g t g', S name ->
  compile_file se fuel name g = Ok (t, g') ->
  exists added, log_added g g' added /\ forall e, In e added -> exists p, S p /\ attempt_for p e.
Proof. exact tie_compile_fetches_within_closed_set. Qed.
Print Assumptions C11_fetches_within_closed_set.

Theorem C11_leaf_fetches_exactly_itself : forall se fuel name g t g' src,
  source_of se name = Some src -> names_in_source src = [] ->
  compile_file se fuel name g = Ok (t, g') ->
  log_added g g' (rev (attempts (loader_name name) 0 (se_loaders se))).
Proof. exact tie_compile_leaf_fetches_itself. Qed.
Print Assumptions C11_leaf_fetches_exactly_itself.

Theorem C11_reach_upto_sound : forall se entry k p, In p (reach_upto se k entry) -> reach se entry p.
Proof. exact reach_upto_sound. Qed.
Print Assumptions C11_reach_upto_sound.

Theorem C11_reach_upto_complete : forall se entry p,
  reach se entry p -> exists k, In p (reach_upto se k entry).
Proof. exact reach_upto_complete. Qed.
Print Assumptions C11_reach_upto_complete.

(* ---------- examples: the world fx_se of Spec/SpecFetch.v ---------- *)

(* the hypothesis of the main theorem holds: main compiles; this is its complete access log,
   oldest first: main, base (first loader wins over the shadowed copy), sub/part, then what
   sub/part names, resolved against sub/: sub/deep (miss, then hit in the second loader) and
   sub/gone (if_exists: one miss per loader).  Nothing for the computed include, nothing for
   "unused". *)
Example C11f_example_log :
  compile_log fx_se fx_main =
    Some [LGet 0 fx_main true; LGet 0 fx_base true; LGet 0 fx_part true;
          LGet 0 fx_deep false; LGet 1 fx_deep true;
          LGet 0 fx_gone false; LGet 1 fx_gone false].
Proof. vm_compute. reflexivity. Qed.

(* what main and sub/part name, as written *)
Example C11f_example_names :
  option_map names_in_source (source_of fx_se fx_main)
    = Some [[98; 97; 115; 101] (* base *); [115; 117; 98; 47; 112; 97; 114; 116] (* sub/part *)] /\
  option_map names_in_source (source_of fx_se fx_part)
    = Some [[100; 101; 101; 112] (* deep *); [103; 111; 110; 101] (* gone *)].
Proof. vm_compute. split; reflexivity. Qed.

(* the reach set of main is exactly these five names *)
Example C11f_example_reach : forall p, reach fx_se fx_main p <-> In p fx_reachable.
Proof. exact fx_reach_exact. Qed.
Print Assumptions C11f_example_reach.

Example C11f_example_unused_not_reached : ~ reach fx_se fx_main fx_unused.
Proof. exact fx_unused_not_reached. Qed.

(* every name in the log is the loader name of a reached file (what the theorem promises) *)
Example C11f_example_log_within_reach :
  match compile_log fx_se fx_main with
  | Some l => forallb (fun e => str_in (attempt_name e) (map loader_name fx_reachable)) l
  | None => false
  end = true.
Proof. vm_compute. reflexivity. Qed.

(* leaves: base names nothing and is held by the first loader; sub/deep names nothing and is
   held by the second one: the hypotheses of C11_leaf_fetches_exactly_itself hold, and the logs
   are the attempts for the file's own name *)
Example C11f_example_leaf :
  option_map names_in_source (source_of fx_se fx_base) = Some [] /\
  compile_log fx_se fx_base = Some [LGet 0 fx_base true] /\
  option_map names_in_source (source_of fx_se fx_deep) = Some [] /\
  compile_log fx_se fx_deep = Some [LGet 0 fx_deep false; LGet 1 fx_deep true].
Proof. vm_compute. repeat split; reflexivity. Qed.

(* if_exists and an inner error (world fy_se: m = {% include "a" if_exists %}, a = {% include
   "nope" %}, nope nowhere): "a" is held by loader 0 and fails to compile, so compiling m fails
   with error 4 (before fix D41 it succeeded, with a log that recorded a miss for "a") *)
Example C11f_example_if_exists_inner_error :
  source_of fy_se [97] (* a *) <> None /\
  compile_file fy_se 1000 [109] (* m *) fx_g0 = Err 4 /\ compile_log fy_se [109] (* m *) = None.
Proof. vm_compute. split; [discriminate|split; reflexivity]. Qed.


(* ==================== part: the loader lookup of template_sets.go translated (Props/C11w) ==================== *)

(* Property C11, the loader lookup BY TRANSLATION.

   The laws of Props/C11.v (first loader that has the name wins, the log grows by exactly the
   attempts made, ...) are about the hand-written lookup of Model/ParseDoc.v: resolve_filename,
   resolve_template, fetch / compile_file, served, log_misses.  Here the Go functions that the
   lookup models - template_sets.go: resolveFilename, resolveFilenameForLoader, resolveTemplate,
   isMissing, FromFile, fromFileRelative - are themselves translated, statement by statement and on
   every run, into terms of a small Go fragment (gen/LoaderFuncs.v, by tools/go2v), given a
   meaning (Spec/SpecLoaderFuncs.v: a world of model loaders, the access log and the flag
   firstTemplateCreated; loader.Abs, loader.Get, io.ReadAll and newTemplate are primitives given by
   the model), and that meaning is proved equal to the hand-written lookup.  A change of the Go
   source that changes what a function does stops these proofs; a construct outside the fragment
   becomes a node "not understood" that blocks them (C11w_unknown_blocks).

   In all statements: [d] is the call depth allowed (4 is enough), [r] the referring template -
   none, a string template, or a file template, of any name -, [compile] and [fid] the compile
   primitive and the (Sender, Filename) of the errors it returns, [labs i l] the Abs method of the
   i-th loader l.  The first group of theorems holds for loaders with ANY Abs methods, each its
   own (so it says WHICH loader's Abs the code calls); the second group puts the model's loaders
   there, which all have FSLoader's Abs ([model_abs]), and compares with Model/ParseDoc.v.

   First group (any loaders):
   - C11w_any_resolveFilename: resolveFilename(tpl, path) is the FIRST loader's resolution: the
     path itself for a string template, else loaders[0].Abs(tpl.name or "", path); nothing is asked
     or logged.  C11w_any_resolveTemplate: every loader, in order, resolves the name ITSELF and
     is asked for that; first hit wins; all attempts logged ([ask_each]).  C11w_any_isMissing,
     C11w_any_FromFile, C11w_any_fromFileRelative: the same three functions as below, with every
     loader asked for its own resolution, the file compiled under the name the ANSWERING loader
     resolved, and the miss error naming the FIRST loader's resolution.
   Second group (the model's loaders):

   What each theorem contributes:
   - C11w_resolveFilename: resolveFilename(tpl, path) is resolve_filename; it asks no loader and
     logs nothing.  C11w_resolveFilename_needs_a_loader: on a set without loaders it panics
     (set.loaders[0]; NewSet refuses to build such a set).
   - C11w_resolveTemplate_asks_one_name: for every referrer, loader list, path and state,
     resolveTemplate asks every loader in order for the ONE name resolve_filename tpl path, stops
     at the first that has it, returns (that name, that loader, its content, nil) or
     (path, nil, nil, an error), and logs every attempt: values and world are those of [ask_all].
     C11w_ask_all_is_resolve_template: the model's resolve_template is ask_all for the ROOT NAME
     of its path.  C11w_resolveTemplate: hence, without a referring template, resolveTemplate IS
     resolve_template (se_loaders se) 0 path g - result and log.  C11w_resolveTemplate_partial:
     with a referring template the same holds for the name it resolves to, WHEN that name is its
     own root name.
   - C11w_isMissing: isMissing(err, tpl, name) is "err.Sender is fromfile and err.Filename is the
     name fromFileRelative(tpl, name) asks the loaders for".
   - C11w_FromFile_run, C11w_fromFileRelative_run: the two functions are "set the flag, ask the
     loaders for a name, compile what the first holder has under a name, or return a fromfile
     error about a name" ([fetch_then_compile]) with these names: FromFile(n): asks root_name n,
     compiles under n; fromFileRelative(tpl, n): asks, compiles under and reports
     [asked_name tpl n] - n resolved ONCE against tpl, a string template counting as none.
     C11w_FromFile: so FromFile is the model's compile_file = fetch, then compile_src (no
     hypothesis).
   - FOUND: MODEL AND CODE DIFFER (the translation made it visible; checked on the real code).
     For include / extends / import / ssi parsed the model computes iname = resolve_filename tpl n
     and then compile_file iname, which asks the loaders for root_name iname - the name resolved
     a SECOND time, from the root - and compiles under iname.  The Go code resolves once.
     (1) C11w_finding_rooted_referrer: a template loaded as FromFile("/r/a.tpl") that refers to
     "x.tpl": Go asks for "/r/x.tpl", the model for "r/x.tpl"; with both present they read
     different files, with only the second Go says missing (if_exists renders nothing) and the
     model includes it.  (2) C11w_finding_string_referrer_name: a string template that refers to
     "a/..": both ask for ".", Go names the compiled template ".", the model "a/..", so what THAT
     template refers to is looked up in different directories.
     C11w_same_lookup_iff says exactly when (1) cannot happen: always, except for a file template
     whose name is rooted; (2) cannot happen for file templates (C11w_same_name_file) nor for
     names that are their own root name.
   - C11w_fromFileRelative_partial: under [same_lookup] and [same_name], fromFileRelative(tpl, n)
     is the model's compile_file (resolve_filename tpl n).  C11w_fromFileRelative_missing_partial:
     under same_lookup, when the model's [served] is false the function returns its fromfile error
     about the asked name and leaves exactly the state [log_misses] (what the model continues
     with under if_exists): result AND log.
   - C11w_isMissing_is_not_served_partial: for the error of any failed fromFileRelative(tpl, n),
     isMissing answers [negb (served ...)] - the model's condition - under same_lookup and under
     the hypothesis that the compile primitive does not return a fromfile error about this very
     name (the model's errors carry no names, so it cannot prove this itself; it holds for loaders
     that answer consistently, since this name was just found).
   - Examples: C11w_example_lookup (two loaders, a miss then a hit, from a file template in a
     subdirectory; hypotheses of the partial theorems hold), C11w_example_parser_errors (the
     hypothesis on fid is satisfiable). *)
From PV Require Import Model.ParseDoc Model.Api Lib.GoStmt Spec.SpecLoaderFuncs gen.LoaderFuncs.
From PV Require Import Tie.C11w.
From Coq Require Import String.
Open Scope string_scope.

(* ================= first group: loaders with any Abs methods ================= *)
Theorem C11w_any_resolveFilename : forall labs compile fid d, (4 <= d)%nat -> forall r path l ls g cr,
  loader_call go_loaderfuncs labs compile fid d "resolveFilename" [ref_val r; LVStr path] (mkLW (l :: ls) g cr) =
  LOk ([LVStr (resolved_by (labs 0%nat l) r path)], mkLW (l :: ls) g cr).
Proof. exact tie_resolveFilename_any. Qed.
Print Assumptions C11w_any_resolveFilename.

Theorem C11w_any_resolveTemplate : forall labs compile fid d, (4 <= d)%nat -> forall r path all g cr,
  loader_call go_loaderfuncs labs compile fid d "resolveTemplate" [ref_val r; LVStr path] (mkLW all g cr) =
  LOk (lookup_values (fun i l => resolved_by (labs i l) r path) path
                     (fst (ask_each (fun i l => resolved_by (labs i l) r path) all 0 g)),
       mkLW all (snd (ask_each (fun i l => resolved_by (labs i l) r path) all 0 g)) cr).
Proof. exact tie_resolveTemplate_run_any. Qed.
Print Assumptions C11w_any_resolveTemplate.

Theorem C11w_any_isMissing : forall labs compile fid d, (4 <= d)%nat -> forall e s fn r fname l ls g cr,
  err_fields e = Some (s, fn) ->
  loader_call go_loaderfuncs labs compile fid d "isMissing" [e; ref_val r; LVStr fname] (mkLW (l :: ls) g cr) =
  LOk ([LVBool (str_eqb s (str_of "fromfile") && str_eqb fn (resolved_by (labs 0%nat l) (ref_file_only r) fname))],
       mkLW (l :: ls) g cr).
Proof. exact tie_isMissing_any. Qed.
Print Assumptions C11w_any_isMissing.

Theorem C11w_any_FromFile : forall labs compile fid d, (4 <= d)%nat -> forall filename all g cr,
  loader_call go_loaderfuncs labs compile fid d "FromFile" [LVStr filename] (mkLW all g cr) =
  lookup_then_compile compile fid all (fun i l => resolved_by (labs i l) None filename)
                      (fun _ _ => filename) filename g.
Proof. exact tie_FromFile_run_any. Qed.
Print Assumptions C11w_any_FromFile.

Theorem C11w_any_fromFileRelative : forall labs compile fid d, (4 <= d)%nat -> forall r fname l ls g cr,
  loader_call go_loaderfuncs labs compile fid d "fromFileRelative" [ref_val r; LVStr fname] (mkLW (l :: ls) g cr) =
  lookup_then_compile compile fid (l :: ls)
                      (fun i l' => resolved_by (labs i l') (ref_file_only r) fname)
                      (fun i l' => resolved_by (labs i l') (ref_file_only r) fname)
                      (resolved_by (labs 0%nat l) (ref_file_only r) fname) g.
Proof. exact tie_fromFileRelative_run_any. Qed.
Print Assumptions C11w_any_fromFileRelative.

(* ask_each with one name for all is ask_all *)
Theorem C11w_ask_each_one_name : forall name ls idx g,
  ask_each (fun _ _ => name) ls idx g = ask_all ls idx name g.
Proof. exact ask_each_const. Qed.
Print Assumptions C11w_ask_each_one_name.

(* ================= second group: the loaders of the model ================= *)
Theorem C11w_resolveFilename : forall compile fid d, (4 <= d)%nat -> forall r path l ls g cr,
  loader_call go_loaderfuncs model_abs compile fid d "resolveFilename" [ref_val r; LVStr path] (mkLW (l :: ls) g cr) =
  LOk ([LVStr (resolve_filename (ref_isstr r) (ref_name r) path)], mkLW (l :: ls) g cr).
Proof. exact tie_resolveFilename. Qed.
Print Assumptions C11w_resolveFilename.

Theorem C11w_resolveFilename_needs_a_loader : forall compile fid d, (4 <= d)%nat -> forall r path g cr,
  loader_call go_loaderfuncs model_abs compile fid d "resolveFilename" [ref_val r; LVStr path] (mkLW [] g cr) =
  LPanic "index out of range".
Proof. exact tie_resolveFilename_no_loader. Qed.
Print Assumptions C11w_resolveFilename_needs_a_loader.

Theorem C11w_resolveTemplate_asks_one_name : forall compile fid d, (4 <= d)%nat -> forall r path all g cr,
  loader_call go_loaderfuncs model_abs compile fid d "resolveTemplate" [ref_val r; LVStr path] (mkLW all g cr) =
  LOk (lookup_values (fun _ _ => model_name r path) path (fst (ask_all all 0 (model_name r path) g)),
       mkLW all (snd (ask_all all 0 (model_name r path) g)) cr).
Proof. exact tie_resolveTemplate_run. Qed.
Print Assumptions C11w_resolveTemplate_asks_one_name.

Theorem C11w_ask_all_is_resolve_template : forall ls idx path g,
  resolve_template ls idx path g =
  (content_of (fst (ask_all ls idx (root_name path) g)), snd (ask_all ls idx (root_name path) g)).
Proof. exact resolve_template_ask_all. Qed.
Print Assumptions C11w_ask_all_is_resolve_template.

Theorem C11w_resolveTemplate : forall compile fid d, (4 <= d)%nat -> forall path all g cr,
  read_lookup (loader_call go_loaderfuncs model_abs compile fid d "resolveTemplate" [LVNil; LVStr path] (mkLW all g cr)) =
  Some (resolve_template all 0 path g).
Proof. exact tie_resolveTemplate. Qed.
Print Assumptions C11w_resolveTemplate.

Theorem C11w_resolveTemplate_partial : forall compile fid d, (4 <= d)%nat -> forall r path all g cr,
  root_name (model_name r path) = model_name r path ->
  read_lookup (loader_call go_loaderfuncs model_abs compile fid d "resolveTemplate" [ref_val r; LVStr path] (mkLW all g cr)) =
  Some (resolve_template all 0 (model_name r path) g).
Proof. exact tie_resolveTemplate_partial. Qed.
Print Assumptions C11w_resolveTemplate_partial.

Theorem C11w_isMissing : forall compile fid d, (4 <= d)%nat -> forall e s fn r fname l ls g cr,
  err_fields e = Some (s, fn) ->
  loader_call go_loaderfuncs model_abs compile fid d "isMissing" [e; ref_val r; LVStr fname] (mkLW (l :: ls) g cr) =
  LOk ([LVBool (str_eqb s (str_of "fromfile") && str_eqb fn (asked_name r fname))], mkLW (l :: ls) g cr).
Proof. exact tie_isMissing. Qed.
Print Assumptions C11w_isMissing.

Theorem C11w_FromFile_run : forall compile fid d, (4 <= d)%nat -> forall filename all g cr,
  loader_call go_loaderfuncs model_abs compile fid d "FromFile" [LVStr filename] (mkLW all g cr) =
  fetch_then_compile compile fid all (root_name filename) filename filename g.
Proof. exact tie_FromFile_run. Qed.
Print Assumptions C11w_FromFile_run.

Theorem C11w_fromFileRelative_run : forall compile fid d, (4 <= d)%nat -> forall r fname l ls g cr,
  loader_call go_loaderfuncs model_abs compile fid d "fromFileRelative" [ref_val r; LVStr fname] (mkLW (l :: ls) g cr) =
  fetch_then_compile compile fid (l :: ls) (asked_name r fname) (asked_name r fname) (asked_name r fname) g.
Proof. exact tie_fromFileRelative_run. Qed.
Print Assumptions C11w_fromFileRelative_run.

Theorem C11w_FromFile : forall se f fid d, (4 <= d)%nat -> forall filename g cr,
  read_compiled (loader_call go_loaderfuncs model_abs (compile_src se f) fid d "FromFile" [LVStr filename]
                             (mkLW (se_loaders se) g cr)) =
  Some (compile_file se (S f) filename g).
Proof. exact tie_FromFile. Qed.
Print Assumptions C11w_FromFile.

Theorem C11w_fromFileRelative_partial : forall se f fid d, (4 <= d)%nat -> forall r fname l ls g cr,
  se_loaders se = l :: ls ->
  same_lookup r fname -> same_name r fname ->
  read_compiled (loader_call go_loaderfuncs model_abs (compile_src se f) fid d "fromFileRelative" [ref_val r; LVStr fname]
                             (mkLW (se_loaders se) g cr)) =
  Some (compile_file se (S f) (model_name r fname) g).
Proof. exact tie_fromFileRelative_partial. Qed.
Print Assumptions C11w_fromFileRelative_partial.

Theorem C11w_fromFileRelative_missing_partial : forall se f fid d, (4 <= d)%nat -> forall r fname l ls g cr,
  se_loaders se = l :: ls ->
  same_lookup r fname ->
  served (se_loaders se) (model_name r fname) = false ->
  read_error_value (loader_call go_loaderfuncs model_abs (compile_src se f) fid d "fromFileRelative" [ref_val r; LVStr fname]
                                (mkLW (se_loaders se) g cr)) =
  Some (LVError (str_of "fromfile") (asked_name r fname), log_misses (se_loaders se) (model_name r fname) g).
Proof. exact tie_fromFileRelative_missing_partial. Qed.
Print Assumptions C11w_fromFileRelative_missing_partial.

Theorem C11w_isMissing_is_not_served_partial :
  forall compile fid d, (4 <= d)%nat -> forall r fname l ls g cr e g',
  same_lookup r fname ->
  (forall c g0, fid (asked_name r fname) c g0 <> (str_of "fromfile", asked_name r fname)) ->
  read_error_value (loader_call go_loaderfuncs model_abs compile fid d "fromFileRelative" [ref_val r; LVStr fname]
                                (mkLW (l :: ls) g cr)) = Some (e, g') ->
  forall g2 cr2,
  read_bool (loader_call go_loaderfuncs model_abs compile fid d "isMissing" [e; ref_val r; LVStr fname] (mkLW (l :: ls) g2 cr2))
    = Some (negb (served (l :: ls) (model_name r fname))).
Proof. exact tie_isMissing_is_not_served_partial. Qed.
Print Assumptions C11w_isMissing_is_not_served_partial.

Theorem C11w_same_lookup_iff : forall r fname,
  same_lookup r fname <-> match r with Some (false, n) => path_is_abs n = false | _ => True end.
Proof. exact same_lookup_iff. Qed.
Print Assumptions C11w_same_lookup_iff.

Theorem C11w_same_name_file : forall n fname, same_name (Some (false, n)) fname.
Proof. exact same_name_file. Qed.
Print Assumptions C11w_same_name_file.

Theorem C11w_finding_rooted_referrer :
  let x := str_of "x.tpl" in
  let both := [c11w_loader [("/r/x.tpl", "GO"); ("r/x.tpl", "MODEL")]] in
  let one := [c11w_loader [("r/x.tpl", "MODEL")]] in
  same_lookupb c11w_rooted x = false /\
  asked_name c11w_rooted x = str_of "/r/x.tpl" /\
  root_name (model_name c11w_rooted x) = str_of "r/x.tpl" /\
  read_lookup (loader_call go_loaderfuncs model_abs c11w_no_compile parser_ident 4 "resolveTemplate"
                           [ref_val c11w_rooted; LVStr x] (mkLW both c11w_g0 false))
    = Some (Some (str_of "GO"), mkG 1 [LGet 0 (str_of "/r/x.tpl") true]) /\
  resolve_template both 0 (model_name c11w_rooted x) c11w_g0
    = (Some (str_of "MODEL"), mkG 1 [LGet 0 (str_of "r/x.tpl") true]) /\
  read_error_value (loader_call go_loaderfuncs model_abs c11w_no_compile parser_ident 4 "fromFileRelative"
                                [ref_val c11w_rooted; LVStr x] (mkLW one c11w_g0 false))
    = Some (LVError (str_of "fromfile") (str_of "/r/x.tpl"), mkG 1 [LGet 0 (str_of "/r/x.tpl") false]) /\
  read_bool (loader_call go_loaderfuncs model_abs c11w_no_compile parser_ident 4 "isMissing"
                         [LVError (str_of "fromfile") (str_of "/r/x.tpl"); ref_val c11w_rooted; LVStr x]
                         (mkLW one c11w_g0 true)) = Some true /\
  served one (model_name c11w_rooted x) = true.
Proof. exact tie_finding_rooted_referrer. Qed.
Print Assumptions C11w_finding_rooted_referrer.

Theorem C11w_finding_string_referrer_name :
  let x := str_of "a/.." in
  same_nameb c11w_string x = false /\
  asked_name c11w_string x = str_of "." /\
  model_name c11w_string x = str_of "a/.." /\
  root_name (model_name c11w_string x) = asked_name c11w_string x /\
  fsloader_abs (asked_name c11w_string x) (str_of "c") = str_of "c" /\
  fsloader_abs (model_name c11w_string x) (str_of "c") = str_of "a/c".
Proof. exact tie_finding_string_referrer_name. Qed.
Print Assumptions C11w_finding_string_referrer_name.

(* the same findings on the whole model; the real code prints "GO", "[]", an error about
   /r/nothere, and "DOTC-top" for these four (see Tie/C11w.v).  The world: one loader with these
   files, no options, nothing banned, no globals. *)
Notation c11w_world fs := (mkWorld [c11w_loader fs] false false [] [] [] [] []) (only parsing).
Theorem C11w_finding_model_end_to_end :
  api_render_file (c11w_world [("r/a.tpl", "{% include ""x.tpl"" %}"); ("/r/x.tpl", "GO"); ("r/x.tpl", "MODEL")])
                  (str_of "/r/a.tpl") [] = OOk (str_of "MODEL") /\
  api_render_file (c11w_world [("r/a.tpl", "[{% include ""x.tpl"" if_exists %}]"); ("r/x.tpl", "MODEL")])
                  (str_of "/r/a.tpl") [] = OOk (str_of "[MODEL]") /\
  api_render_file (c11w_world [("r/a.tpl", "[{% include ""x.tpl"" if_exists %}]"); ("/r/x.tpl", "{% include ""nothere"" %}")])
                  (str_of "/r/a.tpl") [] = OOk (str_of "[]") /\
  api_render_string (c11w_world [(".", "DOT{% include ""c"" %}"); ("a/c", "C-in-a"); ("c", "C-top")])
                    (str_of "{% include ""a/.."" %}") [] = OOk (str_of "DOTC-in-a").
Proof. exact tie_finding_model_end_to_end. Qed.
Print Assumptions C11w_finding_model_end_to_end.

Theorem C11w_unknown_blocks : forall labs compile fid d r path w,
  read_lookup (loader_call [c11w_unknown_demo] labs compile fid (S d) "resolveTemplate" [ref_val r; LVStr path] w) = None.
Proof. exact tie_loaderfuncs_unknown_blocks. Qed.
Print Assumptions C11w_unknown_blocks.

(* two loaders, the second has d/c; from the file template d/e the name "c" is d/c: a miss on
   loader 0, a hit on loader 1, Go and model agree on result and log; "zz" is missing: the error
   names d/zz and the state is log_misses.  The hypotheses of the partial theorems hold here. *)
Example C11w_example_lookup :
  let ls := [c11w_loader [("a", "A")]; c11w_loader [("b", "B"); ("d/c", "C")]] in
  let r : referrer := Some (false, str_of "d/e") in
  let c := str_of "c" in
  same_lookup r c /\ same_name r c /\
  model_name r c = str_of "d/c" /\
  loader_call go_loaderfuncs model_abs c11w_no_compile parser_ident 4 "resolveTemplate" [ref_val r; LVStr c] (mkLW ls c11w_g0 false)
    = LOk ([LVStr (str_of "d/c"); LVLoader 1 (c11w_loader [("b", "B"); ("d/c", "C")]); LVReader (str_of "C"); LVNil],
           mkLW ls (mkG 1 [LGet 1 (str_of "d/c") true; LGet 0 (str_of "d/c") false]) false) /\
  resolve_template ls 0 (model_name r c) c11w_g0
    = (Some (str_of "C"), mkG 1 [LGet 1 (str_of "d/c") true; LGet 0 (str_of "d/c") false]) /\
  served ls (model_name r (str_of "zz")) = false /\
  read_error_value (loader_call go_loaderfuncs model_abs c11w_no_compile parser_ident 4 "fromFileRelative"
                                [ref_val r; LVStr (str_of "zz")] (mkLW ls c11w_g0 false))
    = Some (LVError (str_of "fromfile") (str_of "d/zz"), log_misses ls (str_of "d/zz") c11w_g0).
Proof. exact tie_c11w_witness. Qed.
Print Assumptions C11w_example_lookup.

(* the hypothesis of C11w_isMissing_is_not_served_partial on the errors of the compile primitive
   is satisfiable: errors whose Sender is the parser's *)
Example C11w_example_parser_errors : forall name c g0,
  parser_ident name c g0 <> (str_of "fromfile", name).
Proof. exact tie_parser_ident_ok. Qed.
Print Assumptions C11w_example_parser_errors.
