(* Property C20 - template cache: one compile per name, coherent under concurrency (partial:
   every FromCache / CleanCache runs wholly under the set's mutex - Tie/C05's
   [tie_cache_locked], regenerated from /repo's SSA - so every interleaving of calls is a
   sequential history, and the theorems below hold for ALL sequential histories; the mutual
   exclusion of sync.Mutex itself is assumed, the harness's concurrent runs observe it). *)
From PV Require Import Model.SetModel.
From PV Require Import Spec.SpecSet Tie.C20.
Open Scope N_scope.

(* [cache_key], [cache_wf], [s_final]: Spec/SpecSet.v *)

Theorem C20_cache_wf_invariant :
  forall (ops : list sop) (s : sstate), cache_wf s -> cache_wf (fold_left (fun st o => fst (s_step st o)) ops s).
Proof. exact tie_cache_wf_invariant. Qed.
Print Assumptions C20_cache_wf_invariant.

(* a cached name is returned as it is, without touching the state *)
Theorem C20_hit_returns_cached :
  forall (s : sstate) (name : str) (st : N),
    s_debug s = false -> assoc_get (cache_key name) (s_cache s) = Some st ->
    s_step s (OFromCache name) = (s, RTpl st).
Proof. exact tie_hit_returns_cached. Qed.
Print Assumptions C20_hit_returns_cached.

(* a miss compiles once, hands out a fresh template and caches it under the resolved name *)
Theorem C20_miss_fills :
  forall (s s' : sstate) (name : str) (st : N),
    s_debug s = false -> assoc_get (cache_key name) (s_cache s) = None ->
    s_step s (OFromCache name) = (s', RTpl st) ->
    st = s_stamp s /\ assoc_get (cache_key name) (s_cache s') = Some st /\
    (forall k, str_eqb k (cache_key name) = false -> assoc_get k (s_cache s') = assoc_get k (s_cache s)).
Proof. exact tie_miss_fills. Qed.
Print Assumptions C20_miss_fills.

(* failed loads are not cached *)
Theorem C20_failed_load_not_cached :
  forall (s s' : sstate) (name : str),
    s_step s (OFromCache name) = (s', RErr) -> s_cache s' = s_cache s.
Proof. exact tie_failed_load_not_cached. Qed.
Print Assumptions C20_failed_load_not_cached.

(* with Debug on nothing is cached and nothing cached is returned *)
Theorem C20_debug_never_caches :
  forall (s : sstate) (name : str),
    s_debug s = true ->
    s_cache (fst (s_step s (OFromCache name))) = s_cache s /\
    (cache_wf s -> forall st, snd (s_step s (OFromCache name)) = RTpl st ->
                   forall k st', In (k, st') (s_cache s) -> st' <> st).
Proof. exact tie_debug_never_caches. Qed.
Print Assumptions C20_debug_never_caches.

(* CleanCache removes exactly the named entries (or everything) *)
Theorem C20_clean_removes :
  forall (s : sstate) (names : list str),
    let s' := fst (s_step s (OCleanCache names)) in
    (names = [] -> s_cache s' = []) /\
    (names <> [] -> forall k, assoc_get k (s_cache s') =
                              if str_in k (map cache_key names) then None else assoc_get k (s_cache s)).
Proof. exact tie_clean_removes. Qed.
Print Assumptions C20_clean_removes.

(* nothing but FromCache misses and CleanCache changes the cache *)
Theorem C20_other_ops_keep_cache :
  forall (s : sstate) (o : sop),
    match o with OFromCache _ | OCleanCache _ => False | _ => True end ->
    s_cache (fst (s_step s o)) = s_cache s.
Proof. exact tie_other_ops_keep_cache. Qed.
Print Assumptions C20_other_ops_keep_cache.


(* ==================== second part: the Go functions translated (Props/C20w) ==================== *)

(* Property C20, translation part - the template cache of template_sets.go IS the cache of the set
   state machine.

   Props/C20.v states the cache laws about the hand-written state machine Model/SetModel.v (s_step).
   Here the Go functions themselves are read: tools/go2v translates FromCache and CleanCache,
   statement by statement, into terms of a small Go fragment (gen/SetFuncs.v, regenerated from
   /repo on every run; syntax Lib/GoStmt.v).  The fragment has an executable meaning
   (Spec/SpecSetFuncs.v: [set_call prog tags filters ext d m args world] runs set.m(args) over a
   world that holds the set's fields as an sstate, the mutex as a flag and the trace of what was
   done to the mutex and the cache map; set.FromFile, set.resolveFilename and the registries are
   primitives given by the model).  [observe read r] is the next state and the result of a run
   that ends with the mutex free, in s_step's terms; [trace_of r] its trace;
   [cache_guarded tr]: Lock only when free, Unlock only when held, the cache map read and written
   only when held, the mutex free at the end.  [d] bounds the call depth, [ext] stands for every
   function the fragment does not know (the theorems hold for every ext: it is never reached).

   - C20w_CleanCache: CleanCache(names...) is s_step on OCleanCache names - for every state and
     every list of names (the loop by induction);
   - C20w_FromCache: FromCache(name) is s_step on OFromCache name - for every state and name:
     Debug mode compiles and caches nothing; a hit hands back the cached template; a miss loads the
     name AS GIVEN (set.FromFile(filename)), caches the template under the RESOLVED name and hands
     it back, or hands back the error and caches nothing.  Together with Props/C20.v the cache laws
     there are laws of the Go functions;
   - C20w_FromCache_locked, C20w_CleanCache_locked: every run touches the cache map between Lock
     and Unlock only and leaves the mutex free;
   - C20w_dotdot_name: the instance on which the first run of this tie found the model stale (it
     loaded the resolved name on a miss; repaired since): the set {d: include "y", y} and the name
     "d/x/..", resolved "d".  Go (confirmed on the real engine) and the model now both answer
     with an error - d, loaded as "d/x/..", looks for d/x/y - and cache nothing, while the resolved
     name itself loads;
   - C20w_witness: a run of miss, hit and clean on a one-file set, with a name that is not its
     own resolved form;
   - C20w_unknown_blocks: a statement outside the fragment blocks the interpretation. *)
From PV Require Import Model.SetModel Lib.GoStmt Spec.SpecSet Spec.SpecSetFuncs gen.SetFuncs.
From PV Require Import Tie.C20w.
From Coq Require Import String.
Open Scope string_scope.

Theorem C20w_CleanCache : forall tags filters ext d, (2 <= d)%nat -> forall s names,
  observe read_nothing (set_call go_setfuncs tags filters ext d "CleanCache" [SVStrs names] (world_of s))
  = Some (s_step s (OCleanCache names)).
Proof. exact tie_CleanCache. Qed.
Print Assumptions C20w_CleanCache.

Theorem C20w_CleanCache_locked : forall tags filters ext d, (2 <= d)%nat -> forall s names,
  match trace_of (set_call go_setfuncs tags filters ext d "CleanCache" [SVStrs names] (world_of s)) with
  | Some tr => cache_guarded tr = true
  | None => False
  end.
Proof. exact tie_CleanCache_locked. Qed.
Print Assumptions C20w_CleanCache_locked.

Theorem C20w_FromCache : forall tags filters ext d, (2 <= d)%nat -> forall s name,
  observe read_template (set_call go_setfuncs tags filters ext d "FromCache" [SVStr name] (world_of s))
  = Some (s_step s (OFromCache name)).
Proof. exact tie_FromCache. Qed.
Print Assumptions C20w_FromCache.

Example C20w_dotdot_name :
  cache_key dotdot_name = bytes_of_string "d" /\
  (forall tags filters ext d, (2 <= d)%nat ->
     observe read_template (set_call go_setfuncs tags filters ext d "FromCache" [SVStr dotdot_name]
                                     (world_of (s_init dotdot_files)))
     = Some (with_created (s_init dotdot_files), RErr)) /\
  s_step (s_init dotdot_files) (OFromCache dotdot_name) = (with_created (s_init dotdot_files), RErr) /\
  snd (s_step (s_init dotdot_files) (OFromCache (cache_key dotdot_name))) = RTpl 1.
Proof. exact tie_dotdot_name. Qed.
Print Assumptions C20w_dotdot_name.

Theorem C20w_FromCache_locked : forall tags filters ext d, (2 <= d)%nat -> forall s name,
  match trace_of (set_call go_setfuncs tags filters ext d "FromCache" [SVStr name] (world_of s)) with
  | Some tr => cache_guarded tr = true
  | None => False
  end.
Proof. exact tie_FromCache_locked. Qed.
Print Assumptions C20w_FromCache_locked.

Example C20w_witness :
  let s0 := s_init c20w_files in
  let a := bytes_of_string "a.tpl" in
  let dot_a := bytes_of_string "./a.tpl" in
  cache_key dot_a = a /\ cache_key a = a /\
  exists s1 s2,
    observe read_template (c20w_run "FromCache" [SVStr dot_a] s0) = Some (s1, RTpl 1) /\
    s_cache s1 = [(a, 1%N)] /\ s_fetches s1 = 1%N /\
    trace_of (c20w_run "FromCache" [SVStr dot_a] s0) = Some [EvLock; EvCacheRead; EvCacheWrite; EvUnlock] /\
    observe read_template (c20w_run "FromCache" [SVStr a] s1) = Some (s1, RTpl 1) /\
    trace_of (c20w_run "FromCache" [SVStr a] s1) = Some [EvLock; EvCacheRead; EvUnlock] /\
    observe read_nothing (c20w_run "CleanCache" [SVStrs [bytes_of_string "x/../a.tpl"]] s1) = Some (s2, ROk) /\
    s_cache s2 = [] /\
    trace_of (c20w_run "CleanCache" [SVStrs [bytes_of_string "x/../a.tpl"]] s1) = Some [EvLock; EvCacheWrite; EvUnlock].
Proof. exact tie_c20w_witness. Qed.
Print Assumptions C20w_witness.

Theorem C20w_unknown_blocks : forall tags filters ext d names w,
  observe read_nothing (set_call [c20w_unknown_demo] tags filters ext (S d) "CleanCache" [SVStrs names] w) = None.
Proof. exact tie_setfuncs_unknown_blocks. Qed.
Print Assumptions C20w_unknown_blocks.
