(* Property C20 - template cache: one compile per name, coherent under concurrency (partial:
   every FromCache / CleanCache runs wholly under the set's mutex - Tie/C05's
   [tie_cache_locked], regenerated from /repo's SSA - so every interleaving of calls is a
   sequential history, and the theorems below hold for ALL sequential histories; the mutual
   exclusion of sync.Mutex itself is assumed, the harness's concurrent runs observe it). *)
From PV Require Import Model.SetModel.
From PV Require Import Spec.SpecSet Tie.C20.
Open Scope N_scope.

(* [cache_key], [cache_wf], [s_final]: Spec/SpecSet.v *)

Theorem C20_cache_wf_invariant :
  forall (ops : list sop) (s : sstate), cache_wf s -> cache_wf (fold_left (fun st o => fst (s_step st o)) ops s).
Proof. exact tie_cache_wf_invariant. Qed.
Print Assumptions C20_cache_wf_invariant.

(* a cached name is returned as it is, without touching the state *)
Theorem C20_hit_returns_cached :
  forall (s : sstate) (name : str) (st : N),
    s_debug s = false -> assoc_get (cache_key name) (s_cache s) = Some st ->
    s_step s (OFromCache name) = (s, RTpl st).
Proof. exact tie_hit_returns_cached. Qed.
Print Assumptions C20_hit_returns_cached.

(* a miss compiles once, hands out a fresh template and caches it under the resolved name *)
Theorem C20_miss_fills :
  forall (s s' : sstate) (name : str) (st : N),
    s_debug s = false -> assoc_get (cache_key name) (s_cache s) = None ->
    s_step s (OFromCache name) = (s', RTpl st) ->
    st = s_stamp s /\ assoc_get (cache_key name) (s_cache s') = Some st /\
    (forall k, str_eqb k (cache_key name) = false -> assoc_get k (s_cache s') = assoc_get k (s_cache s)).
Proof. exact tie_miss_fills. Qed.
Print Assumptions C20_miss_fills.

(* failed loads are not cached *)
Theorem C20_failed_load_not_cached :
  forall (s s' : sstate) (name : str),
    s_step s (OFromCache name) = (s', RErr) -> s_cache s' = s_cache s.
Proof. exact tie_failed_load_not_cached. Qed.
Print Assumptions C20_failed_load_not_cached.

(* with Debug on nothing is cached and nothing cached is returned *)
Theorem C20_debug_never_caches :
  forall (s : sstate) (name : str),
    s_debug s = true ->
    s_cache (fst (s_step s (OFromCache name))) = s_cache s /\
    (cache_wf s -> forall st, snd (s_step s (OFromCache name)) = RTpl st ->
                   forall k st', In (k, st') (s_cache s) -> st' <> st).
Proof. exact tie_debug_never_caches. Qed.
Print Assumptions C20_debug_never_caches.

(* CleanCache removes exactly the named entries (or everything) *)
Theorem C20_clean_removes :
  forall (s : sstate) (names : list str),
    let s' := fst (s_step s (OCleanCache names)) in
    (names = [] -> s_cache s' = []) /\
    (names <> [] -> forall k, assoc_get k (s_cache s') =
                              if str_in k (map cache_key names) then None else assoc_get k (s_cache s)).
Proof. exact tie_clean_removes. Qed.
Print Assumptions C20_clean_removes.

(* nothing but FromCache misses and CleanCache changes the cache *)
Theorem C20_other_ops_keep_cache :
  forall (s : sstate) (o : sop),
    match o with OFromCache _ | OCleanCache _ => False | _ => True end ->
    s_cache (fst (s_step s o)) = s_cache s.
Proof. exact tie_other_ops_keep_cache. Qed.
Print Assumptions C20_other_ops_keep_cache.
