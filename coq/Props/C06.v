(* Property C06 - literal text, verbatim blocks and comments are reproduced exactly.
   Lexer half: text is one HTML token holding the source slice; independent fragments lex to
   the concatenation of their token lists. (The rendering half is in Props/C06r.v.) *)
From PV Require Import Lib.Bytes Lib.GoInt gen.Tables Model.Lexer Spec.SpecLex.
From PV Require Import Tie.C16.
Open Scope N_scope.

(* a source without an opening delimiter is one text token holding exactly the source *)
Theorem C06_lex_text_identity : forall s : str,
  delim_free s = true -> lex s = LexOk (html_tokens s (1, 1)%Z).
Proof. exact tie_lex_text_identity. Qed.
Print Assumptions C06_lex_text_identity.

(* independent fragments written next to each other lex to the concatenation of their
   tokens: text and verbatim bodies verbatim, comments to nothing - for any number of
   fragments, in particular any number of (empty, adjacent) verbatim blocks *)
Theorem C06_lex_compose : forall l : list frag,
  frags_ok l -> lex (frags_src l) = LexOk (frags_toks l (1, 1)%Z).
Proof. exact tie_lex_compose. Qed.
Print Assumptions C06_lex_compose.
