(* Property C06 - literal text, verbatim blocks and comments are reproduced exactly.
   Lexer half: text is one HTML token holding the source slice; independent fragments lex to
   the concatenation of their token lists. The rendering half follows below. *)
From PV Require Import Lib.Bytes Lib.GoInt gen.Tables Model.Lexer Spec.SpecLex.
From PV Require Import Model.Api Spec.SpecRender.
From PV Require Import Tie.C16 Tie.C06r.
Open Scope N_scope.

(* a source without an opening delimiter is one text token holding exactly the source *)
Theorem C06_lex_text_identity : forall s : str,
  delim_free s = true -> lex s = LexOk (html_tokens s (1, 1)%Z).
Proof. exact tie_lex_text_identity. Qed.
Print Assumptions C06_lex_text_identity.

(* independent fragments written next to each other lex to the concatenation of their
   tokens: text and verbatim bodies verbatim, comments to nothing - for any number of
   fragments, in particular any number of (empty, adjacent) verbatim blocks *)
Theorem C06_lex_compose : forall l : list frag,
  frags_ok l -> lex (frags_src l) = LexOk (frags_toks l (1, 1)%Z).
Proof. exact tie_lex_compose. Qed.
Print Assumptions C06_lex_compose.

(* ================= rendering half ================= *)
(* Property C06 - literal text, verbatim blocks and comments are reproduced exactly.
   Rendering half (the lexer half is Props/C06.v).

   Everything in the source that is not inside a tag, variable or comment is copied to the
   output byte for byte, for any bytes; a source without {{ {% {# renders to itself; independent
   fragments written next to each other render to the concatenation of their renderings;
   comments emit nothing; templatetag emits exactly the delimiter it names.

   What each theorem contributes:
   - C06_render_text_identity: end to end through the API (FromString + Execute): for every
     world (loaders, trim_blocks/lstrip_blocks, bans, globals), every delimiter-free source of
     any length and content (the empty one included) and every context the identifier check
     accepts, the observation is OK with exactly the source.  The block options change nothing
     because a text token without a neighbouring tag carries no trimming flag.
   - C06_ident_check_merged: the check is made on globals merged with the context; it holds as
     soon as both have identifier keys.
   - C06_render_literal_fragments: end to end for sources made of text, {# comments #} and
     verbatim blocks in any order and number (up to the model's fuel): the output is the texts
     and verbatim bodies in order, a comment contributes nothing.
   - C06_exec_nodes_app / _prefix: at node level, the output of a ++ b is the output of a
     followed by the output of b from the state a leaves; when a fails its output so far is the
     result; whatever happens, what a ++ b wrote starts with what a wrote.  (Fuel: a list uses
     one unit per node, so [a] and [a ++ b] run on length a + f and [b] on f; the equation is
     exact for every f, no monotonicity needed.)
   - C06_comment_emits_nothing, C06_templatetag_exact: the two nodes, at execution.
   - C06_comment_parse, C06_templatetag_parse(_unknown), C06_templatetag_table: at parse level,
     {% comment %} becomes the silent node whatever it encloses; the argument of templatetag is
     looked up in the generated table, which is the documented one (Spec/SpecRender.v), and a
     name outside it is a parse error. *)

Theorem C06_render_text_identity : forall (w : world) (s : str) (ctx : list (str * cval)),
  delim_free s = true ->
  keys_ok (ctx_update (w_globals w) ctx) = true ->
  api_render_string w s ctx = OOk s.
Proof. exact tie_render_text_identity. Qed.
Print Assumptions C06_render_text_identity.

Theorem C06_ident_check_merged : forall (globals ctx : list (str * cval)),
  keys_ok globals = true -> keys_ok ctx = true -> keys_ok (ctx_update globals ctx) = true.
Proof. exact tie_keys_ok_merged. Qed.
Print Assumptions C06_ident_check_merged.

Theorem C06_render_literal_fragments : forall (w : world) (l : list frag) (ctx : list (str * cval)),
  frags_ok l -> forallb frag_literal l = true ->
  N.of_nat (length l) <= 59000 ->
  keys_ok (ctx_update (w_globals w) ctx) = true ->
  api_render_string w (frags_src l) ctx = OOk (frags_text l).
Proof. exact tie_render_literal_frags. Qed.
Print Assumptions C06_render_literal_fragments.

Theorem C06_exec_nodes_app : forall (se : senv) (globals : list (str * cval))
                                    (a b : list node) (f : nat) (st : mstate),
  exec_nodes se globals (length a + f) st (a ++ b) =
  (let '(o1, r1) := exec_nodes se globals (length a + f) st a in
   match r1 with
   | Ok st1 => let '(o2, r2) := exec_nodes se globals f st1 b in (o1 ++ o2, r2)
   | _ => (o1, r1)
   end).
Proof. exact exec_nodes_app. Qed.
Print Assumptions C06_exec_nodes_app.

Theorem C06_exec_nodes_app_prefix : forall (se : senv) (globals : list (str * cval))
                                           (a b : list node) (f : nat) (st : mstate),
  is_prefix_of (fst (exec_nodes se globals (length a + f) st a))
               (fst (exec_nodes se globals (length a + f) st (a ++ b))).
Proof. exact exec_nodes_app_prefix. Qed.
Print Assumptions C06_exec_nodes_app_prefix.

Theorem C06_comment_emits_nothing : forall (se : senv) (globals : list (str * cval)) (f : nat) (st : mstate),
  exec_node se globals (S f) st NComment = ([], Ok st).
Proof. exact comment_emits_nothing. Qed.
Print Assumptions C06_comment_emits_nothing.

Theorem C06_templatetag_exact : forall (se : senv) (globals : list (str * cval)) (f : nat) (st : mstate) (c : str),
  exec_node se globals (S f) st (NTemplatetag c) = (c, Ok st).
Proof. exact templatetag_exact. Qed.
Print Assumptions C06_templatetag_exact.

Theorem C06_templatetag_table : templatetag_map = templatetag_spec.
Proof. exact tie_templatetag_table. Qed.
Print Assumptions C06_templatetag_table.

(* [116; 97; ...] is "tagTemplateTagParser", the parser "templatetag" dispatches to *)
Theorem C06_templatetag_parse : forall se f level t st ts out,
  is_typ t TIdentifier = true ->
  assoc_get (tval t) templatetag_spec = Some out ->
  tag_parser se (S f) level
    [116; 97; 103; 84; 101; 109; 112; 108; 97; 116; 101; 84; 97; 103; 80; 97; 114; 115; 101; 114]
    [t] st ts = Ok (NTemplatetag out, ts, st).
Proof. exact tie_templatetag_parse. Qed.
Print Assumptions C06_templatetag_parse.

Theorem C06_templatetag_parse_unknown : forall se f level t rest st ts,
  assoc_get (tval t) templatetag_spec = None ->
  tag_parser se (S f) level
    [116; 97; 103; 84; 101; 109; 112; 108; 97; 116; 101; 84; 97; 103; 80; 97; 114; 115; 101; 114]
    (t :: rest) st ts = Err 2.
Proof. exact tie_templatetag_parse_unknown. Qed.
Print Assumptions C06_templatetag_parse_unknown.

(* [116; 97; ...] is "tagCommentParser"; [101; 110; ...] is "endcomment" *)
Theorem C06_comment_parse : forall se f level st ts r,
  skip_until [ [101; 110; 100; 99; 111; 109; 109; 101; 110; 116] ] ts = Ok r ->
  tag_parser se (S f) level
    [116; 97; 103; 67; 111; 109; 109; 101; 110; 116; 80; 97; 114; 115; 101; 114] [] st ts =
  Ok (NComment, r, st).
Proof. exact comment_parse. Qed.
Print Assumptions C06_comment_parse.

Theorem C06_tag_dispatch :
  assoc_get [116; 101; 109; 112; 108; 97; 116; 101; 116; 97; 103] (* templatetag *) tag_impl =
    Some [116; 97; 103; 84; 101; 109; 112; 108; 97; 116; 101; 84; 97; 103; 80; 97; 114; 115; 101; 114] /\
  assoc_get [99; 111; 109; 109; 101; 110; 116] (* comment *) tag_impl =
    Some [116; 97; 103; 67; 111; 109; 109; 101; 110; 116; 80; 97; 114; 115; 101; 114].
Proof. exact tie_tag_dispatch. Qed.

(* Non-vacuity: a world with both block options on and a global, a context with an identifier
   key, a text with stray braces, a newline and an invalid UTF-8 byte meet the hypotheses of
   C06_render_text_identity - and so does the empty source. *)
Example C06r_witness :
  delim_free c06_text = true /\ keys_ok (ctx_update (w_globals c06_world) c06_ctx) = true /\
  delim_free [] = true.
Proof. exact tie_c06r_witness. Qed.

(* a{# c #}{% verbatim %}{{y}}{% endverbatim %}<newline>  renders to  a{{y}}<newline> *)
Example C06r_fragments_witness :
  frags_ok c06_frags /\ forallb frag_literal c06_frags = true /\
  frags_text c06_frags = [97; 123; 123; 121; 125; 125; 10] /\
  api_render_string c06_world (frags_src c06_frags) c06_ctx = OOk [97; 123; 123; 121; 125; 125; 10].
Proof. exact tie_c06r_frags_witness. Qed.

(* {% templatetag openblock %} renders to {% ; a{% comment %}b{% endcomment %}c renders to ac *)
Example C06r_tags_witness :
  api_render_string c06_world
    [123; 37; 32; 116; 101; 109; 112; 108; 97; 116; 101; 116; 97; 103; 32; 111; 112; 101; 110; 98; 108; 111; 99; 107; 32; 37; 125]
    c06_ctx = OOk [123; 37] /\
  api_render_string c06_world
    [97; 123; 37; 32; 99; 111; 109; 109; 101; 110; 116; 32; 37; 125; 98; 123; 37; 32; 101; 110; 100; 99; 111; 109; 109; 101; 110; 116; 32; 37; 125; 99]
    c06_ctx = OOk [97; 99].
Proof. exact tie_c06r_tags_witness. Qed.
