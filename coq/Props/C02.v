(* Property C02 - autoescape.  While autoescaping is on (the default), text that comes from
   the caller's context reaches the output only in HTML-escaped form; the ways to write it raw
   are the explicit opt-outs (the `safe` filter on the printed expression, an `autoescape off`
   region, values the Go side marked safe; truncatechars_html / truncatewords_html are outside
   the model).  This file holds only statements, each closed by [exact] of a lemma of
   Tie/C02.v, with its assumptions printed.  Vocabulary: Spec/SpecTaint.v.

   How the model decides (found by reading Model/Exec.v, Model/Filters.v):
   - a value carries a mark [vsafe]; only three things produce a marked value: a macro call,
     block.Super, and a context entry that is already marked (lookups keep the mark of the
     entry they start from).  Literals, operators, array literals and EVERY modelled filter
     produce unmarked values (filters may hand their input or parameter on unchanged).  In
     particular `safe` does not mark: the opt-out is FilterApplied(safe) at the output site;
     and `escape` returns an unmarked string.
   - output sites of expression values: {{ e }}, firstof, cycle, widthratio, and the filter
     tag (the result of its chain).

   What the theorems contribute:
   1. C02_var_output_escaped / C02_var_site / C02_var_plain_clean: what {{ e }} writes.  It
      escapes strings only; C02_nonstring_rendering_inert shows that nil, booleans, integers
      and floats render without any byte that would need escaping.  Lists, maps and structs
      have no modelled rendering: C02_var_unmodelled (the model answers Unmod; in Go they are
      not strings either, so they are written unescaped - outside what is proved here).
   2. C02_firstof_*, C02_cycle_*, C02_widthratio_inert: the other output sites.
      C02_filter_tag_param_raw: the property is FALSE for the filter tag - a parameter of its
      chain that comes from the context is written raw (counterexample, also true of the Go
      code: tags_filter.go writes value.String()).
   3. C02_filters_do_not_launder (+ _result_origin, _se): no modelled filter marks anything;
      the list of marking filters is empty.  C02_unmodelled_filters names the registered
      filters the model says nothing about; C02_escape_filter_clean and C02_safe_filter_identity
      pin down the two filters the property names.
   4. C02_eval_safe_origin_partial: over a context that holds only unmarked data (no macros,
      no block handle), every expression - any nesting of lookups, literals, operators, array
      literals, filter chains, even with `safe` - yields an unmarked value and leaves the state
      alone.  C02_fragment_output_clean lifts this to node lists: loops, conditionals, with,
      set, firstof ... over such a context write escaped form only.  Partial: contexts with macros / block.Super (their results are marked on purpose)
      and already-marked entries are not covered; the general statement needs taint tracking
      through macro bodies.
   5. C02_autoescape_off_is_only_region, C02_autoescape_flag_scoped: the autoescape tag runs
      its body with the flag set as written and puts the previous flag back; and NO construct
      - any node list, any expression including macro calls, includes, block.Super, whole
      sub-template executions - leaves any context of the stack with a different flag than it
      had: only the lexical region of an autoescape tag runs with a changed flag. *)
From PV Require Import Lib.Bytes Model.Value Model.Doc Model.Exec Model.Filters Model.Api Spec.SpecEsc Spec.SpecTaint.
From PV Require Import Tie.C02.
Open Scope N_scope.

(* ---------- 1. {{ e }} ---------- *)
(* autoescape on, the value unmarked, no `safe` on the expression: the node writes the escaped
   rendering, which is in escaped form *)
Theorem C02_var_output_escaped : forall se globals f st e v st1 s,
  auto_on st -> eval se globals f st e = Ok (v, st1) ->
  vsafe v = false -> filter_applied n_safe e = false -> to_string (vv v) = Some s ->
  exec_node se globals (S f) st (NVar e) = xok (autoescaped (vv v) s) st1 /\
  html_clean (autoescaped (vv v) s) = true.
Proof. exact tie_var_output_escaped. Qed.
Print Assumptions C02_var_output_escaped.

(* the kinds that are written unescaped contain nothing to escape *)
Theorem C02_nonstring_rendering_inert : forall v s,
  is_string v = false -> to_string v = Some s -> forallb inert_byte s = true.
Proof. exact tie_nonstring_rendering_inert. Qed.
Print Assumptions C02_nonstring_rendering_inert.

Theorem C02_inert_is_clean : forall s, forallb inert_byte s = true -> html_clean s = true.
Proof. exact tie_inert_is_clean. Qed.
Print Assumptions C02_inert_is_clean.

(* lists, maps, structs: no modelled rendering *)
Theorem C02_var_unmodelled : forall se globals f st e v st1 fr,
  eval se globals f st e = Ok (v, st1) -> top_frame st1 = Ok fr -> to_string (vv v) = None ->
  exec_node se globals (S f) st (NVar e) = ([], Unmod).
Proof. exact tie_var_unmodelled. Qed.
Print Assumptions C02_var_unmodelled.

(* every successful {{ e }} under autoescape without `safe`: escaped form, or the rendering of
   a marked value *)
Theorem C02_var_site : forall se globals fuel st e o st',
  auto_on st -> filter_applied n_safe e = false ->
  exec_node se globals fuel st (NVar e) = (o, Ok st') ->
  exists f v, fuel = S f /\ eval se globals f st e = Ok (v, st') /\ escaped_or_marked o v.
Proof. exact tie_var_site. Qed.
Print Assumptions C02_var_site.

(* ... and over a context of unmarked data it is always escaped form, for every expression *)
Theorem C02_var_plain_clean : forall se globals fuel st e o st',
  auto_on st -> plain_state st -> filter_applied n_safe e = false ->
  exec_node se globals fuel st (NVar e) = (o, Ok st') ->
  st' = st /\ html_clean o = true.
Proof. exact tie_var_plain_clean. Qed.
Print Assumptions C02_var_plain_clean.

(* ---------- 2. the other output sites ---------- *)
(* firstof escapes whatever it prints (even marked values), unless `safe` is on that argument *)
Theorem C02_firstof_site : forall se globals fuel st args o st',
  auto_on st -> none_safe args = true ->
  exec_node se globals fuel st (NFirstof args) = (o, Ok st') ->
  o = [] \/
  exists a v s f st0, In a args /\ eval se globals f st0 a = Ok (v, st') /\ is_true (vv v) = true /\
                      to_string (vv v) = Some s /\ o = filter_escape s.
Proof. exact tie_firstof_site. Qed.
Print Assumptions C02_firstof_site.

Theorem C02_firstof_output_clean : forall se globals fuel st args o st',
  auto_on st -> none_safe args = true ->
  exec_node se globals fuel st (NFirstof args) = (o, Ok st') -> html_clean o = true.
Proof. exact tie_firstof_output_clean. Qed.
Print Assumptions C02_firstof_output_clean.

(* cycleOutput *)
Theorem C02_cycle_out_escaped : forall fr item v st s,
  f_auto fr = true -> vsafe v = false -> filter_applied n_safe item = false ->
  to_string (vv v) = Some s ->
  cycle_out fr item v st = xok (autoescaped (vv v) s) st /\ html_clean (autoescaped (vv v) s) = true.
Proof. exact tie_cycle_out_escaped. Qed.
Print Assumptions C02_cycle_out_escaped.

(* the cycle tag, both when it cycles over its own arguments and when it advances a cycle
   handle found in the context *)
Theorem C02_cycle_site : forall se globals fuel st id args asname silent o st' fr,
  top_frame st = Ok fr -> f_auto fr = true -> none_safe args = true -> cycles_none_safe fr ->
  exec_node se globals fuel st (NCycle id args asname silent) = (o, Ok st') ->
  o = [] \/ exists item v f st0 st1, eval se globals f st0 item = Ok (v, st1) /\ escaped_or_marked o v.
Proof. exact tie_cycle_site. Qed.
Print Assumptions C02_cycle_site.

Theorem C02_widthratio_inert : forall se globals fuel st c m w nm o st',
  exec_node se globals fuel st (NWidthratio c m w nm) = (o, Ok st') -> forallb inert_byte o = true.
Proof. exact tie_widthratio_inert. Qed.
Print Assumptions C02_widthratio_inert.

(* FALSE for the filter tag: {% filter add:x %}{% endfilter %} writes the context's x raw,
   autoescape on, nothing marked, no opt-out in sight *)
Theorem C02_filter_tag_param_raw :
  auto_on w_state /\ plain_state w_state /\
  exec_node w_se [] 10 w_state (NFilterTag [(n_add, Some w_var)] []) = xok w_text w_state /\
  html_clean w_text = false.
Proof. exact tie_filter_tag_param_raw. Qed.
Print Assumptions C02_filter_tag_param_raw.

(* ---------- 3. filters ---------- *)
(* for every filter name: a marked result was a marked input or parameter (the list of filters
   that mark on their own, [marking_filters], is empty) *)
Theorem C02_filters_do_not_launder : forall name x p r,
  apply_filter name x p = Ok r -> vsafe r = true ->
  vsafe x = true \/ vsafe p = true \/ In name marking_filters.
Proof. exact tie_filters_do_not_launder. Qed.
Print Assumptions C02_filters_do_not_launder.

Theorem C02_filter_result_origin : forall name x p r,
  apply_filter name x p = Ok r -> r = x \/ r = p \/ vsafe r = false.
Proof. exact tie_filter_result_origin. Qed.
Print Assumptions C02_filter_result_origin.

(* the same for the lookup the evaluator uses (registered but unmodelled filters give Unmod) *)
Theorem C02_filters_se_do_not_launder : forall se name x p r,
  apply_filter_se se name x p = Ok r -> r = x \/ r = p \/ vsafe r = false.
Proof. exact tie_filters_se_do_not_launder. Qed.
Print Assumptions C02_filters_se_do_not_launder.

(* the registered filters the model is silent about *)
Theorem C02_unmodelled_filters : forall name x p,
  In name unmodelled_filters -> apply_filter name x p = Unmod.
Proof. exact tie_unmodelled_filters. Qed.
Print Assumptions C02_unmodelled_filters.

Theorem C02_escape_filter_clean : forall name x p r,
  name = n_escape \/ name = n_e -> apply_filter name x p = Ok r ->
  exists s, to_string (vv x) = Some s /\ r = as_value (VStr (filter_escape s)) /\
            html_clean (filter_escape s) = true.
Proof. exact tie_escape_filter. Qed.
Print Assumptions C02_escape_filter_clean.

Theorem C02_safe_filter_identity : forall x p, apply_filter n_safe x p = Ok x.
Proof. exact tie_safe_filter. Qed.
Print Assumptions C02_safe_filter_identity.

(* ---------- 4. expressions ---------- *)
Theorem C02_eval_safe_origin_partial : forall se globals f st e v st',
  plain_state st -> eval se globals f st e = Ok (v, st') -> st' = st /\ vsafe v = false.
Proof. exact tie_eval_safe_origin_partial. Qed.
Print Assumptions C02_eval_safe_origin_partial.

(* looped over, assigned, combined, filtered: a fragment without opt-outs whose own text needs
   no escaping ([frag_node]: text, {{ e }}, if, for, with, set, firstof, ifequal, ifchanged,
   widthratio, comment, templatetag, autoescape on - any nesting, any expressions), run with
   autoescape on over unmarked data, writes output that is in escaped form as a whole: every
   byte of context text that needed escaping was escaped.  The state afterwards is again of
   that kind, so the statement composes. *)
Theorem C02_fragment_output_clean : forall se globals f st ns o st',
  auto_on st -> plain_state st -> frag_nodes ns = true ->
  exec_nodes se globals f st ns = (o, Ok st') ->
  html_clean o = true /\ auto_on st' /\ plain_state st'.
Proof. exact tie_fragment_output_clean. Qed.
Print Assumptions C02_fragment_output_clean.

(* ---------- 5. the autoescape tag ---------- *)
Theorem C02_autoescape_off_is_only_region : forall se globals fuel st on body o st',
  exec_node se globals fuel st (NAutoescape on body) = (o, Ok st') ->
  exists f fr st1 fr1,
    fuel = S f /\ top_frame st = Ok fr /\
    exec_nodes se globals f (set_top st (with_auto fr on)) body = (o, Ok st1) /\
    top_frame (set_top st (with_auto fr on)) = Ok (with_auto fr on) /\
    top_frame st1 = Ok fr1 /\
    st' = set_top st1 (with_auto fr1 (f_auto fr)) /\
    top_frame st' = Ok (with_auto fr1 (f_auto fr)).
Proof. exact tie_autoescape_region. Qed.
Print Assumptions C02_autoescape_off_is_only_region.

(* no node list, expression or sub-template execution changes the flag of any context *)
Theorem C02_autoescape_flag_scoped : forall se globals f st ns o st',
  exec_nodes se globals f st ns = (o, Ok st') -> auto_flags st' = auto_flags st.
Proof. exact tie_exec_keeps_flags. Qed.
Print Assumptions C02_autoescape_flag_scoped.

Theorem C02_autoescape_flag_scoped_eval : forall se globals f st e v st',
  eval se globals f st e = Ok (v, st') -> auto_flags st' = auto_flags st.
Proof. exact tie_eval_keeps_flags. Qed.
Print Assumptions C02_autoescape_flag_scoped_eval.

Theorem C02_autoescape_flag_scoped_template : forall se globals f st t ctx o st',
  exec_template_unbuffered se globals f st t ctx = (o, Ok st') -> auto_flags st' = auto_flags st.
Proof. exact tie_template_keeps_flags. Qed.
Print Assumptions C02_autoescape_flag_scoped_template.

(* ---------- non-vacuity: the hypotheses are met, and the constructs do something ---------- *)
(* the context binds x to the text <b>& ; autoescape is on; nothing is marked *)
Example C02_witness_state : auto_on w_state /\ plain_state w_state.
Proof. split; exists w_frame; split; reflexivity. Qed.
(* the hypotheses of C02_var_output_escaped, and what comes out: &lt;b&gt;&amp; *)
Example C02_witness_var :
  eval w_se [] 9 w_state w_var = Ok (as_value (VStr w_text), w_state) /\
  filter_applied n_safe w_var = false /\
  exec_node w_se [] 10 w_state (NVar w_var) = xok w_escaped w_state /\
  html_clean w_escaped = true /\ html_clean w_text = false.
Proof. vm_compute. repeat split; reflexivity. Qed.
(* the opt-outs: x|safe, and an autoescape off region (whose end puts the flag back) *)
Example C02_witness_optouts :
  exec_node w_se [] 10 w_state (NVar w_var_safe) = xok w_text w_state /\
  exec_node w_se [] 10 w_state (NAutoescape false [NVar w_var]) = xok w_text w_state.
Proof. vm_compute. split; reflexivity. Qed.
(* firstof and cycle print x escaped; widthratio prints a number *)
Example C02_witness_other_sites :
  exec_node w_se [] 10 w_state (NFirstof [EBool false; w_var]) = xok w_escaped w_state /\
  fst (exec_node w_se [] 10 w_state (NCycle 7 [w_var; EInt 3] [] false)) = w_escaped /\
  fst (exec_node w_se [] 10 w_state (NWidthratio (EInt 1) (EInt 2) (EInt 100) [])) = [53; 48].
Proof. vm_compute. repeat split; reflexivity. Qed.
Example C02_witness_cycle_hypothesis : none_safe [w_var; EInt 3] = true /\ cycles_none_safe w_frame.
Proof.
  split; [reflexivity|]. intros nm cid cargs cs cv H. cbn in H.
  destruct (str_eqb nm w_x); discriminate H.
Qed.
(* a fragment in the sense of C02_fragment_output_clean: text, set y = x + <i>, a loop over the
   characters of y printing each, with z = y printing z|upper *)
Example C02_witness_fragment :
  frag_nodes w_fragment = true /\
  fst (exec_nodes w_se [] 20 w_state w_fragment) =
    [97; 32; 98; 10] ++ w_escaped ++ [38; 108; 116; 59; 105; 38; 103; 116; 59]
      ++ [38; 108; 116; 59; 66; 38; 103; 116; 59; 38; 97; 109; 112; 59; 38; 108; 116; 59; 73; 38; 103; 116; 59].
Proof. vm_compute. split; reflexivity. Qed.
(* through the lexer, parser and Template.execute: {{ x }} and {% filter add:x %}{% endfilter %} *)
Example C02_witness_end_to_end :
  api_render_string (mkWorld [] false false [] [] [] [] []) [123;123;32;120;32;125;125] w_ctx = OOk w_escaped /\
  api_render_string (mkWorld [] false false [] [] [] [] [])
    [123;37;32;102;105;108;116;101;114;32;97;100;100;58;120;32;37;125;123;37;32;101;110;100;102;105;108;116;101;114;32;37;125]
    w_ctx = OOk w_text.
Proof. vm_compute. split; reflexivity. Qed.
