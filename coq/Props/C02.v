(* Property C02 - autoescape.  While autoescaping is on (the default), text that comes from
   the caller's context reaches the output only in HTML-escaped form; the ways to write it raw
   are the explicit opt-outs (the `safe` filter on the printed expression, an `autoescape off`
   region, values the Go side marked safe; truncatechars_html / truncatewords_html are outside
   the model).  This file holds only statements, each closed by [exact] of a lemma of
   Tie/C02.v, with its assumptions printed.  Vocabulary: Spec/SpecTaint.v.

   How the model decides (found by reading Model/Exec.v, Model/Filters.v):
   - a value carries a mark [vsafe]; only three things produce a marked value: a macro call,
     block.Super, and a context entry that is already marked (lookups keep the mark of the
     entry they start from).  Literals, operators, array literals and EVERY modelled filter
     produce unmarked values (filters may hand their input or parameter on unchanged).  In
     particular `safe` does not mark: the opt-out is FilterApplied(safe) at the output site;
     and `escape` returns an unmarked string.
   - output sites of expression values: {{ e }}, firstof, cycle, widthratio, and the filter
     tag (the result of its chain).

   What the theorems contribute:
   1. C02_var_output_escaped / C02_var_site / C02_var_plain_clean: what {{ e }} writes.  It
      escapes strings only; C02_nonstring_rendering_inert shows that nil, booleans, integers
      and floats render without any byte that would need escaping.  Lists, maps and structs
      have no modelled rendering: C02_var_unmodelled (the model answers Unmod; in Go they are
      not strings either, so they are written unescaped - outside what is proved here).
   2. C02_firstof_*, C02_cycle_*, C02_widthratio_inert: the other output sites.
      C02_filter_tag_param_raw: the property is FALSE for the filter tag - a parameter of its
      chain that comes from the context is written raw (counterexample, also true of the Go
      code: tags_filter.go writes value.String()).
   3. C02_filters_do_not_launder (+ _result_origin, _se): no modelled filter marks anything;
      the list of marking filters is empty.  C02_unmodelled_filters names the registered
      filters the model says nothing about; C02_escape_filter_clean and C02_safe_filter_identity
      pin down the two filters the property names.
   4. C02_eval_safe_origin_partial: over a context that holds only unmarked data (no macros,
      no block handle), every expression - any nesting of lookups, literals, operators, array
      literals, filter chains, even with `safe` - yields an unmarked value and leaves the state
      alone.  C02_fragment_output_clean lifts this to node lists: loops, conditionals, with,
      set, firstof ... over such a context write escaped form only.  Partial: contexts with macros / block.Super (their results are marked on purpose)
      and already-marked entries are not covered; the general statement needs taint tracking
      through macro bodies.
   5. C02_autoescape_off_is_only_region, C02_autoescape_flag_scoped: the autoescape tag runs
      its body with the flag set as written and puts the previous flag back; and NO construct
      - any node list, any expression including macro calls, includes, block.Super, whole
      sub-template executions - leaves any context of the stack with a different flag than it
      had: only the lexical region of an autoescape tag runs with a changed flag. *)
(* ---- second part (statements appended below) ---- *)
(* Property C02 - autoescape, from the SOURCE TEXT (continues Props/C02.v).

   Props/C02.v proves: a compiled template without opt-outs ([ok_template], a predicate on the
   tree the parser built), run over an unmarked context by a set whose run-time compiles are
   without opt-outs ([lazy_ok], a hypothesis about the compiler), writes output that is in
   escaped form as a whole.  Here both hypotheses are discharged from what the template author
   writes: a scan of the TOKENS of the sources (Spec/SpecTaint3.v [no_optout_tokens], through
   the lexer [no_optout_source], over every file the loaders hold [no_optout_world]).

   In plain words: if no source - the entry and every file the loaders hold - contains
     - literal text with a byte that needs escaping,
     - the pipe symbol followed by the identifier safe,
     - after a tag opening: autoescape off; filter with anything but allowed names (safe escape e
       lower length wordcount integer float) separated by pipes, i.e. with a parameter or
       another filter; ssi other than ssi "file" parsed; include of a non-literal name (unless
       lazy includes are allowed, [lz] = true),
   then whatever the lexer, the parser (with every extends / include / import / ssi parsed it
   resolves through the loaders, to any depth) and the executor (with every lazy include it
   compiles at run time) make of it over ANY unmarked context: if rendering succeeds, the
   output is in escaped form as a whole ([html_clean]).  No hypothesis about the compiler or
   the compiled tree is left; what is assumed of the Go side is only that the caller's context
   is unmarked data and the set's globals satisfy [ctx_ok] (e.g. there are none).

   The scan is sufficient, not necessary (it also looks at tokens a comment tag skips, and
   rejects  |safe  inside a filter tag's chain).  Every item of the list is needed: each of
   the rejected sources of C02c_optouts_rejected_and_leak writes the hostile text raw.

   What the theorems contribute:
   1. C02c_compile_ok_template (+ _file, which also covers the macros a file exports, and
      C02c_parse_ok_nodes for the parser's own entry below the lexer): from the scan to
      [ok_template], for both values of [lz].  C02c_lazy_ok: the scan of the set's files gives
      [lazy_ok] - the hypothesis of Props/C02.v about run-time compiles is now a theorem.
   2. C02_source_level (+ _file for FromFile, _execute for any fuel / state / the buffered
      Template.ExecuteWriter): the whole pipeline.
   3. C02c_lazy_allowed_is_weaker: allowing lazy includes only weakens the scan, so a world
      scanned with [lz] = false can be used with either theorem.
   4. Witnesses: a world with a base, a child and an included file scanned and rendered over a
      hostile context; a lazy include; the opt-outs, rejected and leaking; constructs that look
      like opt-outs and are not.

   Part II - sources whose own text contains markup (real templates).  The scan is the same with
   three changes (Spec/SpecTaint3.v): literal text is accepted when it is in a given decidable
   set [lit] (instead of: needs no escaping); the filter tag's names are [markup_tag_filters];
   the spaceless tag is rejected (it rewrites the text between tags).  The conclusion is that of
   Props/C02.v Part II: the output is a CONCATENATION OF PIECES OF TEXTS OF [lit] AND OF CHUNKS IN
   ESCAPED FORM ([pieces lit o]) - every byte of context text reaches the output inside an
   escaped-form chunk.
   5. C02c_compile_ok_template_m, C02c_lazy_m: from the scan to [ok_template_m] / [lazy_m].
      C02_source_level_markup (+ _file): the whole pipeline, for any [lit] that contains the
      eight texts a templatetag tag can write.
   6. C02_source_level_own_text (+ _file): with [lit] := the text tokens the lexer finds in the
      sources themselves ([lit_of]), the scan does not look at literal text at all, and the
      statement reads: whatever a template set without opt-out tokens writes is made of pieces
      of its own literal text and of escaped chunks.
   7. Witness: the base / child pair of Spec/SpecTaint2.v with elements and a quoted attribute,
      rendered over the hostile context; and, by 6 and C02_pieces_no_foreign_byte, it never
      writes a single quote, whatever the context holds. *)
From PV Require Import Lib.Bytes Model.Value Model.Doc Model.Exec Model.Filters Model.Api Spec.SpecEsc Spec.SpecTaint.
From PV Require Import Spec.SpecTaint2.
From PV Require Import Tie.C02 Tie.C02b.
From PV Require Import Lib.Bytes Model.Value Model.Doc Model.ParseDoc Model.Exec Model.Api Spec.SpecEsc Spec.SpecTaint Spec.SpecTaint2 Spec.SpecTaint3.
From PV Require Import Tie.C02c.
Open Scope N_scope.

(* ---------- 1. {{ e }} ---------- *)
(* autoescape on, the value unmarked, no `safe` on the expression: the node writes the escaped
   rendering, which is in escaped form *)
Theorem C02_var_output_escaped : forall se globals f st e v st1 s,
  auto_on st -> eval se globals f st e = Ok (v, st1) ->
  vsafe v = false -> filter_applied n_safe e = false -> to_string (vv v) = Some s ->
  exec_node se globals (S f) st (NVar e) = xok (autoescaped (vv v) s) st1 /\
  html_clean (autoescaped (vv v) s) = true.
Proof. exact tie_var_output_escaped. Qed.
Print Assumptions C02_var_output_escaped.

(* the kinds that are written unescaped contain nothing to escape *)
Theorem C02_nonstring_rendering_inert : forall v s,
  is_string v = false -> to_string v = Some s -> forallb inert_byte s = true.
Proof. exact tie_nonstring_rendering_inert. Qed.
Print Assumptions C02_nonstring_rendering_inert.

Theorem C02_inert_is_clean : forall s, forallb inert_byte s = true -> html_clean s = true.
Proof. exact tie_inert_is_clean. Qed.
Print Assumptions C02_inert_is_clean.

(* lists, maps, structs: no modelled rendering *)
Theorem C02_var_unmodelled : forall se globals f st e v st1 fr,
  eval se globals f st e = Ok (v, st1) -> top_frame st1 = Ok fr -> to_string (vv v) = None ->
  exec_node se globals (S f) st (NVar e) = ([], Unmod).
Proof. exact tie_var_unmodelled. Qed.
Print Assumptions C02_var_unmodelled.

(* every successful {{ e }} under autoescape without `safe`: escaped form, or the rendering of
   a marked value *)
Theorem C02_var_site : forall se globals fuel st e o st',
  auto_on st -> filter_applied n_safe e = false ->
  exec_node se globals fuel st (NVar e) = (o, Ok st') ->
  exists f v, fuel = S f /\ eval se globals f st e = Ok (v, st') /\ escaped_or_marked o v.
Proof. exact tie_var_site. Qed.
Print Assumptions C02_var_site.

(* ... and over a context of unmarked data it is always escaped form, for every expression *)
Theorem C02_var_plain_clean : forall se globals fuel st e o st',
  auto_on st -> plain_state st -> filter_applied n_safe e = false ->
  exec_node se globals fuel st (NVar e) = (o, Ok st') ->
  st' = st /\ html_clean o = true.
Proof. exact tie_var_plain_clean. Qed.
Print Assumptions C02_var_plain_clean.

(* ---------- 2. the other output sites ---------- *)
(* firstof escapes whatever it prints (even marked values), unless `safe` is on that argument *)
Theorem C02_firstof_site : forall se globals fuel st args o st',
  auto_on st -> none_safe args = true ->
  exec_node se globals fuel st (NFirstof args) = (o, Ok st') ->
  o = [] \/
  exists a v s f st0, In a args /\ eval se globals f st0 a = Ok (v, st') /\ is_true (vv v) = true /\
                      to_string (vv v) = Some s /\ o = filter_escape s.
Proof. exact tie_firstof_site. Qed.
Print Assumptions C02_firstof_site.

Theorem C02_firstof_output_clean : forall se globals fuel st args o st',
  auto_on st -> none_safe args = true ->
  exec_node se globals fuel st (NFirstof args) = (o, Ok st') -> html_clean o = true.
Proof. exact tie_firstof_output_clean. Qed.
Print Assumptions C02_firstof_output_clean.

(* cycleOutput *)
Theorem C02_cycle_out_escaped : forall fr item v st s,
  f_auto fr = true -> vsafe v = false -> filter_applied n_safe item = false ->
  to_string (vv v) = Some s ->
  cycle_out fr item v st = xok (autoescaped (vv v) s) st /\ html_clean (autoescaped (vv v) s) = true.
Proof. exact tie_cycle_out_escaped. Qed.
Print Assumptions C02_cycle_out_escaped.

(* the cycle tag, both when it cycles over its own arguments and when it advances a cycle
   handle found in the context *)
Theorem C02_cycle_site : forall se globals fuel st id args asname silent o st' fr,
  top_frame st = Ok fr -> f_auto fr = true -> none_safe args = true -> cycles_none_safe fr ->
  exec_node se globals fuel st (NCycle id args asname silent) = (o, Ok st') ->
  o = [] \/ exists item v f st0 st1, eval se globals f st0 item = Ok (v, st1) /\ escaped_or_marked o v.
Proof. exact tie_cycle_site. Qed.
Print Assumptions C02_cycle_site.

Theorem C02_widthratio_inert : forall se globals fuel st c m w nm o st',
  exec_node se globals fuel st (NWidthratio c m w nm) = (o, Ok st') -> forallb inert_byte o = true.
Proof. exact tie_widthratio_inert. Qed.
Print Assumptions C02_widthratio_inert.

(* FALSE for the filter tag: {% filter add:x %}{% endfilter %} writes the context's x raw,
   autoescape on, nothing marked, no opt-out in sight *)
Theorem C02_filter_tag_param_raw :
  auto_on w_state /\ plain_state w_state /\
  exec_node w_se [] 10 w_state (NFilterTag [(n_add, Some w_var)] []) = xok w_text w_state /\
  html_clean w_text = false.
Proof. exact tie_filter_tag_param_raw. Qed.
Print Assumptions C02_filter_tag_param_raw.

(* ---------- 3. filters ---------- *)
(* for every filter name: a marked result was a marked input or parameter (the list of filters
   that mark on their own, [marking_filters], is empty) *)
Theorem C02_filters_do_not_launder : forall name x p r,
  apply_filter name x p = Ok r -> vsafe r = true ->
  vsafe x = true \/ vsafe p = true \/ In name marking_filters.
Proof. exact tie_filters_do_not_launder. Qed.
Print Assumptions C02_filters_do_not_launder.

Theorem C02_filter_result_origin : forall name x p r,
  apply_filter name x p = Ok r -> r = x \/ r = p \/ vsafe r = false.
Proof. exact tie_filter_result_origin. Qed.
Print Assumptions C02_filter_result_origin.

(* the same for the lookup the evaluator uses (registered but unmodelled filters give Unmod) *)
Theorem C02_filters_se_do_not_launder : forall se name x p r,
  apply_filter_se se name x p = Ok r -> r = x \/ r = p \/ vsafe r = false.
Proof. exact tie_filters_se_do_not_launder. Qed.
Print Assumptions C02_filters_se_do_not_launder.

(* the registered filters the model is silent about *)
Theorem C02_unmodelled_filters : forall name x p,
  In name unmodelled_filters -> apply_filter name x p = Unmod.
Proof. exact tie_unmodelled_filters. Qed.
Print Assumptions C02_unmodelled_filters.

Theorem C02_escape_filter_clean : forall name x p r,
  name = n_escape \/ name = n_e -> apply_filter name x p = Ok r ->
  exists s, to_string (vv x) = Some s /\ r = as_value (VStr (filter_escape s)) /\
            html_clean (filter_escape s) = true.
Proof. exact tie_escape_filter. Qed.
Print Assumptions C02_escape_filter_clean.

Theorem C02_safe_filter_identity : forall x p, apply_filter n_safe x p = Ok x.
Proof. exact tie_safe_filter. Qed.
Print Assumptions C02_safe_filter_identity.

(* ---------- 4. expressions ---------- *)
Theorem C02_eval_safe_origin_partial : forall se globals f st e v st',
  plain_state st -> eval se globals f st e = Ok (v, st') -> st' = st /\ vsafe v = false.
Proof. exact tie_eval_safe_origin_partial. Qed.
Print Assumptions C02_eval_safe_origin_partial.

(* looped over, assigned, combined, filtered: a fragment without opt-outs whose own text needs
   no escaping ([frag_node]: text, {{ e }}, if, for, with, set, firstof, ifequal, ifchanged,
   widthratio, comment, templatetag, autoescape on - any nesting, any expressions), run with
   autoescape on over unmarked data, writes output that is in escaped form as a whole: every
   byte of context text that needed escaping was escaped.  The state afterwards is again of
   that kind, so the statement composes. *)
Theorem C02_fragment_output_clean : forall se globals f st ns o st',
  auto_on st -> plain_state st -> frag_nodes ns = true ->
  exec_nodes se globals f st ns = (o, Ok st') ->
  html_clean o = true /\ auto_on st' /\ plain_state st'.
Proof. exact tie_fragment_output_clean. Qed.
Print Assumptions C02_fragment_output_clean.

(* ---------- 5. the autoescape tag ---------- *)
Theorem C02_autoescape_off_is_only_region : forall se globals fuel st on body o st',
  exec_node se globals fuel st (NAutoescape on body) = (o, Ok st') ->
  exists f fr st1 fr1,
    fuel = S f /\ top_frame st = Ok fr /\
    exec_nodes se globals f (set_top st (with_auto fr on)) body = (o, Ok st1) /\
    top_frame (set_top st (with_auto fr on)) = Ok (with_auto fr on) /\
    top_frame st1 = Ok fr1 /\
    st' = set_top st1 (with_auto fr1 (f_auto fr)) /\
    top_frame st' = Ok (with_auto fr1 (f_auto fr)).
Proof. exact tie_autoescape_region. Qed.
Print Assumptions C02_autoescape_off_is_only_region.

(* no node list, expression or sub-template execution changes the flag of any context *)
Theorem C02_autoescape_flag_scoped : forall se globals f st ns o st',
  exec_nodes se globals f st ns = (o, Ok st') -> auto_flags st' = auto_flags st.
Proof. exact tie_exec_keeps_flags. Qed.
Print Assumptions C02_autoescape_flag_scoped.

Theorem C02_autoescape_flag_scoped_eval : forall se globals f st e v st',
  eval se globals f st e = Ok (v, st') -> auto_flags st' = auto_flags st.
Proof. exact tie_eval_keeps_flags. Qed.
Print Assumptions C02_autoescape_flag_scoped_eval.

Theorem C02_autoescape_flag_scoped_template : forall se globals f st t ctx o st',
  exec_template_unbuffered se globals f st t ctx = (o, Ok st') -> auto_flags st' = auto_flags st.
Proof. exact tie_template_keeps_flags. Qed.
Print Assumptions C02_autoescape_flag_scoped_template.

(* ---------- non-vacuity: the hypotheses are met, and the constructs do something ---------- *)
(* the context binds x to the text <b>& ; autoescape is on; nothing is marked *)
Example C02_witness_state : auto_on w_state /\ plain_state w_state.
Proof. split; exists w_frame; split; reflexivity. Qed.
(* the hypotheses of C02_var_output_escaped, and what comes out: &lt;b&gt;&amp; *)
Example C02_witness_var :
  eval w_se [] 9 w_state w_var = Ok (as_value (VStr w_text), w_state) /\
  filter_applied n_safe w_var = false /\
  exec_node w_se [] 10 w_state (NVar w_var) = xok w_escaped w_state /\
  html_clean w_escaped = true /\ html_clean w_text = false.
Proof. vm_compute. repeat split; reflexivity. Qed.
(* the opt-outs: x|safe, and an autoescape off region (whose end puts the flag back) *)
Example C02_witness_optouts :
  exec_node w_se [] 10 w_state (NVar w_var_safe) = xok w_text w_state /\
  exec_node w_se [] 10 w_state (NAutoescape false [NVar w_var]) = xok w_text w_state.
Proof. vm_compute. split; reflexivity. Qed.
(* firstof and cycle print x escaped; widthratio prints a number *)
Example C02_witness_other_sites :
  exec_node w_se [] 10 w_state (NFirstof [EBool false; w_var]) = xok w_escaped w_state /\
  fst (exec_node w_se [] 10 w_state (NCycle 7 [w_var; EInt 3] [] false)) = w_escaped /\
  fst (exec_node w_se [] 10 w_state (NWidthratio (EInt 1) (EInt 2) (EInt 100) [])) = [53; 48].
Proof. vm_compute. repeat split; reflexivity. Qed.
Example C02_witness_cycle_hypothesis : none_safe [w_var; EInt 3] = true /\ cycles_none_safe w_frame.
Proof.
  split; [reflexivity|]. intros nm cid cargs cs cv H. cbn in H.
  destruct (str_eqb nm w_x); discriminate H.
Qed.
(* a fragment in the sense of C02_fragment_output_clean: text, set y = x + <i>, a loop over the
   characters of y printing each, with z = y printing z|upper *)
Example C02_witness_fragment :
  frag_nodes w_fragment = true /\
  fst (exec_nodes w_se [] 20 w_state w_fragment) =
    [97; 32; 98; 10] ++ w_escaped ++ [38; 108; 116; 59; 105; 38; 103; 116; 59]
      ++ [38; 108; 116; 59; 66; 38; 103; 116; 59; 38; 97; 109; 112; 59; 38; 108; 116; 59; 73; 38; 103; 116; 59].
Proof. vm_compute. split; reflexivity. Qed.
(* through the lexer, parser and Template.execute: {{ x }} and {% filter add:x %}{% endfilter %} *)
Example C02_witness_end_to_end :
  api_render_string (mkWorld [] false false [] [] [] [] []) [123;123;32;120;32;125;125] w_ctx = OOk w_escaped /\
  api_render_string (mkWorld [] false false [] [] [] [] [])
    [123;37;32;102;105;108;116;101;114;32;97;100;100;58;120;32;37;125;123;37;32;101;110;100;102;105;108;116;101;114;32;37;125]
    w_ctx = OOk w_text.
Proof. vm_compute. split; reflexivity. Qed.

(* ================= the whole node language minus the opt-outs ================= *)
(* Property C02 - autoescape, in full for the model (continues Props/C02.v).

   In plain words: while autoescaping is on, text that comes from the caller's context - however
   it is reached, combined, looped over, assigned, passed to macros and includes, returned by
   macros and block.Super, cycled, or filtered - reaches the output only in HTML-escaped form,
   unless the template uses one of the opt-outs.  Here: for EVERY template that uses no opt-out,
   every successful execution writes output that is in escaped form as a whole ([html_clean]:
   none of the bytes 60 62 34 39, every & starts one of the five entities).

   "Uses no opt-out" is the boolean [ok_template] of Spec/SpecTaint2.v, recursively through the
   root nodes, all block bodies, parents, macro bodies (defined or imported) and statically
   included / ssi-parsed templates.  A node is allowed unless it is
     - {{ e }} / firstof / cycle with FilterApplied(safe) on the printed expression (`safe` deeper
       inside an expression is harmless in the model: the filter is the identity and marks nothing),
     - autoescape off,
     - a filter tag whose chain has a parameter or a filter outside [clean_tag_filters]
       (safe escape e lower length wordcount integer float).  The tag writes its chain's result
       raw; C02_filter_tag_param_raw (Props/C02.v) is the known leak for context parameters, and
       C02b_filter_tag_why_restricted shows that even literal or absent parameters break escaped
       form for upper, first, truncatechars:4, add:"<",
     - literal text (text tokens, templatetag, ssi without parsing) containing a byte that would
       need escaping: the statement is about the WHOLE output being in escaped form, so the
       template's own text must be (this is the simplification the fragment theorem of C02.v
       also makes).
   Everything else is allowed with arbitrary expressions and nesting: if, for, with, set, macro
   (arguments, defaults, calls inside any expression), import, block / block.Super, extends,
   include (static; lazy if [lz] - see below; with pairs, only, if_exists), ssi (plain, parsed),
   autoescape on, spaceless, filter tag as above, firstof, cycle (named, silent, advancing a
   handle), ifchanged, ifequal, templatetag, widthratio, comment.  (lorem / now have no model:
   the model answers Unmod, so no successful execution contains them.)

   The caller's context: data only, none of it marked safe ([unmarked_ctx]); the set's globals may
   also hold macros without opt-outs and values marked safe whose text is in escaped form ([ctx_ok]).

   Lazy includes compile a template at run time.  [ok_template true] allows them, and the theorems
   then assume [lazy_ok true se]: whatever the set compiles at run time is without opt-outs (the
   same kind of hypothesis as compiler_wf in Spec/SpecWf.v).  With [ok_template false] (no lazy
   include anywhere) nothing is assumed: C02_no_raw_context_text_static.

   What the theorems contribute:
   1. C02_no_raw_context_text (+ _execute for Template.execute, _static, and C02_run_template_clean
      for the harness entry point Model/Api.v run_template): the main statement.
   2. C02_template_in_state, C02_nodes_output_clean: the same from ANY state that satisfies the
      invariant [tclean] (every context of the stack has autoescape on; every value stored in a
      private or public context or in a cycle handle is unmarked, or marked and clean; stored
      macros, block bodies, cycle arguments are without opt-outs), and the invariant holds
      afterwards - so the statement composes, and covers includes / macro bodies run in the middle
      of an execution.
   3. C02_eval_marked_is_clean: every expression - macro calls with arguments and defaults,
      block.Super, lookups, operators, filter chains (also with `safe`) - evaluated in such a
      state yields a value that is unmarked or clean (this replaces C02_eval_safe_origin_partial,
      which needed a context without macros), and keeps the invariant.
      C02_macro_result_clean: a macro call returns a marked string that is in escaped form.
   4. C02_tag_filters_keep_escaped_form: the filters allowed in a filter tag keep clean values clean.
   5. Witnesses: the hypotheses are satisfiable by non-trivial instances, also end to end through
      the lexer and parser.

   Part II - templates whose own text contains markup.  Above, literal text had to consist of
   bytes that need no escaping, so that the whole output is in escaped form.  For real templates
   (text with tags and attributes) the statement is: the output is a CONCATENATION OF PIECES OF THE
   TEMPLATE'S LITERAL TEXT AND OF CHUNKS IN ESCAPED FORM ([pieces lit o], Spec/SpecTaint2.v; [lit]
   is any decidable set of strings that contains every text token, templatetag content and
   unparsed ssi content of the template - checked by [ok_template_m lit]; a piece is a contiguous
   part of such a text, because text tokens are written after white-space trimming).  So every
   byte of context text reaches the output inside an escaped-form chunk.  [ok_node_m] is [ok_node]
   with that change and without spaceless (it rewrites text between tags) and without `lower` in a
   filter tag; the invariant [tclean_m] is [tclean] with "marked values are [pieces]" (macro
   results now contain markup).
   6. C02_output_literals_and_escaped (+ _execute, C02_run_template_pieces): the main statement.
      C02_markup_template_in_state, C02_markup_nodes, C02_markup_eval, C02_markup_macro_result:
      the compositional forms, as in 2 and 3.
   7. What [pieces] buys: C02_pieces_no_foreign_byte - a byte that needs escaping and occurs in no
      literal text of the template does not occur in the output, whatever the context holds;
      C02_pieces_inert_is_clean - with literal text that needs no escaping, [pieces] is escaped
      form, i.e. Part II gives Part I's conclusion back.
   8. Witness: a base template and a child with tags and a quoted attribute, through lexer and
      parser, rendered over a hostile x. *)

(* ---------- 1. the main statement ---------- *)
(* Template.ExecuteWriter (buffered) on a fresh stack *)
Theorem C02_no_raw_context_text : forall lz se globals f nd g t ctx o st',
  ok_template lz t = true -> ctx_ok lz globals = true -> lazy_ok lz se -> unmarked_ctx ctx = true ->
  exec_template se globals f (mkM [] nd g) t ctx = (o, Ok st') -> html_clean o = true.
Proof. exact tie_no_raw_context_text. Qed.
Print Assumptions C02_no_raw_context_text.

(* Template.execute *)
Theorem C02_no_raw_context_text_execute : forall lz se globals f nd g t ctx o st',
  ok_template lz t = true -> ctx_ok lz globals = true -> lazy_ok lz se -> unmarked_ctx ctx = true ->
  exec_template_unbuffered se globals f (mkM [] nd g) t ctx = (o, Ok st') -> html_clean o = true.
Proof. exact tie_no_raw_context_text_execute. Qed.
Print Assumptions C02_no_raw_context_text_execute.

(* no lazy include anywhere: nothing assumed about the compiler *)
Theorem C02_no_raw_context_text_static : forall se globals f nd g t ctx o st',
  ok_template false t = true -> ctx_ok false globals = true -> unmarked_ctx ctx = true ->
  exec_template_unbuffered se globals f (mkM [] nd g) t ctx = (o, Ok st') -> html_clean o = true.
Proof. exact tie_no_raw_context_text_static. Qed.
Print Assumptions C02_no_raw_context_text_static.

(* the entry point the correspondence harness uses *)
Theorem C02_run_template_clean : forall lz w t g ctx o,
  ok_template lz t = true -> ctx_ok lz (w_globals w) = true -> lazy_ok lz (world_senv w) ->
  unmarked_ctx ctx = true -> run_template w t g ctx = OOk o -> html_clean o = true.
Proof. exact tie_run_template_clean. Qed.
Print Assumptions C02_run_template_clean.

Theorem C02_unmarked_ctx_ok : forall lz ctx, unmarked_ctx ctx = true -> ctx_ok lz ctx = true.
Proof. exact tie_unmarked_ctx_ok. Qed.
Print Assumptions C02_unmarked_ctx_ok.

(* ---------- 2. from any state that satisfies the invariant ---------- *)
Theorem C02_template_in_state : forall lz se globals f st t ctx o st',
  ctx_ok lz globals = true -> lazy_ok lz se ->
  tclean lz st -> ok_template lz t = true -> ctx_ok lz ctx = true ->
  exec_template se globals f st t ctx = (o, Ok st') -> html_clean o = true /\ tclean lz st'.
Proof. exact tie_template_in_state. Qed.
Print Assumptions C02_template_in_state.

Theorem C02_nodes_output_clean : forall lz se globals f st ns o st',
  ctx_ok lz globals = true -> lazy_ok lz se ->
  tclean lz st -> ok_nodes lz ns = true -> exec_nodes se globals f st ns = (o, Ok st') ->
  html_clean o = true /\ tclean lz st'.
Proof. exact tie_nodes_output_clean. Qed.
Print Assumptions C02_nodes_output_clean.

(* ---------- 3. expressions ---------- *)
Theorem C02_eval_marked_is_clean : forall lz se globals f st e v st',
  ctx_ok lz globals = true -> lazy_ok lz se ->
  tclean lz st -> eval se globals f st e = Ok (v, st') -> tclean lz st' /\ mark_ok v = true.
Proof. exact tie_eval_clean. Qed.
Print Assumptions C02_eval_marked_is_clean.

Theorem C02_macro_result_clean : forall lz se globals f st m fi args v st',
  ctx_ok lz globals = true -> lazy_ok lz se ->
  tclean lz st -> ok_macro lz m = true -> call_macro se globals f st m fi args = Ok (v, st') ->
  tclean lz st' /\ vsafe v = true /\ exists out, vv v = VStr out /\ html_clean out = true.
Proof. exact tie_macro_result_clean. Qed.
Print Assumptions C02_macro_result_clean.

(* ---------- 4. the filter tag ---------- *)
Theorem C02_tag_filters_keep_escaped_form : forall se name x p r,
  str_in name clean_tag_filters = true -> val_clean (vv x) = true ->
  apply_filter_se se name x p = Ok r -> val_clean (vv r) = true.
Proof. exact tie_tag_filters_keep_clean. Qed.
Print Assumptions C02_tag_filters_keep_escaped_form.

(* FALSE beyond that list, with no context parameter in sight: over x = <b>& the body {{ x }} writes
   &lt;b&gt;&amp; and then upper / first / truncatechars:4 / add:"<" leave text that is not in
   escaped form (a dangling & or a raw <) *)
Theorem C02b_filter_tag_why_restricted :
  fst (exec_node w_se [] 20 w_state (NFilterTag [(n_upper, None)] [NVar w_var]))
    = [38; 76; 84; 59; 66; 38; 71; 84; 59; 38; 65; 77; 80; 59] /\
  html_clean [38; 76; 84; 59; 66; 38; 71; 84; 59; 38; 65; 77; 80; 59] = false /\
  fst (exec_node w_se [] 20 w_state (NFilterTag [(n_first, None)] [NVar w_var])) = [38] /\
  html_clean [38] = false /\
  fst (exec_node w_se [] 20 w_state (NFilterTag [(n_truncatechars, Some (EInt 4))] [NVar w_var])) = [38; 46; 46; 46] /\
  html_clean [38; 46; 46; 46] = false /\
  fst (exec_node w_se [] 20 w_state (NFilterTag [(n_add, Some (EStr [60]))] [NVar w_var])) = w_escaped ++ [60] /\
  html_clean (w_escaped ++ [60]) = false.
Proof. exact tie_filter_tag_not_clean. Qed.
Print Assumptions C02b_filter_tag_why_restricted.

(* ---------- 5. non-vacuity ---------- *)
(* a child template extending a parent: a macro with a default taken from the context, its call,
   the result combined with raw text and printed again, block.Super, a static include with
   `with ... only`, spaceless, a filter tag, a cycle over x and block.Super.  It is without
   opt-outs, the context (x = <b>&) is unmarked, the run succeeds, and the output contains the
   escaped x and is in escaped form (as the theorem says) *)
Example C02b_witness_template :
  ok_template false w2_child = true /\ unmarked_ctx w_ctx = true /\
  match exec_template_unbuffered w_se [] 60 (mkM [] [] (mkG 5 [])) w2_child w_ctx with
  | (o, Ok _) => contains w_escaped o && html_clean o && Nat.ltb 100 (length o)
  | _ => false
  end = true.
Proof. vm_compute. repeat split; reflexivity. Qed.

(* a state that satisfies the invariant while holding a macro, a marked value and raw data; the
   macro call m(x) in it yields a marked value (so the conclusion of C02_eval_marked_is_clean is
   not about unmarked values only), and x itself is the raw text *)
Example C02b_witness_state :
  tclean false w2_state /\
  match eval w_se [] 30 w2_state (EFilt (EVar [PIdent w2_m (Some [w_var])]) []) with
  | Ok (v, _) => vsafe v && val_clean (vv v)
  | _ => false
  end = true /\
  match eval w_se [] 30 w2_state w_var with
  | Ok (v, _) => negb (vsafe v) && negb (val_clean (vv v))
  | _ => false
  end = true.
Proof. vm_compute. repeat split; reflexivity. Qed.

(* lazy includes: a set without loaders satisfies the hypothesis about run-time compiles *)
Example C02b_witness_lazy : lazy_ok true w_se.
Proof. exact tie_lazy_ok_no_loader. Qed.

(* through the lexer and parser: the child source (a string template) extends "base" from a
   loader and includes "inc"; what the parser builds is without opt-outs, and rendering with
   x = <b>& succeeds with output in escaped form that contains the escaped x *)
Example C02b_witness_end_to_end :
  match compile_src (world_senv e2e_world) big_fuel [60; 115; 116; 114; 105; 110; 103; 62] true e2e_child g0 with
  | Ok (t, _) => ok_template false t
  | _ => false
  end = true /\
  match api_render_string e2e_world e2e_child w_ctx with
  | OOk o => contains w_escaped o && html_clean o && Nat.ltb 100 (length o)
  | _ => false
  end = true.
Proof. vm_compute. split; reflexivity. Qed.

(* ================= Part II: templates whose own text contains markup ================= *)
(* ---------- 6. the main statement ---------- *)
Theorem C02_output_literals_and_escaped : forall lit lz se globals f nd g t ctx o st',
  ok_template_m lit lz t = true -> ctx_m lit lz globals -> lazy_m lit lz se -> unmarked_ctx ctx = true ->
  exec_template se globals f (mkM [] nd g) t ctx = (o, Ok st') -> pieces lit o.
Proof. exact tie_output_literals_and_escaped. Qed.
Print Assumptions C02_output_literals_and_escaped.

Theorem C02_output_literals_and_escaped_execute : forall lit lz se globals f nd g t ctx o st',
  ok_template_m lit lz t = true -> ctx_m lit lz globals -> lazy_m lit lz se -> unmarked_ctx ctx = true ->
  exec_template_unbuffered se globals f (mkM [] nd g) t ctx = (o, Ok st') -> pieces lit o.
Proof. exact tie_output_literals_and_escaped_execute. Qed.
Print Assumptions C02_output_literals_and_escaped_execute.

Theorem C02_run_template_pieces : forall lit lz w t g ctx o,
  ok_template_m lit lz t = true -> ctx_m lit lz (w_globals w) -> lazy_m lit lz (world_senv w) ->
  unmarked_ctx ctx = true -> run_template w t g ctx = OOk o -> pieces lit o.
Proof. exact tie_run_template_pieces. Qed.
Print Assumptions C02_run_template_pieces.

(* the hypotheses about globals and run-time compiles in their simplest instances *)
Theorem C02_markup_hypotheses_simple : forall lit lz se ctx,
  ctx_m lit lz [] /\ lazy_m lit false se /\ (unmarked_ctx ctx = true -> ctx_m lit lz ctx).
Proof. exact tie_markup_hypotheses_simple. Qed.
Print Assumptions C02_markup_hypotheses_simple.

Theorem C02_markup_template_in_state : forall lit lz se globals f st t ctx o st',
  ctx_m lit lz globals -> lazy_m lit lz se ->
  tclean_m lit lz st -> ok_template_m lit lz t = true -> ctx_m lit lz ctx ->
  exec_template se globals f st t ctx = (o, Ok st') -> pieces lit o /\ tclean_m lit lz st'.
Proof. exact tie_markup_template_in_state. Qed.
Print Assumptions C02_markup_template_in_state.

Theorem C02_markup_nodes : forall lit lz se globals f st ns o st',
  ctx_m lit lz globals -> lazy_m lit lz se ->
  tclean_m lit lz st -> ok_nodes_m lit lz ns = true -> exec_nodes se globals f st ns = (o, Ok st') ->
  pieces lit o /\ tclean_m lit lz st'.
Proof. exact tie_markup_nodes. Qed.
Print Assumptions C02_markup_nodes.

Theorem C02_markup_eval : forall lit lz se globals f st e v st',
  ctx_m lit lz globals -> lazy_m lit lz se ->
  tclean_m lit lz st -> eval se globals f st e = Ok (v, st') -> tclean_m lit lz st' /\ mark_pieces lit v.
Proof. exact tie_markup_eval. Qed.
Print Assumptions C02_markup_eval.

Theorem C02_markup_macro_result : forall lit lz se globals f st m fi args v st',
  ctx_m lit lz globals -> lazy_m lit lz se ->
  tclean_m lit lz st -> ok_macro_m lit lz m = true -> call_macro se globals f st m fi args = Ok (v, st') ->
  tclean_m lit lz st' /\ vsafe v = true /\ exists out, vv v = VStr out /\ pieces lit out.
Proof. exact tie_markup_macro_result. Qed.
Print Assumptions C02_markup_macro_result.

(* ---------- 7. what [pieces] buys ---------- *)
Theorem C02_pieces_no_foreign_byte : forall lit b o,
  dangerous b = true -> (forall val, lit val = true -> ~ In b val) -> pieces lit o -> ~ In b o.
Proof. exact tie_pieces_no_foreign_byte. Qed.
Print Assumptions C02_pieces_no_foreign_byte.

Theorem C02_pieces_inert_is_clean : forall lit o,
  (forall val, lit val = true -> forallb inert_byte val = true) -> pieces lit o -> html_clean o = true.
Proof. exact tie_pieces_inert_clean. Qed.
Print Assumptions C02_pieces_inert_is_clean.

(* ---------- 8. non-vacuity ---------- *)
(* the child (a string template: a macro that wraps its argument in a b element with a quoted
   attribute, its call, block.Super inside a p element, the macro's result escaped as a whole by a
   filter tag) extends a base with html/body/i elements.  Its literal texts are the eight strings
   of [e2m_lits]; what the parser builds satisfies [ok_template_m]; rendering over the hostile x
   succeeds; the escaped x is in the output *)
Example C02b_witness_markup :
  match compile_src (world_senv e2m_world) big_fuel [60; 115; 116; 114; 105; 110; 103; 62] true e2m_child g0 with
  | Ok (t, _) => ok_template_m e2m_lit false t
  | _ => false
  end = true /\
  unmarked_ctx e2m_ctx = true /\
  match api_render_string e2m_world e2m_child e2m_ctx with
  | OOk o => contains (filter_escape ([39; 34; 62; 60; 38] ++ [115; 99; 114; 105; 112; 116; 62])) o && negb (html_clean o)
  | _ => false
  end = true.
Proof. vm_compute. repeat split; reflexivity. Qed.

(* ... and by C02_run_template_pieces + C02_pieces_no_foreign_byte, since no literal text of that
   template contains a single quote: no execution of it, over any unmarked context, writes one *)
Example C02b_witness_markup_no_quote : forall t g ctx o,
  ok_template_m e2m_lit false t = true -> unmarked_ctx ctx = true ->
  run_template e2m_world t g ctx = OOk o -> ~ In 39 o.
Proof. exact tie_e2m_never_writes_quote. Qed.


(* ==================== second part ==================== *)

(* ---------- 1. from the scan to the hypotheses of Props/C02.v ---------- *)
(* newTemplate on a source (a string template when isstr): any fuel, any name, any state *)
Theorem C02c_compile_ok_template : forall lz se f name isstr src g t g',
  no_optout_set lz se = true -> no_optout_source lz src = true ->
  compile_src se f name isstr src g = Ok (t, g') -> ok_template lz t = true.
Proof. exact tie_compile_src_ok_template. Qed.
Print Assumptions C02c_compile_ok_template.

(* set.FromFile: every file of a scanned set *)
Theorem C02c_compile_file_ok_template : forall lz se f name g t g',
  no_optout_set lz se = true ->
  compile_file se f name g = Ok (t, g') ->
  ok_template lz t = true /\ forallb (fun m => ok_macro lz (snd m)) (tpl_exported t) = true.
Proof. exact tie_compile_file_ok_template. Qed.
Print Assumptions C02c_compile_file_ok_template.

(* below the lexer: parseDocument on any token list that passes the scan *)
Theorem C02c_parse_ok_nodes : forall lz se f tst g toks ns st',
  no_optout_set lz se = true -> no_optout_tokens lz toks = true ->
  t_blocks tst = [] -> t_exported tst = [] -> t_parent tst = None ->
  parse_doc se f (tst, g) (annotate None toks) = Ok (ns, st') -> ok_nodes lz ns = true.
Proof. exact tie_parse_doc_ok_nodes. Qed.
Print Assumptions C02c_parse_ok_nodes.

(* what the set compiles at run time is without opt-outs *)
Theorem C02c_lazy_ok : forall lz se, no_optout_set lz se = true -> lazy_ok lz se.
Proof. exact tie_lazy_ok_of_set. Qed.
Print Assumptions C02c_lazy_ok.

(* ---------- 2. the whole pipeline ---------- *)
(* set.FromString(src) then Execute(ctx) *)
Theorem C02_source_level : forall lz w src ctx o,
  no_optout_world lz w = true -> no_optout_source lz src = true ->
  ctx_ok lz (w_globals w) = true -> unmarked_ctx ctx = true ->
  api_render_string w src ctx = OOk o -> html_clean o = true.
Proof. exact tie_source_level_string. Qed.
Print Assumptions C02_source_level.

(* set.FromFile(name) then Execute(ctx): the entry is one of the world's files *)
Theorem C02_source_level_file : forall lz w name ctx o,
  no_optout_world lz w = true ->
  ctx_ok lz (w_globals w) = true -> unmarked_ctx ctx = true ->
  api_render_file w name ctx = OOk o -> html_clean o = true.
Proof. exact tie_source_level_file. Qed.
Print Assumptions C02_source_level_file.

(* any set, any fuel, any compile-wide and execution state; Template.ExecuteWriter *)
Theorem C02_source_level_execute : forall lz se globals fc fe name isstr src gc t gc' nd g ctx o st',
  no_optout_set lz se = true -> no_optout_source lz src = true ->
  ctx_ok lz globals = true -> unmarked_ctx ctx = true ->
  compile_src se fc name isstr src gc = Ok (t, gc') ->
  exec_template se globals fe (mkM [] nd g) t ctx = (o, Ok st') -> html_clean o = true.
Proof. exact tie_source_level_execute. Qed.
Print Assumptions C02_source_level_execute.

(* ---------- 3. the two scans ---------- *)
Theorem C02c_lazy_allowed_is_weaker : forall se src,
  (no_optout_source false src = true -> no_optout_source true src = true) /\
  (no_optout_set false se = true -> no_optout_set true se = true).
Proof. exact tie_no_optout_mono. Qed.
Print Assumptions C02c_lazy_allowed_is_weaker.

(* ---------- 4. non-vacuity ---------- *)
(* the world of Spec/SpecTaint3.v: files base, inc, child; child extends base, defines and calls
   a macro with a default taken from the context, prints block.Super, includes inc with
   `with ... only`, uses spaceless, a filter tag and cycle.  Every file passes the scan (so the
   hypotheses of C02_source_level_file hold), x is hostile (the bytes 39 34 62 60 38, then
   script, then 62) and unmarked, rendering child succeeds, and - as the theorem says - the output is in
   escaped form; it contains the escaped x *)
Example C02c_witness_end_to_end :
  no_optout_world false s3_world = true /\ ctx_ok false (w_globals s3_world) = true /\
  unmarked_ctx s3_ctx = true /\ html_clean s3_hostile = false /\
  match api_render_file s3_world s3_child s3_ctx with
  | OOk o => contains (filter_escape s3_hostile) o && html_clean o && Nat.ltb 100 (length o)
  | _ => false
  end = true.
Proof. vm_compute. repeat split; reflexivity. Qed.

(* the same source given as a string template (FromString), over the same world *)
Example C02c_witness_string :
  no_optout_source false e2e_child = true /\
  match api_render_string s3_world e2e_child s3_ctx with
  | OOk o => contains (filter_escape s3_hostile) o && html_clean o
  | _ => false
  end = true.
Proof. vm_compute. split; reflexivity. Qed.

(* a lazy include: {% include n %}{{ x }} with n = "inc" from the context.  It passes the scan
   that allows lazy includes (and not the other one); the world's files pass it too; the file
   named at run time is compiled and run, and the output is in escaped form *)
Example C02c_witness_lazy :
  no_optout_source true s3_lazy = true /\ no_optout_source false s3_lazy = false /\
  no_optout_world true s3_world = true /\ unmarked_ctx s3_lazy_ctx = true /\
  match api_render_string s3_world s3_lazy s3_lazy_ctx with
  | OOk o => contains (filter_escape s3_hostile ++ [33]) o && html_clean o
  | _ => false
  end = true.
Proof. vm_compute. repeat split; reflexivity. Qed.

(* every item of the scan's list is needed: x|safe, autoescape off, a filter tag with a
   parameter, firstof x|safe, a plain ssi of a file with markup, literal markup - each is
   rejected (with or without lazy includes), and each writes text that is not in escaped form *)
Example C02c_optouts_rejected_and_leak :
  forallb (fun src => negb (no_optout_source false src) && negb (no_optout_source true src) &&
                      match api_render_string s3_raw_world src s3_ctx with
                      | OOk o => negb (html_clean o)
                      | _ => false
                      end)
          [s3_src_safe; s3_src_off; s3_src_filter; s3_src_firstof; s3_src_ssi; s3_src_markup] = true.
Proof. vm_compute. reflexivity. Qed.

(* ... while these are fine: a variable called safe, autoescape on, a filter tag over allowed
   names, ssi parsed *)
Example C02c_lookalikes_accepted :
  no_optout_source false s3_src_fine = true /\
  match api_render_string s3_world s3_src_fine s3_lazy_ctx with
  | OOk o => contains (filter_escape s3_hostile) o && html_clean o
  | _ => false
  end = true.
Proof. vm_compute. split; reflexivity. Qed.

(* ================= Part II: sources whose own text contains markup ================= *)
(* ---------- 5. from the scan to the hypotheses, and the whole pipeline ---------- *)
Theorem C02c_compile_ok_template_m : forall lit lz se f name isstr src g t g',
  templatetags_in lit = true ->
  no_optout_set_m lit lz se = true -> no_optout_source_m lit lz src = true ->
  compile_src se f name isstr src g = Ok (t, g') -> ok_template_m lit lz t = true.
Proof. exact tie_compile_src_ok_template_m. Qed.
Print Assumptions C02c_compile_ok_template_m.

Theorem C02c_compile_file_ok_template_m : forall lit lz se f name g t g',
  templatetags_in lit = true ->
  no_optout_set_m lit lz se = true ->
  compile_file se f name g = Ok (t, g') ->
  ok_template_m lit lz t = true /\ forallb (fun m => ok_macro_m lit lz (snd m)) (tpl_exported t) = true.
Proof. exact tie_compile_file_ok_template_m. Qed.
Print Assumptions C02c_compile_file_ok_template_m.

Theorem C02c_lazy_m : forall lit lz se,
  templatetags_in lit = true -> no_optout_set_m lit lz se = true -> lazy_m lit lz se.
Proof. exact tie_lazy_m_of_set. Qed.
Print Assumptions C02c_lazy_m.

Theorem C02_source_level_markup : forall lit lz w src ctx o,
  templatetags_in lit = true ->
  no_optout_world_m lit lz w = true -> no_optout_source_m lit lz src = true ->
  ctx_m lit lz (w_globals w) -> unmarked_ctx ctx = true ->
  api_render_string w src ctx = OOk o -> pieces lit o.
Proof. exact tie_source_level_markup_string. Qed.
Print Assumptions C02_source_level_markup.

Theorem C02_source_level_markup_file : forall lit lz w name ctx o,
  templatetags_in lit = true ->
  no_optout_world_m lit lz w = true ->
  ctx_m lit lz (w_globals w) -> unmarked_ctx ctx = true ->
  api_render_file w name ctx = OOk o -> pieces lit o.
Proof. exact tie_source_level_markup_file. Qed.
Print Assumptions C02_source_level_markup_file.

Theorem C02c_markup_lazy_allowed_is_weaker : forall lit se src,
  (no_optout_source_m lit false src = true -> no_optout_source_m lit true src = true) /\
  (no_optout_set_m lit false se = true -> no_optout_set_m lit true se = true).
Proof. exact tie_markup_no_optout_mono. Qed.
Print Assumptions C02c_markup_lazy_allowed_is_weaker.

(* ---------- 6. the sources' own text as [lit] ---------- *)
(* [lit_of srcs] contains the templatetag texts ... *)
Theorem C02c_own_text_has_templatetags : forall srcs, templatetags_in (lit_of srcs) = true.
Proof. exact tie_lit_of_templatetags. Qed.
Print Assumptions C02c_own_text_has_templatetags.

(* ... and every text token of the sources, so literal text is not scanned: the output is made
   of pieces of the sources' own text tokens (the entry and every file of the world; or a
   templatetag text) and of escaped chunks *)
Theorem C02_source_level_own_text : forall lz w src ctx o,
  no_optout_world_t lz w = true -> no_optout_source_t lz src = true ->
  ctx_m (lit_of (src :: world_sources w)) lz (w_globals w) -> unmarked_ctx ctx = true ->
  api_render_string w src ctx = OOk o -> pieces (lit_of (src :: world_sources w)) o.
Proof. exact tie_source_level_own_text. Qed.
Print Assumptions C02_source_level_own_text.

Theorem C02_source_level_own_text_file : forall lz w name ctx o,
  no_optout_world_t lz w = true ->
  ctx_m (lit_of (world_sources w)) lz (w_globals w) -> unmarked_ctx ctx = true ->
  api_render_file w name ctx = OOk o -> pieces (lit_of (world_sources w)) o.
Proof. exact tie_source_level_own_text_file. Qed.
Print Assumptions C02_source_level_own_text_file.

(* ---------- 7. non-vacuity ---------- *)
(* the child of Spec/SpecTaint2.v (a macro that wraps its argument in a b element with a quoted
   attribute, its call, block.Super inside a p element, the macro's result escaped as a whole by a
   filter tag) extends a base with html / body / i elements.  World and child pass the scan that
   does not look at text, and also the scan for the eight literal texts of [e2m_lits] extended
   by the templatetag texts; rendering over the hostile x succeeds; the escaped x is in the
   output, which as a whole is NOT in escaped form (it contains the template's markup) *)
Example C02c_witness_markup :
  no_optout_world_t false e2m_world = true /\ no_optout_source_t false e2m_child = true /\
  (let lit := fun v => e2m_lit v || str_in v templatetag_texts in
   templatetags_in lit && no_optout_world_m lit false e2m_world && no_optout_source_m lit false e2m_child) = true /\
  unmarked_ctx e2m_ctx = true /\
  match api_render_string e2m_world e2m_child e2m_ctx with
  | OOk o => contains (filter_escape ([39; 34; 62; 60; 38] ++ [115; 99; 114; 105; 112; 116; 62])) o && negb (html_clean o)
  | _ => false
  end = true.
Proof. vm_compute. repeat split; reflexivity. Qed.

(* spaceless is what Part II rejects and Part I accepts *)
Example C02c_witness_spaceless :
  no_optout_source false e2e_child = true /\ no_optout_source_t false e2e_child = false.
Proof. vm_compute. split; reflexivity. Qed.

(* by C02_source_level_own_text and C02_pieces_no_foreign_byte (Props/C02.v): no text token of
   those sources contains a single quote, so no rendering of the child, over any unmarked
   context, writes one *)
Example C02c_witness_markup_no_quote : forall ctx o,
  unmarked_ctx ctx = true -> api_render_string e2m_world e2m_child ctx = OOk o -> ~ In 39 o.
Proof. exact tie_e2m_source_never_writes_quote. Qed.
Print Assumptions C02c_witness_markup_no_quote.
