(* Property C17 - escaping filters neutralise exactly what they promise and lose nothing.
   This file holds only statements, each closed by [exact] of a lemma proved elsewhere,
   with its assumptions printed.  The filters are the model of Model/EscFilters.v
   computing with the tables go2v regenerated from /repo (gen/Tables.v). *)
From PV Require Import Lib.Bytes Lib.Utf8 Lib.GoInt gen.Tables Model.EscFilters Spec.SpecEsc.
From PV Require Import Tie.C17.
Open Scope N_scope.

(* escape / e: none of the four dangerous characters (see [dangerous]) in the output, every ampersand starts one of the five entities *)
Theorem C17_escape_clean : forall s : str,
  forallb (fun b => negb (dangerous b)) (filter_escape s) = true /\ amp_ok (filter_escape s) = true.
Proof. exact tie_escape_clean. Qed.
Print Assumptions C17_escape_clean.

(* ... and HTML-unescaping it gives back the input *)
Theorem C17_unescape_escape : forall s : str, unescape5 0 (filter_escape s) = s.
Proof. exact tie_unescape_escape. Qed.
Print Assumptions C17_unescape_escape.

(* escapejs: only ASCII letters, space, / and \uXXXX escapes ... *)
Theorem C17_escapejs_alphabet : forall s : str, js_units 0 (filter_escapejs s) <> None.
Proof. exact tie_escapejs_alphabet. Qed.
Print Assumptions C17_escapejs_alphabet.

(* ... that decode to the input's characters.  Full statement: *)
Definition C17_escapejs_decodes_full : Prop :=
  forall s : str, Forall (fun b => b < 256) s ->
    js_decode (filter_escapejs s) = Some (valid_runes s).
(* It is false of the code: a backslash followed by r or n is rewritten to CR / LF
   (pinned by the fixture template_tests/filters.tpl; known finding). *)
Theorem C17_escapejs_decodes_refuted : ~ C17_escapejs_decodes_full.
Proof. exact tie_escapejs_decodes_refuted. Qed.
Print Assumptions C17_escapejs_decodes_refuted.
(* What holds: the statement for every input without those two sequences. *)
Theorem C17_escapejs_decodes_partial : forall s : str,
  Forall (fun b => b < 256) s -> no_bs_rn s = true ->
  js_decode (filter_escapejs s) = Some (valid_runes s).
Proof. exact tie_escapejs_decodes. Qed.
Print Assumptions C17_escapejs_decodes_partial.

(* urlencode: query-safe output that decodes to the input *)
Theorem C17_urlencode_safe : forall s : str,
  Forall (fun b => b < 256) s -> forallb query_safe (filter_urlencode s) = true.
Proof. exact tie_urlencode_safe. Qed.
Print Assumptions C17_urlencode_safe.
Theorem C17_urlencode_roundtrip : forall s : str,
  Forall (fun b => b < 256) s -> query_unescape 0 (filter_urlencode s) = Some s.
Proof. exact tie_urlencode_roundtrip. Qed.
Print Assumptions C17_urlencode_roundtrip.

(* iriencode leaves only its reserved set and unreserved characters unencoded *)
Theorem C17_iriencode_alphabet : forall s : str,
  Forall (fun b => b < 256) s -> iri_alphabet 0 (filter_iriencode s) = true.
Proof. exact tie_iriencode_alphabet. Qed.
Print Assumptions C17_iriencode_alphabet.

(* addslashes: a backslash before every quote and backslash and nothing else *)
Theorem C17_addslashes_exact : forall s : str, strip_slashes (filter_addslashes s) = Some s.
Proof. exact tie_addslashes_exact. Qed.
Print Assumptions C17_addslashes_exact.

(* striptags leaves no complete tag, and removes only tags and outer white space *)
Theorem C17_striptags_no_complete_tag : forall s : str,
  has_complete_tag (filter_striptags s) = false.
Proof. exact tie_striptags_no_complete_tag. Qed.
Print Assumptions C17_striptags_no_complete_tag.

Theorem C17_striptags_only_tags : forall s : str,
  exists r0, deletes_between s r0 /\ trimmed_of r0 (filter_striptags s).
Proof. exact tie_striptags_only_tags. Qed.
Print Assumptions C17_striptags_only_tags.

(* removetags removes only the named tags (and outer white space) *)
Theorem C17_removetags_only_named : forall (s param r : str),
  filter_removetags s param = Some r ->
  exists tags r0, Forall (fun t => is_alpha t = true) tags /\
                  deletes_seq tags s r0 /\ trimmed_of r0 r.
Proof. exact tie_removetags_only_named. Qed.
Print Assumptions C17_removetags_only_named.

(* safe returns its input unchanged *)
Theorem C17_safe_identity : forall s : str, filter_safe s = s.
Proof. exact tie_safe_identity. Qed.
Print Assumptions C17_safe_identity.

(* Non-vacuity: the hypotheses are met by non-trivial inputs, and the filters do
   something on them. *)
Example C17_witness_escape :
  filter_escape [60; 97; 38; 39; 62] = ent_lt ++ [97] ++ ent_amp ++ ent_apos ++ ent_gt.
Proof. vm_compute. reflexivity. Qed.
Example C17_witness_escapejs :
  no_bs_rn [240; 159; 152; 128; 92; 34] = true /\
  js_decode (filter_escapejs [240; 159; 152; 128; 92; 34]) = Some [128512; 92; 34].
Proof. vm_compute. split; reflexivity. Qed.
