(* Property C10 - template inheritance.
   Rendering a template that (transitively) extends a base renders the base's document in which
   every block shows the definition from the most-derived template that defines it - also for
   blocks nested in other blocks, in branches or in loops - and block.Super inside a definition
   yields the next less-derived definition (empty at the base), to any depth.  What a child
   writes outside blocks is ignored; a second or nested extends and a duplicate block name are
   compile errors; rendering a parent directly is unaffected by its children.

   What each theorem contributes (definitions: Spec/SpecInherit.v):
   - C10_chain: the chain the executor computes for a template is its list of ancestors, base
     first, the template itself last (for every template of depth <= 1001: the executor's walk
     is bounded by 1000 steps).
   - C10_root_document(_buffered): executing t executes the node list of the BASE of t's chain
     in a fresh frame whose chain is t's chain; C10_child_root_ignored: the base of a child is
     the base of its parent - the child's own root nodes do not occur in what is executed
     (they are reachable only through its block table); C10_base_extends_nothing.
   - C10_block_most_derived_wins: a block node collects the definitions of its name along the
     chain (C10_defs_child / C10_defs_base: the definitions of the ancestors in order, then the
     template's own one if it has one), runs the LAST one with "block" bound to the remaining,
     less derived ones, and afterwards puts "block" back to what the enclosing block had.
     The rule uses only the chain of the current frame, and C10_chain_inherited says every
     frame pushed for a branch, loop, with, macro or Super call has the chain of its parent:
     so it is the same rule for blocks nested in blocks, branches and loops.
     C10_block_undefined: no definition anywhere is an execution error.
   - C10_super_is_next: Super on definitions less ++ [d] runs d in a child of the frame the
     block was entered in, with "block" bound to less; C10_super_at_base: on no definitions it
     is the empty safe string; C10_block_super_resolves: the expression block.Super calls it
     with the definitions "block" is bound to; C10_super_any_depth: with n stacked definitions
     "x_i{{ block.Super }}" the result is x_n ... x_1 and the state is unchanged - for every n.
   - C10_extends_nested_error, C10_extends_in_body_error, C10_extends_twice_error,
     C10_block_duplicate_error: the compile errors; C10_blocks_unique: consequently no template
     that compiles has two definitions of one block name (proved over the whole parser); C10_extends_ok, C10_block_new_ok: the
     accepted forms and what they record; C10_tag_level: tags of a tag's body are parsed one
     level deeper than the tag.
   - "rendering a parent directly is unaffected by its children": in the model a compiled
     template is an immutable value and compiling a child builds a new value that points to
     the parent, so there is nothing a child could change; executing p is a function of
     (set, globals, state, p, context) only.  No theorem is stated for it (it would be
     [f x = f x]); that the Go code does not write a parent template while compiling or
     executing a child is the effect analysis tied in Tie/C05 (no reachable write to a
     Template field outside newTemplate).  The example C10_example_parent_direct shows the
     base of the example set rendering its own defaults. *)
(* ---- second part (statements appended below) ---- *)
(* Property C10 - template inheritance, second part: WHAT A CHILD WRITES OUTSIDE ITS BLOCKS IS
   IGNORED, as a non-interference statement.

   Two templates that are the same except for the root node lists (the text, variables and
   tags written at top level) of the members of their inheritance chains that extend something
   render identically: the same output, the same outcome, the same final state - from every
   state, with every context, at every fuel, whatever the documents contain (blocks nested in
   blocks, block.Super, macros, includes of other templates, lazy includes, ssi).
   Definitions: Spec/SpecInherit2.v (same_but_root, drop_child_roots, with_root_at, the
   "alike" relations, tower), Spec/SpecInherit.v (depth).

   What each theorem contributes:
   - C10_outside_blocks_ignored (tags' entry point exec_template),
     C10_outside_blocks_ignored_unbuffered (Template.execute) and C10_outside_blocks_ignored_api
     (the API entry point run_template): same_but_root t1 t2 gives equal results.  A template
     without parent is same_but_root only to itself (its root nodes ARE the document), so the
     statement says something exactly for children.  The bound depth <= 1001 is the bound of
     C10_chain: the executor's walk up the chain is 1000 steps.
   - C10_depth_bound_needed: the bound cannot be dropped - for a chain of 1002 members the
     model executes the root nodes of member 1001 (a child), so two templates that differ only
     there render "x" and "".  (A finding about the model's bounded walk, not about pongo2.)
   - C10_root_nodes_unused: replacing the root nodes of ALL members that have a parent by
     nothing does not change the result; C10_root_nodes_unused_at: replacing the root nodes of
     any ONE such member (k levels up) by anything does not change it.
   - How it is proved, stated in its own right: C10_exec_respects_alike / C10_eval_respects_alike
     / C10_include_respects_alike - two states that differ only in the parts of the templates on
     their frames' chains that the executor never reads (root nodes, parent, exported macros;
     relation state_alike) give the same output / value and again alike states, for node lists,
     expressions, and the execution of any (one) template from a tag.  This is one simulation
     over all 17 mutually recursive executor functions, nothing left out (includes and ssi
     re-enter the executor with the SAME template on both sides, so they are covered).
     C10_root_frames_alike: the states in which the documents of t1 and t2 start are alike. *)
From PV Require Import Model.Exec Model.Api Spec.SpecComposeExamples Spec.SpecInherit.
From PV Require Import Tie.C10.
From PV Require Import Model.Exec Model.Api Spec.SpecComposeExamples Spec.SpecInherit Spec.SpecInherit2.
From PV Require Import Tie.C10b.
Open Scope N_scope.

Theorem C10_chain : forall t, (depth t <= 1001)%nat -> tpl_chain t = chain_of t.
Proof. exact tpl_chain_spec. Qed.
Print Assumptions C10_chain.

Theorem C10_root_document : forall se globals f st t ctx,
  ctx_ok globals t ctx = true -> (depth t <= 1001)%nat ->
  exec_template_unbuffered se globals (S f) st t ctx =
    match exec_nodes se globals f (enter globals st t ctx) (tpl_root (root_of t)) with
    | (o, Ok st1) => xok o (pop_frame st1)
    | other => other
    end /\
  (forall fr, top_frame (enter globals st t ctx) = Ok fr -> f_chain fr = chain_of t).
Proof. exact root_document. Qed.
Print Assumptions C10_root_document.

Theorem C10_root_document_buffered : forall se globals f st t ctx,
  ctx_ok globals t ctx = true -> (depth t <= 1001)%nat ->
  exec_template se globals (S (S f)) st t ctx =
    match exec_nodes se globals f (enter globals st t ctx) (tpl_root (root_of t)) with
    | (o, Ok st1) => xok o (pop_frame st1)
    | (_, other) => ([], other)
    end.
Proof. exact root_document_buffered. Qed.
Print Assumptions C10_root_document_buffered.

Theorem C10_child_root_ignored : forall t p, tpl_parent t = Some p -> root_of t = root_of p.
Proof. exact root_of_child. Qed.
Print Assumptions C10_child_root_ignored.

Theorem C10_base_extends_nothing : forall t,
  tpl_parent (root_of t) = None /\ (tpl_parent t = None -> root_of t = t) /\
  forall d, hd d (chain_of t) = root_of t.
Proof. exact root_of_facts. Qed.
Print Assumptions C10_base_extends_nothing.

Theorem C10_block_most_derived_wins : forall se globals f st fr name less d,
  top_frame st = Ok fr ->
  defs_of name (f_chain fr) = less ++ [d] ->
  exec_node se globals (S f) st (NBlock name) =
    match exec_nodes se globals f (bind_block st fr (CBlock (cur_index st) less)) d with
    | (o, Ok st2) =>
        match top_frame st2 with
        | Ok fr2 => xok o (restore_block (ctx_get block_key (f_priv fr)) st2 fr2)
        | other => xfail o other
        end
    | other => other
    end.
Proof. exact block_most_derived_wins. Qed.
Print Assumptions C10_block_most_derived_wins.

Theorem C10_block_undefined : forall se globals f st fr name,
  top_frame st = Ok fr -> defs_of name (f_chain fr) = [] ->
  exec_node se globals (S f) st (NBlock name) = ([], Err 3).
Proof. exact block_undefined. Qed.
Print Assumptions C10_block_undefined.

Theorem C10_defs_child : forall name t p,
  tpl_parent t = Some p ->
  defs_of name (chain_of t) =
    match assoc_get name (tpl_blocks t) with
    | Some body => defs_of name (chain_of p) ++ [body]
    | None => defs_of name (chain_of p)
    end.
Proof. exact defs_of_child. Qed.
Print Assumptions C10_defs_child.

Theorem C10_defs_base : forall name t,
  tpl_parent t = None ->
  defs_of name (chain_of t) = match assoc_get name (tpl_blocks t) with Some body => [body] | None => [] end.
Proof. exact defs_of_base. Qed.
Print Assumptions C10_defs_base.

Theorem C10_chain_inherited : forall fr p a d,
  f_chain (with_priv (child_of fr) p) = f_chain fr /\
  f_chain (with_auto fr a) = f_chain fr /\ f_chain (with_depth fr d) = f_chain fr.
Proof. exact chain_inherited. Qed.
Print Assumptions C10_chain_inherited.

Theorem C10_super_at_base : forall se globals f st fidx,
  call_super se globals (S f) st fidx [] = Ok (as_safe_value (VStr []), st).
Proof. exact super_at_base. Qed.
Print Assumptions C10_super_at_base.

Theorem C10_super_is_next : forall se globals f st fidx less d bfr,
  frame_at st fidx = Some bfr ->
  call_super se globals (S f) st fidx (less ++ [d]) =
    match exec_nodes se globals f (push_frame st (super_frame bfr fidx less)) d with
    | (out, Ok st1) => Ok (as_safe_value (VStr out), pop_frame st1)
    | (_, Err k) => Err 3
    | (_, Unmod) => Unmod
    | (_, Fuel) => Fuel
    | (_, Panic s) => Panic s
    end.
Proof. exact super_is_next. Qed.
Print Assumptions C10_super_is_next.

Theorem C10_block_super_resolves : forall se globals f st fr fidx less,
  top_frame st = Ok fr ->
  ctx_get block_key (f_priv fr) = Some (CBlock fidx less) ->
  resolve se globals (S f) st [PIdent block_key None; PIdent super_key None] =
    call_super se globals f st fidx less.
Proof. exact resolve_block_super. Qed.
Print Assumptions C10_block_super_resolves.

Theorem C10_super_any_depth : forall se globals xs f st fidx bfr,
  frame_at st fidx = Some bfr ->
  (7 * length xs + 1 <= f)%nat ->
  call_super se globals f st fidx (map lit_super xs) = Ok (as_safe_value (VStr (concat (rev xs))), st).
Proof. exact super_any_depth. Qed.
Print Assumptions C10_super_any_depth.

Theorem C10_extends_nested_error : forall se f level args st ts,
  (1 < level)%nat -> tag_parser se (S f) level tagExtendsParser args st ts = Err 2.
Proof. exact extends_nested_error. Qed.
Print Assumptions C10_extends_nested_error.

Theorem C10_extends_in_body_error : forall se f level st nm r args body,
  a_is_ident nm = true -> tval (a_tok nm) = kw_extends ->
  str_in kw_extends (cfg_tags (se_cfg se)) = true ->
  str_in kw_extends (cfg_banned_tags (se_cfg se)) = false ->
  collect_args r [] = Some (args, body) ->
  (1 <= level)%nat ->
  parse_tag se (S (S f)) level st (nm :: r) = Err 2.
Proof. exact tie_extends_in_body_error. Qed.
Print Assumptions C10_extends_in_body_error.

Theorem C10_extends_twice_error : forall se f level args tst g ts p,
  t_parent tst = Some p -> tag_parser se (S f) level tagExtendsParser args (tst, g) ts = Err 2.
Proof. exact extends_twice_error. Qed.
Print Assumptions C10_extends_twice_error.

Theorem C10_extends_ok : forall se f level fname args tst g ts ptpl g1,
  (level <= 1)%nat -> t_parent tst = None -> match_string args = Some (fname, []) ->
  compile_file se f (resolve_filename (t_isstr tst) (t_name tst) fname) g = Ok (ptpl, g1) ->
  tag_parser se (S f) level tagExtendsParser args (tst, g) ts =
    Ok (NExtends, ts, (mkT (t_id tst) (t_name tst) (t_isstr tst) (t_blocks tst) (t_exported tst) (Some ptpl), g1)).
Proof. exact extends_ok. Qed.
Print Assumptions C10_extends_ok.

Theorem C10_block_duplicate_error : forall se f level args st ts bname body en eargs r tst1 g1 old,
  match_ident args = Some (bname, []) ->
  wrap_until se f level [kw_endblock] st ts = Ok (body, en, eargs, r, (tst1, g1)) ->
  assoc_get bname (t_blocks tst1) = Some old ->
  tag_parser se (S f) level tagBlockParser args st ts = Err 2.
Proof. exact block_duplicate_error. Qed.
Print Assumptions C10_block_duplicate_error.

Theorem C10_block_new_ok : forall se f level args st ts bname body en r tst1 g1,
  match_ident args = Some (bname, []) ->
  wrap_until se f level [kw_endblock] st ts = Ok (body, en, [], r, (tst1, g1)) ->
  assoc_get bname (t_blocks tst1) = None ->
  tag_parser se (S f) level tagBlockParser args st ts =
    Ok (NBlock bname, r,
        (mkT (t_id tst1) (t_name tst1) (t_isstr tst1) (t_blocks tst1 ++ [(bname, body)])
             (t_exported tst1) (t_parent tst1), g1)).
Proof. exact block_new_ok. Qed.
Print Assumptions C10_block_new_ok.

Theorem C10_tag_level : forall se f level st nm r impl args body,
  a_is_ident nm = true ->
  str_in (tval (a_tok nm)) (cfg_tags (se_cfg se)) = true ->
  str_in (tval (a_tok nm)) (cfg_banned_tags (se_cfg se)) = false ->
  assoc_get (tval (a_tok nm)) gen.Tables.tag_impl = Some impl ->
  collect_args r [] = Some (args, body) ->
  parse_tag se (S f) level st (nm :: r) = tag_parser se f (S level) impl args st body.
Proof. exact parse_tag_level. Qed.
Print Assumptions C10_tag_level.

(* in global form: no compiled template defines a block twice *)
Theorem C10_blocks_unique : forall se f name isstr src g t g',
  compile_src se f name isstr src g = Ok (t, g') -> NoDup (map fst (tpl_blocks t)).
Proof. exact compile_src_blocks_unique. Qed.
Print Assumptions C10_blocks_unique.

(* ---------- non-vacuity and end-to-end instances ---------- *)
(* the example set c10_world (Spec/SpecComposeExamples.v):
   a base with a block nested in a block, a block in a branch and a block in a loop; a child
   and a grandchild that override some of them, use block.Super to depth two, and write text
   and a variable outside blocks; four sources that must not compile *)
Example C10_example_grandchild :
  api_render_file c10_world [108; 101; 97; 102] (* leaf *) [] = OOk [60; 65; 49; 91; 65; 48; 73; 50; 93; 124; 67; 50; 40; 67; 49; 40; 67; 48; 41; 41; 124; 76; 50; 76; 50; 62] (* <A1[A0I2]|C2(C1(C0))|L2L2> *).
Proof. vm_compute. reflexivity. Qed.

Example C10_example_child :
  api_render_file c10_world [109; 105; 100] (* mid *) [] = OOk [60; 65; 49; 91; 65; 48; 73; 48; 93; 124; 67; 49; 40; 67; 48; 41; 124; 76; 48; 76; 48; 62] (* <A1[A0I0]|C1(C0)|L0L0> *).
Proof. vm_compute. reflexivity. Qed.

Example C10_example_parent_direct :
  api_render_file c10_world [98; 97; 115; 101] (* base *) [] = OOk [60; 65; 48; 73; 48; 124; 67; 48; 124; 76; 48; 76; 48; 62] (* <A0I0|C0|L0L0> *).
Proof. vm_compute. reflexivity. Qed.

Example C10_example_extends_in_body :
  api_render_file c10_world [98; 97; 100; 49] (* bad1 *) [] = OCompileErr 2.
Proof. vm_compute. reflexivity. Qed.

Example C10_example_extends_twice :
  api_render_file c10_world [98; 97; 100; 50] (* bad2 *) [] = OCompileErr 2.
Proof. vm_compute. reflexivity. Qed.

Example C10_example_block_twice :
  api_render_file c10_world [98; 97; 100; 51] (* bad3 *) [] = OCompileErr 2.
Proof. vm_compute. reflexivity. Qed.

Example C10_example_block_in_itself :
  api_render_file c10_world [98; 97; 100; 52] (* bad4 *) [] = OCompileErr 2.
Proof. vm_compute. reflexivity. Qed.

(* the hypotheses of the theorems are met by the compiled grandchild: depth 3, a usable
   context, three definitions of block c and two of block inner along its chain *)
Example C10_example_hypotheses :
  match compile_file (world_senv c10_world) big_fuel [108; 101; 97; 102] (* leaf *) g0 with
  | Ok (t, _) => (depth t, ctx_ok [] t [], length (defs_of [99] (* c *) (chain_of t)),
                  length (defs_of [105; 110; 110; 101; 114] (* inner *) (chain_of t)))
  | _ => (0%nat, false, 0%nat, 0%nat)
  end = (3%nat, true, 3%nat, 2%nat).
Proof. vm_compute. reflexivity. Qed.

(* {{ block.Super }} is parsed to the expression the Super theorems are about *)
Example C10_example_super_expr :
  match lex [123; 123; 32; 98; 108; 111; 99; 107; 46; 83; 117; 112; 101; 114; 32; 125; 125] (* {{ block.Super }} *) with
  | LexOk (_ :: b :: c :: d :: _) => pexpr (mkCfg [] [] [] []) [b; c; d]
  | _ => Unmod
  end = Ok (super_expr, []).
Proof. vm_compute. reflexivity. Qed.


(* ==================== second part ==================== *)

Theorem C10_outside_blocks_ignored : forall se globals t1 t2 f st ctx,
  same_but_root t1 t2 -> (depth t1 <= 1001)%nat ->
  exec_template se globals f st t1 ctx = exec_template se globals f st t2 ctx.
Proof. exact outside_blocks_ignored. Qed.
Print Assumptions C10_outside_blocks_ignored.

Theorem C10_outside_blocks_ignored_unbuffered : forall se globals t1 t2 f st ctx,
  same_but_root t1 t2 -> (depth t1 <= 1001)%nat ->
  exec_template_unbuffered se globals f st t1 ctx = exec_template_unbuffered se globals f st t2 ctx.
Proof. exact outside_blocks_ignored_unbuffered. Qed.
Print Assumptions C10_outside_blocks_ignored_unbuffered.

Theorem C10_outside_blocks_ignored_api : forall w t1 t2 g ctx,
  same_but_root t1 t2 -> (depth t1 <= 1001)%nat ->
  run_template w t1 g ctx = run_template w t2 g ctx.
Proof. exact run_template_outside_blocks_ignored. Qed.
Print Assumptions C10_outside_blocks_ignored_api.

Theorem C10_depth_bound_needed :
  let se := mkSenv [] (mkCfg [] [] [] []) false false in
  let base := Tpl 0 [] true [NTemplatetag [98] (* b *)] [] [] None false false in
  let t1 := tower 1001 [NTemplatetag [120] (* x *)] base in
  let t2 := tower 1001 [] base in
  same_but_root t1 t2 /\ depth t1 = 1002%nat /\
  fst (exec_template se [] 10 (mkM [] [] (mkG 1 [])) t1 []) = [120] (* x *) /\
  fst (exec_template se [] 10 (mkM [] [] (mkG 1 [])) t2 []) = [].
Proof. exact depth_bound_needed. Qed.
Print Assumptions C10_depth_bound_needed.

Theorem C10_root_nodes_unused : forall se globals t f st ctx, (depth t <= 1001)%nat ->
  exec_template se globals f st (drop_child_roots t) ctx = exec_template se globals f st t ctx /\
  exec_template_unbuffered se globals f st (drop_child_roots t) ctx =
    exec_template_unbuffered se globals f st t ctx.
Proof. exact root_nodes_unused. Qed.
Print Assumptions C10_root_nodes_unused.

Theorem C10_root_nodes_unused_at : forall se globals k r t f st ctx, (depth t <= 1001)%nat ->
  exec_template se globals f st (with_root_at k r t) ctx = exec_template se globals f st t ctx /\
  exec_template_unbuffered se globals f st (with_root_at k r t) ctx =
    exec_template_unbuffered se globals f st t ctx.
Proof. exact root_nodes_unused_at. Qed.
Print Assumptions C10_root_nodes_unused_at.

Theorem C10_exec_respects_alike : forall se globals f a b ns,
  state_alike a b -> xres_alike (exec_nodes se globals f a ns) (exec_nodes se globals f b ns).
Proof. exact exec_nodes_respects_alike. Qed.
Print Assumptions C10_exec_respects_alike.

Theorem C10_eval_respects_alike : forall se globals f a b e,
  state_alike a b -> vres_alike (eval se globals f a e) (eval se globals f b e).
Proof. exact eval_respects_alike. Qed.
Print Assumptions C10_eval_respects_alike.

Theorem C10_include_respects_alike : forall se globals f a b t ctx,
  state_alike a b ->
  xres_alike (exec_template se globals f a t ctx) (exec_template se globals f b t ctx).
Proof. exact exec_template_respects_alike. Qed.
Print Assumptions C10_include_respects_alike.

Theorem C10_root_frames_alike : forall globals st t1 t2 ctx, same_but_root t1 t2 ->
  state_alike (enter globals st t1 ctx) (enter globals st t2 ctx).
Proof. exact sbr_enter_alike. Qed.
Print Assumptions C10_root_frames_alike.

(* the two ways of editing child root nodes give templates the theorems relate *)
Theorem C10_edits_are_same_but_root : forall t,
  same_but_root t (drop_child_roots t) /\ forall k r, same_but_root t (with_root_at k r t).
Proof. exact edits_same_but_root. Qed.
Print Assumptions C10_edits_are_same_but_root.

(* ---------- non-vacuity ---------- *)
(* the compiled grandchild "leaf" of the example set c10_world (Spec/SpecComposeExamples.v):
   depth 3; it writes 6 nodes outside its blocks ("ignored", {{ nosuch }}, the extends and
   block tags) and its parent "mid" 4; drop_child_roots removes them all at both levels *)
Example C10_example_outside_text :
  match compile_file (world_senv c10_world) big_fuel [108; 101; 97; 102] (* leaf *) g0 with
  | Ok (t, _) =>
      Some (depth t, length (tpl_root t), option_map (fun p => length (tpl_root p)) (tpl_parent t),
            length (tpl_root (drop_child_roots t)),
            option_map (fun p => length (tpl_root p)) (tpl_parent (drop_child_roots t)))
  | _ => None
  end = Some (3%nat, 6%nat, Some 4%nat, 0%nat, Some 0%nat).
Proof. vm_compute. reflexivity. Qed.

(* ... and renders the same with its own root nodes, without any child root nodes, and with
   the root nodes of "mid" replaced by a "!" *)
Example C10_example_renders_same :
  match compile_file (world_senv c10_world) big_fuel [108; 101; 97; 102] (* leaf *) g0 with
  | Ok (t, _) =>
      Some (run_template c10_world t g0 [], run_template c10_world (drop_child_roots t) g0 [],
            run_template c10_world (with_root_at 1 [NTemplatetag [33] (* ! *)] t) g0 [])
  | _ => None
  end = let out := OOk [60; 65; 49; 91; 65; 48; 73; 50; 93; 124; 67; 50; 40; 67; 49; 40; 67; 48; 41; 41; 124; 76; 50; 76; 50; 62] (* <A1[A0I2]|C2(C1(C0))|L2L2> *) in
        Some (out, out, out).
Proof. vm_compute. reflexivity. Qed.

(* at the bound (1001 chain members) the towers of C10_depth_bound_needed do render the base *)
Example C10_example_at_the_bound :
  let se := mkSenv [] (mkCfg [] [] [] []) false false in
  let base := Tpl 0 [] true [NTemplatetag [98] (* b *)] [] [] None false false in
  (depth (tower 1000 [NTemplatetag [120] (* x *)] base),
   fst (exec_template se [] 10 (mkM [] [] (mkG 1 [])) (tower 1000 [NTemplatetag [120] (* x *)] base) []),
   fst (exec_template se [] 10 (mkM [] [] (mkG 1 [])) (tower 1000 [] base) [])) =
  (1001%nat, [98] (* b *), [98] (* b *)).
Proof. vm_compute. reflexivity. Qed.
