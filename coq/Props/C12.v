(* Property C12 - scoping: bindings stay in their construct; caller data is never modified.
   In the model every ExecutionContext is a frame of one stack. The theorems say that
   executing any nodes leaves every frame below the current one untouched, never touches
   the current frame's Public context, and that with / for / macro calls / include / Super
   leave even the current frame's private bindings exactly as they were: what such a
   construct binds lives in a child frame that is gone afterwards. (That execution writes
   neither the caller's Context map nor the set's Globals in the real code is the static tie
   of Tie/C05: no reachable map update on ExecutionContext.Public, TemplateSet.Globals or
   the context parameter - and the DeepEqual oracle of the correspondence run.) *)
From PV Require Import Model.Exec.
From PV Require Import Spec.SpecFrames Tie.C12.
Open Scope N_scope.

Theorem C12_eval_preserves_frames :
  forall se globals f st e v st',
    eval se globals f st e = Ok (v, st') -> ms_frames st' = ms_frames st.
Proof. exact tie_eval_preserves_frames. Qed.
Print Assumptions C12_eval_preserves_frames.

Theorem C12_exec_preserves_outer_frames :
  forall se globals f st ns o st',
    exec_nodes se globals f st ns = (o, Ok st') -> same_below st st'.
Proof. exact tie_exec_preserves_outer_frames. Qed.
Print Assumptions C12_exec_preserves_outer_frames.

Theorem C12_with_restores :
  forall se globals f st pairs body o st',
    exec_node se globals f st (NWith pairs body) = (o, Ok st') -> ms_frames st' = ms_frames st.
Proof. exact tie_with_restores. Qed.
Print Assumptions C12_with_restores.

Theorem C12_for_restores :
  forall se globals f st key value obj rv srt body empty o st',
    exec_node se globals f st (NFor key value obj rv srt body empty) = (o, Ok st') ->
    ms_frames st' = ms_frames st.
Proof. exact tie_for_restores. Qed.
Print Assumptions C12_for_restores.

Theorem C12_include_restores :
  forall se globals f st tpl fname pairs only ifx o st',
    exec_node se globals f st (NInclude tpl fname pairs only ifx) = (o, Ok st') ->
    ms_frames st' = ms_frames st.
Proof. exact tie_include_restores. Qed.
Print Assumptions C12_include_restores.

(* set at a given level is visible to what follows at that level *)
Theorem C12_set_visible_after :
  forall se globals f st name e o st' fr',
    exec_node se globals f st (NSet name e) = (o, Ok st') -> top_frame st' = Ok fr' ->
    exists v, ctx_get name (f_priv fr') = Some (CV v).
Proof. exact tie_set_visible_after. Qed.
Print Assumptions C12_set_visible_after.
