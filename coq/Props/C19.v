(* Property C19 - filter chains and unknown names.
   v|f1:a1|f2:a2 is f2(f1(v, a1), a2) with each argument evaluated in the current scope, and
   {% filter f1|f2 %}body{% endfilter %} equals applying the chain to the rendered body.  A tag
   or filter name that is not registered never renders silently - it is an error.

   What each theorem contributes:
   - C19_chain_left_to_right: one link of a chain: the empty chain returns the value; for
     name:param followed by rest, the parameter (nil when absent) is evaluated in the state the
     chain has reached, the filter is applied to the value so far, and rest continues on the
     result (a failure of the parameter or the filter ends the chain with that failure).
   - C19_chain_app: v|c1|c2 is (v|c1)|c2, for chains of any length.
   - C19_chain_fold: for filters f1..fn without parameters (any n), the chain is the left fold
     fn(...f2(f1(v))) and the machine state is untouched.
   - C19_filter_tag_equals_chain: the chain of the filter tag (stored as pairs) runs exactly as
     the same chain in an expression, for every chain, state and fuel.
   - C19_filter_tag_is_chain: {% filter chain %}body{% endfilter %} writes what the expression
     "<rendered body>"|chain evaluates to, in the state the body leaves; an error of the chain
     is an execution error and nothing is written.
   - C19_unknown_filter_rejected(_loop,_world): a filter name outside the set's list is a parse
     error of parseFilter, hence of the "| name" step; in a world, the list is the package's
     registrations plus the harness's.
   - C19_unknown_tag_rejected(_world): the same for a tag name in {% name ... %}.
   - C19_filter_tag_unknown_is_exec_error: FINDING - the filter tag does not look its filter
     names up at compile time; an unknown name there compiles and is an execution error when
     the tag runs (nothing is written).  So "compile-time error" is true for expressions and
     tags, and "never renders silently" is true everywhere, but for {% filter nosuch %} the
     error comes at execution.  C19_filtertag_counterexample is the concrete run.
   - C19_registered_tables, C19_registered_have_impl: the generated registration tables have no
     duplicate name (registering twice is refused) and name exactly the implemented filters
     and tags. *)
From PV Require Import Model.Api Spec.SpecRender gen.Tables.
From PV Require Import Tie.C19.
Open Scope N_scope.

Theorem C19_chain_left_to_right : forall se globals (f : nat) (st : mstate) (v : value),
  apply_chain se globals (S f) st v [] = Ok (v, st) /\
  forall name param rest,
    apply_chain se globals (S f) st v (FCall name param :: rest) =
    (do '(p, st1) <- (match param with
                      | Some pe => eval se globals f st pe
                      | None => Ok (as_value VNil, st)
                      end);
     do r <- apply_filter_se se name v p;
     apply_chain se globals f st1 r rest).
Proof. exact chain_left_to_right. Qed.
Print Assumptions C19_chain_left_to_right.

Theorem C19_chain_app : forall se globals (c1 c2 : list fcall) (f : nat) (st : mstate) (v : value),
  apply_chain se globals (length c1 + f) st v (c1 ++ c2) =
  (do '(r, st1) <- apply_chain se globals (length c1 + f) st v c1;
   apply_chain se globals f st1 r c2).
Proof. exact apply_chain_app. Qed.
Print Assumptions C19_chain_app.

Theorem C19_chain_fold : forall se globals (names : list str) (f : nat) (st : mstate) (v : value),
  (length names < f)%nat ->
  apply_chain se globals f st v (map (fun n => FCall n None) names) =
  match fold_filters (fun n x => apply_filter_se se n x (as_value VNil)) names v with
  | Ok r => Ok (r, st)
  | Err k => Err k
  | Unmod => Unmod
  | Fuel => Fuel
  | Panic s => Panic s
  end.
Proof. exact apply_chain_fold. Qed.
Print Assumptions C19_chain_fold.

Theorem C19_filter_tag_equals_chain : forall se globals (f : nat) (st : mstate) (v : value) (chain : list fcall),
  apply_tag_chain se globals f st v (map untag chain) = apply_chain se globals f st v chain.
Proof. exact tag_chain_is_chain. Qed.
Print Assumptions C19_filter_tag_equals_chain.

Theorem C19_filter_tag_is_chain : forall se globals (f : nat) (st st1 : mstate) (chain : list fcall)
                                         (body : list node) (o : str),
  exec_nodes se globals (S f) st body = (o, Ok st1) ->
  exec_node se globals (S (S f)) st (NFilterTag (map untag chain) body) =
  match eval se globals (S (S f)) st1 (EFilt (EStr o) chain) with
  | Ok (v, st2) => match to_string (vv v) with Some s => xok s st2 | None => ([], Unmod) end
  | Err _ => ([], Err 3)
  | other => xfail [] other
  end.
Proof. exact filter_tag_is_chain. Qed.
Print Assumptions C19_filter_tag_is_chain.

Theorem C19_unknown_filter_rejected : forall (cfg : pcfg) (f : nat) (t : token) (r : list token),
  str_in (tval t) (cfg_filters cfg) = false ->
  parse_filter cfg (S f) (t :: r) = Err 2.
Proof. exact unknown_filter_rejected. Qed.
Print Assumptions C19_unknown_filter_rejected.

Theorem C19_unknown_filter_rejected_loop : forall (cfg : pcfg) (f : nat) (pipe t : token) (r : list token),
  is_sym pipe y_pipe = true ->
  str_in (tval t) (cfg_filters cfg) = false ->
  filter_loop cfg (S (S f)) (pipe :: t :: r) = Err 2.
Proof. exact unknown_filter_rejected_loop. Qed.
Print Assumptions C19_unknown_filter_rejected_loop.

Theorem C19_unknown_filter_world : forall (w : world) (name : str),
  str_in name registered_filters = false -> str_in name (w_extra_filters w) = false ->
  str_in name (cfg_filters (se_cfg (world_senv w))) = false.
Proof. exact world_filter_unknown. Qed.
Print Assumptions C19_unknown_filter_world.

Theorem C19_unknown_tag_rejected : forall (se : senv) (f level : nat) (st : pst) (nm : atok) (rest : list atok),
  str_in (tval (a_tok nm)) (cfg_tags (se_cfg se)) = false ->
  parse_tag se (S f) level st (nm :: rest) = Err 2.
Proof. exact unknown_tag_rejected. Qed.
Print Assumptions C19_unknown_tag_rejected.

Theorem C19_unknown_tag_world : forall (w : world) (name : str),
  str_in name registered_tags = false -> str_in name (w_extra_tags w) = false ->
  str_in name (cfg_tags (se_cfg (world_senv w))) = false.
Proof. exact world_tag_unknown. Qed.
Print Assumptions C19_unknown_tag_world.

Theorem C19_filter_tag_unknown_is_exec_error :
  forall se globals f st st1 name param rest body o,
  assoc_get name filter_impl = None -> str_in name (cfg_filters (se_cfg se)) = false ->
  exec_nodes se globals (S f) st body = (o, Ok st1) ->
  match param with
  | Some pe => res_is_ok (eval se globals f st1 pe) = true
  | None => True
  end ->
  exec_node se globals (S (S f)) st (NFilterTag ((name, param) :: rest) body) = ([], Err 3).
Proof. exact filter_tag_unknown_exec_error. Qed.
Print Assumptions C19_filter_tag_unknown_is_exec_error.

Theorem C19_registered_tables : NoDup registered_filters /\ NoDup registered_tags.
Proof. exact tie_registered_tables. Qed.
Print Assumptions C19_registered_tables.

Theorem C19_registered_have_impl :
  map fst filter_impl = registered_filters /\ map fst tag_impl = registered_tags.
Proof. exact tie_registered_have_impl. Qed.
Print Assumptions C19_registered_have_impl.

(* Non-vacuity, end to end: "nosuch" is in neither table; {{ x|nosuch }} and {% nosuch %} are
   compile errors. *)
Example C19_unknown_witness :
  str_in [110; 111; 115; 117; 99; 104] registered_filters = false /\
  str_in [110; 111; 115; 117; 99; 104] registered_tags = false /\
  api_render_string c19_world c19_src_filter [] = OCompileErr 2 /\
  api_render_string c19_world c19_src_tag [] = OCompileErr 2.
Proof. exact tie_c19_unknown_witness. Qed.

(* {% filter nosuch %}x{% endfilter %} compiles, and executing it is an error with nothing written *)
Example C19_filtertag_counterexample :
  api_compile_only c19_world c19_src_filtertag = OOk [] /\
  api_render_string c19_world c19_src_filtertag [] = OExecErr 3 [].
Proof. exact tie_c19_filtertag_counterexample. Qed.

(* a{% filter upper|lower %}xY{% endfilter %} renders to axy *)
Example C19_chain_witness :
  api_render_string c19_world c19_src_chain [] = OOk [97; 120; 121].
Proof. exact tie_c19_chain_witness. Qed.
