(* Property C04 - compile once, render many: execution never alters the compiled template.
   Partial. What is proved:
   (1) on the effect summary that tools/go2eff regenerates from /repo's SSA on every run
       (gen/Effects.v): the only stores to compiled or shared state reachable from the
       Execute* entry points are the atomic first-template flag of the set and the one-time,
       mutex-guarded block-option rewrite of the entry template's text tokens; nothing
       reachable from execution writes the compiled node trees, the set's ban lists or its cache
       outside the compile path;
   (2) in the abstract heap model (Model/Conc.v) locations nobody writes keep their value
       whatever runs, in any order;
   (3) in the executable model an execution is a function of (template, context) only, so
       every history of executions gives at each position what a fresh execution gives.
   (3) is true of the model by construction; that pongo2 agrees with the model on histories
   (mixed, failing and repeated contexts) is checked by the correspondence run, which also
   compares the compiled token list before and after. The precision of (1) is that of the
   SSA call graph (trusted translator). *)
From PV Require Import Model.Conc Model.Api gen.Effects Spec.SpecHistory.
From PV Require Import Tie.C04.
Open Scope N_scope.

Theorem C04_exec_writes_allowed :
  forallb (fun w => existsb (fun a => effect_eqb a w) allowed_shared_writes) exec_shared_writes = true
  /\ unguarded_accesses = [] /\ exec_compile_set_writes = [].
Proof. exact tie_shared_writes_allowed. Qed.
Print Assumptions C04_exec_writes_allowed.

Theorem C04_unwritten_unchanged : forall (s : sched) (h : heap) (l : loc),
  (forall i, ~ In l (writes_of (proj i s))) -> fst (run_sched h s) l = h l.
Proof. exact tie_unwritten_unchanged. Qed.
Print Assumptions C04_unwritten_unchanged.

(* each execution of a history gives what a fresh execution with that context gives ... *)
Theorem C04_history_is_fresh_runs :
  forall w t g ctxs i d,
    (i < length ctxs)%nat ->
    nth i (run_history w t g ctxs) d = run_template w t g (nth i ctxs []).
Proof. exact tie_history_is_fresh_runs. Qed.
Print Assumptions C04_history_is_fresh_runs.

(* ... so equal contexts give equal output and equal errors, wherever they stand *)
Theorem C04_equal_contexts_equal_results :
  forall w t g ctxs i j d,
    (i < length ctxs)%nat -> (j < length ctxs)%nat -> nth i ctxs [] = nth j ctxs [] ->
    nth i (run_history w t g ctxs) d = nth j (run_history w t g ctxs) d.
Proof. exact tie_equal_contexts_equal_results. Qed.
Print Assumptions C04_equal_contexts_equal_results.
