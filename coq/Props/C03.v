(* Property C03 - sandbox: a banned tag or filter cannot be used by any route; bans can only
   be added before the set has created its first template.
   Parser side: the ban checks stand in front of every route by which a tag or a filter name
   enters a compiled template (tag dispatch, filter chains in expressions, the filter tag's
   chain), and every sub-template (include, extends, import, ssi parsed, lazy include) is
   compiled by the same function under the same set configuration. Set side: the ban lists
   are frozen once the first template exists, for all histories of operations. *)
From PV Require Import Model.SetModel.
From PV Require Import Spec.SpecSet Tie.C03.
Open Scope N_scope.

(* a banned tag name never reaches its tag parser, wherever the tag is written *)
Theorem C03_banned_tag_rejected :
  forall se f level st nm rest,
    is_typ (a_tok nm) TIdentifier = true ->
    str_in (tval (a_tok nm)) (cfg_banned_tags (se_cfg se)) = true ->
    parse_tag se (S f) level st (nm :: rest) = Err 2.
Proof. exact tie_banned_tag_rejected. Qed.
Print Assumptions C03_banned_tag_rejected.

(* a banned filter in an expression's filter chain is a compile error *)
Theorem C03_banned_filter_rejected :
  forall cfg f t name param rest r,
    is_sym t y_pipe = true ->
    parse_filter cfg f rest = Ok (FCall name param, r) ->
    str_in name (cfg_banned_filters cfg) = true ->
    filter_loop cfg (S f) (t :: rest) = Err 2.
Proof. exact tie_banned_filter_rejected. Qed.
Print Assumptions C03_banned_filter_rejected.

(* ... and so is a banned filter anywhere in the filter tag's chain *)
Theorem C03_banned_filter_tag_rejected :
  forall cfg fuel ts chain rest,
    filter_tag_chain cfg fuel ts = Ok (chain, rest) ->
    forall name p, In (name, p) chain -> str_in name (cfg_banned_filters cfg) = false.
Proof. exact tie_banned_filter_tag_rejected. Qed.
Print Assumptions C03_banned_filter_tag_rejected.

(* [s_final s ops] is the final state of a history (Spec/SpecSet.v) *)
(* once the first template exists the ban lists never change, whatever is called *)
Theorem C03_bans_frozen :
  forall (ops : list sop) (s : sstate),
    s_created s = true ->
    s_btags (s_final s ops) = s_btags s /\ s_bfilters (s_final s ops) = s_bfilters s /\
    s_created (s_final s ops) = true.
Proof. exact tie_bans_frozen. Qed.
Print Assumptions C03_bans_frozen.

(* a late ban attempt is refused and changes nothing *)
Theorem C03_late_ban_refused :
  forall (s : sstate) (n : str),
    s_created s = true ->
    s_step s (OBanTag n) = (s, RErr) /\ s_step s (OBanFilter n) = (s, RErr).
Proof. exact tie_late_ban_refused. Qed.
Print Assumptions C03_late_ban_refused.

(* every way of creating a template freezes the set *)
Theorem C03_creation_freezes :
  forall (s : sstate) (o : sop),
    match o with
    | OFromString _ | OFromFile _ | ORenderString _ | ORenderFile _ => True
    | _ => False
    end ->
    s_created (fst (s_step s o)) = true.
Proof. exact tie_creation_freezes. Qed.
Print Assumptions C03_creation_freezes.

(* a ban is accepted exactly for a registered, not yet banned name on a set without templates *)
Theorem C03_ban_accepted_iff :
  forall (s : sstate) (n : str),
    snd (s_step s (OBanTag n)) = ROk <->
    (str_in n registered_tags = true /\ s_created s = false /\ str_in n (s_btags s) = false).
Proof. exact tie_ban_accepted_iff. Qed.
Print Assumptions C03_ban_accepted_iff.


(* ==================== second part: the Go functions translated (Props/C03w) ==================== *)

(* Property C03, translation part - the ban functions of template_sets.go ARE the bans of the set
   state machine, and every function that creates a template sets the flag that freezes them.

   Props/C03.v states the ban laws about the hand-written state machine Model/SetModel.v (s_step).
   Here the Go functions themselves are read: tools/go2v translates BanTag, BanFilter and the six
   functions that create a template (FromString, FromBytes, FromFile, RenderTemplateString,
   RenderTemplateBytes, RenderTemplateFile) into terms of a small Go fragment (gen/SetFuncs.v,
   regenerated from /repo on every run), whose meaning is Spec/SpecSetFuncs.v (see Props/C20w.v
   for [set_call], [observe], [trace_of]).  The registries tags and filters are the registered
   names of gen/Tables.v, the tables s_step uses.

   - C03w_BanTag, C03w_BanFilter: BanTag(n) / BanFilter(n) is s_step on OBanTag n / OBanFilter n,
     for every state and name: unknown name, a template already created (the flag read with
     atomic.LoadUint32), already banned - an error and no change; otherwise the name is banned;
   - C03w_bans_leave_cache_alone: neither touches the cache map or its mutex;
   - C03w_creators_set_flag: each creator, run alone with everything it calls left arbitrary
     ([ext], only required never to clear the flag; set.FromFile is the model's), ends - if it
     ends - with firstTemplateCreated set, for every world, arguments and depth;
     C03w_creator_names says which functions these are;
   - C03w_witness: a ban accepted, the flag set by the translated FromString, a later ban and a
     ban of an unknown name refused. *)
From PV Require Import Model.SetModel Lib.GoStmt Spec.SpecSet Spec.SpecSetFuncs gen.SetFuncs.
From PV Require Import Tie.C03w.
From Coq Require Import String.
Open Scope string_scope.

Theorem C03w_BanTag : forall ext d, (2 <= d)%nat -> forall s n,
  observe read_error (set_call go_setfuncs registered_tags registered_filters ext d "BanTag" [SVStr n] (world_of s))
  = Some (s_step s (OBanTag n)).
Proof. exact tie_BanTag. Qed.
Print Assumptions C03w_BanTag.

Theorem C03w_BanFilter : forall ext d, (2 <= d)%nat -> forall s n,
  observe read_error (set_call go_setfuncs registered_tags registered_filters ext d "BanFilter" [SVStr n] (world_of s))
  = Some (s_step s (OBanFilter n)).
Proof. exact tie_BanFilter. Qed.
Print Assumptions C03w_BanFilter.

Theorem C03w_bans_leave_cache_alone : forall tags filters ext d, (2 <= d)%nat -> forall s n m,
  In m ["BanTag"; "BanFilter"] ->
  trace_of (set_call go_setfuncs tags filters ext d m [SVStr n] (world_of s)) = Some [].
Proof. exact tie_bans_leave_cache_alone. Qed.
Print Assumptions C03w_bans_leave_cache_alone.

Theorem C03w_creators_set_flag : forall f, In f go_setcreators ->
  forall tags filters ext, keeps_flag ext -> forall d args w,
  flag_set (set_call [f] tags filters ext d (gf_name f) args w).
Proof. exact tie_creators_set_flag. Qed.
Print Assumptions C03w_creators_set_flag.

Theorem C03w_creator_names :
  map gf_name go_setcreators =
  ["FromString"; "FromBytes"; "FromFile"; "RenderTemplateString"; "RenderTemplateBytes"; "RenderTemplateFile"].
Proof. exact tie_creator_names. Qed.
Print Assumptions C03w_creator_names.

Example C03w_witness :
  let ban n s := set_call go_setfuncs registered_tags registered_filters no_ext 2 "BanTag" [SVStr (bytes_of_string n)]
                          (world_of s) in
  exists s1 w2,
    observe read_error (ban "include" (s_init [])) = Some (s1, ROk) /\
    s_btags s1 = [bytes_of_string "include"] /\ s_created s1 = false /\
    keeps_flag c03w_ext /\
    set_call [go_set_FromString] [] [] c03w_ext 2 "FromString" [SVStr (bytes_of_string "x")] (world_of s1)
      = GOk ([SVOpaque; SVNil], w2) /\
    s_created (sw_state w2) = true /\
    observe read_error (ban "extends" (sw_state w2)) = Some (sw_state w2, RErr) /\
    observe read_error (ban "no such tag" s1) = Some (s1, RErr).
Proof. exact tie_c03w_witness. Qed.
Print Assumptions C03w_witness.
