(* Property C03 - sandbox: a banned tag or filter cannot be used by any route; bans can only
   be added before the set has created its first template.
   Parser side: the ban checks stand in front of every route by which a tag or a filter name
   enters a compiled template (tag dispatch, filter chains in expressions, the filter tag's
   chain), and every sub-template (include, extends, import, ssi parsed, lazy include) is
   compiled by the same function under the same set configuration. Set side: the ban lists
   are frozen once the first template exists, for all histories of operations. *)
From PV Require Import Model.SetModel.
From PV Require Import Spec.SpecSet Tie.C03.
Open Scope N_scope.

(* a banned tag name never reaches its tag parser, wherever the tag is written *)
Theorem C03_banned_tag_rejected :
  forall se f level st nm rest,
    is_typ (a_tok nm) TIdentifier = true ->
    str_in (tval (a_tok nm)) (cfg_banned_tags (se_cfg se)) = true ->
    parse_tag se (S f) level st (nm :: rest) = Err 2.
Proof. exact tie_banned_tag_rejected. Qed.
Print Assumptions C03_banned_tag_rejected.

(* a banned filter in an expression's filter chain is a compile error *)
Theorem C03_banned_filter_rejected :
  forall cfg f t name param rest r,
    is_sym t y_pipe = true ->
    parse_filter cfg f rest = Ok (FCall name param, r) ->
    str_in name (cfg_banned_filters cfg) = true ->
    filter_loop cfg (S f) (t :: rest) = Err 2.
Proof. exact tie_banned_filter_rejected. Qed.
Print Assumptions C03_banned_filter_rejected.

(* ... and so is a banned filter anywhere in the filter tag's chain *)
Theorem C03_banned_filter_tag_rejected :
  forall cfg fuel ts chain rest,
    filter_tag_chain cfg fuel ts = Ok (chain, rest) ->
    forall name p, In (name, p) chain -> str_in name (cfg_banned_filters cfg) = false.
Proof. exact tie_banned_filter_tag_rejected. Qed.
Print Assumptions C03_banned_filter_tag_rejected.

(* [s_final s ops] is the final state of a history (Spec/SpecSet.v) *)
(* once the first template exists the ban lists never change, whatever is called *)
Theorem C03_bans_frozen :
  forall (ops : list sop) (s : sstate),
    s_created s = true ->
    s_btags (s_final s ops) = s_btags s /\ s_bfilters (s_final s ops) = s_bfilters s /\
    s_created (s_final s ops) = true.
Proof. exact tie_bans_frozen. Qed.
Print Assumptions C03_bans_frozen.

(* a late ban attempt is refused and changes nothing *)
Theorem C03_late_ban_refused :
  forall (s : sstate) (n : str),
    s_created s = true ->
    s_step s (OBanTag n) = (s, RErr) /\ s_step s (OBanFilter n) = (s, RErr).
Proof. exact tie_late_ban_refused. Qed.
Print Assumptions C03_late_ban_refused.

(* every way of creating a template freezes the set *)
Theorem C03_creation_freezes :
  forall (s : sstate) (o : sop),
    match o with
    | OFromString _ | OFromFile _ | ORenderString _ | ORenderFile _ => True
    | _ => False
    end ->
    s_created (fst (s_step s o)) = true.
Proof. exact tie_creation_freezes. Qed.
Print Assumptions C03_creation_freezes.

(* a ban is accepted exactly for a registered, not yet banned name on a set without templates *)
Theorem C03_ban_accepted_iff :
  forall (s : sstate) (n : str),
    snd (s_step s (OBanTag n)) = ROk <->
    (str_in n registered_tags = true /\ s_created s = false /\ str_in n (s_btags s) = false).
Proof. exact tie_ban_accepted_iff. Qed.
Print Assumptions C03_ban_accepted_iff.
