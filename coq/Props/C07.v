(* Property C07 - expressions evaluate according to the documented C-like semantics.
   The parser, run on a tree printed with minimal parentheses, rebuilds exactly the tree's
   elaboration (so precedence and associativity are as documented, for every tree of any
   depth), and evaluating that elaboration is evaluating the tree directly (promotion rules,
   short-circuit, zero-divisor errors). *)
From PV Require Import Model.Exec Model.Api Spec.SpecExpr.
From PV Require Import Tie.C07.
Open Scope N_scope.

Theorem C07_parse_print : forall (cfg : pcfg) (e : sx) (x : expr) (rest : list token),
  swf e = true -> elab e = Some x -> follow_ok rest = true ->
  exists f0, forall f, (f0 <= f)%nat ->
    parse_expression cfg f (sprint 0 e ++ rest) = Ok (x, rest).
Proof. exact tie_parse_print. Qed.
Print Assumptions C07_parse_print.

(* [frame_lookup fr n]: the value of a name in a frame (private bindings shadow public ones,
   unbound is nil); [vars_plain fr e]: every name the tree mentions is bound to plain data.
   Both are defined in Proofs/ExprB.v. *)

Theorem C07_eval_elab : forall (se : senv) (globals : list (str * cval)) (e : sx) (x : expr)
                               (st : mstate) (fr : frame),
  swf e = true -> elab e = Some x -> top_frame st = Ok fr -> vars_plain fr e = true ->
  exists f0, forall f, (f0 <= f)%nat ->
    eval se globals f st x =
      match seval (frame_lookup fr) e with
      | Ok v => Ok (v, st)
      | Err k => Err k
      | Unmod => Unmod
      | Fuel => Fuel
      | Panic s => Panic s
      end.
Proof. exact tie_eval_elab. Qed.
Print Assumptions C07_eval_elab.

(* canonical printed forms: integers in decimal, floats with six decimals, True/False *)
Theorem C07_canonical_print : forall (z : Z) (b : bool),
  to_string (VInt z) = Some (itoa z) /\
  to_string (VBool b) = Some (if b then [84; 114; 117; 101] else [70; 97; 108; 115; 101]) /\
  forall f, to_string (VFloat f) = Some (format_fixed 6 f).
Proof. exact tie_canonical_print. Qed.

(* non-vacuity: a tree mixing every level meets the hypotheses *)
Example C07_witness :
  let e := SLogic true (SRel RLt (SVar [97]) (SAdd 45 (SNeg (SMul 42 (SInt 2) (SFloat [49] [53]))) (SPow (SInt 2) (SPow (SInt 3) (SInt 2)))))
                       (SNot (SBool false)) in
  swf e = true /\ elab e <> None /\ follow_ok [tsym y_var_close] = true.
Proof. vm_compute. repeat split; discriminate. Qed.

(* ---------- where the grammar differs from the property's order ---------- *)
(* The property lists the unary operators ABOVE * / % ("^ binds tighter than unary minus/not, then
   * / %").  pongo2's parser attaches a sign or a `not` to the whole TERM that follows: the source
   "not 2 * 0" is read as not (2 * 0).  For the unary minus the two readings give the same value
   (-(a*b) = (-a)*b, also for / and % with Go's truncation); for `not` they do not.  The printer of
   the round-trip theorem above always parenthesises a product under a unary operator, so that
   theorem does not speak about the unparenthesised form; this example does, through the whole
   pipeline.  Open known finding C07-not-scopes-over-term. *)
Example C07_not_scopes_over_term_refuted :
  let w := mkWorld [] false false [] [] [] [] [] in
  api_render_string w [123;123;32;110;111;116;32;50;32;42;32;48;32;125;125] (* {{ not 2 * 0 }} *) [] = OOk [49] (* 1 *) /\
  api_render_string w [123;123;32;40;110;111;116;32;50;41;32;42;32;48;32;125;125] (* {{ (not 2) * 0 }} *) [] = OOk [48] (* 0 *) /\
  api_render_string w [123;123;32;110;111;116;32;40;50;32;42;32;48;41;32;125;125] (* {{ not (2 * 0) }} *) [] = OOk [49] (* 1 *).
Proof. vm_compute. repeat split. Qed.
