(* Property C07 - expressions evaluate according to the documented C-like semantics.
   The parser, run on a tree printed with minimal parentheses, rebuilds exactly the tree's
   elaboration (so precedence and associativity are as documented, for every tree of any
   depth), and evaluating that elaboration is evaluating the tree directly (promotion rules,
   short-circuit, zero-divisor errors). *)
From PV Require Import Model.Exec Spec.SpecExpr.
From PV Require Import Tie.C07.
Open Scope N_scope.

Theorem C07_parse_print : forall (cfg : pcfg) (e : sx) (x : expr) (rest : list token),
  swf e = true -> elab e = Some x -> follow_ok rest = true ->
  exists f0, forall f, (f0 <= f)%nat ->
    parse_expression cfg f (sprint 0 e ++ rest) = Ok (x, rest).
Proof. exact tie_parse_print. Qed.
Print Assumptions C07_parse_print.

(* [frame_lookup fr n]: the value of a name in a frame (private bindings shadow public ones,
   unbound is nil); [vars_plain fr e]: every name the tree mentions is bound to plain data.
   Both are defined in Proofs/ExprB.v. *)

Theorem C07_eval_elab : forall (se : senv) (globals : list (str * cval)) (e : sx) (x : expr)
                               (st : mstate) (fr : frame),
  swf e = true -> elab e = Some x -> top_frame st = Ok fr -> vars_plain fr e = true ->
  exists f0, forall f, (f0 <= f)%nat ->
    eval se globals f st x =
      match seval (frame_lookup fr) e with
      | Ok v => Ok (v, st)
      | Err k => Err k
      | Unmod => Unmod
      | Fuel => Fuel
      | Panic s => Panic s
      end.
Proof. exact tie_eval_elab. Qed.
Print Assumptions C07_eval_elab.

(* canonical printed forms: integers in decimal, floats with six decimals, True/False *)
Theorem C07_canonical_print : forall (z : Z) (b : bool),
  to_string (VInt z) = Some (itoa z) /\
  to_string (VBool b) = Some (if b then [84; 114; 117; 101] else [70; 97; 108; 115; 101]) /\
  forall f, to_string (VFloat f) = Some (format_fixed 6 f).
Proof. exact tie_canonical_print. Qed.

(* non-vacuity: a tree mixing every level meets the hypotheses *)
Example C07_witness :
  let e := SLogic true (SRel RLt (SVar [97]) (SAdd 45 (SNeg (SMul 42 (SInt 2) (SFloat [49] [53]))) (SPow (SInt 2) (SPow (SInt 3) (SInt 2)))))
                       (SNot (SBool false)) in
  swf e = true /\ elab e <> None /\ follow_ok [tsym y_var_close] = true.
Proof. vm_compute. repeat split; discriminate. Qed.
