(* Property C14 - the four ways of executing a template agree.
   For the same template and context, Execute, ExecuteBytes, ExecuteWriter and
   ExecuteWriterUnbuffered produce the same bytes and fail in the same cases.  When execution
   fails, ExecuteWriter has written nothing to the caller's writer (only the unbuffered variant
   may have written something, and then only a leading part of the output); ExecuteWriter hands
   an error of the caller's writer back to the caller.

   The writer and the four entry points are defined in Spec/SpecWriter.v over the model's
   exec_template (buffered) and exec_template_unbuffered (streaming).  [f] is the fuel the
   template's own execution gets in all four.

   What each theorem contributes:
   - C14_buffered_vs_unbuffered: the model's two executors return the same outcome and, on
     success, the same output; the buffered one returns the empty output on failure.  That is
     their only difference (parents, includes, context checks are shared code).
   - C14_variants_agree: with a writer that never fails, all four produce the same bytes when
     Execute succeeds, and all four report the same failure when it fails (and then
     ExecuteWriter returns the writer untouched).
   - C14_writer_all_or_nothing: for ANY writer, if ExecuteWriter reports an execution failure
     the writer is exactly as before.  C14_writer_fails_iff: that happens exactly when Execute
     fails, with the same failure.
   - C14_writer_error_returned: if execution succeeds but the output does not fit the writer,
     ExecuteWriter returns the writer's error (the writer holds what fitted);
     C14_writer_error_only_from_writer: it returns that error in no other case;
     C14_writer_ok_written: otherwise the writer holds its old content followed by the output.
   - C14_unbuffered_written: what ExecuteWriterUnbuffered has put into a never-failing writer
     is the output-so-far of the streaming executor, whether it fails or not.
   - C14_unbuffered_prefix: when that run fails, either the context was rejected and nothing
     was written, or the run stopped at one node n of the root node list pre ++ n :: post: all
     of pre ran to completion and what was written is the complete output of pre followed by
     what n wrote before failing.  C14_unbuffered_fail_at is the converse at node-list level:
     given that pre completes with output o1 and n fails after writing on, the result is
     o1 ++ on with n's failure, whatever follows n.  (Together with C06_exec_nodes_app_prefix:
     the written bytes start with the complete output of every completed leading part.)
     NOT claimed: that the partial output of the failing node n itself is a prefix of what n
     "would have" produced - the model is deterministic, there is no successful run of the
     same node on the same state to compare with. *)
From PV Require Import Model.Api Spec.SpecRender Spec.SpecWriter gen.Tables.
From PV Require Import Tie.C14.
Open Scope N_scope.

Theorem C14_buffered_vs_unbuffered : forall se globals f st t ctx,
  exec_template se globals (S f) st t ctx =
  (let '(o, r) := exec_template_unbuffered se globals f st t ctx in
   (if res_is_ok r then o else [], r)).
Proof. exact buffered_vs_unbuffered. Qed.
Print Assumptions C14_buffered_vs_unbuffered.

Theorem C14_variants_agree : forall se globals f st t ctx (w : writer),
  w_fail_after w = None ->
  execute_bytes se globals f st t ctx = execute se globals f st t ctx /\
  match execute se globals f st t ctx with
  | inl o =>
      execute_writer se globals f st t ctx w = (mkW (w_buf w ++ o) None, WOk) /\
      execute_writer_unbuffered se globals f st t ctx w = (mkW (w_buf w ++ o) None, WOk)
  | inr x =>
      execute_writer se globals f st t ctx w = (w, WExecFail x) /\
      snd (execute_writer_unbuffered se globals f st t ctx w) = WExecFail x
  end.
Proof. exact variants_agree. Qed.
Print Assumptions C14_variants_agree.

Theorem C14_writer_all_or_nothing : forall se globals f st t ctx (w w' : writer) (x : failure),
  execute_writer se globals f st t ctx w = (w', WExecFail x) -> w' = w.
Proof. exact writer_all_or_nothing. Qed.
Print Assumptions C14_writer_all_or_nothing.

Theorem C14_writer_fails_iff : forall se globals f st t ctx (w : writer) (x : failure),
  snd (execute_writer se globals f st t ctx w) = WExecFail x <->
  execute se globals f st t ctx = inr x.
Proof. exact writer_fails_iff. Qed.
Print Assumptions C14_writer_fails_iff.

Theorem C14_writer_error_returned : forall se globals f st t ctx (w : writer) (o : str) (n : nat),
  execute se globals f st t ctx = inl o ->
  w_fail_after w = Some n -> (n < length (w_buf w) + length o)%nat ->
  execute_writer se globals f st t ctx w =
    (mkW (w_buf w ++ firstn (n - length (w_buf w)) o) (Some n), WWriteErr).
Proof. exact writer_error_returned. Qed.
Print Assumptions C14_writer_error_returned.

Theorem C14_writer_error_only_from_writer : forall se globals f st t ctx (w w' : writer),
  execute_writer se globals f st t ctx w = (w', WWriteErr) ->
  exists o n, execute se globals f st t ctx = inl o /\ w_fail_after w = Some n /\
              (n < length (w_buf w) + length o)%nat.
Proof. exact writer_error_only_from_writer. Qed.
Print Assumptions C14_writer_error_only_from_writer.

Theorem C14_writer_ok_written : forall se globals f st t ctx (w : writer) (o : str),
  execute se globals f st t ctx = inl o ->
  match w_fail_after w with None => True | Some n => (length (w_buf w) + length o <= n)%nat end ->
  execute_writer se globals f st t ctx w = (mkW (w_buf w ++ o) (w_fail_after w), WOk).
Proof. exact writer_ok_written. Qed.
Print Assumptions C14_writer_ok_written.

Theorem C14_unbuffered_written : forall se globals f st t ctx (w : writer),
  w_fail_after w = None ->
  execute_writer_unbuffered se globals f st t ctx w =
  (mkW (w_buf w ++ fst (exec_template_unbuffered se globals f st t ctx)) None,
   match failure_of (snd (exec_template_unbuffered se globals f st t ctx)) with
   | None => WOk | Some x => WExecFail x end).
Proof. exact unbuffered_written. Qed.
Print Assumptions C14_unbuffered_written.

(* the hypothesis on f only excludes running out of fuel between two nodes of the root list *)
Theorem C14_unbuffered_prefix : forall se globals f st t ctx (o : str) (r : res mstate),
  exec_template_unbuffered se globals (S f) st t ctx = (o, r) -> res_is_ok r = false ->
  (length (tpl_root (hd t (tpl_chain t))) < f)%nat ->
  (o = [] /\ r = Err 3) \/
  exists st0 pre n post f' o1 st1 on,
    (* the state the root list starts in: the execution's root frame pushed, a fresh execution id *)
    st0 = mkM (root_frame globals t ctx (g_nid (ms_g st)) :: ms_frames st) (ms_nodes st)
              (mkG (g_nid (ms_g st) + 1) (g_log (ms_g st))) /\
    tpl_root (hd t (tpl_chain t)) = pre ++ n :: post /\ f = (length pre + S f')%nat /\
    exec_nodes se globals f st0 pre = (o1, Ok st1) /\
    exec_node se globals f' st1 n = (on, r) /\
    o = o1 ++ on.
Proof. exact unbuffered_fail_shape. Qed.
Print Assumptions C14_unbuffered_prefix.

Theorem C14_unbuffered_fail_at : forall se globals (pre : list node) (n : node) (post : list node) (f : nat)
                                        (st st1 : mstate) (o1 on : str) (r : res mstate),
  exec_nodes se globals (length pre + S f) st pre = (o1, Ok st1) ->
  exec_node se globals f st1 n = (on, r) -> res_is_ok r = false ->
  exec_nodes se globals (length pre + S f) st (pre ++ n :: post) = (o1 ++ on, r).
Proof. exact exec_nodes_fail_at. Qed.
Print Assumptions C14_unbuffered_fail_at.

(* Non-vacuity.  "ab{{ 1/0 }}cd" compiles; Execute fails with an execution error, ExecuteWriter
   leaves the writer (holding ">") alone, ExecuteWriterUnbuffered has written "ab".
   "ab{{ 1 }}cd" compiles; all variants give "ab1cd"; a writer that takes 4 bytes in total
   ends with ">ab1" and its error is returned. *)
Example C14_witness :
  exists t g t' g',
    compile_src c14_senv 100 c14_name true c14_src g0 = Ok (t, g) /\
    compile_src c14_senv 100 c14_name true c14_src_ok g0 = Ok (t', g') /\
    execute c14_senv [] 100 (mkM [] [] g) t [] = inr (FErr 3) /\
    execute_writer c14_senv [] 100 (mkM [] [] g) t [] (c14_w None) = (c14_w None, WExecFail (FErr 3)) /\
    execute_writer_unbuffered c14_senv [] 100 (mkM [] [] g) t [] (c14_w None) =
      (mkW [62; 97; 98] None, WExecFail (FErr 3)) /\
    execute c14_senv [] 100 (mkM [] [] g') t' [] = inl [97; 98; 49; 99; 100] /\
    execute_writer c14_senv [] 100 (mkM [] [] g') t' [] (c14_w None) = (mkW [62; 97; 98; 49; 99; 100] None, WOk) /\
    execute_writer_unbuffered c14_senv [] 100 (mkM [] [] g') t' [] (c14_w None) = (mkW [62; 97; 98; 49; 99; 100] None, WOk) /\
    execute_writer c14_senv [] 100 (mkM [] [] g') t' [] (c14_w (Some 4%nat)) = (mkW [62; 97; 98; 49] (Some 4%nat), WWriteErr).
Proof. exact tie_c14_witness. Qed.
