(* Property C14 - the four ways of executing a template agree.
   For the same template and context, Execute, ExecuteBytes, ExecuteWriter and
   ExecuteWriterUnbuffered produce the same bytes and fail in the same cases.  When execution
   fails, ExecuteWriter has written nothing to the caller's writer (only the unbuffered variant
   may have written something, and then only a leading part of the output); ExecuteWriter hands
   an error of the caller's writer back to the caller.

   The writer and the four entry points are defined in Spec/SpecWriter.v over the model's
   exec_template (buffered) and exec_template_unbuffered (streaming).  [f] is the fuel the
   template's own execution gets in all four.

   What each theorem contributes:
   - C14_buffered_vs_unbuffered: the model's two executors return the same outcome and, on
     success, the same output; the buffered one returns the empty output on failure.  That is
     their only difference (parents, includes, context checks are shared code).
   - C14_variants_agree: with a writer that never fails, all four produce the same bytes when
     Execute succeeds, and all four report the same failure when it fails (and then
     ExecuteWriter returns the writer untouched).
   - C14_writer_all_or_nothing: for ANY writer, if ExecuteWriter reports an execution failure
     the writer is exactly as before.  C14_writer_fails_iff: that happens exactly when Execute
     fails, with the same failure.
   - C14_writer_error_returned: if execution succeeds but the output does not fit the writer,
     ExecuteWriter returns the writer's error (the writer holds what fitted);
     C14_writer_error_only_from_writer: it returns that error in no other case;
     C14_writer_ok_written: otherwise the writer holds its old content followed by the output.
   - C14_unbuffered_written: what ExecuteWriterUnbuffered has put into a never-failing writer
     is the output-so-far of the streaming executor, whether it fails or not.
   - C14_unbuffered_prefix: when that run fails, either the context was rejected and nothing
     was written, or the run stopped at one node n of the root node list pre ++ n :: post: all
     of pre ran to completion and what was written is the complete output of pre followed by
     what n wrote before failing.  C14_unbuffered_fail_at is the converse at node-list level:
     given that pre completes with output o1 and n fails after writing on, the result is
     o1 ++ on with n's failure, whatever follows n.  (Together with C06_exec_nodes_app_prefix:
     the written bytes start with the complete output of every completed leading part.)
     NOT claimed: that the partial output of the failing node n itself is a prefix of what n
     "would have" produced - the model is deterministic, there is no successful run of the
     same node on the same state to compare with. *)
(* ---- second part (statements appended below) ---- *)
(* Property C14, the wrappers - the Go code of the four entry points means what the C14
   specification says.

   Props/C14.v proves its theorems about execute, execute_bytes, execute_writer and
   execute_writer_unbuffered of Spec/SpecWriter.v, which were written by hand after reading
   template.go.  Here the Go functions themselves - Execute, ExecuteBytes, ExecuteWriter,
   ExecuteWriterUnbuffered and what they are made of: newBufferAndExecute,
   newTemplateWriterAndExecute, execute, templateWriter.Write/WriteString - are translated on
   every run from /repo/template.go, statement by statement, into terms of a small Go fragment
   (tools/go2v/wrappers.go -> gen/Wrappers.v; syntax in Lib/GoStmt.v), the fragment has an
   executable meaning (Spec/SpecWrappers.v: [go_call prog via se globals d recv m args world]
   is the run of recv.m(args)), and the theorems say that the run of each translated function
   IS the specification function, for every fuel, state, template, context and writer.  So a
   change of template.go that makes ExecuteWriter stream into the caller's writer, write the
   buffer before it looks at the error, swallow the writer's error, hand out the buffer of a
   failed run ... no longer proves (Tie/C14w.v does not compile), and a change that leaves the
   translated fragment (a loop, a defer, a goroutine) is a GSUnknown node: the translator
   reports a PROBLEM and the interpretation is "not understood" (C14w_unknown_blocks).

   Arguments of every statement: [via] is the TemplateWriter method the nodes write with
   (Write or WriteString - the statements hold for both), [d] bounds the call depth (any d >= 6).
   What the wrappers call but do not define is primitive in Spec/SpecWrappers.v: bytes.Buffer,
   the caller's writer (SpecWriter.w_write), and the two halves of the model's streaming
   executor: newContextForExecution = new_context, root.Execute = root_execute.

   What each theorem contributes:
   - C14w_execute_is_model: those two halves, put together the way Template.execute does it, are
     the model's exec_template_unbuffered - the interpretation has no second model in it.
   - C14w_ExecuteWriter / C14w_ExecuteWriterUnbuffered / C14w_Execute / C14w_ExecuteBytes: the
     run of the translated entry point, read as (writer afterwards, nil / execution error /
     writer's error) resp. as (value | error), equals execute_writer / execute_writer_unbuffered
     / execute / execute_bytes.  With Props/C14.v: the Go ExecuteWriter leaves the writer
     untouched on failure and hands back the writer's error, etc.
   - C14w_newBufferAndExecute: the buffer with a nil error, or NIL and the error - never a
     buffer together with an error; C14w_newTemplateWriterAndExecute, C14w_execute_writer,
     C14w_execute_buffer: Template.execute streams the output-so-far into the TemplateWriter it
     is given (the wrapped caller's writer, or a buffer: appended) and returns the error.
   - C14w_templateWriter_Write / _WriteString: both are the caller's Write, error handed back.
   - C14w_no_writer_no_write: Execute, ExecuteBytes, newBufferAndExecute leave a caller's
     writer alone.
   NOT claimed: anything about newContextForExecution's or the nodes' own Go code (that is the
   model, checked by the correspondence run), nor about ExecuteBlocks. *)
From PV Require Import Model.Api Spec.SpecRender Spec.SpecWriter gen.Tables.
From PV Require Import Tie.C14.
Open Scope N_scope.

Theorem C14_buffered_vs_unbuffered : forall se globals f st t ctx,
  exec_template se globals (S f) st t ctx =
  (let '(o, r) := exec_template_unbuffered se globals f st t ctx in
   (if res_is_ok r then o else [], r)).
Proof. exact buffered_vs_unbuffered. Qed.
Print Assumptions C14_buffered_vs_unbuffered.

Theorem C14_variants_agree : forall se globals f st t ctx (w : writer),
  w_fail_after w = None ->
  execute_bytes se globals f st t ctx = execute se globals f st t ctx /\
  match execute se globals f st t ctx with
  | inl o =>
      execute_writer se globals f st t ctx w = (mkW (w_buf w ++ o) None, WOk) /\
      execute_writer_unbuffered se globals f st t ctx w = (mkW (w_buf w ++ o) None, WOk)
  | inr x =>
      execute_writer se globals f st t ctx w = (w, WExecFail x) /\
      snd (execute_writer_unbuffered se globals f st t ctx w) = WExecFail x
  end.
Proof. exact variants_agree. Qed.
Print Assumptions C14_variants_agree.

Theorem C14_writer_all_or_nothing : forall se globals f st t ctx (w w' : writer) (x : failure),
  execute_writer se globals f st t ctx w = (w', WExecFail x) -> w' = w.
Proof. exact writer_all_or_nothing. Qed.
Print Assumptions C14_writer_all_or_nothing.

Theorem C14_writer_fails_iff : forall se globals f st t ctx (w : writer) (x : failure),
  snd (execute_writer se globals f st t ctx w) = WExecFail x <->
  execute se globals f st t ctx = inr x.
Proof. exact writer_fails_iff. Qed.
Print Assumptions C14_writer_fails_iff.

Theorem C14_writer_error_returned : forall se globals f st t ctx (w : writer) (o : str) (n : nat),
  execute se globals f st t ctx = inl o ->
  w_fail_after w = Some n -> (n < length (w_buf w) + length o)%nat ->
  execute_writer se globals f st t ctx w =
    (mkW (w_buf w ++ firstn (n - length (w_buf w)) o) (Some n), WWriteErr).
Proof. exact writer_error_returned. Qed.
Print Assumptions C14_writer_error_returned.

Theorem C14_writer_error_only_from_writer : forall se globals f st t ctx (w w' : writer),
  execute_writer se globals f st t ctx w = (w', WWriteErr) ->
  exists o n, execute se globals f st t ctx = inl o /\ w_fail_after w = Some n /\
              (n < length (w_buf w) + length o)%nat.
Proof. exact writer_error_only_from_writer. Qed.
Print Assumptions C14_writer_error_only_from_writer.

Theorem C14_writer_ok_written : forall se globals f st t ctx (w : writer) (o : str),
  execute se globals f st t ctx = inl o ->
  match w_fail_after w with None => True | Some n => (length (w_buf w) + length o <= n)%nat end ->
  execute_writer se globals f st t ctx w = (mkW (w_buf w ++ o) (w_fail_after w), WOk).
Proof. exact writer_ok_written. Qed.
Print Assumptions C14_writer_ok_written.

Theorem C14_unbuffered_written : forall se globals f st t ctx (w : writer),
  w_fail_after w = None ->
  execute_writer_unbuffered se globals f st t ctx w =
  (mkW (w_buf w ++ fst (exec_template_unbuffered se globals f st t ctx)) None,
   match failure_of (snd (exec_template_unbuffered se globals f st t ctx)) with
   | None => WOk | Some x => WExecFail x end).
Proof. exact unbuffered_written. Qed.
Print Assumptions C14_unbuffered_written.

(* the hypothesis on f only excludes running out of fuel between two nodes of the root list *)
Theorem C14_unbuffered_prefix : forall se globals f st t ctx (o : str) (r : res mstate),
  exec_template_unbuffered se globals (S f) st t ctx = (o, r) -> res_is_ok r = false ->
  (length (tpl_root (hd t (tpl_chain t))) < f)%nat ->
  (o = [] /\ r = Err 3) \/
  exists st0 pre n post f' o1 st1 on,
    (* the state the root list starts in: the execution's root frame pushed, a fresh execution id *)
    st0 = mkM (root_frame globals t ctx (g_nid (ms_g st)) :: ms_frames st) (ms_nodes st)
              (mkG (g_nid (ms_g st) + 1) (g_log (ms_g st))) /\
    tpl_root (hd t (tpl_chain t)) = pre ++ n :: post /\ f = (length pre + S f')%nat /\
    exec_nodes se globals f st0 pre = (o1, Ok st1) /\
    exec_node se globals f' st1 n = (on, r) /\
    o = o1 ++ on.
Proof. exact unbuffered_fail_shape. Qed.
Print Assumptions C14_unbuffered_prefix.

Theorem C14_unbuffered_fail_at : forall se globals (pre : list node) (n : node) (post : list node) (f : nat)
                                        (st st1 : mstate) (o1 on : str) (r : res mstate),
  exec_nodes se globals (length pre + S f) st pre = (o1, Ok st1) ->
  exec_node se globals f st1 n = (on, r) -> res_is_ok r = false ->
  exec_nodes se globals (length pre + S f) st (pre ++ n :: post) = (o1 ++ on, r).
Proof. exact exec_nodes_fail_at. Qed.
Print Assumptions C14_unbuffered_fail_at.

(* Non-vacuity.  "ab{{ 1/0 }}cd" compiles; Execute fails with an execution error, ExecuteWriter
   leaves the writer (holding ">") alone, ExecuteWriterUnbuffered has written "ab".
   "ab{{ 1 }}cd" compiles; all variants give "ab1cd"; a writer that takes 4 bytes in total
   ends with ">ab1" and its error is returned. *)
Example C14_witness :
  exists t g t' g',
    compile_src c14_senv 100 c14_name true c14_src g0 = Ok (t, g) /\
    compile_src c14_senv 100 c14_name true c14_src_ok g0 = Ok (t', g') /\
    execute c14_senv [] 100 (mkM [] [] g) t [] = inr (FErr 3) /\
    execute_writer c14_senv [] 100 (mkM [] [] g) t [] (c14_w None) = (c14_w None, WExecFail (FErr 3)) /\
    execute_writer_unbuffered c14_senv [] 100 (mkM [] [] g) t [] (c14_w None) =
      (mkW [62; 97; 98] None, WExecFail (FErr 3)) /\
    execute c14_senv [] 100 (mkM [] [] g') t' [] = inl [97; 98; 49; 99; 100] /\
    execute_writer c14_senv [] 100 (mkM [] [] g') t' [] (c14_w None) = (mkW [62; 97; 98; 49; 99; 100] None, WOk) /\
    execute_writer_unbuffered c14_senv [] 100 (mkM [] [] g') t' [] (c14_w None) = (mkW [62; 97; 98; 49; 99; 100] None, WOk) /\
    execute_writer c14_senv [] 100 (mkM [] [] g') t' [] (c14_w (Some 4%nat)) = (mkW [62; 97; 98; 49] (Some 4%nat), WWriteErr).
Proof. exact tie_c14_witness. Qed.


(* ==================== second part ==================== *)

From PV Require Import Model.Api Spec.SpecWriter Lib.GoStmt Spec.SpecWrappers gen.Wrappers gen.Tables.
From PV Require Import Tie.C14 Tie.C14w.

From Coq Require Import String.
Open Scope string_scope.

Theorem C14w_execute_is_model : forall se globals fuel st t ctx,
  exec_template_unbuffered se globals fuel st t ctx =
  match new_context globals fuel st t ctx with
  | Ok (parent, f, st') => root_execute se globals f st' parent
  | Err k => ([], Err k)
  | Unmod => ([], Unmod)
  | Fuel => ([], Fuel)
  | Panic s => ([], Panic s)
  end.
Proof. exact exec_unbuffered_prim. Qed.
Print Assumptions C14w_execute_is_model.

Theorem C14w_ExecuteWriter : forall via, In via stream_methods -> forall d, (6 <= d)%nat ->
  forall se globals fuel st t ctx (w : writer),
  as_writer_result (go_call go_wrappers via se globals d (GVTemplate t) "ExecuteWriter" [GVContext ctx; GVWriter]
                            (world0 w fuel st))
  = Some (execute_writer se globals fuel st t ctx w).
Proof. exact tie_ExecuteWriter. Qed.
Print Assumptions C14w_ExecuteWriter.

Theorem C14w_ExecuteWriterUnbuffered : forall via, In via stream_methods -> forall d, (6 <= d)%nat ->
  forall se globals fuel st t ctx (w : writer),
  as_writer_result (go_call go_wrappers via se globals d (GVTemplate t) "ExecuteWriterUnbuffered"
                            [GVContext ctx; GVWriter] (world0 w fuel st))
  = Some (execute_writer_unbuffered se globals fuel st t ctx w).
Proof. exact tie_ExecuteWriterUnbuffered. Qed.
Print Assumptions C14w_ExecuteWriterUnbuffered.

(* on failure Execute returns "" and the error, ExecuteBytes nil and the error *)
Theorem C14w_Execute : forall via, In via stream_methods -> forall d, (6 <= d)%nat ->
  forall se globals fuel st t ctx (w : writer),
  as_value_result (GVBytes []) (go_call go_wrappers via se globals d (GVTemplate t) "Execute" [GVContext ctx]
                                        (world0 w fuel st))
  = Some (execute se globals fuel st t ctx).
Proof. exact tie_Execute. Qed.
Print Assumptions C14w_Execute.

Theorem C14w_ExecuteBytes : forall via, In via stream_methods -> forall d, (6 <= d)%nat ->
  forall se globals fuel st t ctx (w : writer),
  as_value_result GVNil (go_call go_wrappers via se globals d (GVTemplate t) "ExecuteBytes" [GVContext ctx]
                                 (world0 w fuel st))
  = Some (execute_bytes se globals fuel st t ctx).
Proof. exact tie_ExecuteBytes. Qed.
Print Assumptions C14w_ExecuteBytes.

Theorem C14w_newBufferAndExecute : forall via, In via stream_methods -> forall d, (6 <= d)%nat ->
  forall se globals fuel st t ctx (w : writer),
  as_buffer_result (go_call go_wrappers via se globals d (GVTemplate t) "newBufferAndExecute" [GVContext ctx]
                            (world0 w fuel st))
  = Some (buffer_and_execute se globals fuel st t ctx).
Proof. exact tie_newBufferAndExecute. Qed.
Print Assumptions C14w_newBufferAndExecute.

Theorem C14w_newTemplateWriterAndExecute : forall via, In via stream_methods -> forall d, (6 <= d)%nat ->
  forall se globals fuel st t ctx (w : writer),
  as_writer_result (go_call go_wrappers via se globals d (GVTemplate t) "newTemplateWriterAndExecute"
                            [GVContext ctx; GVWriter] (world0 w fuel st))
  = Some (execute_writer_unbuffered se globals fuel st t ctx w).
Proof. exact tie_newTemplateWriterAndExecute. Qed.
Print Assumptions C14w_newTemplateWriterAndExecute.

(* Template.execute given &templateWriter{w: the caller's writer} *)
Theorem C14w_execute_writer : forall via, In via stream_methods -> forall d, (6 <= d)%nat ->
  forall se globals fuel st t ctx (w : writer),
  as_writer_result (go_call go_wrappers via se globals d (GVTemplate t) "execute" [GVContext ctx; tw_value]
                            (world0 w fuel st))
  = Some (execute_writer_unbuffered se globals fuel st t ctx w).
Proof. exact tie_execute_writer. Qed.
Print Assumptions C14w_execute_writer.

(* Template.execute given a buffer that holds b0: afterwards it holds b0 and the output-so-far *)
Theorem C14w_execute_buffer : forall via, In via stream_methods -> forall d, (6 <= d)%nat ->
  forall se globals fuel st t ctx (w : writer) (b0 : str),
  as_buffer0_result (go_call go_wrappers via se globals d (GVTemplate t) "execute" [GVContext ctx; GVBuffer 0]
                             (mkGW w [b0] fuel st))
  = (let '(o, r) := exec_template_unbuffered se globals fuel st t ctx in Some ((b0 ++ o)%list, failure_of r)).
Proof. exact tie_execute_buffer. Qed.
Print Assumptions C14w_execute_buffer.

Theorem C14w_templateWriter_Write : forall via d, (2 <= d)%nat -> forall se globals (s : str) (w : writer) fuel st,
  as_write_result (go_call go_wrappers via se globals d tw_value "Write" [GVBytes s] (world0 w fuel st))
  = Some (w_write w s).
Proof. exact tie_templateWriter_Write. Qed.
Print Assumptions C14w_templateWriter_Write.

Theorem C14w_templateWriter_WriteString : forall via d, (2 <= d)%nat -> forall se globals (s : str) (w : writer) fuel st,
  as_write_result (go_call go_wrappers via se globals d tw_value "WriteString" [GVBytes s] (world0 w fuel st))
  = Some (w_write w s).
Proof. exact tie_templateWriter_WriteString. Qed.
Print Assumptions C14w_templateWriter_WriteString.

Theorem C14w_no_writer_no_write : forall via, In via stream_methods -> forall d, (6 <= d)%nat ->
  forall se globals fuel st t ctx (w : writer) m, In m ["Execute"; "ExecuteBytes"; "newBufferAndExecute"] ->
  match go_call go_wrappers via se globals d (GVTemplate t) m [GVContext ctx] (world0 w fuel st) with
  | GOk (_, w') => gw_out w' = w
  | _ => False
  end.
Proof. exact tie_Execute_no_write. Qed.
Print Assumptions C14w_no_writer_no_write.

(* a function with a statement that was not understood: its run is never a result *)
Theorem C14w_unknown_blocks : forall via se globals d t ctx gw,
  as_writer_result (go_call [c14w_unknown_demo] via se globals (S d) (GVTemplate t) "ExecuteWriter"
                            [GVContext ctx; GVWriter] gw) = None.
Proof. exact tie_unknown_blocks. Qed.
Print Assumptions C14w_unknown_blocks.

(* Non-vacuity: the C14 witness templates run through the translated Go wrappers.
   "ab{{ 1/0 }}cd": ExecuteWriter fails and leaves the writer (holding ">") alone,
   ExecuteWriterUnbuffered has written "ab".  "ab{{ 1 }}cd": Execute gives "ab1cd"; ExecuteWriter
   into a writer that takes 4 bytes in total ends with ">ab1" and the writer's error. *)
Example C14w_witness :
  exists t g t' g',
    compile_src c14_senv 100 c14_name true c14_src g0 = Ok (t, g) /\
    compile_src c14_senv 100 c14_name true c14_src_ok g0 = Ok (t', g') /\
    as_writer_result (go_call go_wrappers "WriteString" c14_senv [] 6 (GVTemplate t) "ExecuteWriter"
                              [GVContext []; GVWriter] (world0 (c14_w None) 100 (mkM [] [] g)))
      = Some (c14_w None, WExecFail (FErr 3)) /\
    as_writer_result (go_call go_wrappers "WriteString" c14_senv [] 6 (GVTemplate t) "ExecuteWriterUnbuffered"
                              [GVContext []; GVWriter] (world0 (c14_w None) 100 (mkM [] [] g)))
      = Some (mkW [62; 97; 98]%N None, WExecFail (FErr 3)) /\
    as_value_result (GVBytes []) (go_call go_wrappers "Write" c14_senv [] 6 (GVTemplate t') "Execute"
                              [GVContext []] (world0 (c14_w None) 100 (mkM [] [] g')))
      = Some (inl [97; 98; 49; 99; 100]%N) /\
    as_writer_result (go_call go_wrappers "Write" c14_senv [] 6 (GVTemplate t') "ExecuteWriter"
                              [GVContext []; GVWriter] (world0 (c14_w (Some 4%nat)) 100 (mkM [] [] g')))
      = Some (mkW [62; 97; 98; 49]%N (Some 4%nat), WWriteErr).
Proof. exact tie_c14w_witness. Qed.
Print Assumptions C14w_witness.
