(* Property C18 - built-in data filters match their Django/Python reference semantics.
   Proved for all sequences of any length; integer arguments range over the window the
   property names (the decimal text of a bound has to go through the filter's own
   text-to-number conversion, which is checked exhaustively on the window by computation).
   Partial: date/time, stringformat, title, non-ASCII upper/lower/capfirst rest on Go's
   time, fmt and Unicode tables, which are not modelled.
   The hypotheses [length < two63] say that a length fits Go's int, which holds of every Go
   slice and string; without them the filter's 64-bit index arithmetic would wrap. *)
From PV Require Import Model.Filters Spec.SpecFilters gen.Scalar.
From PV Require Import Tie.C18.
Open Scope N_scope.


(* slice is Python slicing, on lists of any length ... *)
Theorem C18_slice_list_is_python :
  forall (l : list val) (a b : option Z), opt_in_window a -> opt_in_window b ->
    (Z.of_nat (length l) < two63)%Z ->
    apply_filter [115; 108; 105; 99; 101] (as_value (VList l)) (as_value (VStr (slice_arg a b)))
    = Ok (as_value (VList (py_slice l a b))).
Proof. exact tie_slice_list_is_python. Qed.
Print Assumptions C18_slice_list_is_python.

(* ... and on strings, counted in characters *)
Theorem C18_slice_string_is_python :
  forall (s : str) (a b : option Z), opt_in_window a -> opt_in_window b ->
    (Z.of_nat (rune_len s) < two63)%Z ->
    apply_filter [115; 108; 105; 99; 101] (as_value (VStr s)) (as_value (VStr (slice_arg a b)))
    = Ok (as_value (VStr (of_runes (py_slice (runes s) a b)))).
Proof. exact tie_slice_string_is_python. Qed.
Print Assumptions C18_slice_string_is_python.

(* length counts elements / characters; first and last are the first and last of them *)
Theorem C18_length_counts :
  forall (l : list val) (s : str),
    apply_filter [108; 101; 110; 103; 116; 104] (as_value (VList l)) (as_value VNil) = Ok (as_value (VInt (Z.of_nat (length l)))) /\
    apply_filter [108; 101; 110; 103; 116; 104] (as_value (VStr s)) (as_value VNil) = Ok (as_value (VInt (Z.of_nat (rune_len s)))).
Proof. exact tie_length_counts. Qed.
Print Assumptions C18_length_counts.

Theorem C18_first_last_list :
  forall (x : val) (l : list val),
    apply_filter [102; 105; 114; 115; 116] (as_value (VList (x :: l))) (as_value VNil) = Ok (as_value x) /\
    apply_filter [108; 97; 115; 116] (as_value (VList (l ++ [x]))) (as_value VNil) = Ok (as_value x).
Proof. exact tie_first_last_list. Qed.
Print Assumptions C18_first_last_list.

(* padding: the requested width in characters, spaces only, on the stated side, the text
   itself unaltered (widths up to the cap) *)
Theorem C18_ljust_shape :
  forall (s : str) (w : Z), (0 <= w <= max_char_padding)%Z -> (Z.of_nat (rune_len s) < two63)%Z ->
    exists pad, apply_filter [108; 106; 117; 115; 116] (as_value (VStr s)) (as_value (VInt w)) = Ok (as_value (VStr (s ++ pad))) /\
                all_spaces pad = true /\
                length pad = Z.to_nat (Z.max 0 (w - Z.of_nat (rune_len s))).
Proof. exact tie_ljust_shape. Qed.
Print Assumptions C18_ljust_shape.

Theorem C18_rjust_shape :
  forall (s : str) (w : Z), (w <= max_char_padding)%Z ->
    exists pad, apply_filter [114; 106; 117; 115; 116] (as_value (VStr s)) (as_value (VInt w)) = Ok (as_value (VStr (pad ++ s))) /\
                all_spaces pad = true /\
                length pad = Z.to_nat (Z.max 0 (w - Z.of_nat (rune_len s))).
Proof. exact tie_rjust_shape. Qed.
Print Assumptions C18_rjust_shape.

Theorem C18_center_shape :
  forall (s : str) (w : Z), (Z.of_nat (rune_len s) < w)%Z -> (w - Z.of_nat (rune_len s) <= max_char_padding)%Z ->
    exists left right,
      apply_filter [99; 101; 110; 116; 101; 114] (as_value (VStr s)) (as_value (VInt w)) = Ok (as_value (VStr (left ++ s ++ right))) /\
      all_spaces left = true /\ all_spaces right = true /\
      (length left + length right = Z.to_nat (w - Z.of_nat (rune_len s)))%nat /\
      (length left = length right \/ length left = S (length right)).
Proof. exact tie_center_shape. Qed.
Print Assumptions C18_center_shape.

(* truncatechars: at most n characters, the kept text unaltered, an ellipsis when there is room *)
Theorem C18_truncatechars_shape :
  forall (s : str) (n : Z), (0 < n)%Z -> (n < Z.of_nat (rune_len s))%Z ->
    exists kept, apply_filter [116; 114; 117; 110; 99; 97; 116; 101; 99; 104; 97; 114; 115]
                   (as_value (VStr s)) (as_value (VInt n)) = Ok (as_value (VStr (of_runes kept ++ (if (3 <=? n)%Z then ellipsis else [])))) /\
                 kept = firstn (Z.to_nat (if (3 <=? n)%Z then n - 3 else n)) (runes s).
Proof. exact tie_truncatechars_shape. Qed.
Print Assumptions C18_truncatechars_shape.

(* divisibleby and add on integers *)
Theorem C18_divisibleby :
  forall (x d : Z), d <> 0%Z ->
    apply_filter [100; 105; 118; 105; 115; 105; 98; 108; 101; 98; 121] (as_value (VInt x)) (as_value (VInt d))
    = Ok (as_value (VBool (Z.rem x d =? 0)%Z)).
Proof. exact tie_divisibleby. Qed.
Print Assumptions C18_divisibleby.

(* no filter of the model ever reaches a Go operation that would panic *)
Theorem C18_filters_never_panic :
  forall (name : str) (x p : value) (site : N), apply_filter name x p <> Panic site.
Proof. exact tie_filters_never_panic. Qed.
Print Assumptions C18_filters_never_panic.


(* ---- the index arithmetic is the code's ----
   [go_slice_bounds] (gen/Scalar.v) is filterSlice's from/to bookkeeping, translated from /repo
   statement by statement on every run; [sl_from]/[sl_to] (Proofs/FilterProofs.v) are what the
   model's slice computes with and what the theorems above are proved about. *)
Theorem C18_slice_arithmetic_is_the_code : forall n f v b,
  fst (go_slice_bounds n f v b) = (sl_from n f, sl_to n (sl_from n f) (if b then n else v)).
Proof. exact e2_slice_bounds. Qed.
Print Assumptions C18_slice_arithmetic_is_the_code.

(* the padding filters' decisions and blank counts are the code's: [go_center], [go_ljust], [go_rjust]
   (gen/Scalar.v) are translated from /repo on every run, guards included *)
Theorem C18_center_arithmetic_is_the_code : forall x p w, int_of p = Ok w ->
  center_body x p =
  (let '(unchanged, refuses, _, _, _, lft, rgt) := go_center w (val_len (vv x)) in
   if unchanged then Ok x
   else if refuses then ferr
   else bind (str_of x) (fun s => okv (VStr (spaces lft ++ s ++ spaces rgt)))).
Proof. exact e2_center_body. Qed.
Print Assumptions C18_center_arithmetic_is_the_code.

Theorem C18_ljust_arithmetic_is_the_code : forall x p w, int_of p = Ok w ->
  ljust_body x p =
  (let '(refuses, times) := go_ljust w (val_len (vv x)) in
   if refuses then ferr else bind (str_of x) (fun s => okv (VStr (s ++ spaces times)))).
Proof. exact e2_ljust_body. Qed.
Print Assumptions C18_ljust_arithmetic_is_the_code.

Theorem C18_rjust_arithmetic_is_the_code : forall x p w, int_of p = Ok w ->
  rjust_body x p =
  (let '(refuses, width) := go_rjust w in
   if refuses then ferr
   else bind (str_of x) (fun s => okv (VStr (spaces (width - Z.of_nat (length (runes s))) ++ s)))).
Proof. exact e2_rjust_body. Qed.
Print Assumptions C18_rjust_arithmetic_is_the_code.

Theorem C18_get_digit_guard_is_the_code : forall i l,
  go_get_digit i l = (((i <=? 0) || (l <? i))%Z, i, l).
Proof. exact e2_get_digit. Qed.
Print Assumptions C18_get_digit_guard_is_the_code.
