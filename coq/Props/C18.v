(* Property C18 - built-in data filters match their Django/Python reference semantics.
   Proved for all sequences of any length; integer arguments range over the window the
   property names (the decimal text of a bound has to go through the filter's own
   text-to-number conversion, which is checked exhaustively on the window by computation).
   Partial: date/time, stringformat, title, non-ASCII upper/lower/capfirst rest on Go's
   time, fmt and Unicode tables, which are not modelled.
   The hypotheses [length < two63] say that a length fits Go's int, which holds of every Go
   slice and string; without them the filter's 64-bit index arithmetic would wrap. *)
(* ---- second part (statements appended below) ---- *)
(* Property C18, second part - more built-in data filters against independent references.

   The references (Spec/SpecFilters2.v) are written from the Django documentation and the
   Python operations it names: sep.join(parts) [py_join], s.split(sep) cutting at the first
   occurrence again and again [split_rel], s.replace(x, "") scanning from the left without
   overlap [cut_rel], str.split() on white space [ws_fields], Python truthiness [py_falsy],
   64-bit addition [int64_add], the i-th decimal digit [digit_from_right], the ASCII alphabets
   [ascii_upper]/[ascii_lower], line numbering [numbered], and the truncation shapes.
   Every theorem is about [apply_filter <name>], i.e. it goes through the generated table
   [filter_impl] (Tie/C18b.v), for inputs of any length.  [x] is the filtered value and [p] the
   argument; hypotheses such as [to_string (vv x) = Some s] say "x renders as the text s"
   (strings, numbers, booleans and nil do; lists and maps do not).

   "Well-formed text" is [of_runes rs] with [Forall scalar rs]: the UTF-8 encoding of a list of
   Unicode scalar values (ASCII text is a special case, [C18b_ascii_is_well_formed]); on such
   text characters may have 1 to 4 bytes and the theorems speak about characters, not bytes.

   Where pongo2 deliberately or accidentally differs from Django the theorem states pongo2's
   law and the comment says so:
     - add: anything that is not number+number is text concatenation ("5"|add:3 = "53");
     - yesno: a 2-part argument keeps "maybe" for nil (Django maps nil to the "no" text);
       a 1-part or 4-part argument is an error (Django returns the input);
     - pluralize: a float is truncated first (1.5 is singular); non-numbers are an error;
     - get_digit: a position beyond the digits returns the input (Django returns 0); on a
       negative number the sign position gives the input as well (fix D39; before, 253);
     - capfirst: a value without characters (nil, a number) gives "" (Django prints the number);
     - truncatechars: n <= 0 leaves the text alone (Django returns the ellipsis);
     - wordwrap: wraps after w WORDS, not after w characters;
     - first/last/make_list/join on ill-formed UTF-8: a bad byte becomes U+FFFD (example);
     - upper/lower/capfirst on non-ASCII text rest on Go's Unicode tables: not modelled (Unmod);
     - cut: "the result contains no occurrence of x" is FALSE for arguments of two or more
       bytes (removing occurrences can create new ones: [C18b_cut_can_leave_an_occurrence]);
       what holds is Python's replace law [cut_rel], and the claim for one-byte arguments.

   Third part (at the end): the tag {% widthratio current max width [as name] %}, Django's
   current / max * width rounded, on a maximum of ZERO (definitions in Spec/SpecWidthratio.v).
   Django answers "0" there; pongo2 printed the integer conversion of +Inf, -Inf or NaN, and
   now answers 0 as well (fix D48).
     - C18_widthratio_zero_max: when the three arguments evaluate and convert to numbers and
       the maximum converts to a zero (the integer 0, 0.0, -0.0, nil ...), the tag writes the
       text "0" - whatever current and width are - and leaves the state as the evaluation of
       the arguments left it;
     - C18_widthratio_zero_max_as: with "as name" it writes nothing and binds name to the
       integer 0 in the private context of the frame;
     - C18_widthratio_zero_values: the integer 0 and both float zeros are such maxima.
   These are laws of one step of [exec_node] (fuel S f, the arguments evaluated with fuel f),
   stated on the model directly; the examples run the tag by computation. *)
From PV Require Import Model.Filters Spec.SpecFilters gen.Scalar.
From PV Require Import Tie.C18.
From PV Require Import Model.Filters Spec.SpecFilters Spec.SpecFilters2.
From PV Require Import Tie.C18b.
From PV Require Import Lib.GoFloat Model.Value Model.Doc Model.Exec Spec.SpecWidthratio.
From PV Require Import Tie.C18c.
Open Scope N_scope.

(* slice is Python slicing, on lists of any length ... *)
Theorem C18_slice_list_is_python :
  forall (l : list val) (a b : option Z), opt_in_window a -> opt_in_window b ->
    (Z.of_nat (length l) < two63)%Z ->
    apply_filter [115; 108; 105; 99; 101] (as_value (VList l)) (as_value (VStr (slice_arg a b)))
    = Ok (as_value (VList (py_slice l a b))).
Proof. exact tie_slice_list_is_python. Qed.
Print Assumptions C18_slice_list_is_python.

(* ... and on strings, counted in characters *)
Theorem C18_slice_string_is_python :
  forall (s : str) (a b : option Z), opt_in_window a -> opt_in_window b ->
    (Z.of_nat (rune_len s) < two63)%Z ->
    apply_filter [115; 108; 105; 99; 101] (as_value (VStr s)) (as_value (VStr (slice_arg a b)))
    = Ok (as_value (VStr (of_runes (py_slice (runes s) a b)))).
Proof. exact tie_slice_string_is_python. Qed.
Print Assumptions C18_slice_string_is_python.

(* length counts elements / characters; first and last are the first and last of them *)
Theorem C18_length_counts :
  forall (l : list val) (s : str),
    apply_filter [108; 101; 110; 103; 116; 104] (as_value (VList l)) (as_value VNil) = Ok (as_value (VInt (Z.of_nat (length l)))) /\
    apply_filter [108; 101; 110; 103; 116; 104] (as_value (VStr s)) (as_value VNil) = Ok (as_value (VInt (Z.of_nat (rune_len s)))).
Proof. exact tie_length_counts. Qed.
Print Assumptions C18_length_counts.

Theorem C18_first_last_list :
  forall (x : val) (l : list val),
    apply_filter [102; 105; 114; 115; 116] (as_value (VList (x :: l))) (as_value VNil) = Ok (as_value x) /\
    apply_filter [108; 97; 115; 116] (as_value (VList (l ++ [x]))) (as_value VNil) = Ok (as_value x).
Proof. exact tie_first_last_list. Qed.
Print Assumptions C18_first_last_list.

(* padding: the requested width in characters, spaces only, on the stated side, the text
   itself unaltered (widths up to the cap) *)
Theorem C18_ljust_shape :
  forall (s : str) (w : Z), (0 <= w <= max_char_padding)%Z -> (Z.of_nat (rune_len s) < two63)%Z ->
    exists pad, apply_filter [108; 106; 117; 115; 116] (as_value (VStr s)) (as_value (VInt w)) = Ok (as_value (VStr (s ++ pad))) /\
                all_spaces pad = true /\
                length pad = Z.to_nat (Z.max 0 (w - Z.of_nat (rune_len s))).
Proof. exact tie_ljust_shape. Qed.
Print Assumptions C18_ljust_shape.

Theorem C18_rjust_shape :
  forall (s : str) (w : Z), (w <= max_char_padding)%Z ->
    exists pad, apply_filter [114; 106; 117; 115; 116] (as_value (VStr s)) (as_value (VInt w)) = Ok (as_value (VStr (pad ++ s))) /\
                all_spaces pad = true /\
                length pad = Z.to_nat (Z.max 0 (w - Z.of_nat (rune_len s))).
Proof. exact tie_rjust_shape. Qed.
Print Assumptions C18_rjust_shape.

Theorem C18_center_shape :
  forall (s : str) (w : Z), (Z.of_nat (rune_len s) < w)%Z -> (w - Z.of_nat (rune_len s) <= max_char_padding)%Z ->
    exists left right,
      apply_filter [99; 101; 110; 116; 101; 114] (as_value (VStr s)) (as_value (VInt w)) = Ok (as_value (VStr (left ++ s ++ right))) /\
      all_spaces left = true /\ all_spaces right = true /\
      (length left + length right = Z.to_nat (w - Z.of_nat (rune_len s)))%nat /\
      (length left = length right \/ length left = S (length right)).
Proof. exact tie_center_shape. Qed.
Print Assumptions C18_center_shape.

(* truncatechars: at most n characters, the kept text unaltered, an ellipsis when there is room *)
Theorem C18_truncatechars_shape :
  forall (s : str) (n : Z), (0 < n)%Z -> (n < Z.of_nat (rune_len s))%Z ->
    exists kept, apply_filter [116; 114; 117; 110; 99; 97; 116; 101; 99; 104; 97; 114; 115]
                   (as_value (VStr s)) (as_value (VInt n)) = Ok (as_value (VStr (of_runes kept ++ (if (3 <=? n)%Z then ellipsis else [])))) /\
                 kept = firstn (Z.to_nat (if (3 <=? n)%Z then n - 3 else n)) (runes s).
Proof. exact tie_truncatechars_shape. Qed.
Print Assumptions C18_truncatechars_shape.

(* divisibleby and add on integers *)
Theorem C18_divisibleby :
  forall (x d : Z), d <> 0%Z ->
    apply_filter [100; 105; 118; 105; 115; 105; 98; 108; 101; 98; 121] (as_value (VInt x)) (as_value (VInt d))
    = Ok (as_value (VBool (Z.rem x d =? 0)%Z)).
Proof. exact tie_divisibleby. Qed.
Print Assumptions C18_divisibleby.

(* no filter of the model ever reaches a Go operation that would panic *)
Theorem C18_filters_never_panic :
  forall (name : str) (x p : value) (site : N), apply_filter name x p <> Panic site.
Proof. exact tie_filters_never_panic. Qed.
Print Assumptions C18_filters_never_panic.


(* ---- the index arithmetic is the code's ----
   [go_slice_bounds] (gen/Scalar.v) is filterSlice's from/to bookkeeping, translated from /repo
   statement by statement on every run; [sl_from]/[sl_to] (Proofs/FilterProofs.v) are what the
   model's slice computes with and what the theorems above are proved about. *)
Theorem C18_slice_arithmetic_is_the_code : forall n f v b,
  fst (go_slice_bounds n f v b) = (sl_from n f, sl_to n (sl_from n f) (if b then n else v)).
Proof. exact e2_slice_bounds. Qed.
Print Assumptions C18_slice_arithmetic_is_the_code.

(* the padding filters' decisions and blank counts are the code's: [go_center], [go_ljust], [go_rjust]
   (gen/Scalar.v) are translated from /repo on every run, guards included *)
Theorem C18_center_arithmetic_is_the_code : forall x p w, int_of p = Ok w ->
  center_body x p =
  (let '(unchanged, refuses, _, _, _, lft, rgt) := go_center w (val_len (vv x)) in
   if unchanged then Ok x
   else if refuses then ferr
   else bind (str_of x) (fun s => okv (VStr (spaces lft ++ s ++ spaces rgt)))).
Proof. exact e2_center_body. Qed.
Print Assumptions C18_center_arithmetic_is_the_code.

Theorem C18_ljust_arithmetic_is_the_code : forall x p w, int_of p = Ok w ->
  ljust_body x p =
  (let '(refuses, times) := go_ljust w (val_len (vv x)) in
   if refuses then ferr else bind (str_of x) (fun s => okv (VStr (s ++ spaces times)))).
Proof. exact e2_ljust_body. Qed.
Print Assumptions C18_ljust_arithmetic_is_the_code.

Theorem C18_rjust_arithmetic_is_the_code : forall x p w, int_of p = Ok w ->
  rjust_body x p =
  (let '(refuses, width) := go_rjust w in
   if refuses then ferr
   else bind (str_of x) (fun s => okv (VStr (spaces (width - Z.of_nat (length (runes s))) ++ s)))).
Proof. exact e2_rjust_body. Qed.
Print Assumptions C18_rjust_arithmetic_is_the_code.

Theorem C18_get_digit_guard_is_the_code : forall i l c,
  go_get_digit i l c = (((i <=? 0) || (l <? i))%Z, ((c <? 48) || (57 <? c))%Z, i, l, c).
Proof. exact e2_get_digit. Qed.
Print Assumptions C18_get_digit_guard_is_the_code.


(* ==================== second part ==================== *)

(* ================================================================== *)
(* join, split                                                         *)

(* join on a list of scalars of any kinds: their texts with the separator between them, for
   EVERY separator - the empty one included (fix D46; before, a list with the empty separator
   printed Go's placeholder for the slice and was outside the model) *)
Theorem C18b_join_list : forall (x p : value) (l : list val) (strs : list str) (sep : str),
  vv x = VList l -> to_string (vv p) = Some sep -> rendered l strs ->
  apply_filter n_join x p = Ok (as_value (VStr (py_join sep strs))).
Proof. exact tie_join_list. Qed.
Print Assumptions C18b_join_list.

(* ... and with the empty separator that is the concatenation of the items' texts ("".join(l)) *)
Theorem C18b_join_list_empty_separator : forall (x p : value) (l : list val) (strs : list str),
  vv x = VList l -> to_string (vv p) = Some [] -> rendered l strs ->
  apply_filter n_join x p = Ok (as_value (VStr (concat strs))).
Proof. exact tie_join_list_nosep. Qed.
Print Assumptions C18b_join_list_empty_separator.

(* join on a string: its characters are the items; with the empty separator the string itself *)
Theorem C18b_join_string : forall (x p : value) (s sep : str),
  vv x = VStr s -> to_string (vv p) = Some sep ->
  apply_filter n_join x p = Ok (as_value (VStr (match sep with [] => s | _ => py_join sep (chars s) end))).
Proof. exact tie_join_string. Qed.
Print Assumptions C18b_join_string.

(* join on anything else returns the input *)
Theorem C18b_join_scalar : forall (x p : value), can_slice (vv x) = false -> apply_filter n_join x p = Ok x.
Proof. exact tie_join_scalar. Qed.
Print Assumptions C18b_join_scalar.

(* split with a non-empty separator gives Python's pieces, and joining them gives the text back *)
Theorem C18b_split_is_python : forall (x p : value) (s sep : str),
  to_string (vv x) = Some s -> to_string (vv p) = Some sep -> sep <> [] ->
  exists parts, apply_filter n_split x p = Ok (as_value (VList (map VStr parts))) /\
                split_rel sep s parts /\ py_join sep parts = s.
Proof. exact tie_split_python. Qed.
Print Assumptions C18b_split_is_python.

(* the reference relation has one answer only, so the theorem above pins the pieces down *)
Theorem C18b_split_reference_is_a_function : forall (sep s : str) (l1 l2 : list str), sep <> [] ->
  split_rel sep s l1 -> split_rel sep s l2 -> l1 = l2.
Proof. exact tie_split_rel_fun. Qed.
Print Assumptions C18b_split_reference_is_a_function.

(* the round trip through both filters: x|split:sep|join:sep is x's text *)
Theorem C18b_split_then_join : forall (x p : value) (s sep : str),
  to_string (vv x) = Some s -> to_string (vv p) = Some sep -> sep <> [] ->
  exists y, apply_filter n_split x p = Ok y /\ apply_filter n_join y p = Ok (as_value (VStr s)).
Proof. exact tie_split_then_join. Qed.
Print Assumptions C18b_split_then_join.

(* split with the empty separator (Go's strings.Split; Python refuses): the characters *)
Theorem C18b_split_empty_separator : forall (x p : value) (rs : list N),
  to_string (vv x) = Some (of_runes rs) -> Forall scalar rs -> to_string (vv p) = Some [] ->
  apply_filter n_split x p = Ok (as_value (VList (map VStr (map encode_rune rs)))).
Proof. exact tie_split_nosep. Qed.
Print Assumptions C18b_split_empty_separator.

Example C18b_join_example :   (* ["a", 12, True, nil] | join:", "  =  "a, 12, True, " *)
  apply_filter n_join (as_value (VList [VStr [97]; VInt 12; VBool true; VNil])) (as_value (VStr [44; 32]))
  = Ok (as_value (VStr [97; 44; 32; 49; 50; 44; 32; 84; 114; 117; 101; 44; 32])).
Proof. vm_compute. reflexivity. Qed.
Example C18b_join_instance :  (* the hypotheses of C18b_join_list on that list *)
  apply_filter n_join (as_value (VList [VStr [97]; VInt 12; VBool true; VNil])) (as_value (VStr [44; 32]))
  = Ok (as_value (VStr (py_join [44; 32] [[97]; [49; 50]; [84; 114; 117; 101]; []]))).
Proof.
  apply (C18b_join_list _ _ [VStr [97]; VInt 12; VBool true; VNil]);
    [reflexivity | reflexivity | repeat constructor].
Qed.
Example C18b_join_string_example :   (* "aéb" | join:"-"  =  "a-é-b" *)
  apply_filter n_join (as_value (VStr [97; 195; 169; 98])) (as_value (VStr [45]))
  = Ok (as_value (VStr [97; 45; 195; 169; 45; 98])).
Proof. vm_compute. reflexivity. Qed.
Example C18b_join_list_empty_separator_example :   (* ["a", 12, "b"] | join:""  =  "a12b" (fix D46) *)
  apply_filter n_join (as_value (VList [VStr [97]; VInt 12; VStr [98]])) (as_value (VStr []))
  = Ok (as_value (VStr [97; 49; 50; 98])).
Proof. vm_compute. reflexivity. Qed.
Example C18b_join_list_empty_separator_instance :  (* the hypotheses of the theorem on that list *)
  apply_filter n_join (as_value (VList [VStr [97]; VInt 12; VStr [98]])) (as_value (VStr []))
  = Ok (as_value (VStr (concat [[97]; [49; 50]; [98]]))).
Proof.
  apply (C18b_join_list_empty_separator _ _ [VStr [97]; VInt 12; VStr [98]]);
    [reflexivity | reflexivity | repeat constructor].
Qed.
Example C18b_split_example :   (* "a,b,,c" | split:","  =  ["a", "b", "", "c"] *)
  apply_filter n_split (as_value (VStr [97; 44; 98; 44; 44; 99])) (as_value (VStr [44]))
  = Ok (as_value (VList [VStr [97]; VStr [98]; VStr []; VStr [99]])).
Proof. vm_compute. reflexivity. Qed.
Example C18b_split_leftmost_example :   (* "aaa" | split:"aa"  =  ["", "a"] *)
  apply_filter n_split (as_value (VStr [97; 97; 97])) (as_value (VStr [97; 97]))
  = Ok (as_value (VList [VStr []; VStr [97]])).
Proof. vm_compute. reflexivity. Qed.
Example C18b_split_chars_example :   (* "aéb" | split:""  =  ["a", "é", "b"] *)
  apply_filter n_split (as_value (VStr [97; 195; 169; 98])) (as_value (VStr []))
  = Ok (as_value (VList [VStr [97]; VStr [195; 169]; VStr [98]])).
Proof. vm_compute. reflexivity. Qed.

(* ================================================================== *)
(* first, last on strings                                              *)

(* on any string: the first / last character ("" if there is none); a character is what
   Go's UTF-8 decoder makes of the bytes *)
Theorem C18b_first_last_string : forall (x p : value) (s : str), vv x = VStr s ->
  apply_filter n_first x p = Ok (as_value (VStr (hd [] (chars s)))) /\
  apply_filter n_last x p = Ok (as_value (VStr (last (chars s) []))).
Proof. exact tie_first_last_string. Qed.
Print Assumptions C18b_first_last_string.

(* on well-formed text: all the bytes of the first / last character *)
Theorem C18b_first_multibyte : forall (x p : value) (r : N) (rest : str),
  vv x = VStr (encode_rune r ++ rest) -> scalar r ->
  apply_filter n_first x p = Ok (as_value (VStr (encode_rune r))).
Proof. exact tie_first_wf. Qed.
Print Assumptions C18b_first_multibyte.

Theorem C18b_last_multibyte : forall (x p : value) (rs : list N) (r : N),
  vv x = VStr (of_runes rs ++ encode_rune r) -> Forall scalar rs -> scalar r ->
  apply_filter n_last x p = Ok (as_value (VStr (encode_rune r))).
Proof. exact tie_last_wf. Qed.
Print Assumptions C18b_last_multibyte.

(* nothing to take: "" for the empty string, the empty list and everything that is no sequence *)
Theorem C18b_first_last_empty : forall (x p : value),
  (val_len (vv x) = 0%Z \/ can_slice (vv x) = false) ->
  apply_filter n_first x p = Ok (as_value (VStr [])) /\ apply_filter n_last x p = Ok (as_value (VStr [])).
Proof. exact tie_first_last_empty. Qed.
Print Assumptions C18b_first_last_empty.

Example C18b_first_example :   (* "éa" | first = "é" (two bytes) *)
  apply_filter n_first (as_value (VStr [195; 169; 97])) (as_value VNil) = Ok (as_value (VStr [195; 169])).
Proof. vm_compute. reflexivity. Qed.
Example C18b_last_instance :   (* C18b_last_multibyte on "a" ++ "é" *)
  apply_filter n_last (as_value (VStr [97; 195; 169])) (as_value VNil) = Ok (as_value (VStr [195; 169])).
Proof.
  apply (C18b_last_multibyte _ _ [97] 233); [reflexivity | repeat constructor | left; reflexivity].
Qed.
Example C18b_first_bad_byte_example :   (* an ill-formed first byte becomes U+FFFD *)
  apply_filter n_first (as_value (VStr [255; 97])) (as_value VNil) = Ok (as_value (VStr [239; 191; 189])).
Proof. vm_compute. reflexivity. Qed.
Example C18b_first_of_number_example :
  apply_filter n_first (as_value (VInt 5)) (as_value VNil) = Ok (as_value (VStr [])).
Proof. vm_compute. reflexivity. Qed.

(* ================================================================== *)
(* add                                                                 *)

(* int + int: the sum as a 64-bit machine holds it *)
Theorem C18b_add_ints : forall (x p : value) (a b : Z), vv x = VInt a -> vv p = VInt b ->
  apply_filter n_add x p = Ok (as_value (VInt (wrap64 (a + b)))) /\
  (is_int64 a -> is_int64 b -> apply_filter n_add x p = Ok (as_value (VInt (int64_add a b)))).
Proof. exact tie_add_ints. Qed.
Print Assumptions C18b_add_ints.

(* two numbers of which one is a float: the float64 sum *)
Theorem C18b_add_floats : forall (x p : value) (a b : float),
  is_number (vv x) = true -> is_number (vv p) = true ->
  is_float (vv x) || is_float (vv p) = true ->
  to_float (vv x) = Some a -> to_float (vv p) = Some b ->
  apply_filter n_add x p = Ok (as_value (VFloat (f_add a b))).
Proof. exact tie_add_floats. Qed.
Print Assumptions C18b_add_floats.

(* the model's rule for everything else (string+string, but also string+int, nil+string):
   the two texts one after the other *)
Theorem C18b_add_texts : forall (x p : value) (a b : str),
  is_number (vv x) && is_number (vv p) = false ->
  to_string (vv x) = Some a -> to_string (vv p) = Some b ->
  apply_filter n_add x p = Ok (as_value (VStr (a ++ b))).
Proof. exact tie_add_texts. Qed.
Print Assumptions C18b_add_texts.

Example C18b_add_wraps_example :   (* MaxInt64 | add:1 = MinInt64 *)
  apply_filter n_add (as_value (VInt 9223372036854775807)) (as_value (VInt 1))
  = Ok (as_value (VInt (-9223372036854775808))).
Proof. vm_compute. reflexivity. Qed.
Example C18b_add_mixed_example :   (* "5" | add:3 = "53" (Django: 8) *)
  apply_filter n_add (as_value (VStr [53])) (as_value (VInt 3)) = Ok (as_value (VStr [53; 51])).
Proof. vm_compute. reflexivity. Qed.

(* ================================================================== *)
(* default, default_if_none                                            *)

(* a falsy input (nil, false, 0, 0.0, "", [], {}) gives the argument, anything else itself *)
Theorem C18b_default_falsy : forall x p : value,
  apply_filter n_default x p = Ok (if py_falsy (vv x) then p else x).
Proof. exact tie_default_falsy. Qed.
Print Assumptions C18b_default_falsy.

(* only nil gives the argument *)
Theorem C18b_default_if_none : forall x p : value,
  (vv x = VNil -> apply_filter n_default_if_none x p = Ok p) /\
  (vv x <> VNil -> apply_filter n_default_if_none x p = Ok x).
Proof. exact tie_default_if_none. Qed.
Print Assumptions C18b_default_if_none.

Example C18b_default_example :   (* "" | default:"x" = "x"   but   "" | default_if_none:"x" = "" *)
  apply_filter n_default (as_value (VStr [])) (as_value (VStr [120])) = Ok (as_value (VStr [120])) /\
  apply_filter n_default_if_none (as_value (VStr [])) (as_value (VStr [120])) = Ok (as_value (VStr [])) /\
  apply_filter n_default_if_none (as_value VNil) (as_value (VStr [120])) = Ok (as_value (VStr [120])).
Proof. vm_compute. repeat split. Qed.

(* ================================================================== *)
(* yesno                                                               *)

(* without argument (or with the empty one): "yes" / "no" / "maybe" for true / false / nil *)
Theorem C18b_yesno_default : forall (x p : value), to_string (vv p) = Some [] ->
  apply_filter n_yesno x p = Ok (as_value (VStr (tri_pick (tri_of (vv x)) s_yes s_no s_maybe))).
Proof. exact tie_yesno_default. Qed.
Print Assumptions C18b_yesno_default.

(* with a comma-separated argument of any number of comma-free parts: 2 or 3 parts are the
   custom texts, anything else is refused *)
Theorem C18b_yesno_parts : forall (x p : value) (parts : list str),
  to_string (vv p) = Some (py_join [44] parts) -> py_join [44] parts <> [] ->
  Forall (lacks 44) parts ->
  apply_filter n_yesno x p = match yesno_ref (vv x) parts with
                             | Some s => Ok (as_value (VStr s))
                             | None => Err 5
                             end.
Proof. exact tie_yesno_parts. Qed.
Print Assumptions C18b_yesno_parts.

Example C18b_yesno_example :   (* nil | yesno:"y,n" = "maybe";  false | yesno:"a,b,c" = "b";  true | yesno:"a" fails *)
  apply_filter n_yesno (as_value VNil) (as_value (VStr [121; 44; 110])) = Ok (as_value (VStr [109; 97; 121; 98; 101])) /\
  apply_filter n_yesno (as_value (VBool false)) (as_value (VStr [97; 44; 98; 44; 99])) = Ok (as_value (VStr [98])) /\
  apply_filter n_yesno (as_value (VBool true)) (as_value (VStr [97])) = Err 5 /\
  apply_filter n_yesno (as_value (VBool true)) (as_value (VStr [97; 44; 98; 44; 99; 44; 100])) = Err 5.
Proof. vm_compute. repeat split. Qed.
Example C18b_yesno_instance :   (* C18b_yesno_parts on the parts "a","b","c" *)
  apply_filter n_yesno (as_value VNil) (as_value (VStr [97; 44; 98; 44; 99])) = Ok (as_value (VStr [99])).
Proof.
  apply (C18b_yesno_parts (as_value VNil) _ [[97]; [98]; [99]]); [reflexivity | discriminate |].
  repeat constructor; intro H; cbn in H; intuition discriminate.
Qed.

(* ================================================================== *)
(* pluralize                                                           *)

Theorem C18b_pluralize_parts : forall (x p : value) (n : Z) (parts : list str),
  is_number (vv x) = true -> to_integer (vv x) = Some n ->
  vv p = VStr (py_join [44] parts) -> py_join [44] parts <> [] -> Forall (lacks 44) parts ->
  apply_filter n_pluralize x p = match pluralize_ref n parts with
                                 | Some s => Ok (as_value (VStr s))
                                 | None => Err 5
                                 end.
Proof. exact tie_pluralize_parts. Qed.
Print Assumptions C18b_pluralize_parts.

(* no argument (nil, or anything without characters): "" for 1, "s" otherwise *)
Theorem C18b_pluralize_noarg : forall (x p : value) (n : Z),
  is_number (vv x) = true -> to_integer (vv x) = Some n -> val_len (vv p) = 0%Z ->
  apply_filter n_pluralize x p = match pluralize_ref n [] with
                                 | Some s => Ok (as_value (VStr s))
                                 | None => Err 5
                                 end.
Proof. exact tie_pluralize_noarg. Qed.
Print Assumptions C18b_pluralize_noarg.

Theorem C18b_pluralize_not_number : forall (x p : value), is_number (vv x) = false ->
  apply_filter n_pluralize x p = Err 5.
Proof. exact tie_pluralize_not_number. Qed.
Print Assumptions C18b_pluralize_not_number.

Example C18b_pluralize_example :
  (* 1|pluralize = "", 2|pluralize = "s", 2|pluralize:"es" = "es", 1|pluralize:"y,ies" = "y",
     0|pluralize:"y,ies" = "ies", 0|pluralize:"a,b,c" fails, "2"|pluralize fails *)
  apply_filter n_pluralize (as_value (VInt 1)) (as_value VNil) = Ok (as_value (VStr [])) /\
  apply_filter n_pluralize (as_value (VInt 2)) (as_value VNil) = Ok (as_value (VStr [115])) /\
  apply_filter n_pluralize (as_value (VInt 2)) (as_value (VStr [101; 115])) = Ok (as_value (VStr [101; 115])) /\
  apply_filter n_pluralize (as_value (VInt 1)) (as_value (VStr [121; 44; 105; 101; 115])) = Ok (as_value (VStr [121])) /\
  apply_filter n_pluralize (as_value (VInt 0)) (as_value (VStr [121; 44; 105; 101; 115])) = Ok (as_value (VStr [105; 101; 115])) /\
  apply_filter n_pluralize (as_value (VInt 0)) (as_value (VStr [97; 44; 98; 44; 99])) = Err 5 /\
  apply_filter n_pluralize (as_value (VStr [50])) (as_value VNil) = Err 5.
Proof. vm_compute. repeat split. Qed.
Example C18b_pluralize_float_example :   (* 1.5 | pluralize = "" : the float is truncated to 1 *)
  apply_filter n_pluralize (as_value (VFloat (f_div (f_of_int 3) (f_of_int 2)))) (as_value VNil)
  = Ok (as_value (VStr [])).
Proof. vm_compute. reflexivity. Qed.

(* ================================================================== *)
(* wordcount, cut                                                      *)

(* the number of white-space separated words of the character list (Go's unicode.IsSpace,
   multi-byte white space included) *)
Theorem C18b_wordcount : forall (x p : value) (s : str), to_string (vv x) = Some s ->
  apply_filter n_wordcount x p
  = Ok (as_value (VInt (Z.of_nat (length (ws_fields is_space_rune (runes s)))))).
Proof. exact tie_wordcount. Qed.
Print Assumptions C18b_wordcount.

Example C18b_wordcount_example :   (* "  hi \tbig<NBSP>w " has 3 words *)
  apply_filter n_wordcount (as_value (VStr [32; 32; 104; 105; 32; 9; 98; 105; 103; 194; 160; 119; 32])) (as_value VNil)
  = Ok (as_value (VInt 3)).
Proof. vm_compute. reflexivity. Qed.

(* cut is Python's s.replace(x, ""): leftmost occurrences, not overlapping, removed *)
Theorem C18b_cut_is_python_replace : forall (x p : value) (s o : str),
  to_string (vv x) = Some s -> to_string (vv p) = Some o -> o <> [] ->
  exists r, apply_filter n_cut x p = Ok (as_value (VStr r)) /\ cut_rel o s r.
Proof. exact tie_cut_python. Qed.
Print Assumptions C18b_cut_is_python_replace.

Theorem C18b_cut_reference_is_a_function : forall o s r1 r2, o <> [] ->
  cut_rel o s r1 -> cut_rel o s r2 -> r1 = r2.
Proof. exact tie_cut_rel_fun. Qed.
Print Assumptions C18b_cut_reference_is_a_function.

(* a one-byte argument: exactly the other bytes remain, in order - no occurrence is left *)
Theorem C18b_cut_one_byte : forall (x p : value) (s : str) (c : N),
  to_string (vv x) = Some s -> to_string (vv p) = Some [c] ->
  apply_filter n_cut x p = Ok (as_value (VStr (filter (fun b => negb (b =? c)) s))) /\
  lacks c (filter (fun b => negb (b =? c)) s).
Proof. exact tie_cut_one_byte. Qed.
Print Assumptions C18b_cut_one_byte.

(* nothing to cut (no occurrence, or the empty argument): the text stays *)
Theorem C18b_cut_nothing : forall (x p : value) (s o : str),
  to_string (vv x) = Some s -> to_string (vv p) = Some o -> ~ occurs o s \/ o = [] ->
  apply_filter n_cut x p = Ok (as_value (VStr s)).
Proof. exact tie_cut_nothing. Qed.
Print Assumptions C18b_cut_nothing.

Example C18b_cut_example :   (* "aab" | cut:"ab" = "a" *)
  apply_filter n_cut (as_value (VStr [97; 97; 98])) (as_value (VStr [97; 98])) = Ok (as_value (VStr [97])).
Proof. vm_compute. reflexivity. Qed.
(* COUNTEREXAMPLE to "cut s x contains no occurrence of x": "aabb" | cut:"ab" = "ab" *)
Example C18b_cut_can_leave_an_occurrence :
  apply_filter n_cut (as_value (VStr [97; 97; 98; 98])) (as_value (VStr [97; 98])) = Ok (as_value (VStr [97; 98])) /\
  occurs [97; 98] [97; 98].
Proof. split; [vm_compute; reflexivity | exists [], []; reflexivity]. Qed.

(* ================================================================== *)
(* upper, lower, capfirst                                              *)

(* on ASCII text every letter goes to the same place of the other alphabet, every other byte
   stays; text with a byte >= 128 is outside the model *)
Theorem C18b_upper_ascii : forall (x p : value) (s : str), to_string (vv x) = Some s ->
  (is_ascii s -> apply_filter n_upper x p = Ok (as_value (VStr (map ascii_upper s)))) /\
  (~ is_ascii s -> apply_filter n_upper x p = Unmod).
Proof. exact tie_upper_ascii. Qed.
Print Assumptions C18b_upper_ascii.

Theorem C18b_lower_ascii : forall (x p : value) (s : str), to_string (vv x) = Some s ->
  (is_ascii s -> apply_filter n_lower x p = Ok (as_value (VStr (map ascii_lower s)))) /\
  (~ is_ascii s -> apply_filter n_lower x p = Unmod).
Proof. exact tie_lower_ascii. Qed.
Print Assumptions C18b_lower_ascii.

(* capfirst: only the first byte is touched; the rest may be any bytes (also >= 128) *)
Theorem C18b_capfirst_string : forall (x p : value) (b : N) (rest : str), vv x = VStr (b :: rest) ->
  (b < 128 -> apply_filter n_capfirst x p = Ok (as_value (VStr (ascii_upper b :: rest)))) /\
  (128 <= b -> apply_filter n_capfirst x p = Unmod).
Proof. exact tie_capfirst_string. Qed.
Print Assumptions C18b_capfirst_string.

Theorem C18b_capfirst_empty : forall (x p : value), val_len (vv x) = 0%Z ->
  apply_filter n_capfirst x p = Ok (as_value (VStr [])).
Proof. exact tie_capfirst_empty. Qed.
Print Assumptions C18b_capfirst_empty.

Example C18b_case_example :   (* "abcX1z"|upper = "ABCX1Z";  "AbZ["|lower = "abz[";  "hié"|capfirst = "Hié";  5|capfirst = "" *)
  apply_filter n_upper (as_value (VStr [97; 98; 99; 88; 49; 122])) (as_value VNil) = Ok (as_value (VStr [65; 66; 67; 88; 49; 90])) /\
  apply_filter n_lower (as_value (VStr [65; 98; 90; 91])) (as_value VNil) = Ok (as_value (VStr [97; 98; 122; 91])) /\
  apply_filter n_capfirst (as_value (VStr [104; 105; 195; 169])) (as_value VNil) = Ok (as_value (VStr [72; 105; 195; 169])) /\
  apply_filter n_capfirst (as_value (VInt 5)) (as_value VNil) = Ok (as_value (VStr [])) /\
  apply_filter n_upper (as_value (VStr [97; 195; 169])) (as_value VNil) = Unmod.
Proof. vm_compute. repeat split. Qed.
Example C18b_alphabets_example : ascii_upper 97 = 65 /\ ascii_upper 122 = 90 /\ ascii_upper 123 = 123 /\ ascii_lower 90 = 122.
Proof. vm_compute. repeat split. Qed.

(* ================================================================== *)
(* make_list, length_is                                                *)

(* the characters of the text of x, each as a string ... *)
Theorem C18b_make_list_chars : forall (x p : value) (s : str), to_string (vv x) = Some s ->
  apply_filter n_make_list x p = Ok (as_value (VList (map VStr (chars s)))).
Proof. exact tie_make_list_chars. Qed.
Print Assumptions C18b_make_list_chars.

(* ... on well-formed text: one item per character with all its bytes *)
Theorem C18b_make_list_multibyte : forall (x p : value) (rs : list N),
  to_string (vv x) = Some (of_runes rs) -> Forall scalar rs ->
  apply_filter n_make_list x p = Ok (as_value (VList (map VStr (map encode_rune rs)))).
Proof. exact tie_make_list_wf. Qed.
Print Assumptions C18b_make_list_multibyte.

(* ... of an integer: its decimal digits (and the sign), one one-byte string each *)
Theorem C18b_make_list_int : forall (x p : value) (z : Z), vv x = VInt z ->
  apply_filter n_make_list x p = Ok (as_value (VList (map (fun b => VStr [b]) (itoa z)))).
Proof. exact tie_make_list_int. Qed.
Print Assumptions C18b_make_list_int.

(* length_is compares the length (items of a list, characters of a string, 0 otherwise) *)
Theorem C18b_length_is : forall (x p : value) (n : Z), to_integer (vv p) = Some n ->
  apply_filter n_length_is x p = Ok (as_value (VBool (val_len (vv x) =? n)%Z)).
Proof. exact tie_length_is. Qed.
Print Assumptions C18b_length_is.

Example C18b_make_list_example :   (* 123|make_list = ["1","2","3"];  "aé"|make_list = ["a","é"] *)
  apply_filter n_make_list (as_value (VInt 123)) (as_value VNil) = Ok (as_value (VList [VStr [49]; VStr [50]; VStr [51]])) /\
  apply_filter n_make_list (as_value (VStr [97; 195; 169])) (as_value VNil) = Ok (as_value (VList [VStr [97]; VStr [195; 169]])).
Proof. vm_compute. repeat split. Qed.
Example C18b_length_is_example :   (* [1,2,3]|length_is:3;  "aé"|length_is:"2" (two characters, three bytes) *)
  apply_filter n_length_is (as_value (VList [VInt 1; VInt 2; VInt 3])) (as_value (VInt 3)) = Ok (as_value (VBool true)) /\
  apply_filter n_length_is (as_value (VStr [97; 195; 169])) (as_value (VStr [50])) = Ok (as_value (VBool true)).
Proof. vm_compute. repeat split. Qed.

(* ================================================================== *)
(* get_digit                                                           *)

(* on a natural number: the i-th digit from the right when there is one (10^(i-1) <= z, or
   i = 1), otherwise the input itself *)
Theorem C18b_get_digit : forall (x p : value) (z i : Z),
  vv x = VInt z -> to_integer (vv p) = Some i -> (0 <= z)%Z -> is_int64 z -> (1 <= i)%Z ->
  apply_filter n_get_digit x p = if (i =? 1)%Z || (10 ^ (i - 1) <=? z)%Z
                                 then Ok (as_value (VInt (digit_from_right z i))) else Ok x.
Proof. exact tie_get_digit_nat. Qed.
Print Assumptions C18b_get_digit.

(* a position below 1: the input itself *)
Theorem C18b_get_digit_nonpositive : forall (x p : value) (s : str) (i : Z),
  to_string (vv x) = Some s -> to_integer (vv p) = Some i -> (i <= 0)%Z ->
  apply_filter n_get_digit x p = Ok x.
Proof. exact tie_get_digit_nonpositive. Qed.
Print Assumptions C18b_get_digit_nonpositive.

(* a position that holds no digit - a sign, a letter: the input itself (fix D39) *)
Theorem C18b_get_digit_no_digit : forall (x p : value) (s : str) (i : Z),
  to_string (vv x) = Some s -> to_integer (vv p) = Some i ->
  (1 <= i <= Z.of_nat (length s))%Z ->
  (let c := nth (Z.to_nat (Z.of_nat (length s) - i)) s 0%N in (c <? 48)%N || (57 <? c)%N = true) ->
  apply_filter n_get_digit x p = Ok x.
Proof. exact tie_get_digit_no_digit. Qed.
Print Assumptions C18b_get_digit_no_digit.

Example C18b_get_digit_example :
  (* 12345|get_digit:2 = 4, :5 = 1, :6 = 12345, :0 = 12345;  -123|get_digit:4 = -123 (the sign is no digit;
     before fix D39 pongo2 answered 253, the sign byte minus 48) *)
  apply_filter n_get_digit (as_value (VInt 12345)) (as_value (VInt 2)) = Ok (as_value (VInt 4)) /\
  apply_filter n_get_digit (as_value (VInt 12345)) (as_value (VInt 5)) = Ok (as_value (VInt 1)) /\
  apply_filter n_get_digit (as_value (VInt 12345)) (as_value (VInt 6)) = Ok (as_value (VInt 12345)) /\
  apply_filter n_get_digit (as_value (VInt 12345)) (as_value (VInt 0)) = Ok (as_value (VInt 12345)) /\
  apply_filter n_get_digit (as_value (VInt (-123))) (as_value (VInt 4)) = Ok (as_value (VInt (-123))).
Proof. vm_compute. repeat split. Qed.

(* ================================================================== *)
(* truncatechars, truncatewords                                        *)

(* on well-formed text, for every n: the reference shape, counted in characters *)
Theorem C18b_truncatechars : forall (x p : value) (rs : list N) (n : Z),
  to_string (vv x) = Some (of_runes rs) -> Forall scalar rs -> to_integer (vv p) = Some n ->
  apply_filter n_truncatechars x p = Ok (as_value (VStr (of_runes (truncchars_ref rs n)))).
Proof. exact tie_truncatechars_wf. Qed.
Print Assumptions C18b_truncatechars.

(* on any bytes: n <= 0 leaves them alone, otherwise the decoded characters are re-encoded *)
Theorem C18b_truncatechars_any_text : forall (x p : value) (s : str) (n : Z),
  to_string (vv x) = Some s -> to_integer (vv p) = Some n ->
  ((n <= 0)%Z -> apply_filter n_truncatechars x p = Ok (as_value (VStr s))) /\
  ((0 < n)%Z -> apply_filter n_truncatechars x p
                = Ok (as_value (VStr (of_runes (truncchars_ref (runes s) n))))).
Proof. exact tie_truncatechars_all. Qed.
Print Assumptions C18b_truncatechars_any_text.

(* the first n words joined by one blank, "..." as a further word when words were dropped *)
Theorem C18b_truncatewords : forall (x p : value) (rs : list N) (n : Z),
  to_string (vv x) = Some (of_runes rs) -> Forall scalar rs -> to_integer (vv p) = Some n ->
  apply_filter n_truncatewords x p
  = Ok (as_value (VStr (py_join [32] (truncwords_ref (map of_runes (ws_fields is_space_rune rs)) n)))).
Proof. exact tie_truncatewords_wf. Qed.
Print Assumptions C18b_truncatewords.

Example C18b_truncate_example :
  (* "hello world"|truncatechars:8 = "hello...";  "héllo"|truncatechars:4 = "h...";  "hello"|truncatechars:2 = "he";
     "a b  c d"|truncatewords:2 = "a b ...";  "a b"|truncatewords:2 = "a b" *)
  apply_filter n_truncatechars (as_value (VStr [104; 101; 108; 108; 111; 32; 119; 111; 114; 108; 100])) (as_value (VInt 8))
    = Ok (as_value (VStr [104; 101; 108; 108; 111; 46; 46; 46])) /\
  apply_filter n_truncatechars (as_value (VStr [104; 195; 169; 108; 108; 111])) (as_value (VInt 4))
    = Ok (as_value (VStr [104; 46; 46; 46])) /\
  apply_filter n_truncatechars (as_value (VStr [104; 101; 108; 108; 111])) (as_value (VInt 2)) = Ok (as_value (VStr [104; 101])) /\
  apply_filter n_truncatewords (as_value (VStr [97; 32; 98; 32; 32; 99; 32; 100])) (as_value (VInt 2))
    = Ok (as_value (VStr [97; 32; 98; 32; 46; 46; 46])) /\
  apply_filter n_truncatewords (as_value (VStr [97; 32; 98])) (as_value (VInt 2)) = Ok (as_value (VStr [97; 32; 98])).
Proof. vm_compute. repeat split. Qed.

(* ================================================================== *)
(* linenumbers, wordwrap                                               *)

(* the lines (any number, each newline-free) get "1. ", "2. ", ... in front and are joined by
   newlines again *)
Theorem C18b_linenumbers : forall (x p : value) (line : str) (lines : list str),
  to_string (vv x) = Some (py_join [10] (line :: lines)) -> Forall (lacks 10) (line :: lines) ->
  apply_filter n_linenumbers x p = Ok (as_value (VStr (py_join [10] (numbered (line :: lines))))).
Proof. exact tie_linenumbers. Qed.
Print Assumptions C18b_linenumbers.

Example C18b_linenumbers_example :   (* "a\nb\n" | linenumbers = "1. a\n2. b\n3. " *)
  apply_filter n_linenumbers (as_value (VStr [97; 10; 98; 10])) (as_value VNil)
  = Ok (as_value (VStr [49; 46; 32; 97; 10; 50; 46; 32; 98; 10; 51; 46; 32])).
Proof. vm_compute. reflexivity. Qed.
Example C18b_linenumbers_instance :   (* C18b_linenumbers on the lines "a", "b", "" *)
  apply_filter n_linenumbers (as_value (VStr [97; 10; 98; 10])) (as_value VNil)
  = Ok (as_value (VStr (py_join [10] (numbered [[97]; [98]; []])))).
Proof.
  apply (C18b_linenumbers _ _ [97] [[98]; []]); [reflexivity|].
  repeat constructor; intro H; cbn in H; intuition discriminate.
Qed.

(* wordwrap:w for w > 0 puts w words on a line (blank between words, newline between lines);
   w <= 0 returns the input *)
Theorem C18b_wordwrap : forall (x p : value) (rs : list N) (w : Z),
  to_string (vv x) = Some (of_runes rs) -> Forall scalar rs -> to_integer (vv p) = Some w ->
  ((w <= 0)%Z -> apply_filter n_wordwrap x p = Ok x) /\
  ((0 < w)%Z -> exists lines,
     apply_filter n_wordwrap x p = Ok (as_value (VStr (py_join [10] (map (py_join [32]) lines)))) /\
     wrapped (Z.to_nat w) (map of_runes (ws_fields is_space_rune rs)) lines).
Proof. exact tie_wordwrap_wf. Qed.
Print Assumptions C18b_wordwrap.

Example C18b_wordwrap_example :   (* "a b c d e" | wordwrap:2 = "a b\nc d\ne" *)
  apply_filter n_wordwrap (as_value (VStr [97; 32; 98; 32; 99; 32; 100; 32; 101])) (as_value (VInt 2))
  = Ok (as_value (VStr [97; 32; 98; 10; 99; 32; 100; 10; 101])).
Proof. vm_compute. reflexivity. Qed.
Example C18b_wrapped_example : wrapped 2 [[97]; [98]; [99]; [100]; [101]] [[[97]; [98]]; [[99]; [100]]; [[101]]].
Proof.
  cbn [wrapped length]. split; [reflexivity|]. exists [[99]; [100]; [101]]. split; [reflexivity|].
  split; [reflexivity|]. exists [[101]]. split; [reflexivity|]. split; [reflexivity|]. split; constructor. constructor.
Qed.

(* ASCII text is well-formed text whose characters are its bytes, so every theorem on
   [of_runes rs] above applies to ASCII text s with rs := s *)
Theorem C18b_ascii_is_well_formed : forall s, is_ascii s -> Forall scalar s /\ of_runes s = s.
Proof. exact tie_ascii_wf. Qed.
Print Assumptions C18b_ascii_is_well_formed.

(* ==================== third part ==================== *)

(* ================================================================== *)
(* widthratio with a maximum of zero (fix D48)                          *)

(* a maximum that is a zero gives the text "0", whatever current and width are *)
Theorem C18_widthratio_zero_max :
  forall se globals f st (cur mx width : expr) (c : value) st1 (m : value) st2 (w : value) st3,
  eval se globals f st cur = Ok (c, st1) ->
  eval se globals f st1 mx = Ok (m, st2) ->
  eval se globals f st2 width = Ok (w, st3) ->
  numeric (vv c) -> zero_number (vv m) -> numeric (vv w) ->
  exec_node se globals (S f) st (NWidthratio cur mx width []) = xok text_zero st3.
Proof. exact tie_widthratio_zero_max. Qed.
Print Assumptions C18_widthratio_zero_max.

(* ... and with "as name" the name is bound to the integer 0 and nothing is written *)
Theorem C18_widthratio_zero_max_as :
  forall se globals f st (cur mx width : expr) (name : str) (c : value) st1 (m : value) st2 (w : value) st3,
  eval se globals f st cur = Ok (c, st1) ->
  eval se globals f st1 mx = Ok (m, st2) ->
  eval se globals f st2 width = Ok (w, st3) ->
  numeric (vv c) -> zero_number (vv m) -> numeric (vv w) -> name <> [] ->
  exec_node se globals (S f) st (NWidthratio cur mx width name) = bind_zero st3 name.
Proof. exact tie_widthratio_zero_max_as. Qed.
Print Assumptions C18_widthratio_zero_max_as.

(* the zeros: the integer 0, and the floats 0.0 and -0.0; every integer and float is a number *)
Theorem C18_widthratio_zero_values :
  zero_number (VInt 0) /\ (forall sign, zero_number (VFloat (S754_zero sign))) /\
  (forall z, numeric (VInt z)) /\ (forall x, numeric (VFloat x)).
Proof. exact tie_widthratio_zero_values. Qed.
Print Assumptions C18_widthratio_zero_values.

Example C18_widthratio_zero_max_example :   (* {% widthratio 175 0 100 %}  =  "0" *)
  exec_node wr_se [] 10 wr_state (NWidthratio (EInt 175) (EInt 0) (EInt 100) []) = xok [48] wr_state.
Proof. vm_compute. reflexivity. Qed.
Example C18_widthratio_zero_max_instance :  (* the hypotheses of the theorem on that tag *)
  exec_node wr_se [] 10 wr_state (NWidthratio (EInt 175) (EInt 0) (EInt 100) []) = xok text_zero wr_state.
Proof.
  apply (C18_widthratio_zero_max wr_se [] 9 wr_state _ _ _ (as_value (VInt 175)) wr_state
           (as_value (VInt 0)) wr_state (as_value (VInt 100)));
    [reflexivity | reflexivity | reflexivity | discriminate | | discriminate].
  apply C18_widthratio_zero_values.
Qed.
Example C18_widthratio_zero_over_zero_example :   (* 0 / -0.0 is NaN: {% widthratio 0 -0.0 100 %}  =  "0" *)
  exec_node wr_se [] 10 wr_state (NWidthratio (EInt 0) (EFloat (S754_zero true)) (EInt 100) []) = xok [48] wr_state.
Proof. vm_compute. reflexivity. Qed.
Example C18_widthratio_zero_max_as_example :   (* {% widthratio 175 0 100 as r %} writes nothing, r = 0 *)
  exec_node wr_se [] 10 wr_state (NWidthratio (EInt 175) (EInt 0) (EInt 100) wr_r)
  = xok [] (mkM [mkF [(wr_r, CV (as_value (VInt 0)))] [] true 0 1 []] [] (mkG 1 [])) /\
  bind_zero wr_state wr_r = xok [] (mkM [mkF [(wr_r, CV (as_value (VInt 0)))] [] true 0 1 []] [] (mkG 1 [])).
Proof. vm_compute. split; reflexivity. Qed.
Example C18_widthratio_nonzero_max_example :   (* the other maxima are as before: {% widthratio 175 200 100 %}  =  "88" *)
  exec_node wr_se [] 10 wr_state (NWidthratio (EInt 175) (EInt 200) (EInt 100) []) = xok [56; 56] wr_state.
Proof. vm_compute. reflexivity. Qed.
