(* Property C05 - one compiled template can be executed from many goroutines at once
   (partial: the theorem is about an abstract interleaving model under a sequentially
   consistent heap; that pongo2's executions fit its hypotheses is the tie: the write
   set go2eff extracts from the SSA of /repo, and the race-detector runs of the harness). *)
From PV Require Import Model.Conc gen.Effects.
From PV Require Import Tie.C05.

(* If no thread writes a location another thread touches, then in EVERY interleaving of ANY
   number of threads each thread reads exactly what it reads when it runs alone ... *)
Theorem C05_isolated_results : forall (s : sched) (h : heap) (i : nat),
  isolated s -> snd (run_sched h s) i = snd (run_thread h (proj i s)).
Proof. exact tie_isolated_results. Qed.
Print Assumptions C05_isolated_results.

(* ... and no schedule has a data race. *)
Theorem C05_isolated_no_race : forall s : sched, isolated s -> ~ has_race s.
Proof. exact tie_isolated_no_race. Qed.
Print Assumptions C05_isolated_no_race.

(* locations nobody writes keep their value in every schedule (the compiled template) *)
Theorem C05_unwritten_unchanged : forall (s : sched) (h : heap) (l : loc),
  (forall i, ~ In l (writes_of (proj i s))) -> fst (run_sched h s) l = h l.
Proof. exact tie_unwritten_unchanged. Qed.
Print Assumptions C05_unwritten_unchanged.

(* The hypotheses on the code, regenerated from /repo's SSA on every run: the writes to
   compiled/shared state reachable from the execution entry points are exactly the
   one-time, mutex-guarded block-option rewrite and the atomic first-template flag; every
   access to a mutex-guarded field is dominated by a Lock of its mutex. *)
Theorem C05_shared_writes_allowed :
  forallb (fun w => existsb (fun a => effect_eqb a w) allowed_shared_writes) exec_shared_writes = true
  /\ unguarded_accesses = [] /\ exec_compile_set_writes = [].
Proof. exact tie_shared_writes_allowed. Qed.

Example C05_witness : exists s : sched, isolated s /\ length s = 4%nat /\
  proj 0 s <> [] /\ proj 1 s <> [].
Proof. exact tie_c05_witness. Qed.
