(* Tie for property C13, second part (Proofs/Depth.v): the lemmas there use the generated
   constant [max_macro_depth] (gen/Tables.v, from the Go constant maxMacroDepth) as an opaque
   bound and need one fact about its value: it is not negative (a fresh frame, counter 0, is
   within the bound).  That is a finite check on the table. *)
From PV Require Export Proofs.Depth.
From PV Require Import Model.Exec Spec.SpecFlow Spec.SpecDepth gen.Tables.
From Coq Require Import List ZArith.
Import ListNotations.
Open Scope N_scope.

Lemma tie_macro_depth_nonneg : (0 <=? max_macro_depth)%Z = true.
Proof. vm_compute. reflexivity. Qed.

Lemma tie_depth_restored : forall se globals c st',
  run se globals c = RDone st' -> depths st' = depths (call_state c).
Proof. exact depth_restored. Qed.

Lemma tie_depth_at_restored : forall se globals c st' i,
  run se globals c = RDone st' -> depth_at st' i = depth_at (call_state c) i.
Proof. exact depth_at_restored. Qed.

Lemma tie_depths_ok_preserved : forall se globals c st',
  run se globals c = RDone st' -> depths_ok (call_state c) -> depths_ok st'.
Proof. exact depths_ok_preserved. Qed.

Lemma tie_sub_depths_ok : forall se globals c c',
  sub se globals c c' -> depths_ok (call_state c) -> depths_ok (call_state c').
Proof. intros se globals. exact (sub_depths_ok se globals tie_macro_depth_nonneg). Qed.

Lemma tie_path_depths_ok : forall se globals c0 callers c,
  path se globals c0 callers c -> depths_ok (call_state c0) -> depths_ok (call_state c).
Proof. intros se globals. exact (path_depths_ok se globals tie_macro_depth_nonneg). Qed.

Lemma tie_reachable_depths_ok : forall se globals c,
  reachable se globals c -> depths_ok (call_state c).
Proof. intros se globals. exact (reachable_depths_ok se globals tie_macro_depth_nonneg). Qed.

Lemma tie_every_call_listed : forall se globals c,
  call_fuel c <> 0%nat -> run se globals c = ROutOfFuel ->
  (exists c', sub se globals c c' /\ run se globals c' = ROutOfFuel) \/ compiler_out_of_fuel se c.
Proof. exact every_call_listed. Qed.

Lemma tie_listed_calls_happen : forall se globals c c',
  sub se globals c c' -> run se globals c' = ROutOfFuel -> run se globals c = ROutOfFuel.
Proof. exact listed_calls_happen. Qed.

Lemma tie_sub_fuel : forall se globals c c', sub se globals c c' -> call_fuel c = S (call_fuel c').
Proof. exact sub_fuel. Qed.

Lemma tie_sub_depth_at : forall se globals c c' i d d',
  sub se globals c c' ->
  depth_at (call_state c) i = Some d -> depth_at (call_state c') i = Some d' ->
  d' = (d + Z.of_nat (enters c i))%Z.
Proof. exact sub_depth_at. Qed.

Lemma tie_sub_new_frame_depth : forall se globals c c' i d',
  sub se globals c c' ->
  depth_at (call_state c) i = None -> depth_at (call_state c') i = Some d' -> d' = 0%Z.
Proof. exact sub_new_frame_depth. Qed.

Lemma tie_sub_macro_guard : forall se globals f st m fidx args c',
  sub se globals (KCallMacro f st m fidx args) c' ->
  exists d, depth_at st fidx = Some d /\ (d + 1 <= max_macro_depth)%Z.
Proof. exact sub_macro_guard. Qed.

Lemma tie_sub_height : forall se globals c c',
  sub se globals c c' ->
  (height (call_state c') <= S (height (call_state c)))%nat /\
  (height (call_state c') = S (height (call_state c)) -> pushes_frame c = true).
Proof. exact sub_height. Qed.

Lemma tie_path_depth_counts : forall se globals c0 callers c,
  path se globals c0 callers c -> forall i d0,
  (forall k, In k (callers ++ [c]) -> (i < height (call_state k))%nat) ->
  depth_at (call_state c0) i = Some d0 ->
  depth_at (call_state c) i = Some (d0 + Z.of_nat (macro_calls_on i callers))%Z.
Proof. exact path_depth_counts. Qed.

Lemma tie_nesting_bounded : forall se globals c0 callers c i,
  depths_ok (call_state c0) -> path se globals c0 callers c ->
  (forall k, In k (callers ++ [c]) -> (i < height (call_state k))%nat) ->
  (Z.of_nat (macro_calls_on i callers) <= max_macro_depth)%Z.
Proof. intros se globals. exact (nesting_bounded se globals tie_macro_depth_nonneg). Qed.

Lemma tie_reachable_nesting_bounded : forall se globals c0 callers c i,
  reachable se globals c0 -> path se globals c0 callers c ->
  (forall k, In k (callers ++ [c]) -> (i < height (call_state k))%nat) ->
  (Z.of_nat (macro_calls_on i callers) <= max_macro_depth)%Z.
Proof. intros se globals. exact (reachable_nesting_bounded se globals tie_macro_depth_nonneg). Qed.

Lemma tie_path_height : forall se globals c0 callers c,
  path se globals c0 callers c ->
  (height (call_state c) <= height (call_state c0) + pushers callers)%nat.
Proof. exact path_height. Qed.

Lemma tie_self_block_height_unbounded : forall se (g : gstate) (n : nat), exists c,
  reachable se [] c /\ (n <= height (call_state c))%nat.
Proof. exact self_block_height_unbounded. Qed.

(* ---------- a concrete run: the hypotheses of the nesting theorems hold of it ----------
   ex_template with fuel 40: from the invocation that executes the template's nodes (frame 0
   is the root frame) down to the body of the second nested call of m: two calls of a macro
   bound in frame 0 are active.  Each edge is one constructor of [sub]; its premises are
   computed. *)
Ltac prem_c := first [ reflexivity | vm_compute; reflexivity | discriminate ].
Ltac edge lem := eapply path_call; [ eapply lem; prem_c | ].

Lemma ex_two_active_calls : exists c0 callers c,
  reachable ex_env [] c0 /\ path ex_env [] c0 callers c /\
  (forall k, In k (callers ++ [c]) -> (0 < height (call_state k))%nat) /\
  macro_calls_on 0 callers = 2%nat /\
  depth_at (call_state c0) 0 = Some 0%Z /\ depth_at (call_state c) 0 = Some 2%Z.
Proof.
  eexists. eexists. eexists. split; [|split; [|split; [|split; [|split]]]].
  - exists (KExecTemplateUnbuffered 40 (mkM [] [] (mkG 1 [])) ex_template []). split.
    + exists 40%nat, (mkG 1 []), ex_template, []. right. reflexivity.
    + eexists. edge sub_template_root. apply path_here.
  - edge sub_nodes_2. edge sub_nodes_1. edge sub_nvar. edge sub_var. edge sub_resolve_macro. edge sub_macro_body.
    edge sub_nodes_1. edge sub_nvar. edge sub_var. edge sub_resolve_macro. edge sub_macro_body.
    apply path_here.
  - intros k Hk. cbn [app In] in Hk.
    repeat (destruct Hk as [<-|Hk]; [vm_compute; apply le_n || (repeat constructor)|]). destruct Hk.
  - vm_compute. reflexivity.
  - vm_compute. reflexivity.
  - vm_compute. reflexivity.
Qed.
