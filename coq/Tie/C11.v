(* Tie for property C11: the lemmas of Proofs/Compose.v, and the entries of the generated tag
   table (gen/Tables.v tag_impl) that connect the tag names include / import / ssi / extends to
   the parsers the lemmas are about. *)
From PV Require Export Proofs.Compose.
From PV Require Import Model.Exec gen.Tables.
Open Scope N_scope.

Definition kw_include : str := [105; 110; 99; 108; 117; 100; 101] (* include *).
Definition kw_import : str := [105; 109; 112; 111; 114; 116] (* import *).
Definition kw_ssi : str := [115; 115; 105] (* ssi *).

Lemma tie_loader_tags :
  assoc_get kw_include tag_impl = Some tagIncludeParser /\
  assoc_get kw_import tag_impl = Some tagImportParser /\
  assoc_get kw_ssi tag_impl = Some tagSSIParser /\
  assoc_get [101; 120; 116; 101; 110; 100; 115] (* extends *) tag_impl = Some tagExtendsParser.
Proof. vm_compute; repeat split; reflexivity. Qed.
