(* Tie for property C11: the lemmas of Proofs/Compose.v, and the entries of the generated tag
   table (gen/Tables.v tag_impl) that connect the tag names include / import / ssi / extends to
   the parsers the lemmas are about. *)
From PV Require Export Proofs.Compose.
From PV Require Import Model.Exec gen.Tables.
Open Scope N_scope.

Definition kw_include : str := [105; 110; 99; 108; 117; 100; 101] (* include *).
Definition kw_import : str := [105; 109; 112; 111; 114; 116] (* import *).
Definition kw_ssi : str := [115; 115; 105] (* ssi *).

Lemma tie_loader_tags :
  assoc_get kw_include tag_impl = Some tagIncludeParser /\
  assoc_get kw_import tag_impl = Some tagImportParser /\
  assoc_get kw_ssi tag_impl = Some tagSSIParser /\
  assoc_get [101; 120; 116; 101; 110; 100; 115] (* extends *) tag_impl = Some tagExtendsParser.
Proof. vm_compute; repeat split; reflexivity. Qed.

(* fix D41, both forms of the include tag in one statement (Props/C11.v) *)
Lemma tie_if_exists_does_not_hide_errors :
  (forall se f level args tst g ts fname rest0,
     match_string args = Some (fname, rest0) ->
     let iname := resolve_filename (t_isstr tst) (t_name tst) fname in
     served (se_loaders se) iname = true ->
     compile_file se f iname g = Err 4 ->
     tag_parser se (S f) level tagIncludeParser args (tst, g) ts = Err 4) /\
  (forall se globals f st fr fe pairs only ifx vals st1 fv st2 c fn root rest,
     top_frame st = Ok fr ->
     eval_pairs se globals f st pairs = Ok (vals, st1) ->
     eval se globals f st1 fe = Ok (fv, st2) ->
     to_string (vv fv) = Some (c :: fn) ->
     f_chain fr = root :: rest ->
     let iname := resolve_filename (tpl_is_string root) (tpl_name root) (c :: fn) in
     served (se_loaders se) iname = true ->
     compile_file se f iname (ms_g st2) = Err 4 ->
     exec_node se globals (S f) st (NInclude None (Some fe) pairs only ifx) = ([], Err 4)).
Proof. split; [exact include_static_served_error|exact include_lazy_served_error]. Qed.
