(* Tie for property C18, second part: the filter names of the generated table [filter_impl]
   reach the branch bodies that Proofs/FilterProofs2.v talks about (if the Go source re-points
   a name to another function, the dispatch lemma of that name stops compiling), and the
   lemmas restated on [apply_filter <name>]. *)
From PV Require Import Model.Filters Spec.SpecFilters Spec.SpecFilters2.
From PV Require Import Tie.C18.
From PV Require Export Proofs.FilterProofs2.
Open Scope N_scope.

Lemma dispatch_join : forall x p, apply_filter n_join x p = join_body x p.
Proof. dispatch. Qed.
Lemma dispatch_split : forall x p, apply_filter n_split x p = split_body x p.
Proof. dispatch. Qed.
Lemma dispatch_first' : forall x p, apply_filter n_first x p = first_body x.
Proof. dispatch. Qed.
Lemma dispatch_last' : forall x p, apply_filter n_last x p = last_body x.
Proof. dispatch. Qed.
Lemma dispatch_add : forall x p, apply_filter n_add x p = add_body x p.
Proof. dispatch. Qed.
Lemma dispatch_default : forall x p, apply_filter n_default x p = default_body x p.
Proof. dispatch. Qed.
Lemma dispatch_default_if_none : forall x p, apply_filter n_default_if_none x p = default_if_none_body x p.
Proof. dispatch. Qed.
Lemma dispatch_yesno : forall x p, apply_filter n_yesno x p = yesno_body x p.
Proof. dispatch. Qed.
Lemma dispatch_pluralize : forall x p, apply_filter n_pluralize x p = pluralize_body x p.
Proof. dispatch. Qed.
Lemma dispatch_wordcount : forall x p, apply_filter n_wordcount x p = wordcount_body x.
Proof. dispatch. Qed.
Lemma dispatch_cut : forall x p, apply_filter n_cut x p = cut_body x p.
Proof. dispatch. Qed.
Lemma dispatch_capfirst : forall x p, apply_filter n_capfirst x p = capfirst_body x.
Proof. dispatch. Qed.
Lemma dispatch_upper : forall x p, apply_filter n_upper x p = upper_body x.
Proof. dispatch. Qed.
Lemma dispatch_lower : forall x p, apply_filter n_lower x p = lower_body x.
Proof. dispatch. Qed.
Lemma dispatch_make_list : forall x p, apply_filter n_make_list x p = make_list_body x.
Proof. dispatch. Qed.
Lemma dispatch_length_is : forall x p, apply_filter n_length_is x p = length_is_body x p.
Proof. dispatch. Qed.
Lemma dispatch_get_digit : forall x p, apply_filter n_get_digit x p = get_digit_body x p.
Proof. dispatch. Qed.
Lemma dispatch_truncatechars' : forall x p, apply_filter n_truncatechars x p = truncatechars_body x p.
Proof. dispatch. Qed.
Lemma dispatch_truncatewords : forall x p, apply_filter n_truncatewords x p = truncatewords_body x p.
Proof. dispatch. Qed.
Lemma dispatch_linenumbers : forall x p, apply_filter n_linenumbers x p = linenumbers_body x.
Proof. dispatch. Qed.
Lemma dispatch_wordwrap : forall x p, apply_filter n_wordwrap x p = wordwrap_body x p.
Proof. dispatch. Qed.

(* ------------------------------------------------------------------ *)
(* join, split                                                         *)

Lemma tie_join_list : forall (x p : value) (l : list val) (strs : list str) (sep : str),
  vv x = VList l -> to_string (vv p) = Some sep -> rendered l strs ->
  apply_filter n_join x p = Ok (as_value (VStr (py_join sep strs))).
Proof. intros. rewrite dispatch_join. eapply join_list; eassumption. Qed.

Lemma tie_join_list_nosep : forall (x p : value) (l : list val) (strs : list str),
  vv x = VList l -> to_string (vv p) = Some [] -> rendered l strs ->
  apply_filter n_join x p = Ok (as_value (VStr (concat strs))).
Proof. intros. rewrite dispatch_join. eapply join_list_nosep; eassumption. Qed.

Lemma tie_join_string : forall (x p : value) (s sep : str),
  vv x = VStr s -> to_string (vv p) = Some sep ->
  apply_filter n_join x p = Ok (as_value (VStr (match sep with [] => s | _ => py_join sep (chars s) end))).
Proof.
  intros x p s sep Hx Hp. rewrite dispatch_join. destruct sep as [|c sep].
  - apply join_string_nosep; assumption.
  - apply join_string; [assumption|assumption|discriminate].
Qed.

Lemma tie_join_scalar : forall (x p : value), can_slice (vv x) = false -> apply_filter n_join x p = Ok x.
Proof. intros. rewrite dispatch_join. apply join_scalar. assumption. Qed.

Lemma tie_split_python : forall (x p : value) (s sep : str),
  to_string (vv x) = Some s -> to_string (vv p) = Some sep -> sep <> [] ->
  exists parts, apply_filter n_split x p = Ok (as_value (VList (map VStr parts))) /\
                split_rel sep s parts /\ py_join sep parts = s.
Proof. intros. rewrite dispatch_split. apply split_python; assumption. Qed.

Lemma tie_split_rel_fun : forall (sep s : str) (l1 l2 : list str), sep <> [] ->
  split_rel sep s l1 -> split_rel sep s l2 -> l1 = l2.
Proof. intros sep s l1 l2 Hne H1 H2. exact (split_rel_fun sep Hne s l1 H1 l2 H2). Qed.

Lemma tie_split_then_join : forall (x p : value) (s sep : str),
  to_string (vv x) = Some s -> to_string (vv p) = Some sep -> sep <> [] ->
  exists y, apply_filter n_split x p = Ok y /\ apply_filter n_join y p = Ok (as_value (VStr s)).
Proof.
  intros x p s sep Hx Hp Hne. destruct (split_then_join x p s sep Hx Hp Hne) as [y [H1 H2]].
  exists y. rewrite dispatch_split, dispatch_join. split; assumption.
Qed.

Lemma tie_split_nosep : forall (x p : value) (rs : list N),
  to_string (vv x) = Some (of_runes rs) -> Forall scalar rs -> to_string (vv p) = Some [] ->
  apply_filter n_split x p = Ok (as_value (VList (map VStr (map encode_rune rs)))).
Proof. intros. rewrite dispatch_split. apply split_nosep_wf; assumption. Qed.

(* ------------------------------------------------------------------ *)
(* first, last on strings                                              *)

Lemma tie_first_last_string : forall (x p : value) (s : str), vv x = VStr s ->
  apply_filter n_first x p = Ok (as_value (VStr (hd [] (chars s)))) /\
  apply_filter n_last x p = Ok (as_value (VStr (last (chars s) []))).
Proof.
  intros x p s Hx. rewrite dispatch_first', dispatch_last'.
  split; [apply first_string|apply last_string]; assumption.
Qed.

Lemma tie_first_wf : forall (x p : value) (r : N) (rest : str),
  vv x = VStr (encode_rune r ++ rest) -> scalar r ->
  apply_filter n_first x p = Ok (as_value (VStr (encode_rune r))).
Proof. intros. rewrite dispatch_first'. eapply first_string_wf; eassumption. Qed.

Lemma tie_last_wf : forall (x p : value) (rs : list N) (r : N),
  vv x = VStr (of_runes rs ++ encode_rune r) -> Forall scalar rs -> scalar r ->
  apply_filter n_last x p = Ok (as_value (VStr (encode_rune r))).
Proof. intros. rewrite dispatch_last'. eapply last_string_wf; eassumption. Qed.

Lemma tie_first_last_empty : forall (x p : value),
  (val_len (vv x) = 0%Z \/ can_slice (vv x) = false) ->
  apply_filter n_first x p = Ok (as_value (VStr [])) /\ apply_filter n_last x p = Ok (as_value (VStr [])).
Proof. intros x p H. rewrite dispatch_first', dispatch_last'. apply first_last_empty. exact H. Qed.

(* ------------------------------------------------------------------ *)
(* add, default, default_if_none, yesno, pluralize                     *)

Lemma tie_add_ints : forall (x p : value) (a b : Z), vv x = VInt a -> vv p = VInt b ->
  apply_filter n_add x p = Ok (as_value (VInt (wrap64 (a + b)))) /\
  (is_int64 a -> is_int64 b -> apply_filter n_add x p = Ok (as_value (VInt (int64_add a b)))).
Proof. intros. rewrite dispatch_add. apply add_ints; assumption. Qed.

Lemma tie_add_floats : forall (x p : value) (a b : float),
  is_number (vv x) = true -> is_number (vv p) = true ->
  is_float (vv x) || is_float (vv p) = true ->
  to_float (vv x) = Some a -> to_float (vv p) = Some b ->
  apply_filter n_add x p = Ok (as_value (VFloat (f_add a b))).
Proof. intros. rewrite dispatch_add. apply add_floats; assumption. Qed.

Lemma tie_add_texts : forall (x p : value) (a b : str),
  is_number (vv x) && is_number (vv p) = false ->
  to_string (vv x) = Some a -> to_string (vv p) = Some b ->
  apply_filter n_add x p = Ok (as_value (VStr (a ++ b))).
Proof. intros. rewrite dispatch_add. apply add_texts; assumption. Qed.

Lemma tie_default_falsy : forall x p : value,
  apply_filter n_default x p = Ok (if py_falsy (vv x) then p else x).
Proof. intros. rewrite dispatch_default. apply default_falsy. Qed.

Lemma tie_default_if_none : forall x p : value,
  (vv x = VNil -> apply_filter n_default_if_none x p = Ok p) /\
  (vv x <> VNil -> apply_filter n_default_if_none x p = Ok x).
Proof. intros. rewrite dispatch_default_if_none. apply default_if_none_nil. Qed.

Lemma tie_yesno_default : forall (x p : value), to_string (vv p) = Some [] ->
  apply_filter n_yesno x p = Ok (as_value (VStr (tri_pick (tri_of (vv x)) s_yes s_no s_maybe))).
Proof. intros. rewrite dispatch_yesno. apply yesno_default. assumption. Qed.

Lemma tie_yesno_parts : forall (x p : value) (parts : list str),
  to_string (vv p) = Some (py_join [44] parts) -> py_join [44] parts <> [] ->
  Forall (lacks 44) parts ->
  apply_filter n_yesno x p = match yesno_ref (vv x) parts with
                             | Some s => Ok (as_value (VStr s))
                             | None => Err 5
                             end.
Proof. intros. rewrite dispatch_yesno. apply yesno_parts; assumption. Qed.

Lemma tie_pluralize_parts : forall (x p : value) (n : Z) (parts : list str),
  is_number (vv x) = true -> to_integer (vv x) = Some n ->
  vv p = VStr (py_join [44] parts) -> py_join [44] parts <> [] -> Forall (lacks 44) parts ->
  apply_filter n_pluralize x p = match pluralize_ref n parts with
                                 | Some s => Ok (as_value (VStr s))
                                 | None => Err 5
                                 end.
Proof. intros. rewrite dispatch_pluralize. apply pluralize_parts; assumption. Qed.

Lemma tie_pluralize_noarg : forall (x p : value) (n : Z),
  is_number (vv x) = true -> to_integer (vv x) = Some n -> val_len (vv p) = 0%Z ->
  apply_filter n_pluralize x p = match pluralize_ref n [] with
                                 | Some s => Ok (as_value (VStr s))
                                 | None => Err 5
                                 end.
Proof. intros. rewrite dispatch_pluralize. cbn [pluralize_ref]. apply pluralize_noarg; assumption. Qed.

Lemma tie_pluralize_not_number : forall (x p : value), is_number (vv x) = false ->
  apply_filter n_pluralize x p = Err 5.
Proof. intros. rewrite dispatch_pluralize. apply pluralize_not_number. assumption. Qed.

(* ------------------------------------------------------------------ *)
(* wordcount, cut                                                      *)

Lemma tie_wordcount : forall (x p : value) (s : str), to_string (vv x) = Some s ->
  apply_filter n_wordcount x p
  = Ok (as_value (VInt (Z.of_nat (length (ws_fields is_space_rune (runes s)))))).
Proof. intros. rewrite dispatch_wordcount. apply wordcount_counts. assumption. Qed.

Lemma tie_cut_python : forall (x p : value) (s o : str),
  to_string (vv x) = Some s -> to_string (vv p) = Some o -> o <> [] ->
  exists r, apply_filter n_cut x p = Ok (as_value (VStr r)) /\ cut_rel o s r.
Proof. intros. rewrite dispatch_cut. apply cut_python; assumption. Qed.

Lemma tie_cut_rel_fun : forall o s r1 r2, o <> [] -> cut_rel o s r1 -> cut_rel o s r2 -> r1 = r2.
Proof. exact cut_rel_fun. Qed.

Lemma tie_cut_one_byte : forall (x p : value) (s : str) (c : N),
  to_string (vv x) = Some s -> to_string (vv p) = Some [c] ->
  apply_filter n_cut x p = Ok (as_value (VStr (filter (fun b => negb (b =? c)) s))) /\
  lacks c (filter (fun b => negb (b =? c)) s).
Proof.
  intros x p s c Hx Hp. rewrite dispatch_cut. split; [apply cut_one_byte; assumption|].
  rewrite <- cut_byte. apply cut_byte_gone.
Qed.

Lemma tie_cut_nothing : forall (x p : value) (s o : str),
  to_string (vv x) = Some s -> to_string (vv p) = Some o -> ~ occurs o s \/ o = [] ->
  apply_filter n_cut x p = Ok (as_value (VStr s)).
Proof. intros. rewrite dispatch_cut. eapply cut_nothing; eassumption. Qed.

(* ------------------------------------------------------------------ *)
(* upper, lower, capfirst, make_list, length_is                        *)

Lemma tie_upper_ascii : forall (x p : value) (s : str), to_string (vv x) = Some s ->
  (is_ascii s -> apply_filter n_upper x p = Ok (as_value (VStr (map ascii_upper s)))) /\
  (~ is_ascii s -> apply_filter n_upper x p = Unmod).
Proof. intros. rewrite dispatch_upper. apply upper_ascii. assumption. Qed.

Lemma tie_lower_ascii : forall (x p : value) (s : str), to_string (vv x) = Some s ->
  (is_ascii s -> apply_filter n_lower x p = Ok (as_value (VStr (map ascii_lower s)))) /\
  (~ is_ascii s -> apply_filter n_lower x p = Unmod).
Proof. intros. rewrite dispatch_lower. apply lower_ascii. assumption. Qed.

Lemma tie_capfirst_string : forall (x p : value) (b : N) (rest : str), vv x = VStr (b :: rest) ->
  (b < 128 -> apply_filter n_capfirst x p = Ok (as_value (VStr (ascii_upper b :: rest)))) /\
  (128 <= b -> apply_filter n_capfirst x p = Unmod).
Proof. intros. rewrite dispatch_capfirst. apply capfirst_string. assumption. Qed.

Lemma tie_capfirst_empty : forall (x p : value), val_len (vv x) = 0%Z ->
  apply_filter n_capfirst x p = Ok (as_value (VStr [])).
Proof. intros. rewrite dispatch_capfirst. apply capfirst_empty. assumption. Qed.

Lemma tie_make_list_chars : forall (x p : value) (s : str), to_string (vv x) = Some s ->
  apply_filter n_make_list x p = Ok (as_value (VList (map VStr (chars s)))).
Proof. intros. rewrite dispatch_make_list. apply make_list_chars. assumption. Qed.

Lemma tie_make_list_wf : forall (x p : value) (rs : list N),
  to_string (vv x) = Some (of_runes rs) -> Forall scalar rs ->
  apply_filter n_make_list x p = Ok (as_value (VList (map VStr (map encode_rune rs)))).
Proof. intros. rewrite dispatch_make_list. apply make_list_wf; assumption. Qed.

Lemma tie_make_list_int : forall (x p : value) (z : Z), vv x = VInt z ->
  apply_filter n_make_list x p = Ok (as_value (VList (map (fun b => VStr [b]) (itoa z)))).
Proof. intros. rewrite dispatch_make_list. apply make_list_int. assumption. Qed.

Lemma tie_length_is : forall (x p : value) (n : Z), to_integer (vv p) = Some n ->
  apply_filter n_length_is x p = Ok (as_value (VBool (val_len (vv x) =? n)%Z)).
Proof. intros. rewrite dispatch_length_is. apply length_is_compares. assumption. Qed.

(* ------------------------------------------------------------------ *)
(* get_digit, truncatechars, truncatewords, linenumbers, wordwrap      *)

Lemma tie_get_digit_nat : forall (x p : value) (z i : Z),
  vv x = VInt z -> to_integer (vv p) = Some i -> (0 <= z)%Z -> is_int64 z -> (1 <= i)%Z ->
  apply_filter n_get_digit x p = if (i =? 1)%Z || (10 ^ (i - 1) <=? z)%Z
                                 then Ok (as_value (VInt (digit_from_right z i))) else Ok x.
Proof. intros. rewrite dispatch_get_digit. apply get_digit_nat; assumption. Qed.

Lemma tie_get_digit_nonpositive : forall (x p : value) (s : str) (i : Z),
  to_string (vv x) = Some s -> to_integer (vv p) = Some i -> (i <= 0)%Z ->
  apply_filter n_get_digit x p = Ok x.
Proof. intros. rewrite dispatch_get_digit. eapply get_digit_nonpositive; eassumption. Qed.

Lemma tie_get_digit_no_digit : forall (x p : value) (s : str) (i : Z),
  to_string (vv x) = Some s -> to_integer (vv p) = Some i ->
  (1 <= i <= Z.of_nat (length s))%Z ->
  (let c := nth (Z.to_nat (Z.of_nat (length s) - i)) s 0%N in (c <? 48)%N || (57 <? c)%N = true) ->
  apply_filter n_get_digit x p = Ok x.
Proof. intros. rewrite dispatch_get_digit. eapply get_digit_no_digit; eassumption. Qed.

Lemma tie_truncatechars_wf : forall (x p : value) (rs : list N) (n : Z),
  to_string (vv x) = Some (of_runes rs) -> Forall scalar rs -> to_integer (vv p) = Some n ->
  apply_filter n_truncatechars x p = Ok (as_value (VStr (of_runes (truncchars_ref rs n)))).
Proof. intros. rewrite dispatch_truncatechars'. apply truncatechars_wf; assumption. Qed.

Lemma tie_truncatechars_all : forall (x p : value) (s : str) (n : Z),
  to_string (vv x) = Some s -> to_integer (vv p) = Some n ->
  ((n <= 0)%Z -> apply_filter n_truncatechars x p = Ok (as_value (VStr s))) /\
  ((0 < n)%Z -> apply_filter n_truncatechars x p
                = Ok (as_value (VStr (of_runes (truncchars_ref (runes s) n))))).
Proof. intros. rewrite dispatch_truncatechars'. apply truncatechars_all; assumption. Qed.

Lemma tie_truncatewords_wf : forall (x p : value) (rs : list N) (n : Z),
  to_string (vv x) = Some (of_runes rs) -> Forall scalar rs -> to_integer (vv p) = Some n ->
  apply_filter n_truncatewords x p
  = Ok (as_value (VStr (py_join [32] (truncwords_ref (map of_runes (ws_fields is_space_rune rs)) n)))).
Proof. intros. rewrite dispatch_truncatewords. apply truncatewords_wf; assumption. Qed.

Lemma tie_linenumbers : forall (x p : value) (line : str) (lines : list str),
  to_string (vv x) = Some (py_join [10] (line :: lines)) -> Forall (lacks 10) (line :: lines) ->
  apply_filter n_linenumbers x p = Ok (as_value (VStr (py_join [10] (numbered (line :: lines))))).
Proof. intros. rewrite dispatch_linenumbers. apply linenumbers_lines; assumption. Qed.

Lemma tie_wordwrap_wf : forall (x p : value) (rs : list N) (w : Z),
  to_string (vv x) = Some (of_runes rs) -> Forall scalar rs -> to_integer (vv p) = Some w ->
  ((w <= 0)%Z -> apply_filter n_wordwrap x p = Ok x) /\
  ((0 < w)%Z -> exists lines,
     apply_filter n_wordwrap x p = Ok (as_value (VStr (py_join [10] (map (py_join [32]) lines)))) /\
     wrapped (Z.to_nat w) (map of_runes (ws_fields is_space_rune rs)) lines).
Proof. intros. rewrite dispatch_wordwrap. apply wordwrap_wf; assumption. Qed.

(* ASCII text is well-formed text whose characters are its bytes *)
Lemma tie_ascii_wf : forall s, is_ascii s -> Forall scalar s /\ of_runes s = s.
Proof. exact ascii_scalar. Qed.
