(* E2 obligations: the integer/boolean bookkeeping that tools/go2v translates from /repo on every
   run (gen/Scalar.v) is what the hand-written model computes. *)
From PV Require Import Lib.Bytes Lib.GoInt gen.Tables Model.Filters Model.Exec.
From PV Require Import Proofs.FilterProofs.
From PV Require Import gen.Scalar.
From Coq Require Import Lia ZArith.
Open Scope Z_scope.

(* ---- slice ---- *)
Lemma e2_slice_bounds : forall n f v b,
  fst (go_slice_bounds n f v b) = (sl_from n f, sl_to n (sl_from n f) (if b then n else v)).
Proof.
  intros n f v b. unfold go_slice_bounds, sl_from, sl_to. cbv zeta.
  destruct b; reflexivity.
Qed.

(* ---- the for tag ---- *)
(* the loop information after the iterations 0..k of a loop over count items *)
Definition go_loop_state := (Z * Z * Z * Z * bool * bool)%type.
Definition step_state (s : go_loop_state) (idx count : Z) : go_loop_state :=
  let '(c, c0, r, r0, f, l) := s in go_for_step c c0 r r0 f l idx count.
Fixpoint go_for_after (k : nat) (count : Z) : go_loop_state :=
  match k with
  | O => step_state go_for_init 0 count
  | S k' => step_state (go_for_after k' count) (Z.of_nat (S k')) count
  end.

Lemma wrap64_small : forall z, - two63 <= z < two63 -> wrap64 z = z.
Proof.
  intros z H. unfold wrap64. unfold two63, two64 in *.
  rewrite Z.mod_small by lia. lia.
Qed.

(* what the documentation says the fields are at position k of count *)
Lemma e2_for_fields : forall (k : nat) (count : Z),
  Z.of_nat k < count -> count < two63 ->
  go_for_after k count =
  (Z.of_nat k + 1, Z.of_nat k, count - Z.of_nat k, count - (Z.of_nat k + 1),
   (Z.of_nat k =? 0), (Z.of_nat k + 1 =? count)).
Proof.
  induction k as [|k IH]; intros count Hk Hc.
  - cbn [go_for_after step_state go_for_init]. unfold go_for_step. cbv zeta.
    rewrite !wrap64_small by (unfold two63 in *; cbn; lia).
    change (Z.of_nat 0) with 0. change (0 =? 1) with false. change (0 =? 0) with true.
    destruct (0 + 1 =? count); reflexivity.
  - cbn [go_for_after]. rewrite IH by lia. cbn [step_state]. unfold go_for_step. cbv zeta.
    assert (Hs : Z.of_nat (S k) = Z.of_nat k + 1) by lia.
    rewrite !wrap64_small by (unfold two63 in *; lia).
    rewrite Hs. clear IH Hs.
    repeat match goal with |- context [(?a =? ?b)] => destruct (Z.eqb_spec a b) end;
      try reflexivity; exfalso; lia.
Qed.

(* ... and the model's forloop value carries exactly those, under the Go field names *)
Lemma e2_loop_struct : forall idx count parent,
  match loop_struct idx count parent with
  | VStruct fields =>
      map fst fields = go_for_fields ++ [[80; 97; 114; 101; 110; 116; 108; 111; 111; 112]%N] /\
      map snd fields = [VInt (idx + 1); VInt idx; VInt (count - idx); VInt (count - (idx + 1));
                        VBool (idx =? 0); VBool (idx + 1 =? count); parent]
  | _ => False
  end.
Proof. intros. split; reflexivity. Qed.

(* ---- the macro depth guard ---- *)
Lemma e2_macro_guard : forall d, - two63 <= d < two63 - 1 ->
  go_macro_refuses d = (max_macro_depth <? d + 1).
Proof.
  intros d H. unfold go_macro_refuses. cbv zeta. rewrite wrap64_small by lia. reflexivity.
Qed.

(* ---- padding filters and get_digit ---- *)
(* center: the model's decisions and blank counts are the code's *)
Lemma e2_center : forall width slen,
  let '(unchanged, refuses, _, _, sp, lft, rgt) := go_center width slen in
  unchanged = (width <=? slen) /\
  sp = wrap64 (width - slen) /\
  refuses = (max_char_padding <? sp) /\
  (0 <= sp <= max_char_padding -> lft = Z.quot sp 2 + Z.rem sp 2 /\ rgt = Z.quot sp 2).
Proof.
  intros width slen. unfold go_center. cbv zeta.
  split; [reflexivity|]. split; [reflexivity|]. split; [reflexivity|].
  intros [H0 H1]. unfold max_char_padding in H1.
  assert (Hq : 0 <= Z.quot (wrap64 (width - slen)) 2 <= 5000) by (split; [apply Z.quot_pos; lia | apply Z.quot_le_upper_bound; lia]).
  assert (Hr : 0 <= Z.rem (wrap64 (width - slen)) 2 < 2) by (apply Z.rem_bound_pos; lia).
  rewrite !(wrap64_small (Z.quot _ _)) by (unfold two63; lia).
  rewrite (wrap64_small (_ + _)) by (unfold two63; lia). split; reflexivity.
Qed.

(* ljust: blanks appended, and when it refuses *)
Lemma e2_ljust : forall width slen,
  go_ljust width slen =
  (let t0 := wrap64 (width - slen) in let times := if (t0 <? 0) then 0 else t0 in ((max_char_padding <? times), times)).
Proof. intros. unfold go_ljust. cbv zeta. reflexivity. Qed.

(* rjust: the field width, and when it refuses *)
Lemma e2_rjust : forall width,
  go_rjust width = (let w := if (width <? 0) then 0 else width in ((max_char_padding <? w), w)).
Proof. intros. unfold go_rjust. cbv zeta. reflexivity. Qed.

(* get_digit: when the input is handed back unchanged *)
Lemma e2_get_digit : forall i l c,
  go_get_digit i l c = (((i <=? 0) || (l <? i)), ((c <? 48) || (57 <? c)), i, l, c).
Proof. intros. reflexivity. Qed.

Lemma wrap64_range : forall z, - two63 <= wrap64 z < two63.
Proof. intro z. unfold wrap64, two63, two64. pose proof (Z.mod_pos_bound (z + 9223372036854775808) 18446744073709551616). lia. Qed.

Lemma e2_center_halves : forall a, - two63 <= a < two63 ->
  wrap64 (wrap64 (Z.quot a 2) + Z.rem a 2) = Z.quot a 2 + Z.rem a 2 /\ wrap64 (Z.quot a 2) = Z.quot a 2.
Proof.
  intros a Ha. unfold two63 in Ha.
  pose proof (Z.quot_rem' a 2) as E.
  assert (Hr : -2 < Z.rem a 2 < 2).
  { pose proof (Z.rem_bound_abs a 2 ltac:(lia)) as Hb. lia. }
  assert (Hq : -4611686018427387905 < Z.quot a 2 < 4611686018427387905) by lia.
  rewrite (wrap64_small (Z.quot a 2)) by (unfold two63; lia).
  rewrite wrap64_small by (unfold two63; lia). split; reflexivity.
Qed.

(* the model's filter bodies, written with the translated arithmetic *)
Lemma e2_center_body : forall x p w, int_of p = Ok w ->
  center_body x p =
  (let '(unchanged, refuses, _, _, _, lft, rgt) := go_center w (val_len (vv x)) in
   if unchanged then Ok x
   else if refuses then ferr
   else bind (str_of x) (fun s => okv (VStr (spaces lft ++ s ++ spaces rgt)))).
Proof.
  intros x p w Hp. unfold center_body, go_center, max_char_padding. rewrite Hp. cbn [bind]. cbv zeta.
  destruct (w <=? val_len (vv x)); [reflexivity|].
  destruct (10000 <? wrap64 (w - val_len (vv x))); [reflexivity|].
  destruct (e2_center_halves (wrap64 (w - val_len (vv x))) (wrap64_range _)) as [E1 E2].
  rewrite E1, E2. reflexivity.
Qed.

Lemma e2_ljust_body : forall x p w, int_of p = Ok w ->
  ljust_body x p =
  (let '(refuses, times) := go_ljust w (val_len (vv x)) in
   if refuses then ferr else bind (str_of x) (fun s => okv (VStr (s ++ spaces times)))).
Proof. intros x p w Hp. unfold ljust_body, go_ljust, max_char_padding. rewrite Hp. cbn [bind]. cbv zeta. reflexivity. Qed.

Lemma e2_rjust_body : forall x p w, int_of p = Ok w ->
  rjust_body x p =
  (let '(refuses, width) := go_rjust w in
   if refuses then ferr
   else bind (str_of x) (fun s => okv (VStr (spaces (width - Z.of_nat (length (runes s))) ++ s)))).
Proof. intros x p w Hp. unfold rjust_body, go_rjust, max_char_padding. rewrite Hp. cbn [bind]. cbv zeta. reflexivity. Qed.
