(* E2 obligations: the integer/boolean bookkeeping that tools/go2v translates from /repo on every
   run (gen/Scalar.v) is what the hand-written model computes. *)
From PV Require Import Lib.Bytes Lib.GoInt gen.Tables Model.Exec.
From PV Require Import Proofs.FilterProofs.
From PV Require Import gen.Scalar.
From Coq Require Import Lia ZArith.
Open Scope Z_scope.

(* ---- slice ---- *)
Lemma e2_slice_bounds : forall n f v b,
  fst (go_slice_bounds n f v b) = (sl_from n f, sl_to n (sl_from n f) (if b then n else v)).
Proof.
  intros n f v b. unfold go_slice_bounds, sl_from, sl_to. cbv zeta.
  destruct b; reflexivity.
Qed.

(* ---- the for tag ---- *)
(* the loop information after the iterations 0..k of a loop over count items *)
Definition go_loop_state := (Z * Z * Z * Z * bool * bool)%type.
Definition step_state (s : go_loop_state) (idx count : Z) : go_loop_state :=
  let '(c, c0, r, r0, f, l) := s in go_for_step c c0 r r0 f l idx count.
Fixpoint go_for_after (k : nat) (count : Z) : go_loop_state :=
  match k with
  | O => step_state go_for_init 0 count
  | S k' => step_state (go_for_after k' count) (Z.of_nat (S k')) count
  end.

Lemma wrap64_small : forall z, - two63 <= z < two63 -> wrap64 z = z.
Proof.
  intros z H. unfold wrap64. unfold two63, two64 in *.
  rewrite Z.mod_small by lia. lia.
Qed.

(* what the documentation says the fields are at position k of count *)
Lemma e2_for_fields : forall (k : nat) (count : Z),
  Z.of_nat k < count -> count < two63 ->
  go_for_after k count =
  (Z.of_nat k + 1, Z.of_nat k, count - Z.of_nat k, count - (Z.of_nat k + 1),
   (Z.of_nat k =? 0), (Z.of_nat k + 1 =? count)).
Proof.
  induction k as [|k IH]; intros count Hk Hc.
  - cbn [go_for_after step_state go_for_init]. unfold go_for_step. cbv zeta.
    rewrite !wrap64_small by (unfold two63 in *; cbn; lia).
    change (Z.of_nat 0) with 0. change (0 =? 1) with false. change (0 =? 0) with true.
    destruct (0 + 1 =? count); reflexivity.
  - cbn [go_for_after]. rewrite IH by lia. cbn [step_state]. unfold go_for_step. cbv zeta.
    assert (Hs : Z.of_nat (S k) = Z.of_nat k + 1) by lia.
    rewrite !wrap64_small by (unfold two63 in *; lia).
    rewrite Hs. clear IH Hs.
    repeat match goal with |- context [(?a =? ?b)] => destruct (Z.eqb_spec a b) end;
      try reflexivity; exfalso; lia.
Qed.

(* ... and the model's forloop value carries exactly those, under the Go field names *)
Lemma e2_loop_struct : forall idx count parent,
  match loop_struct idx count parent with
  | VStruct fields =>
      map fst fields = go_for_fields ++ [[80; 97; 114; 101; 110; 116; 108; 111; 111; 112]%N] /\
      map snd fields = [VInt (idx + 1); VInt idx; VInt (count - idx); VInt (count - (idx + 1));
                        VBool (idx =? 0); VBool (idx + 1 =? count); parent]
  | _ => False
  end.
Proof. intros. split; reflexivity. Qed.

(* ---- the macro depth guard ---- *)
Lemma e2_macro_guard : forall d, - two63 <= d < two63 - 1 ->
  go_macro_refuses d = (max_macro_depth <? d + 1).
Proof.
  intros d H. unfold go_macro_refuses. cbv zeta. rewrite wrap64_small by lia. reflexivity.
Qed.
