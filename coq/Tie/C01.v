(* Tie for C01: totality results proved for other properties, gathered. *)
From PV Require Import Model.Lexer Model.Filters Model.Exec Spec.SpecWalk.
From PV Require Export Tie.C16 Tie.C18 Tie.C08 Tie.C01a Tie.C01b.
From PV Require Import Spec.SpecWf.
Open Scope N_scope.

Lemma tie_walk_never_panics :
  forall se globals steps f st cur safe site,
    (length steps < f)%nat ->
    walk se globals f st cur safe (map part_of steps) <> Panic site.
Proof.
  intros se globals steps f st cur safe site H. rewrite (walk_follows se globals steps f st cur safe H).
  destruct (follow cur steps); discriminate.
Qed.

Lemma tie_compiler_no_panic_holds : forall se : senv, compiler_no_panic se.
Proof. intros se f name g s. exact (proj2 (tie_compile_never_panics se f name false [] g s)). Qed.
