(* Tie for C04: the effect-summary obligations are those of Tie/C05.v; the history lemmas. *)
From PV Require Import Model.Api Spec.SpecHistory.
From PV Require Export Tie.C05.
Open Scope N_scope.

Lemma tie_history_is_fresh_runs :
  forall w t g ctxs i d,
    (i < length ctxs)%nat ->
    nth i (run_history w t g ctxs) d = run_template w t g (nth i ctxs []).
Proof.
  intros w t g ctxs i d H. unfold run_history.
  rewrite (nth_indep _ d (run_template w t g [])) by (rewrite map_length; exact H).
  apply map_nth.
Qed.

Lemma tie_equal_contexts_equal_results :
  forall w t g ctxs i j d,
    (i < length ctxs)%nat -> (j < length ctxs)%nat -> nth i ctxs [] = nth j ctxs [] ->
    nth i (run_history w t g ctxs) d = nth j (run_history w t g ctxs) d.
Proof.
  intros w t g ctxs i j d Hi Hj E.
  rewrite (tie_history_is_fresh_runs _ _ _ _ _ _ Hi), (tie_history_is_fresh_runs _ _ _ _ _ _ Hj), E.
  reflexivity.
Qed.
