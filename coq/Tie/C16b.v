(* Lexer composition and position shift on the concrete tables (C06, C16). *)
From PV Require Import Lib.Bytes Lib.GoInt gen.Tables Model.Lexer Spec.SpecLex.
From PV Require Import Proofs.LexB.
Open Scope N_scope.

Lemma verb_prefix_check_ok : verb_prefix_check = true.
Proof. vm_compute. reflexivity. Qed.

Lemma tie_lex_compose : forall l : list frag,
  frags_ok l -> lex (frags_src l) = LexOk (frags_toks l (1, 1)%Z).
Proof. exact (lex_compose verb_prefix_check_ok). Qed.

Lemma tie_insert_shifts : forall (pre : str) (l : list frag),
  frags_ok (FText pre :: l) ->
  lex (frags_src l) = LexOk (frags_toks l (1, 1)%Z) /\
  lex (pre ++ frags_src l) =
    LexOk (html_tokens pre (1, 1)%Z ++ map (shift_tok (advs (1, 1)%Z pre)) (frags_toks l (1, 1)%Z)).
Proof. exact (insert_shifts verb_prefix_check_ok). Qed.

(* ---------- witness ---------- *)
Definition w_src : str := [123; 123; 32; 120; 32; 125; 125].   (* {{ x }} *)
Definition w_toks (l c : Z) : list token :=
  [mkTok TSymbol [123; 123] l c false;
   mkTok TIdentifier [120] l (c + 3) false;
   mkTok TSymbol [125; 125] l (c + 5) false].

Lemma w_code_ok : code_ok w_src w_toks.
Proof.
  unfold code_ok. split; [|split; [|split; [|split]]].
  - intros l c. unfold w_toks, reloc. cbn [map ttyp tval tcol ttrim].
    repeat (f_equal; try lia).
  - left. reflexivity.
  - reflexivity.
  - reflexivity.
  - intros rest l c acc f Hf. unfold w_src in *. cbn [length] in Hf.
    do 8 (destruct f as [|f]; [lia|]).
    cbn -[Z.add].
    replace (c + 2 + 1 + 1 + 1 + 2)%Z with (c + 7)%Z by lia.
    replace (c + 2 + 1 + 1 + 1)%Z with (c + 5)%Z by lia.
    replace (c + 2 + 1)%Z with (c + 3)%Z by lia.
    reflexivity.
Qed.

Definition w_frags : list frag :=
  [FText [97]; FComment [32; 99; 32]; FCode w_src w_toks;
   FVerbatim [123; 123; 121; 125; 125]; FText [10]].

Lemma w_frags_ok : frags_ok w_frags.
Proof.
  unfold w_frags. cbn [frags_ok frag_ok].
  split; [split; [discriminate|reflexivity]|]. split; [|exact I].
  split; [split; reflexivity|]. split; [|exact I].
  split; [exact w_code_ok|]. split; [|exact I].
  split; [reflexivity|]. split; [|exact I].
  split; [split; [discriminate|reflexivity]|]. split; exact I.
Qed.

Lemma tie_c16_witness : exists l, frags_ok l /\ length l = 5%nat /\
  lex (frags_src l) = LexOk (frags_toks l (1, 1)%Z).
Proof.
  exists w_frags. split; [exact w_frags_ok|]. split; [reflexivity|].
  exact (tie_lex_compose w_frags w_frags_ok).
Qed.

Print Assumptions tie_lex_compose.
Print Assumptions tie_insert_shifts.
Print Assumptions tie_c16_witness.
