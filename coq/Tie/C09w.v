(* Tie for C09 (translated): the Execute methods of the branching tags - tags_if.go, tags_firstof.go,
   tags_ifequal.go, tags_ifnotequal.go - as translated into gen/TagFuncs.v on this run, mean what the
   hand-written executor of Model/Exec.v does on NIf, NFirstof and NIfequal: for every list of
   conditions / wrappers / arguments, every state, every fuel, and whatever the writer held before.
   The scripts are those of Proofs/TagFuncs.v: run the interpretation (Spec/SpecTagFuncs.v) of the
   regenerated term statement by statement; show that one turn of its loop is [if_turn] /
   [firstof_turn] (evaluate, split on the outcome of the model's primitives, compare); the loop
   lemmas [exprs_loop_if] / [exprs_loop_firstof] do the induction.  A change of the Go source that
   changes what a method does makes a script fail here; a change outside the translated fragment is
   a GSUnknown/GEUnknown node (and a translator PROBLEM). *)
From PV Require Export Proofs.TagFuncs.
From PV Require Import Model.Exec Model.Api Lib.GoStmt Spec.SpecTagFuncs gen.TagFuncs gen.Tables Proofs.Flow.
From PV Require Import Spec.SpecSyntax Tie.C09s.
From Coq Require Import String Lia.
Open Scope string_scope.

(* ---------- tagIfNode.Execute ---------- *)
(* Every shape of the two lists.  A run-time panic of the Go code - node.wrappers[i] out of range -
   is the model's Panic 97. *)
Lemma tie_tagIfNode_Execute : forall d, (2 <= d)%nat -> forall se globals conds ws o0 st fuel,
  read_exec 97 (tag_execute se globals go_tagfuncs d (TVIfNode conds ws) o0 st fuel)
  = Some (after o0 (exec_node se globals fuel st (NIf conds ws))).
Proof.
  intros d Hd se globals conds ws o0 st fuel. peel_two d Hd.
  destruct fuel as [|f].
  - rewrite exec_node_0. tag_crunch.
  - rewrite exec_node_S_if. tag_enter.
    rewrite tf_exec_list_cons, tf_exec_range. tag_eval_stmt.
    apply exprs_loop_if; [| |reflexivity].
    + intros i c o st' f' kn' next Hnext. tag_crunch.
    + intros w. tag_crunch.
Qed.

(* The shapes the parser builds: as many wrappers as conditions, or one more (the else block).  Then
   the Go code does not panic on the index - it is enough that no condition lacks its wrapper. *)
Lemma if_turns_no_panic : forall se globals bodyf key val env kn conds ws,
  (forall i c o st f kn' next, (forall s1 s2 w, kn' (s1 :: s2 :: env) w = next w) ->
     match tall_lhs tenv_define [key; val] [TVInt i; TVExpr c] ([] :: env) with
     | Some env1 => bodyf ([] :: env1) (mkTW o st f) kn'
     | None => TStuck "range variables"
     end = if_turn se globals conds ws i c o st f next) ->
  (forall w, kn env w = TOk ([TVNil], w)) ->
  (List.length conds <= List.length ws)%nat ->
  forall r i o st f, skipn i conds = r ->
  go_panics (exprs_loop bodyf key val r i env (mkTW o st f) kn) = false.
Proof.
  intros se globals bodyf key val env kn conds ws Hturn Hkn Hshape.
  induction r as [|c r IH]; intros i o st f Hsk.
  - destruct f as [|f]; [rewrite exprs_loop_fuel0; reflexivity|].
    rewrite exprs_loop_nil, Hkn. reflexivity.
  - destruct f as [|f]; [rewrite exprs_loop_fuel0; reflexivity|].
    destruct (skipn_cons_inv _ _ _ _ Hsk) as (Hnth & Hsk' & Hlen).
    rewrite exprs_loop_cons.
    match goal with |- context [bodyf _ _ ?K] =>
      pose proof (Hturn i c o st f K (fun w' => exprs_loop bodyf key val r (S i) env w' kn)
                        (fun s1 s2 w => eq_refl)) as Heq end.
    match type of Heq with _ = ?R => transitivity (go_panics R); [apply (f_equal go_panics); exact Heq|] end.
    clear Heq. unfold if_turn, int_eq, int_gt, int_add, seq_len, seq_index. rewrite Nat.add_1_r.
    assert (Hrun : forall j o1 st1, (j < List.length ws)%nat ->
                   go_panics (run_wrapper se globals (nth_error ws j) o1 st1 f) = false).
    { intros j o1 st1 Hj. destruct (nth_error ws j) as [wn|] eqn:Hw.
      - unfold run_wrapper. destruct (exec_nodes se globals f st1 wn) as [o2 [st2|k| | |s]]; reflexivity.
      - apply nth_error_None in Hw. lia. }
    destruct (PV.Model.Exec.eval se globals f st c) as [[v st1]|k| | |s]; try reflexivity.
    destruct (is_true (vv v)).
    + apply Hrun. lia.
    + destruct (Nat.eqb (List.length conds) (S i) && Nat.ltb (S i) (List.length ws))%bool eqn:Hlast.
      * apply Bool.andb_true_iff in Hlast. destruct Hlast as [_ Hlt]. apply Nat.ltb_lt in Hlt.
        apply Hrun. exact Hlt.
      * apply IH. exact Hsk'.
Qed.

Lemma tie_tagIfNode_Execute_no_panic : forall d, (2 <= d)%nat -> forall se globals conds ws o0 st fuel,
  (List.length conds <= List.length ws)%nat ->
  go_panics (tag_execute se globals go_tagfuncs d (TVIfNode conds ws) o0 st fuel) = false.
Proof.
  intros d Hd se globals conds ws o0 st fuel Hshape. peel_two d Hd.
  destruct fuel as [|f].
  - tag_crunch.
  - tag_enter. rewrite tf_exec_list_cons, tf_exec_range. tag_eval_stmt.
    apply (if_turns_no_panic se globals) with (conds := conds) (ws := ws); [| |exact Hshape|reflexivity].
    + intros i c o st' f' kn' next Hnext. tag_crunch.
    + intros w. tag_crunch.
Qed.

(* ---------- tagFirstofNode.Execute ---------- *)
(* No index in the Go code: no run-time panic of its own, whatever [site] is. *)
Lemma tie_tagFirstofNode_Execute : forall site d, (2 <= d)%nat -> forall se globals args o0 st fuel,
  read_exec site (tag_execute se globals go_tagfuncs d (TVFirstofNode args) o0 st fuel)
  = Some (after o0 (exec_node se globals fuel st (NFirstof args))).
Proof.
  intros site d Hd se globals args o0 st fuel. peel_two d Hd.
  destruct fuel as [|f].
  - rewrite exec_node_0. tag_crunch.
  - rewrite exec_node_S_firstof. tag_enter.
    rewrite tf_exec_list_cons, tf_exec_range. tag_eval_stmt.
    apply exprs_loop_firstof.
    + intros i a o st' f' kn' next Hnext. tag_crunch.
    + intros w. tag_crunch.
Qed.

(* ---------- tagIfEqualNode.Execute, tagIfNotEqualNode.Execute ---------- *)
Lemma tie_tagIfEqualNode_Execute : forall site d, (2 <= d)%nat -> forall se globals a b thenb elseb o0 st fuel,
  read_exec site (tag_execute se globals go_tagfuncs d (TVIfEqualNode a b thenb elseb) o0 st fuel)
  = Some (after o0 (exec_node se globals fuel st (NIfequal false a b thenb elseb))).
Proof.
  intros site d Hd se globals a b thenb elseb o0 st fuel. peel_two d Hd.
  destruct fuel as [|f].
  - rewrite exec_node_0. tag_crunch.
  - rewrite exec_node_S_ifequal. destruct elseb as [eb|]; tag_crunch.
Qed.

Lemma tie_tagIfNotEqualNode_Execute : forall site d, (2 <= d)%nat -> forall se globals a b thenb elseb o0 st fuel,
  read_exec site (tag_execute se globals go_tagfuncs d (TVIfNotEqualNode a b thenb elseb) o0 st fuel)
  = Some (after o0 (exec_node se globals fuel st (NIfequal true a b thenb elseb))).
Proof.
  intros site d Hd se globals a b thenb elseb o0 st fuel. peel_two d Hd.
  destruct fuel as [|f].
  - rewrite exec_node_0. tag_crunch.
  - rewrite exec_node_S_ifequal. destruct elseb as [eb|]; tag_crunch.
Qed.

(* ---------- the four together ---------- *)
(* a tag node of the model as a value of the interpretation ([tag_value]): its Execute is exec_node *)
Lemma tie_tag_Execute_is_exec_node : forall d, (2 <= d)%nat -> forall se globals n v o0 st fuel,
  tag_value n = Some v ->
  read_exec 97 (tag_execute se globals go_tagfuncs d v o0 st fuel)
  = Some (after o0 (exec_node se globals fuel st n)).
Proof.
  intros d Hd se globals n v o0 st fuel Hv.
  destruct n; try discriminate Hv; cbn [tag_value] in Hv.
  - injection Hv as <-. apply tie_tagIfNode_Execute. exact Hd.
  - injection Hv as <-. apply tie_tagFirstofNode_Execute. exact Hd.
  - match type of Hv with (if ?b then _ else _) = _ => destruct b end; injection Hv as <-.
    + apply tie_tagIfNotEqualNode_Execute. exact Hd.
    + apply tie_tagIfEqualNode_Execute. exact Hd.
Qed.

(* ---------- the shapes of an if node ---------- *)
Lemma tie_tagIfNode_Execute_parser_shape : forall d, (2 <= d)%nat -> forall se globals conds ws o0 st fuel,
  parser_shape conds ws ->
  go_panics (tag_execute se globals go_tagfuncs d (TVIfNode conds ws) o0 st fuel) = false.
Proof.
  intros d Hd se globals conds ws o0 st fuel Hshape. apply tie_tagIfNode_Execute_no_panic; [exact Hd|].
  destruct Hshape as [H|H]; rewrite H; lia.
Qed.

(* when the Go code does panic on the index, a condition lacks its wrapper, and the model says Panic 97 *)
Lemma tie_tagIfNode_Execute_panic : forall d, (2 <= d)%nat -> forall se globals conds ws o0 st fuel,
  go_panics (tag_execute se globals go_tagfuncs d (TVIfNode conds ws) o0 st fuel) = true ->
  (List.length ws < List.length conds)%nat /\ snd (exec_node se globals fuel st (NIf conds ws)) = Panic 97.
Proof.
  intros d Hd se globals conds ws o0 st fuel Hp. split.
  - destruct (Nat.le_gt_cases (List.length conds) (List.length ws)) as [Hle|Hgt]; [|exact Hgt].
    rewrite (tie_tagIfNode_Execute_no_panic d Hd se globals conds ws o0 st fuel Hle) in Hp. discriminate Hp.
  - pose proof (tie_tagIfNode_Execute d Hd se globals conds ws o0 st fuel) as Ht.
    destruct (tag_execute se globals go_tagfuncs d (TVIfNode conds ws) o0 st fuel) as [a|s w|s w|s|s|];
      try discriminate Hp.
    cbn [read_exec] in Ht. unfold after in Ht. congruence.
Qed.

(* every if tag of a document in the syntax of Spec/SpecSyntax.v (any number of elif blocks, with or
   without else) becomes - by node_of, which Props/C09.v (C09_syntax_roundtrip) shows to be what
   the model's parser builds - an if node of the parser's shape; its Execute never panics *)
Lemma tie_node_of_if_parser_shape : forall owner aft bef c body elifs els,
  exists conds ws, node_of owner aft bef (DIf c body elifs els) = NIf conds ws /\ parser_shape conds ws.
Proof.
  intros owner aft bef c body elifs els. cbn [node_of]. eexists. eexists. split; [reflexivity|].
  unfold parser_shape. cbn [List.length]. rewrite app_length, !map_length.
  destruct els as [e|]; cbn [List.length]; [right|left]; lia.
Qed.

Lemma tie_parsed_if_never_panics : forall d, (2 <= d)%nat ->
  forall se globals owner aft bef c body elifs els v o0 st fuel,
  tag_value (node_of owner aft bef (DIf c body elifs els)) = Some v ->
  go_panics (tag_execute se globals go_tagfuncs d v o0 st fuel) = false.
Proof.
  intros d Hd se globals owner aft bef c body elifs els v o0 st fuel Hv.
  destruct (tie_node_of_if_parser_shape owner aft bef c body elifs els) as (conds & ws & Hn & Hshape).
  rewrite Hn in Hv. cbn [tag_value] in Hv. injection Hv as <-.
  apply tie_tagIfNode_Execute_parser_shape; assumption.
Qed.

(* ---------- witnesses ---------- *)
(* {% if x %}A{% elif not y %}B{% elif y %}{{ x }}C{% else %}D{% endif %} and {% if x %}A{% endif %}, compiled
   by the model's parser: an if node of the parser's shape (3 conditions and 4 wrappers; 1 and 1) *)
Definition c09w_if_node (d : dnode) : option node :=
  match c09s_compile [d] with Ok [n] => Some n | _ => None end.
Definition c09w_if_plain : dnode := DIf (CName [120]) [DText [65]] [] None.

Lemma tie_c09w_shape_witness :
  option_map if_node_parser_shape (c09w_if_node c09s_if) = Some true /\
  option_map if_node_parser_shape (c09w_if_node c09w_if_plain) = Some true /\
  option_map (fun n => match n with NIf c w => (List.length c, List.length w) | _ => (0, 0)%nat end)
             (c09w_if_node c09s_if) = Some (3, 4)%nat /\
  option_map (fun n => match n with NIf c w => (List.length c, List.length w) | _ => (0, 0)%nat end)
             (c09w_if_node c09w_if_plain) = Some (1, 1)%nat.
Proof. vm_compute. repeat split. Qed.

(* the translated Execute run on the compiled node, x = 0 and y = "a", after "<<" was written: "<<0C" *)
Definition c09w_run (n : option node) (o0 : str) (st : mstate) (fuel : nat) : option (option xres) :=
  match n with
  | Some n => match tag_value n with
              | Some v => Some (read_exec 97 (tag_execute (world_senv c09s_world) [] go_tagfuncs 2 v o0 st fuel))
              | None => None
              end
  | None => None
  end.
Lemma tie_c09w_run_witness :
  option_map (option_map fst) (c09w_run (c09w_if_node c09s_if) [60; 60] c09s_state 20) = Some (Some [60; 60; 48; 67]) /\
  option_map (option_map fst) (c09w_run (c09w_if_node c09s_if) [60; 60] c09s_state 3) = Some (Some [60; 60]) /\
  option_map (option_map snd) (c09w_run (c09w_if_node c09s_if) [60; 60] c09s_state 3) = Some (Some Fuel) /\
  c09w_run (c09w_if_node c09s_if) [60; 60] c09s_state 20 =
    option_map (fun n => Some (after [60; 60] (exec_node (world_senv c09s_world) [] 20 c09s_state n))) (c09w_if_node c09s_if).
Proof. vm_compute. repeat split. Qed.

(* shapes the parser does not build: a true condition without its wrapper - the Go code panics on
   node.wrappers[i], the model says Panic 97; the else test never does *)
Lemma tie_c09w_panic_witness :
  go_panics (tag_execute (world_senv c09s_world) [] go_tagfuncs 2 (TVIfNode [EBool true] []) [] c09s_state 20) = true /\
  exec_node (world_senv c09s_world) [] 20 c09s_state (NIf [EBool true] []) = ([], Panic 97) /\
  go_panics (tag_execute (world_senv c09s_world) [] go_tagfuncs 2
                         (TVIfNode [EBool false; EBool true] [[NHtml 1 [65] false false false false]]) [] c09s_state 20) = true /\
  go_panics (tag_execute (world_senv c09s_world) [] go_tagfuncs 2 (TVIfNode [EBool false] []) [] c09s_state 20) = false.
Proof. vm_compute. repeat split. Qed.

(* firstof and the equality tags, run: {% firstof z "<b>" %} with autoescape on prints &lt;b&gt;;
   ifequal 1 1 takes the then block, ifnotequal 1 1 the else block *)
Lemma tie_c09w_other_witness :
  option_map fst (read_exec 0 (tag_execute (world_senv c09s_world) [] go_tagfuncs 2
     (TVFirstofNode [EVar [PIdent [122] None]; EStr [60; 98; 62]]) [] c09s_state 20)) = Some [38; 108; 116; 59; 98; 38; 103; 116; 59] /\
  option_map fst (read_exec 0 (tag_execute (world_senv c09s_world) [] go_tagfuncs 2
     (TVIfEqualNode (EInt 1) (EInt 1) [NHtml 1 [65] false false false false] (Some [NHtml 1 [66] false false false false]))
     [] c09s_state 20)) = Some [65] /\
  option_map fst (read_exec 0 (tag_execute (world_senv c09s_world) [] go_tagfuncs 2
     (TVIfNotEqualNode (EInt 1) (EInt 1) [NHtml 1 [65] false false false false] (Some [NHtml 1 [66] false false false false]))
     [] c09s_state 20)) = Some [66].
Proof. vm_compute. repeat split. Qed.
