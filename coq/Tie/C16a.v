(* Properties C16 / C06, part a: the lexer lemmas of Proofs/LexA.v instantiated on the tables
   generated from the Go source (gen/Tables.v).  Each side condition is a closed boolean,
   checked by computation. *)
From PV Require Import Lib.Bytes Lib.GoInt gen.Tables Model.Lexer Spec.SpecLex.
From PV Require Import Proofs.LexA.
Open Scope N_scope.

(* ---------- side conditions on the generated tables ---------- *)

(* token_symbols: every symbol is non-empty and free of newlines; a trimming delimiter is
   recovered from its token by putting the dash back at the recorded side; "{{" and "{%"
   are symbols *)
Lemma symbols_side_ok : symbols_ok token_symbols = true.
Proof. vm_compute. reflexivity. Qed.

(* a newline is no identifier character and no digit *)
Lemma classes_side_ok :
  classes_ok token_ident_chars token_ident_chars_digits token_digits = true.
Proof. vm_compute. reflexivity. Qed.

(* ---------- the lemmas Props/C16.v and Props/C06.v expect ---------- *)

Lemma tie_lex_total : forall src : str, lex src <> LexFuel.
Proof. exact (lex_total_g symbols_side_ok classes_side_ok). Qed.

Lemma tie_lex_text_identity : forall s : str,
  delim_free s = true -> lex s = LexOk (html_tokens s (1, 1)%Z).
Proof. exact lex_text_identity_g. Qed.

Lemma tie_lex_positions : forall (src : str) (toks : list token),
  lex src = LexOk toks -> Forall (tok_at src) toks.
Proof. exact (lex_positions_g symbols_side_ok classes_side_ok). Qed.

Lemma tie_lex_error_position : forall (src : str) (l c : Z) (m : N),
  lex src = LexFail (LexErr l c m) ->
  exists off, (off <= length src)%nat /\ pos_at src off = (l, c).
Proof. exact (lex_error_position_g symbols_side_ok classes_side_ok). Qed.

Print Assumptions tie_lex_total.
Print Assumptions tie_lex_text_identity.
Print Assumptions tie_lex_positions.
Print Assumptions tie_lex_error_position.
