(* Tie for property C13 (macros): the lemmas of Proofs/Flow.v, which treat the generated
   constant [max_macro_depth] (gen/Tables.v, from the Go constant maxMacroDepth) as an
   opaque bound.  The one fact about its value the property needs - a call from a frame that
   is not inside any call is within the bound - is a finite check on the table. *)
From PV Require Export Proofs.Flow.
From PV Require Import Model.Exec Spec.SpecFlow gen.Tables.
From Coq Require Import Lia.
Open Scope N_scope.

Lemma tie_macro_depth_positive : (0 < max_macro_depth)%Z.
Proof. vm_compute. reflexivity. Qed.

Lemma tie_first_call_allowed : forall dfr : frame,
  f_depth dfr = 0%Z -> (f_depth dfr + 1 <= max_macro_depth)%Z.
Proof. intros dfr H. pose proof tie_macro_depth_positive. lia. Qed.

From PV Require Export Tie.E2.
