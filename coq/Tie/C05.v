(* Tie for C04/C05/C12 (static part): obligations over the effect summary go2eff regenerates
   from /repo's SSA on every run, and the abstract concurrency lemmas.
   GENERATED from C05.v.in by tools/bl.py. *)
From PV Require Import Lib.Bytes Model.Conc gen.Effects.
From PV Require Export Proofs.ConcProofs.
Open Scope N_scope.

Definition effect_eqb (a b : N * str * str) : bool :=
  (fst (fst a) =? fst (fst b)) && str_eqb (snd (fst a)) (snd (fst b)) && str_eqb (snd a) (snd b).

(* The only writes to compiled/shared state that execution may reach:
   - the first-template flag of the set, stored atomically (a lazy include compiles at run time);
   - the one-time TrimBlocks/LStripBlocks rewrite of the entry template's text tokens and
     its two "done" flags, all inside newContextForExecution under Template.blockOptionsMutex. *)
Definition allowed_shared_writes : list (N * str * str) :=
  [ (4, [84; 101; 109; 112; 108; 97; 116; 101; 83; 101; 116] (* TemplateSet *), [102; 105; 114; 115; 116; 84; 101; 109; 112; 108; 97; 116; 101; 67; 114; 101; 97; 116; 101; 100] (* firstTemplateCreated *));
    (1, [84; 101; 109; 112; 108; 97; 116; 101] (* Template *), [108; 115; 116; 114; 105; 112; 66; 108; 111; 99; 107; 115; 68; 111; 110; 101] (* lstripBlocksDone *));
    (1, [84; 101; 109; 112; 108; 97; 116; 101] (* Template *), [116; 114; 105; 109; 66; 108; 111; 99; 107; 115; 68; 111; 110; 101] (* trimBlocksDone *));
    (1, [84; 111; 107; 101; 110] (* Token *), [86; 97; 108] (* Val *)) ].

Lemma tie_shared_writes_allowed :
  forallb (fun w => existsb (fun a => effect_eqb a w) allowed_shared_writes) exec_shared_writes = true
  /\ unguarded_accesses = [] /\ exec_compile_set_writes = [].
Proof. vm_compute. repeat split; reflexivity. Qed.

(* every function that touches the template cache takes its mutex (NewSet creates the map
   before the set is shared) *)
Lemma tie_cache_locked :
  forallb (fun c => (fst c =? 1) || has_suffix (snd c) [78; 101; 119; 83; 101; 116] (* NewSet *)) cache_touch = true.
Proof. vm_compute. reflexivity. Qed.
