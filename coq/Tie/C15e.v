(* Tie for property C15, end to end: the lemmas of Proofs/Dash.v with their side conditions on
   the generated tables discharged by computation:
   - dash_tables_ok: every ASCII letter is an identifier character of the lexer and no white
     space, the blank is no identifier character, every lexer keyword is in the reserved-word
     list of Spec/SpecDash.v (gen/Tables.v token_ident_chars, token_ident_chars_digits,
     token_space_chars, token_keywords);
   - verb_prefix_check (Tie/C16b.v) and ws_table_ok token_space_chars (Tie/C15.v), as before;
   and the witnesses / counterexamples quoted in Props/C15e.v. *)
From PV Require Export Proofs.Dash.
From PV Require Import Model.Api Spec.SpecLex Spec.SpecRender Spec.SpecTrim Spec.SpecDash gen.Tables.
From PV Require Import Tie.C16b Tie.C15.
Open Scope N_scope.

Lemma tie_dash_tables : dash_tables_ok = true.
Proof. vm_compute. reflexivity. Qed.

Lemma tie_lex_doc : forall d : doc,
  doc_ok d = true -> lex (doc_src d) = LexOk (doc_toks d (1, 1)%Z).
Proof. exact (lex_doc tie_dash_tables verb_prefix_check_ok). Qed.

Lemma tie_var_code_ok : forall (n : str) (dl dr : bool),
  name_ok n = true -> code_ok (var_src n dl dr) (var_toks n dl dr).
Proof. exact (var_code_ok tie_dash_tables). Qed.

Lemma tie_parse_doc_top : forall (se : senv) (d : doc) (p : Z * Z) (F : nat) (st : pst),
  doc_ok d = true -> (length d + 2 <= F)%nat ->
  parse_doc se F st (annotate None (doc_toks d p)) = Ok (doc_nodes (t_id (fst st)) false d, st).
Proof. exact parse_doc_top. Qed.

Lemma tie_compile_doc : forall (se : senv) (d : doc) (F : nat) (name : str) (isstr : bool) (g : gstate),
  doc_ok d = true -> (length d + 2 <= F)%nat ->
  compile_src se (S F) name isstr (doc_src d) g =
  Ok (Tpl (g_nid g) name isstr (doc_nodes (g_nid g) false d) [] [] None (se_trim se) (se_lstrip se),
      mkG (g_nid g + 1) (g_log g)).
Proof. exact (compile_doc_tpl tie_dash_tables verb_prefix_check_ok). Qed.

Lemma tie_exec_item_nodes_strip : forall (se : senv) (globals : list (str * cval)) (owner : N)
                                         (d : list (item expr)) (pd : bool) (f : nat) (st : mstate),
  exec_nodes se globals f st (item_nodes owner pd d) =
  exec_nodes se globals f st (item_nodes owner false (strip_from pd d)).
Proof. intros se globals. exact (exec_item_nodes_strip se globals tie_ws_table). Qed.

Lemma tie_exec_doc_nodes : forall (se : senv) (globals : list (str * cval)) (owner : N) (d : doc)
                                  (F F' : nat) (st : mstate) (fr : frame),
  doc_ok d = true -> top_frame st = Ok fr ->
  macro_free (f_priv fr) = true -> macro_free (f_pub fr) = true ->
  (length d + 6 <= F)%nat -> (length d + 6 <= F')%nat ->
  exec_nodes se globals F st (doc_nodes owner false d) =
  exec_nodes se globals F' st (doc_nodes owner false (doc_strip d)).
Proof.
  intros se globals owner d F F' st fr Hok Hfr Hp Hq HF HF'.
  rewrite (exec_doc se globals tie_ws_table owner d false F st fr Hok Hfr Hp Hq HF).
  unfold doc_strip.
  rewrite (exec_doc se globals tie_ws_table owner (strip_from false d) false F' st fr
             (doc_ok_strip d false Hok) Hfr Hp Hq)
    by (rewrite strip_from_length; exact HF').
  rewrite <- doc_out_strip. reflexivity.
Qed.

Lemma tie_render_shape : forall (w : world) (ctx : list (str * cval)),
  keys_ok (ctx_update (w_globals w) ctx) = true ->
  macro_free (ctx_update (w_globals w) ctx) = true ->
  exists vt : str -> res str, forall d : doc,
    doc_ok d = true -> N.of_nat (length d) <= 59000 ->
    api_render_string w (doc_src d) ctx = obs_of_out (doc_out vt false d).
Proof. exact (render_shape tie_dash_tables verb_prefix_check_ok tie_ws_table). Qed.

Lemma tie_dash_end_to_end : forall (w : world) (ctx : list (str * cval)) (d : doc),
  doc_ok d = true -> N.of_nat (length d) <= 59000 ->
  keys_ok (ctx_update (w_globals w) ctx) = true ->
  macro_free (ctx_update (w_globals w) ctx) = true ->
  api_render_string w (doc_src d) ctx = api_render_string w (doc_src (doc_strip d)) ctx.
Proof. exact (dash_end_to_end tie_dash_tables verb_prefix_check_ok tie_ws_table). Qed.

Lemma tie_doc_out_strip : forall (vt : str -> res str) (d : doc),
  doc_out vt false d = doc_out vt false (doc_strip d).
Proof. intros vt d. exact (doc_out_strip vt d false). Qed.

Lemma tie_doc_ok_strip : forall d : doc, doc_ok d = true -> doc_ok (doc_strip d) = true.
Proof. intros d. exact (doc_ok_strip d false). Qed.

Lemma tie_macro_free_merged : forall (globals ctx : list (str * cval)),
  macro_free globals = true -> macro_free ctx = true -> macro_free (ctx_update globals ctx) = true.
Proof. intros g c Hg Hc. exact (macro_free_ctx_update c g Hg Hc). Qed.

(* ---------- witnesses ---------- *)
(* both block options on, a global *)
Definition c15e_world : world :=
  mkWorld [] true true [] [] [] [] [([121; 121] (* yy *), CV (as_value (VInt 42)))].
(* x = "<hi>", a string that autoescape rewrites *)
Definition c15e_ctx : list (str * cval) := [([120] (* x *), CV (as_value (VStr [60; 104; 105; 62])))].
(* a \n {{- x -}} \t {{- yy -}} b{ {{ z -}} c\n   : a text that vanishes, a stray brace, an
   unknown name *)
Definition c15e_doc : doc :=
  [ Text [97; 32; 10; 32]; Var [120] true true; Text [32; 9; 32]; Var [121; 121] true true;
    Text [32; 98; 123; 32]; Var [122] false true; Text [32; 99; 10] ].

Lemma tie_c15e_witness :
  doc_ok c15e_doc = true /\ N.of_nat (length c15e_doc) <= 59000 /\
  keys_ok (ctx_update (w_globals c15e_world) c15e_ctx) = true /\
  macro_free (ctx_update (w_globals c15e_world) c15e_ctx) = true /\
  doc_src c15e_doc =
    [97; 32; 10; 32; 123; 123; 45; 32; 120; 32; 45; 125; 125; 32; 9; 32; 123; 123; 45; 32; 121; 121;
     32; 45; 125; 125; 32; 98; 123; 32; 123; 123; 32; 122; 32; 45; 125; 125; 32; 99; 10] /\
  doc_src (doc_strip c15e_doc) =
    [97; 123; 123; 32; 120; 32; 125; 125; 123; 123; 32; 121; 121; 32; 125; 125; 98; 123; 32; 123;
     123; 32; 122; 32; 125; 125; 99; 10] /\
  api_render_string c15e_world (doc_src c15e_doc) c15e_ctx =
    OOk [97; 38; 108; 116; 59; 104; 105; 38; 103; 116; 59; 52; 50; 98; 123; 32; 99; 10] /\
  api_render_string c15e_world (doc_src (doc_strip c15e_doc)) c15e_ctx =
    OOk [97; 38; 108; 116; 59; 104; 105; 38; 103; 116; 59; 52; 50; 98; 123; 32; 99; 10].
Proof. vm_compute. repeat split; congruence. Qed.

(* the tokens and the nodes of the witness, as the lexer / the parser compute them *)
Lemma tie_c15e_witness_stages :
  lex (doc_src c15e_doc) = LexOk (doc_toks c15e_doc (1, 1)%Z) /\
  parse_doc (world_senv c15e_world) 20 (mkT 1 [] true [] [] None, g0)
            (annotate None (doc_toks c15e_doc (1, 1)%Z)) =
    Ok (doc_nodes 1 false c15e_doc, (mkT 1 [] true [] [] None, g0)) /\
  doc_nodes 1 false c15e_doc =
    [ NHtml 1 [97; 32; 10; 32] false true false false; NVar (var_expr [120]);
      NHtml 1 [32; 9; 32] true true false false; NVar (var_expr [121; 121]);
      NHtml 1 [32; 98; 123; 32] true false false false; NVar (var_expr [122]);
      NHtml 1 [32; 99; 10] true false false false ].
Proof. vm_compute. repeat split; reflexivity. Qed.

(* ---------- what the two side conditions exclude ---------- *)
(* FINDING 1: "a{ {{- x }}" is a text and a variable, but deleting the blank by hand gives
   "a{{{ x }}", where "{{" now starts after the "a": the first renders, the second does not
   compile.  doc_ok rejects this document (last conjunct of its Text case). *)
Definition c15e_bad_doc : doc := [ Text [97; 123; 32]; Var [120] true false ].
Lemma tie_c15e_brace_counterexample :
  doc_ok c15e_bad_doc = false /\
  doc_src c15e_bad_doc = [97; 123; 32; 123; 123; 45; 32; 120; 32; 125; 125] /\
  doc_src (doc_strip c15e_bad_doc) = [97; 123; 123; 123; 32; 120; 32; 125; 125] /\
  api_render_string c15e_world (doc_src c15e_bad_doc) c15e_ctx =
    OOk [97; 123; 38; 108; 116; 59; 104; 105; 38; 103; 116; 59] /\
  api_render_string c15e_world (doc_src (doc_strip c15e_bad_doc)) c15e_ctx = OCompileErr 2.
Proof. vm_compute. repeat split; reflexivity. Qed.

(* FINDING 2 (an artefact of the model's fuel, not of pongo2): a context that holds a macro
   whose body is nested 29995 deep.  The marked document has one node more (the blank text
   that the marker empties), so its last variable runs on one unit of fuel less: the model
   answers OFuel for the marked source and OOk for the source stripped by hand.  Hence the
   hypothesis macro_free in tie_dash_end_to_end. *)
Fixpoint c15e_nest (k : nat) : list node :=
  match k with O => [] | S k' => [NSpaceless (c15e_nest k')] end.
Definition c15e_macro_ctx : list (str * cval) :=
  [([109] (* m *), CMacro (Macro [109] [] (c15e_nest (N.to_nat 29995)) false) 0)].
(* " {{- x }}a{{ m }}" *)
Definition c15e_macro_doc : doc := [ Text [32]; Var [120] true false; Text [97]; Var [109] false false ].
Lemma tie_c15e_macro_fuel_artefact :
  doc_ok c15e_macro_doc = true /\
  keys_ok (ctx_update [] c15e_macro_ctx) = true /\
  macro_free (ctx_update [] c15e_macro_ctx) = false /\
  api_render_string (mkWorld [] false false [] [] [] [] []) (doc_src c15e_macro_doc) c15e_macro_ctx = OFuel /\
  api_render_string (mkWorld [] false false [] [] [] [] []) (doc_src (doc_strip c15e_macro_doc)) c15e_macro_ctx
    = OOk [97].
Proof. vm_compute. repeat split; reflexivity. Qed.

Print Assumptions tie_lex_doc.
Print Assumptions tie_compile_doc.
Print Assumptions tie_exec_item_nodes_strip.
Print Assumptions tie_exec_doc_nodes.
Print Assumptions tie_render_shape.
Print Assumptions tie_dash_end_to_end.
Print Assumptions tie_c15e_witness.
Print Assumptions tie_c15e_macro_fuel_artefact.
