(* Tie for property C02: the lemmas of Proofs/Taint.v with the one fact they assume about the
   generated table escape_pairs (the escape filter's output is in escaped form - C17, proved in
   Tie/C17a.v), and the facts that depend on the generated table filter_impl (which Go function
   a filter name is bound to), by computation. *)
From PV Require Import Lib.Bytes Model.Value Model.Doc Model.Exec Model.Filters Spec.SpecEsc Spec.SpecTaint.
From PV Require Import gen.Tables Tie.C17a.
From PV Require Export Proofs.Taint Proofs.TaintFrag.
Open Scope N_scope.

Lemma esc_ok : forall s, html_clean (filter_escape s) = true.
Proof.
  intros s. unfold html_clean. destruct (tie_escape_clean s) as [H1 H2]. rewrite H1, H2. reflexivity.
Qed.

(* ---------- 1. {{ e }} ---------- *)
Lemma tie_var_output_escaped : forall se globals f st e v st1 s,
  auto_on st -> eval se globals f st e = Ok (v, st1) ->
  vsafe v = false -> filter_applied n_safe e = false -> to_string (vv v) = Some s ->
  exec_node se globals (S f) st (NVar e) = xok (autoescaped (vv v) s) st1 /\
  html_clean (autoescaped (vv v) s) = true.
Proof. exact (fun se globals => var_output_escaped_on se globals esc_ok). Qed.

Lemma tie_nonstring_rendering_inert : forall v s,
  is_string v = false -> to_string v = Some s -> forallb inert_byte s = true.
Proof. exact to_string_nonstring_inert. Qed.

Lemma tie_inert_is_clean : forall s, forallb inert_byte s = true -> html_clean s = true.
Proof. exact inert_clean. Qed.

Lemma tie_var_unmodelled : forall se globals f st e v st1 fr,
  eval se globals f st e = Ok (v, st1) -> top_frame st1 = Ok fr -> to_string (vv v) = None ->
  exec_node se globals (S f) st (NVar e) = ([], Unmod).
Proof. exact var_output_unmodelled. Qed.

Lemma tie_var_site : forall se globals fuel st e o st',
  auto_on st -> filter_applied n_safe e = false ->
  exec_node se globals fuel st (NVar e) = (o, Ok st') ->
  exists f v, fuel = S f /\ eval se globals f st e = Ok (v, st') /\ escaped_or_marked o v.
Proof. exact (fun se globals => var_site_on se globals esc_ok). Qed.

Lemma tie_var_plain_clean : forall se globals fuel st e o st',
  auto_on st -> plain_state st -> filter_applied n_safe e = false ->
  exec_node se globals fuel st (NVar e) = (o, Ok st') ->
  st' = st /\ html_clean o = true.
Proof. exact (fun se globals => var_plain_clean se globals esc_ok). Qed.

(* ---------- 2. firstof, cycle, widthratio ---------- *)
Lemma tie_firstof_site : forall se globals fuel st args o st',
  auto_on st -> none_safe args = true ->
  exec_node se globals fuel st (NFirstof args) = (o, Ok st') ->
  o = [] \/
  exists a v s f st0, In a args /\ eval se globals f st0 a = Ok (v, st') /\ is_true (vv v) = true /\
                      to_string (vv v) = Some s /\ o = filter_escape s.
Proof. exact firstof_site_on. Qed.

Lemma tie_firstof_output_clean : forall se globals fuel st args o st',
  auto_on st -> none_safe args = true ->
  exec_node se globals fuel st (NFirstof args) = (o, Ok st') -> html_clean o = true.
Proof. exact (fun se globals => firstof_output_clean_on se globals esc_ok). Qed.

Lemma tie_cycle_out_escaped : forall fr item v st s,
  f_auto fr = true -> vsafe v = false -> filter_applied n_safe item = false ->
  to_string (vv v) = Some s ->
  cycle_out fr item v st = xok (autoescaped (vv v) s) st /\ html_clean (autoescaped (vv v) s) = true.
Proof.
  intros fr item v st s Ha Hv Hf Hs. split.
  - apply cycle_out_escaped; assumption.
  - apply (autoescaped_clean esc_ok). exact Hs.
Qed.

Lemma tie_cycle_site : forall se globals fuel st id args asname silent o st' fr,
  top_frame st = Ok fr -> f_auto fr = true -> none_safe args = true -> cycles_none_safe fr ->
  exec_node se globals fuel st (NCycle id args asname silent) = (o, Ok st') ->
  o = [] \/ exists item v f st0 st1, eval se globals f st0 item = Ok (v, st1) /\ escaped_or_marked o v.
Proof. exact (fun se globals => cycle_site_on se globals esc_ok). Qed.

Lemma tie_widthratio_inert : forall se globals fuel st c m w nm o st',
  exec_node se globals fuel st (NWidthratio c m w nm) = (o, Ok st') -> forallb inert_byte o = true.
Proof. exact widthratio_inert. Qed.

(* ---------- 3. filters ---------- *)
Lemma tie_filter_result_origin : forall name x p r,
  apply_filter name x p = Ok r -> r = x \/ r = p \/ vsafe r = false.
Proof. intros name x p r H. exact (apply_filter_passes name x p r H). Qed.

Lemma tie_filters_do_not_launder : forall name x p r,
  apply_filter name x p = Ok r -> vsafe r = true ->
  vsafe x = true \/ vsafe p = true \/ In name marking_filters.
Proof.
  intros name x p r H Hr. destruct (apply_filter_no_launder name x p r H Hr) as [E|E];
    [left; exact E|right; left; exact E].
Qed.

Lemma tie_filters_se_do_not_launder : forall se name x p r,
  apply_filter_se se name x p = Ok r -> r = x \/ r = p \/ vsafe r = false.
Proof. intros se name x p r H. exact (apply_filter_se_passes se name x p r H). Qed.

Lemma tie_unmodelled_filters : forall name x p,
  In name unmodelled_filters -> apply_filter name x p = Unmod.
Proof.
  intros name x p H. unfold unmodelled_filters in H. cbn [In] in H.
  repeat (destruct H as [H|H]; [subst name; vm_compute; reflexivity|]). destruct H.
Qed.

(* escape and its alias e: the input's text in escaped form, not marked *)
Lemma tie_escape_filter : forall name x p r,
  name = n_escape \/ name = n_e -> apply_filter name x p = Ok r ->
  exists s, to_string (vv x) = Some s /\ r = as_value (VStr (filter_escape s)) /\
            html_clean (filter_escape s) = true.
Proof.
  intros name x p r Hn H.
  assert (Hi : assoc_get name filter_impl = Some [102;105;108;116;101;114;69;115;99;97;112;101])
    by (destruct Hn; subst name; vm_compute; reflexivity).
  rewrite (apply_filter_escape_g name x p Hi) in H. unfold str_of in H.
  destruct (to_string (vv x)) as [s|]; [|discriminate H]. cbn [of_opt bind] in H.
  inversion H. exists s. split; [reflexivity|]. split; [reflexivity|apply esc_ok].
Qed.

(* safe hands its input on untouched: the opt-out is decided at the output site *)
Lemma tie_safe_filter : forall x p, apply_filter n_safe x p = Ok x.
Proof. intros x p. apply apply_filter_safe_g. vm_compute. reflexivity. Qed.

(* the filter tag writes the result of its chain as it is: a parameter taken from the
   context reaches the output unescaped *)
Lemma tie_filter_tag_param_raw :
  auto_on w_state /\ plain_state w_state /\
  exec_node w_se [] 10 w_state (NFilterTag [(n_add, Some w_var)] []) = xok w_text w_state /\
  html_clean w_text = false.
Proof.
  split; [exists w_frame; split; reflexivity|].
  split; [exists w_frame; split; reflexivity|].
  split; vm_compute; reflexivity.
Qed.

(* ---------- 4. expressions over plain contexts ---------- *)
Lemma tie_eval_safe_origin_partial : forall se globals f st e v st',
  plain_state st -> eval se globals f st e = Ok (v, st') -> st' = st /\ vsafe v = false.
Proof. exact eval_plain. Qed.

(* ---------- 4b. fragments without opt-outs ---------- *)
Lemma tie_fragment_output_clean : forall se globals f st ns o st',
  auto_on st -> plain_state st -> frag_nodes ns = true ->
  exec_nodes se globals f st ns = (o, Ok st') ->
  html_clean o = true /\ auto_on st' /\ plain_state st'.
Proof. exact (fun se globals => fragment_output_clean se globals esc_ok). Qed.

(* ---------- 5. the autoescape tag ---------- *)
Lemma tie_autoescape_region : forall se globals fuel st on body o st',
  exec_node se globals fuel st (NAutoescape on body) = (o, Ok st') ->
  exists f fr st1 fr1,
    fuel = S f /\ top_frame st = Ok fr /\
    exec_nodes se globals f (set_top st (with_auto fr on)) body = (o, Ok st1) /\
    top_frame (set_top st (with_auto fr on)) = Ok (with_auto fr on) /\
    top_frame st1 = Ok fr1 /\
    st' = set_top st1 (with_auto fr1 (f_auto fr)) /\
    top_frame st' = Ok (with_auto fr1 (f_auto fr)).
Proof. exact autoescape_region. Qed.

Lemma tie_exec_keeps_flags : forall se globals f st ns o st',
  exec_nodes se globals f st ns = (o, Ok st') -> auto_flags st' = auto_flags st.
Proof. exact exec_nodes_keeps_flags. Qed.
Lemma tie_eval_keeps_flags : forall se globals f st e v st',
  eval se globals f st e = Ok (v, st') -> auto_flags st' = auto_flags st.
Proof. exact eval_keeps_flags. Qed.
Lemma tie_template_keeps_flags : forall se globals f st t ctx o st',
  exec_template_unbuffered se globals f st t ctx = (o, Ok st') -> auto_flags st' = auto_flags st.
Proof. exact exec_template_keeps_flags. Qed.
