(* Tie for C01b: the no-panic lemmas are generic in the set environment and the globals;
   nothing from gen/Tables.v has to be instantiated (that no built-in filter panics is
   Proofs/FilterProofs.v's filters_never_panic, which holds for any filter table).
   Here they are carried to the entry point the correspondence driver calls. *)
From PV Require Import Model.Api Spec.SpecWf.
From PV Require Export Proofs.NoPanicExec.
Open Scope N_scope.

Lemma tie_run_template_never_panics :
  forall (w : world) (t : template) (g : gstate) (ctx : list (str * cval)) (site : N),
    plain_ctx (w_globals w) -> compiler_wf (world_senv w) -> compiler_no_panic (world_senv w) ->
    wf_template t = true -> plain_ctx ctx ->
    run_template w t g ctx <> OPanic site.
Proof.
  intros w t g ctx site Hg Hw Hn Wt Hc. unfold run_template. generalize big_fuel. intros fuel H.
  pose proof (proj2 (tie_exec_never_panics (world_senv w) (w_globals w) Hg Hw Hn fuel g t ctx site Wt Hc)) as P.
  destruct (exec_template_unbuffered (world_senv w) (w_globals w) fuel (mkM [] [] g) t ctx) as [o r].
  destruct r; try discriminate H. injection H as ->. apply P. reflexivity.
Qed.

Lemma tie_root_state_inv :
  forall (globals : list (str * cval)) (t : template) (ctx : list (str * cval)) (e : N) n g,
    plain_ctx globals -> wf_template t = true -> plain_ctx ctx ->
    exec_inv (mkM [root_frame globals t ctx e] n g).
Proof.
  intros globals t ctx e n g Hg Wt Hc.
  apply (good_root globals Hg (mkM [] [] g) t ctx e n g); [exact I|exact Wt|apply wf_ctx_plain, Hc].
Qed.

Print Assumptions tie_run_template_never_panics.
Print Assumptions tie_root_state_inv.
