(* Tie for property C15: the lemmas of Proofs/Compose.v instantiated on the generated table of
   white-space bytes (gen/Tables.v token_space_chars, extracted from the lexer's
   tokenSpaceChars): it holds exactly space, newline, carriage return and tab. *)
From PV Require Export Proofs.Compose.
From PV Require Import Model.Exec Spec.SpecTrim gen.Tables.
Open Scope N_scope.

Lemma tie_ws_table : ws_table_ok token_space_chars = true.
Proof. vm_compute; reflexivity. Qed.

Definition tie_html_trim_spec se globals := html_trim_spec_gen se globals tie_ws_table.
Definition tie_html_trim_member se globals := html_trim_spec_member_gen se globals tie_ws_table.
Definition tie_html_cover_parents se globals := html_cover_parents_gen se globals tie_ws_table.
Definition tie_html_substring se globals := html_substring_gen se globals tie_ws_table.
Definition tie_html_dash_left se globals := html_dash_left_gen se globals tie_ws_table.
Definition tie_html_dash_right se globals := html_dash_right_gen se globals tie_ws_table.
Definition tie_html_dash_idem se globals := html_dash_idem_gen se globals tie_ws_table.
