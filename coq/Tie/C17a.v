(* Property C17, part a: the generic lemmas of Proofs/EscA.v instantiated on the tables
   generated from the Go source (gen/Tables.v).  Each side condition is a closed boolean,
   checked by computation. *)
From PV Require Import Lib.Bytes Lib.Utf8 Lib.GoInt gen.Tables Model.EscFilters Spec.SpecEsc.
From PV Require Import Proofs.EscA.
Open Scope N_scope.

(* ---------- side conditions on the generated tables ---------- *)

(* escape_pairs: single-byte sources; & < > and both quotes are sources; the whole chain
   turns each source byte into exactly its entity among the five of the specification *)
Lemma escape_side_ok : escape_side escape_pairs = true.
Proof. vm_compute. reflexivity. Qed.

(* addslashes_pairs: single-byte sources; backslash and both quotes are sources; the whole
   chain turns each source byte o into backslash-o *)
Lemma addslashes_side_ok : addslashes_side addslashes_pairs = true.
Proof. vm_compute. reflexivity. Qed.

(* iri_chars: every character left alone is ASCII and in the specification's reserved set *)
Lemma iri_side_ok : iri_side iri_chars = true.
Proof. vm_compute. reflexivity. Qed.

(* ---------- the lemmas Props/C17.v expects ---------- *)

Lemma tie_escape_clean : forall s : str,
  forallb (fun b => negb (dangerous b)) (filter_escape s) = true /\ amp_ok (filter_escape s) = true.
Proof. intros s. unfold filter_escape. apply escape_clean_g. exact escape_side_ok. Qed.

Lemma tie_unescape_escape : forall s : str, unescape5 0 (filter_escape s) = s.
Proof. intros s. unfold filter_escape. apply unescape_escape_g. exact escape_side_ok. Qed.

Lemma tie_urlencode_safe : forall s : str,
  Forall (fun b => b < 256) s -> forallb query_safe (filter_urlencode s) = true.
Proof. intros s Hs. unfold filter_urlencode. apply query_escape_safe. exact Hs. Qed.

Lemma tie_urlencode_roundtrip : forall s : str,
  Forall (fun b => b < 256) s -> query_unescape 0 (filter_urlencode s) = Some s.
Proof. intros s Hs. unfold filter_urlencode. apply query_escape_roundtrip. exact Hs. Qed.

Lemma iriencode_rune_is : forall r, iriencode_rune r = iri_rune iri_chars r.
Proof. reflexivity. Qed.

(* the byte-range hypothesis is not needed: every rune encodes to bytes below 256 *)
Lemma tie_iriencode_alphabet : forall s : str,
  Forall (fun b => b < 256) s -> iri_alphabet 0 (filter_iriencode s) = true.
Proof.
  intros s _. unfold filter_iriencode.
  rewrite (flat_map_ext _ _ iriencode_rune_is).
  apply iriencode_alphabet_g. exact iri_side_ok.
Qed.

Lemma tie_addslashes_exact : forall s : str, strip_slashes (filter_addslashes s) = Some s.
Proof. intros s. unfold filter_addslashes. apply addslashes_exact_g. exact addslashes_side_ok. Qed.

Lemma tie_safe_identity : forall s : str, filter_safe s = s.
Proof. reflexivity. Qed.
