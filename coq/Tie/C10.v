(* Tie for property C10: the lemmas of Proofs/Compose.v, and the entries of the generated tag
   table (gen/Tables.v tag_impl, extracted from the tag registrations of the Go source) that
   connect the tag names "extends" and "block" to the parsers the lemmas are about. *)
From PV Require Export Proofs.Compose.
From PV Require Import Model.Exec gen.Tables.
Open Scope N_scope.

Definition kw_extends : str := [101; 120; 116; 101; 110; 100; 115] (* extends *).
Definition kw_block : str := [98; 108; 111; 99; 107] (* block *).

Lemma tie_extends_impl : assoc_get kw_extends tag_impl = Some tagExtendsParser.
Proof. vm_compute; reflexivity. Qed.
Lemma tie_block_impl : assoc_get kw_block tag_impl = Some tagBlockParser.
Proof. vm_compute; reflexivity. Qed.

(* an extends tag inside the body of any tag (parsed at level >= 1, so handed to its parser at
   level >= 2) is a parse error *)
Lemma tie_extends_in_body_error : forall se f level st nm r args body,
  a_is_ident nm = true -> tval (a_tok nm) = kw_extends ->
  str_in kw_extends (cfg_tags (se_cfg se)) = true ->
  str_in kw_extends (cfg_banned_tags (se_cfg se)) = false ->
  collect_args r [] = Some (args, body) ->
  (1 <= level)%nat ->
  parse_tag se (S (S f)) level st (nm :: r) = Err 2.
Proof.
  intros se f level st nm r args body H1 H2 H3 H4 H5 H6.
  rewrite (parse_tag_level se (S f) level st nm r tagExtendsParser args body); try assumption.
  - apply extends_nested_error. lia.
  - rewrite H2. exact H3.
  - rewrite H2. exact H4.
  - rewrite H2. exact tie_extends_impl.
Qed.
