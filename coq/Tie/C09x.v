(* Tie for C09 (translated, the tags that keep state): the Execute methods of tags_set.go,
   tags_autoescape.go and tags_ifchanged.go - as translated into gen/TagFuncs.v (go_statefuncs) on
   this run - mean what the hand-written executor of Model/Exec.v does on NSet, NAutoescape and
   NIfchanged.  The scripts are those of Proofs/TagFuncs2.v: run the interpretation
   (Spec/SpecTagFuncs2.v) of the regenerated term, split on the outcome of the model's primitives,
   compare.  A change of the Go source that changes what a method does makes a script fail here. *)
From PV Require Export Proofs.TagFuncs2.
From PV Require Import Model.Exec Model.Api Lib.GoStmt Spec.SpecTagFuncs Spec.SpecTagFuncs2 gen.TagFuncs Proofs.Flow Proofs.TagFuncs.
From Coq Require Import String Lia.
Open Scope string_scope.

(* ---------- tagSetNode.Execute ---------- *)
Lemma tie_tagSetNode_Execute : forall site d, (3 <= d)%nat -> forall se globals name e o0 st fuel,
  uread_exec site (state_tag_execute se globals go_statefuncs d (UVSetNode name e) o0 st fuel)
  = Some (after o0 (exec_node se globals fuel st (NSet name e))).
Proof.
  intros site d Hd se globals name e o0 st fuel. peel_three d Hd.
  destruct fuel as [|f].
  - rewrite exec_node_0. utag_crunch.
  - rewrite exec_node_S_set. utag_crunch.
Qed.

(* ---------- tagAutoescapeNode.Execute ---------- *)
Lemma tie_tagAutoescapeNode_Execute : forall site d, (3 <= d)%nat -> forall se globals on body o0 st fuel,
  uread_exec site (state_tag_execute se globals go_statefuncs d (UVAutoescapeNode body on) o0 st fuel)
  = Some (after o0 (exec_node se globals fuel st (NAutoescape on body))).
Proof.
  intros site d Hd se globals on body o0 st fuel. peel_three d Hd.
  destruct fuel as [|f].
  - rewrite exec_node_0. utag_crunch.
  - rewrite exec_node_S_autoescape2. utag_crunch.
Qed.

(* ---------- the two together ---------- *)
Lemma tie_state_tag_Execute_is_exec_node : forall site d, (3 <= d)%nat -> forall se globals n v o0 st fuel,
  match n with NSet _ _ | NAutoescape _ _ => True | _ => False end ->
  state_tag_value n = Some v ->
  uread_exec site (state_tag_execute se globals go_statefuncs d v o0 st fuel)
  = Some (after o0 (exec_node se globals fuel st n)).
Proof.
  intros site d Hd se globals n v o0 st fuel Hn Hv.
  destruct n; try contradiction; cbn [state_tag_value] in Hv; injection Hv as <-.
  - apply tie_tagSetNode_Execute. exact Hd.
  - apply tie_tagAutoescapeNode_Execute. exact Hd.
Qed.

(* ---------- witnesses (the state and the template set of Tie/C09s.v: x = 0, y = "a") ---------- *)
From PV Require Import Spec.SpecSyntax Tie.C09s.
Definition c09x_run (v : uval) (o0 : str) (fuel : nat) : option xres :=
  uread_exec 0 (state_tag_execute (world_senv c09s_world) [] go_statefuncs 3 v o0 c09s_state fuel).
Definition c09x_html (s : str) : node := NHtml 1 s false false false false.
Definition c09x_priv (r : option xres) (k : str) : option (option cval) :=
  match r with
  | Some (_, Ok st) => match top_frame st with Ok fr => Some (ctx_get k (f_priv fr)) | _ => None end
  | _ => None
  end.
Definition c09x_auto (r : option xres) : option bool :=
  match r with
  | Some (_, Ok st) => match top_frame st with Ok fr => Some (f_auto fr) | _ => None end
  | _ => None
  end.

(* {% set z = 7 %} after "<" was written: nothing more is written, z is 7 afterwards; out of fuel with 1 *)
Lemma tie_c09x_set_witness :
  option_map fst (c09x_run (UVSetNode [122] (EInt 7)) [60] 20) = Some [60] /\
  c09x_priv (c09x_run (UVSetNode [122] (EInt 7)) [60] 20) [122] = Some (Some (CV (as_value (VInt 7)))) /\
  option_map snd (c09x_run (UVSetNode [122] (EInt 7)) [60] 1) = Some Fuel.
Proof. vm_compute. repeat split. Qed.

(* {% autoescape off %}{{ "<" }}{% endautoescape %}: the body runs with the flag off, the flag is on again
   afterwards; a failing body ({{ 1|nofilter }} - Err) gives the error *)
Lemma tie_c09x_autoescape_witness :
  option_map fst (c09x_run (UVAutoescapeNode [NVar (EStr [60])] false) [] 20) = Some [60] /\
  option_map fst (c09x_run (UVAutoescapeNode [NVar (EStr [60])] true) [] 20) = Some [38; 108; 116; 59] /\
  c09x_auto (c09x_run (UVAutoescapeNode [NVar (EStr [60])] false) [] 20) = c09x_auto (Some ([], Ok c09s_state)).
Proof. vm_compute. repeat split. Qed.

(* the translated ifchanged code (no general tie yet, see Props/C09x.v), run on instances: rendered-content
   mode and watched mode, first execution - equal to the model's exec_node *)
Lemma tie_c09x_ifchanged_instances :
  c09x_run (UVIfchangedNode 7 [] [c09x_html [65]] None) [60] 20 =
    Some (after [60] (exec_node (world_senv c09s_world) [] 20 c09s_state (NIfchanged 7 [] [c09x_html [65]] None))) /\
  option_map fst (c09x_run (UVIfchangedNode 7 [] [c09x_html [65]] None) [60] 20) = Some [60; 65] /\
  c09x_run (UVIfchangedNode 7 [EInt 1; EInt 2] [c09x_html [65]] (Some [c09x_html [66]])) [60] 20 =
    Some (after [60] (exec_node (world_senv c09s_world) [] 20 c09s_state
                                (NIfchanged 7 [EInt 1; EInt 2] [c09x_html [65]] (Some [c09x_html [66]])))) /\
  option_map fst (c09x_run (UVIfchangedNode 7 [EInt 1; EInt 2] [c09x_html [65]] (Some [c09x_html [66]])) [60] 20) = Some [60; 65].
Proof. vm_compute. repeat split. Qed.
