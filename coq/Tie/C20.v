(* Tie for property C20 (the template cache of the set state machine): the lemmas of
   Proofs/SetProofs.v under the names Props/C20.v expects.  No generated table is involved. *)
From PV Require Import Model.SetModel.
From PV Require Export Proofs.SetProofs.
Open Scope N_scope.

Lemma tie_cache_wf_invariant :
  forall (ops : list sop) (s : sstate), cache_wf s -> cache_wf (fold_left (fun st o => fst (s_step st o)) ops s).
Proof. exact sp_cache_wf_invariant. Qed.
Print Assumptions tie_cache_wf_invariant.

Lemma tie_hit_returns_cached :
  forall (s : sstate) (name : str) (st : N),
    s_debug s = false -> assoc_get (cache_key name) (s_cache s) = Some st ->
    s_step s (OFromCache name) = (s, RTpl st).
Proof. exact sp_hit_returns_cached. Qed.
Print Assumptions tie_hit_returns_cached.

Lemma tie_miss_fills :
  forall (s s' : sstate) (name : str) (st : N),
    s_debug s = false -> assoc_get (cache_key name) (s_cache s) = None ->
    s_step s (OFromCache name) = (s', RTpl st) ->
    st = s_stamp s /\ assoc_get (cache_key name) (s_cache s') = Some st /\
    (forall k, str_eqb k (cache_key name) = false -> assoc_get k (s_cache s') = assoc_get k (s_cache s)).
Proof. exact sp_miss_fills. Qed.
Print Assumptions tie_miss_fills.

Lemma tie_failed_load_not_cached :
  forall (s s' : sstate) (name : str),
    s_step s (OFromCache name) = (s', RErr) -> s_cache s' = s_cache s.
Proof. exact sp_failed_load_not_cached. Qed.
Print Assumptions tie_failed_load_not_cached.

Lemma tie_debug_never_caches :
  forall (s : sstate) (name : str),
    s_debug s = true ->
    s_cache (fst (s_step s (OFromCache name))) = s_cache s /\
    (cache_wf s -> forall st, snd (s_step s (OFromCache name)) = RTpl st ->
                   forall k st', In (k, st') (s_cache s) -> st' <> st).
Proof. exact sp_debug_never_caches. Qed.
Print Assumptions tie_debug_never_caches.

Lemma tie_clean_removes :
  forall (s : sstate) (names : list str),
    let s' := fst (s_step s (OCleanCache names)) in
    (names = [] -> s_cache s' = []) /\
    (names <> [] -> forall k, assoc_get k (s_cache s') =
                              if str_in k (map cache_key names) then None else assoc_get k (s_cache s)).
Proof. exact sp_clean_removes. Qed.
Print Assumptions tie_clean_removes.

Lemma tie_other_ops_keep_cache :
  forall (s : sstate) (o : sop),
    match o with OFromCache _ | OCleanCache _ => False | _ => True end ->
    s_cache (fst (s_step s o)) = s_cache s.
Proof. exact sp_other_ops_keep_cache. Qed.
Print Assumptions tie_other_ops_keep_cache.
