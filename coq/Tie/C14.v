(* Tie for C14: nothing depends on a generated table; a witness run that fails half-way shows
   the hypotheses of the C14 theorems are met by a real template. *)
From PV Require Export Proofs.Render.
From PV Require Import Model.Api Spec.SpecWriter gen.Tables.
Open Scope N_scope.

Definition c14_senv : senv := world_senv (mkWorld [] false false [] [] [] [] []).
(* ab{{ 1/0 }}cd *)
Definition c14_src : str := [97; 98; 123; 123; 32; 49; 47; 48; 32; 125; 125; 99; 100].
(* ab{{ 1 }}cd *)
Definition c14_src_ok : str := [97; 98; 123; 123; 32; 49; 32; 125; 125; 99; 100].
Definition c14_name : str := [60; 115; 62].
Definition c14_w (n : option nat) : writer := mkW [62] n.

(* the failing template: Execute fails, ExecuteWriter leaves the writer alone,
   ExecuteWriterUnbuffered has written "ab"; the succeeding one: all agree on "ab1cd", and a
   writer with room for 3 more bytes gets "ab1" and its error comes back *)
Lemma tie_c14_witness :
  exists t g t' g',
    compile_src c14_senv 100 c14_name true c14_src g0 = Ok (t, g) /\
    compile_src c14_senv 100 c14_name true c14_src_ok g0 = Ok (t', g') /\
    execute c14_senv [] 100 (mkM [] [] g) t [] = inr (FErr 3) /\
    execute_writer c14_senv [] 100 (mkM [] [] g) t [] (c14_w None) = (c14_w None, WExecFail (FErr 3)) /\
    execute_writer_unbuffered c14_senv [] 100 (mkM [] [] g) t [] (c14_w None) =
      (mkW [62; 97; 98] None, WExecFail (FErr 3)) /\
    execute c14_senv [] 100 (mkM [] [] g') t' [] = inl [97; 98; 49; 99; 100] /\
    execute_writer c14_senv [] 100 (mkM [] [] g') t' [] (c14_w None) = (mkW [62; 97; 98; 49; 99; 100] None, WOk) /\
    execute_writer_unbuffered c14_senv [] 100 (mkM [] [] g') t' [] (c14_w None) = (mkW [62; 97; 98; 49; 99; 100] None, WOk) /\
    execute_writer c14_senv [] 100 (mkM [] [] g') t' [] (c14_w (Some 4%nat)) = (mkW [62; 97; 98; 49] (Some 4%nat), WWriteErr).
Proof.
  do 4 eexists.
  split; [vm_compute; reflexivity|]. split; [vm_compute; reflexivity|].
  vm_compute. repeat split; reflexivity.
Qed.

Print Assumptions tie_c14_witness.
