(* Tie for property C03 (banned tags / filters cannot be used; bans are frozen once a template
   exists): the lemmas of Proofs/SetProofs.v under the names Props/C03.v expects.  The tables
   involved (registered_tags, registered_filters, tag_impl) occur only inside the model's own
   definitions (s_step, parse_tag), so the lemmas hold for whatever they are regenerated to:
   there is no side condition to discharge.  gen.Tables is re-exported because Props/C03.v
   names registered_tags. *)
From PV Require Import Model.SetModel.
From PV Require Export Proofs.SetProofs gen.Tables.
Open Scope N_scope.

Lemma tie_banned_tag_rejected :
  forall se f level st nm rest,
    is_typ (a_tok nm) TIdentifier = true ->
    str_in (tval (a_tok nm)) (cfg_banned_tags (se_cfg se)) = true ->
    parse_tag se (S f) level st (nm :: rest) = Err 2.
Proof. exact sp_banned_tag_rejected. Qed.
Print Assumptions tie_banned_tag_rejected.

Lemma tie_banned_filter_rejected :
  forall cfg f t name param rest r,
    is_sym t y_pipe = true ->
    parse_filter cfg f rest = Ok (FCall name param, r) ->
    str_in name (cfg_banned_filters cfg) = true ->
    filter_loop cfg (S f) (t :: rest) = Err 2.
Proof. exact sp_banned_filter_rejected. Qed.
Print Assumptions tie_banned_filter_rejected.

Lemma tie_banned_filter_tag_rejected :
  forall cfg fuel ts chain rest,
    filter_tag_chain cfg fuel ts = Ok (chain, rest) ->
    forall name p, In (name, p) chain -> str_in name (cfg_banned_filters cfg) = false.
Proof. exact sp_banned_filter_tag_rejected. Qed.
Print Assumptions tie_banned_filter_tag_rejected.

Lemma tie_bans_frozen :
  forall (ops : list sop) (s : sstate),
    s_created s = true ->
    s_btags (s_final s ops) = s_btags s /\ s_bfilters (s_final s ops) = s_bfilters s /\
    s_created (s_final s ops) = true.
Proof. exact sp_bans_frozen. Qed.
Print Assumptions tie_bans_frozen.

Lemma tie_late_ban_refused :
  forall (s : sstate) (n : str),
    s_created s = true ->
    s_step s (OBanTag n) = (s, RErr) /\ s_step s (OBanFilter n) = (s, RErr).
Proof. exact sp_late_ban_refused. Qed.
Print Assumptions tie_late_ban_refused.

Lemma tie_creation_freezes :
  forall (s : sstate) (o : sop),
    match o with
    | OFromString _ | OFromFile _ | ORenderString _ | ORenderFile _ => True
    | _ => False
    end ->
    s_created (fst (s_step s o)) = true.
Proof. exact sp_creation_freezes. Qed.
Print Assumptions tie_creation_freezes.

Lemma tie_ban_accepted_iff :
  forall (s : sstate) (n : str),
    snd (s_step s (OBanTag n)) = ROk <->
    (str_in n registered_tags = true /\ s_created s = false /\ str_in n (s_btags s) = false).
Proof. exact sp_ban_accepted_iff. Qed.
Print Assumptions tie_ban_accepted_iff.
