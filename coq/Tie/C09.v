(* Tie for property C09 (if / ifequal / firstof / for / cycle / ifchanged): the lemmas of
   Proofs/Flow.v.  No generated table is involved: the tags' behaviour is part of the executor
   model; the names "forloop", "Counter", ... are byte literals in Model/Exec.v and are
   compared with the spec's own literals by the proofs themselves. *)
From PV Require Export Proofs.Flow.

From PV Require Export Tie.E2.
