(* C12: the frame discipline lemmas are generic in the set environment and the globals;
   nothing table-specific has to be instantiated. *)
From PV Require Export Proofs.Frames.
