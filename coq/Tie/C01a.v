(* Property C01, compile half: the lemmas of Proofs/NoPanicParse.v under the names
   Props/C01a.v cites.  No generated table is involved: the statements hold for every
   configuration (any set of registered or banned tags and filters) and every set of
   loaders, and [tag_impl] / [templatetag_map] are only looked up, never assumed about. *)
From PV Require Import Model.Api Spec.SpecNoPanic.
From PV Require Export Proofs.NoPanicParse.
Open Scope N_scope.

Definition tie_parse_expr_never_panics := parse_expr_never_panics.
Definition tie_tag_args_never_panic := tag_args_never_panic.
Definition tie_skippers_never_panic := skippers_never_panic.
Definition tie_doc_parsers_never_panic := doc_parsers_never_panic.
Definition tie_compile_never_panics := compile_never_panics.
Definition tie_api_compile_never_panics := api_compile_never_panics.
Definition tie_c01a_witness := np_witness.
