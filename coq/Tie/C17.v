(* Tie for property C17: the generic lemmas of Proofs/Esc{A,B,C}.v instantiated on the
   tables go2v regenerated from /repo (side conditions by vm_compute / lia). *)
From PV Require Export Tie.C17a Tie.C17b Tie.C17c.
