(* Tie for C19: the registration tables generated from the Go source have no duplicate name
   and every registered name has an implementation entry; end-to-end witnesses. *)
From PV Require Export Proofs.Render.
From PV Require Import Model.Api Spec.SpecRender gen.Tables.
Open Scope N_scope.

Lemma registered_filters_distinct : names_distinct registered_filters = true.
Proof. vm_compute. reflexivity. Qed.
Lemma registered_tags_distinct : names_distinct registered_tags = true.
Proof. vm_compute. reflexivity. Qed.

Lemma tie_registered_tables : NoDup registered_filters /\ NoDup registered_tags.
Proof.
  split; apply names_distinct_NoDup; [exact registered_filters_distinct|exact registered_tags_distinct].
Qed.

(* every registered name has exactly one implementation entry, and vice versa *)
Lemma tie_registered_have_impl :
  map fst filter_impl = registered_filters /\ map fst tag_impl = registered_tags.
Proof. vm_compute. split; reflexivity. Qed.

(* ---------- witnesses ---------- *)
Definition c19_world : world := mkWorld [] false false [] [] [] [] [].
(* {{ x|nosuch }} *)
Definition c19_src_filter : str := [123; 123; 32; 120; 124; 110; 111; 115; 117; 99; 104; 32; 125; 125].
(* {% nosuch %} *)
Definition c19_src_tag : str := [123; 37; 32; 110; 111; 115; 117; 99; 104; 32; 37; 125].
(* {% filter nosuch %}x{% endfilter %} *)
Definition c19_src_filtertag : str :=
  [123; 37; 32; 102; 105; 108; 116; 101; 114; 32; 110; 111; 115; 117; 99; 104; 32; 37; 125; 120;
   123; 37; 32; 101; 110; 100; 102; 105; 108; 116; 101; 114; 32; 37; 125].
(* a{% filter upper|lower %}xY{% endfilter %} *)
Definition c19_src_chain : str :=
  [97; 123; 37; 32; 102; 105; 108; 116; 101; 114; 32; 117; 112; 112; 101; 114; 124; 108; 111; 119; 101; 114; 32; 37; 125;
   120; 89; 123; 37; 32; 101; 110; 100; 102; 105; 108; 116; 101; 114; 32; 37; 125].

Lemma tie_c19_unknown_witness :
  str_in [110; 111; 115; 117; 99; 104] registered_filters = false /\
  str_in [110; 111; 115; 117; 99; 104] registered_tags = false /\
  api_render_string c19_world c19_src_filter [] = OCompileErr 2 /\
  api_render_string c19_world c19_src_tag [] = OCompileErr 2.
Proof. vm_compute. repeat split; reflexivity. Qed.

(* FINDING (counterexample to "always a compile-time error"): an unknown filter name in the
   filter tag compiles, and fails when executed (nothing is written) *)
Lemma tie_c19_filtertag_counterexample :
  api_compile_only c19_world c19_src_filtertag = OOk [] /\
  api_render_string c19_world c19_src_filtertag [] = OExecErr 3 [].
Proof. vm_compute. split; reflexivity. Qed.

Lemma tie_c19_chain_witness :
  api_render_string c19_world c19_src_chain [] = OOk [97; 120; 121].
Proof. vm_compute. reflexivity. Qed.

Print Assumptions tie_registered_tables.
Print Assumptions tie_registered_have_impl.
