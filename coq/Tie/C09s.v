(* Tie for property C09, syntax half: the lemmas of Proofs/Syntax.v with their side conditions
   on the generated tables discharged by computation:
   - dash_tables_ok (Tie/C15e.v): letters are identifier characters and no white space, the
     blank is no identifier character, the lexer's keywords are reserved words;
   - verb_prefix_check (Tie/C16b.v);
   - syntax_words_ok: the fixed words of the tags consist of letters, and the lexer classifies
     if elif else endif for empty endfor reversed sorted as identifiers, in / not as keywords
     (gen/Tables.v token_keywords);
   - syntax_impl_ok: the names if / for are bound to tagIfParser / tagForParser
     (gen/Tables.v tag_impl);
   and the witnesses quoted in Props/C09s.v. *)
From PV Require Export Proofs.Syntax.
From PV Require Import Model.Api Spec.SpecLex Spec.SpecDash Spec.SpecFlow Spec.SpecSyntax gen.Tables.
From PV Require Import Tie.C16b Tie.C15e.
Open Scope N_scope.

Lemma tie_syntax_words : syntax_words_ok.
Proof.
  unfold syntax_words_ok.
  repeat (apply Forall_cons; [split; [split; reflexivity|reflexivity]|]).
  apply Forall_nil.
Qed.

Lemma tie_syntax_impl : syntax_impl_ok = true.
Proof. vm_compute. reflexivity. Qed.

(* in every world that does not ban them, if and for are registered (gen/Tables.v registered_tags) *)
Lemma tie_world_cfg : forall w : world,
  str_in w_if (w_banned_tags w) = false -> str_in w_for (w_banned_tags w) = false ->
  syntax_cfg_ok (se_cfg (world_senv w)) = true.
Proof.
  intros w H1 H2. unfold syntax_cfg_ok, world_senv. cbn [se_cfg cfg_tags cfg_banned_tags].
  rewrite H1, H2. unfold str_in. rewrite !existsb_app.
  assert (E1 : existsb (str_eqb w_if) registered_tags = true) by (vm_compute; reflexivity).
  assert (E2 : existsb (str_eqb w_for) registered_tags = true) by (vm_compute; reflexivity).
  rewrite E1, E2. reflexivity.
Qed.

Lemma tie_lex_syntax : forall d : list dnode,
  wf_doc d = true -> lex (print_doc d) = LexOk (toks_list d (1, 1)%Z).
Proof. exact (lex_syntax tie_dash_tables verb_prefix_check_ok tie_syntax_words). Qed.

Lemma tie_parse_syntax : forall (se : senv) (d : list dnode) (F : nat) (st : pst) (p : Z * Z),
  syntax_cfg_ok (se_cfg se) = true -> wf_doc d = true -> (doc_size d <= F)%nat ->
  parse_doc se F st (annotate None (toks_list d p)) = Ok (to_nodes (t_id (fst st)) d, st).
Proof. exact (parse_syntax tie_syntax_impl). Qed.

Lemma tie_syntax_stages : forall d : list dnode, wf_doc d = true ->
  exists toks : list token,
    lex (print_doc d) = LexOk toks /\
    forall (se : senv) (F : nat) (st : pst),
      syntax_cfg_ok (se_cfg se) = true -> (doc_size d <= F)%nat ->
      parse_doc se F st (annotate None toks) = Ok (to_nodes (t_id (fst st)) d, st).
Proof.
  intros d Hwf. exists (toks_list d (1, 1)%Z). split; [exact (tie_lex_syntax d Hwf)|].
  intros se F st Hcfg HF. exact (tie_parse_syntax se d F st (1, 1)%Z Hcfg Hwf HF).
Qed.

Lemma tie_compile_syntax : forall (se : senv) (d : list dnode) (F : nat) (name : str) (isstr : bool) (g : gstate),
  syntax_cfg_ok (se_cfg se) = true -> wf_doc d = true -> (doc_size d <= F)%nat ->
  compile_src se (S F) name isstr (print_doc d) g =
  Ok (Tpl (g_nid g) name isstr (to_nodes (g_nid g) d) [] [] None (se_trim se) (se_lstrip se),
      mkG (g_nid g + 1) (g_log g)).
Proof.
  intros se d F name isstr g Hcfg.
  exact (compile_syntax se tie_dash_tables verb_prefix_check_ok tie_syntax_words tie_syntax_impl Hcfg
           d F name isstr g).
Qed.

Lemma tie_render_syntax : forall (w : world) (d : list dnode) (ctx : list (str * cval)),
  str_in w_if (w_banned_tags w) = false -> str_in w_for (w_banned_tags w) = false ->
  wf_doc d = true -> N.of_nat (doc_size d) <= 59000 ->
  api_render_string w (print_doc d) ctx =
  run_template w (Tpl 1 string_name true (to_nodes 1 d) [] [] None (w_trim w) (w_lstrip w)) (mkG 2 []) ctx.
Proof.
  intros w d ctx H1 H2.
  exact (render_syntax tie_dash_tables verb_prefix_check_ok tie_syntax_words tie_syntax_impl w d ctx
           (tie_world_cfg w H1 H2)).
Qed.

Lemma tie_if_source_semantics :
  forall (se : senv) (globals : list (str * cval)) (c : cond) (b : list dnode)
         (elifs : list (cond * list dnode)) (els : option (list dnode))
         (F : nat) (name : str) (isstr : bool) (g : gstate),
  syntax_cfg_ok (se_cfg se) = true ->
  wf_doc [DIf c b elifs els] = true -> (doc_size [DIf c b elifs els] <= F)%nat ->
  exists n,
    compile_src se (S F) name isstr (print_doc [DIf c b elifs els]) g =
      Ok (Tpl (g_nid g) name isstr [n] [] [] None (se_trim se) (se_lstrip se), mkG (g_nid g + 1) (g_log g)) /\
    (forall st vs k body,
       prefix_evals se globals st (if_conds c elifs) vs ->
       first_true (map truth vs) = Some k ->
       nth_error (if_bodies b elifs els) k = Some body ->
       exists f0, forall f, (f0 <= f)%nat ->
         exec_node se globals (S (S k) + f) st n = exec_nodes se globals f st (body_nodes (g_nid g) body)) /\
    (forall st vs,
       Forall2 (evals_pure se globals st) (if_conds c elifs) vs ->
       first_true (map truth vs) = None ->
       exists f0, forall f, (f0 <= f)%nat ->
         exec_node se globals (S (length (if_conds c elifs)) + f) st n =
         match els with
         | Some e => exec_nodes se globals f st (body_nodes (g_nid g) e)
         | None => xok [] st
         end).
Proof.
  intros se globals c b elifs els F name isstr g Hcfg.
  exact (if_source_semantics se globals tie_dash_tables verb_prefix_check_ok tie_syntax_words tie_syntax_impl
           Hcfg c b elifs els F name isstr g).
Qed.

Lemma tie_cond_evals_pure :
  forall (se : senv) (globals : list (str * cval)) (st : mstate) (fr : frame) (c : cond) (v : value),
  top_frame st = Ok fr -> macro_free (f_priv fr) = true -> macro_free (f_pub fr) = true ->
  cond_value (f_priv fr) (f_pub fr) c = Ok v ->
  evals_pure se globals st (cond_expr c) v.
Proof. exact cond_evals_pure. Qed.

(* ---------- witnesses ---------- *)
Definition c09s_world : world := mkWorld [] false false [] [] [] [] [].

(* a\n{% if not x %}b{{ y }}{% for i in xs reversed sorted %}{{ i }} {% empty %}{% endfor %}
   {% elif z %}{% elif not endif %}c{% if q %}{% endif %}d{% else %}e{% endif %}
   {% for reversed in sorted sorted %}f{% endfor %}{{ v }}      (without the line breaks) *)
Definition c09s_doc : list dnode :=
  [ DText [97; 10];
    DIf (CNot [120])
        [DText [98]; DVar [121];
         DFor [105] [120; 115] true true [DVar [105]; DText [32]] (Some [])]
        [(CName [122], []);
         (CNot [101; 110; 100; 105; 102],
          [DText [99]; DIf (CName [113]) [] [] None; DText [100]])]
        (Some [DText [101]]);
    DFor [114; 101; 118; 101; 114; 115; 101; 100] [115; 111; 114; 116; 101; 100] false true
         [DText [102]] None;
    DVar [118] ].

Lemma tie_c09s_witness :
  wf_doc c09s_doc = true /\ doc_size c09s_doc = 53%nat /\
  syntax_cfg_ok (se_cfg (world_senv c09s_world)) = true /\
  print_doc c09s_doc =
    [97; 10; 123; 37; 32; 105; 102; 32; 110; 111; 116; 32; 120; 32; 37; 125; 98; 123; 123; 32; 121; 32; 125;
     125; 123; 37; 32; 102; 111; 114; 32; 105; 32; 105; 110; 32; 120; 115; 32; 114; 101; 118; 101; 114; 115;
     101; 100; 32; 115; 111; 114; 116; 101; 100; 32; 37; 125; 123; 123; 32; 105; 32; 125; 125; 32; 123; 37;
     32; 101; 109; 112; 116; 121; 32; 37; 125; 123; 37; 32; 101; 110; 100; 102; 111; 114; 32; 37; 125; 123;
     37; 32; 101; 108; 105; 102; 32; 122; 32; 37; 125; 123; 37; 32; 101; 108; 105; 102; 32; 110; 111; 116;
     32; 101; 110; 100; 105; 102; 32; 37; 125; 99; 123; 37; 32; 105; 102; 32; 113; 32; 37; 125; 123; 37; 32;
     101; 110; 100; 105; 102; 32; 37; 125; 100; 123; 37; 32; 101; 108; 115; 101; 32; 37; 125; 101; 123; 37;
     32; 101; 110; 100; 105; 102; 32; 37; 125; 123; 37; 32; 102; 111; 114; 32; 114; 101; 118; 101; 114; 115;
     101; 100; 32; 105; 110; 32; 115; 111; 114; 116; 101; 100; 32; 115; 111; 114; 116; 101; 100; 32; 37; 125;
     102; 123; 37; 32; 101; 110; 100; 102; 111; 114; 32; 37; 125; 123; 123; 32; 118; 32; 125; 125] /\
  to_nodes 1 c09s_doc =
    [ NHtml 1 [97; 10] false false false true;
      NIf [ESimple false true (var_expr [120]) None; var_expr [122];
           ESimple false true (var_expr [101; 110; 100; 105; 102]) None]
          [ [NHtml 1 [98] false false true false; NVar (var_expr [121]);
             NFor [105] [] (var_expr [120; 115]) true true
                  [NVar (var_expr [105]); NHtml 1 [32] false false false true] (Some [])];
            [];
            [NHtml 1 [99] false false true true; NIf [var_expr [113]] [[]];
             NHtml 1 [100] false false true true];
            [NHtml 1 [101] false false true true] ];
      NFor [114; 101; 118; 101; 114; 115; 101; 100] [] (var_expr [115; 111; 114; 116; 101; 100]) false true
           [NHtml 1 [102] false false true true] None;
      NVar (var_expr [118]) ] /\
  (* the model's compiler, run on the printed text with the fuel of the theorem *)
  compile_src (world_senv c09s_world) (S (doc_size c09s_doc)) string_name true (print_doc c09s_doc) g0 =
    Ok (Tpl 1 string_name true (to_nodes 1 c09s_doc) [] [] None false false, mkG 2 []).
Proof. vm_compute. repeat split; reflexivity. Qed.

(* an if whose third condition is the first true one, in the state an execution starts in:
   x = 0, y = "a";   {% if x %}A{% elif not y %}B{% elif y %}{{ x }}C{% else %}D{% endif %} *)
Definition c09s_ctx : list (str * cval) :=
  [([120], CV (as_value (VInt 0))); ([121], CV (as_value (VStr [97])))].
Definition c09s_if : dnode :=
  DIf (CName [120]) [DText [65]]
      [(CNot [121], [DText [66]]); (CName [121], [DVar [120]; DText [67]])]
      (Some [DText [68]]).
Definition c09s_state : mstate :=
  mkM [root_frame [] (Tpl 1 string_name true [] [] [] None false false) c09s_ctx 1] [] (mkG 2 []).
Definition c09s_vals : list value :=
  [as_value (VInt 0); as_value (VBool false); as_value (VStr [97])].

Lemma tie_c09s_if_witness :
  wf_doc [c09s_if] = true /\ doc_size [c09s_if] = 23%nat /\
  prefix_evals (world_senv c09s_world) [] c09s_state
               (if_conds (CName [120]) [(CNot [121], [DText [66]]); (CName [121], [DVar [120]; DText [67]])])
               c09s_vals /\
  first_true (map truth c09s_vals) = Some 2%nat /\
  nth_error (if_bodies [DText [65]] [(CNot [121], [DText [66]]); (CName [121], [DVar [120]; DText [67]])]
                       (Some [DText [68]])) 2 = Some [DVar [120]; DText [67]] /\
  api_render_string c09s_world (print_doc [c09s_if]) c09s_ctx = OOk [48; 67].
Proof.
  split; [vm_compute; reflexivity|]. split; [vm_compute; reflexivity|].
  split; [|split; [reflexivity|split; [reflexivity|vm_compute; reflexivity]]].
  unfold prefix_evals, c09s_vals, if_conds. cbn [length firstn map fst].
  assert (Hfr : top_frame c09s_state =
                Ok (root_frame [] (Tpl 1 string_name true [] [] [] None false false) c09s_ctx 1)) by reflexivity.
  repeat apply Forall2_cons; try apply Forall2_nil;
    (eapply (tie_cond_evals_pure _ _ _ _ _ _ Hfr); vm_compute; reflexivity).
Qed.


(* ---------- what the conditions of wf_doc exclude ---------- *)
(* the root the model's compiler builds from the printed text, or the kind of its failure *)
Definition c09s_compile (d : list dnode) : res (list node) :=
  match compile_src (world_senv c09s_world) 200 string_name true (print_doc d) g0 with
  | Ok (t, _) => Ok (tpl_root t)
  | Err k => Err k | Unmod => Unmod | Fuel => Fuel | Panic s => Panic s
  end.

Lemma tie_c09s_needed :
  (* two adjacent texts are one text *)
  wf_doc [DText [97]; DText [98]] = false /\
  c09s_compile [DText [97]; DText [98]] = Ok [NHtml 1 [97; 98] false false false false] /\
  to_nodes 1 [DText [97]; DText [98]] =
    [NHtml 1 [97] false false false false; NHtml 1 [98] false false false false] /\
  (* an empty text is no node *)
  wf_doc [DText []] = false /\ c09s_compile [DText []] = Ok [] /\
  (* "a{" before "{{ x }}" / before "{% if x %}": the text's brace opens the delimiter *)
  wf_doc [DText [97; 123]; DVar [120]] = false /\ c09s_compile [DText [97; 123]; DVar [120]] = Err 2 /\
  wf_doc [DText [97; 123]; DIf (CName [120]) [] [] None] = false /\
  c09s_compile [DText [97; 123]; DIf (CName [120]) [] [] None] = Err 2 /\
  (* a reserved word is no name:  {% if in %}   {% for x in not %} *)
  wf_doc [DIf (CName [105; 110]) [] [] None] = false /\
  c09s_compile [DIf (CName [105; 110]) [] [] None] = Err 2 /\
  wf_doc [DFor [120] [110; 111; 116] false false [] None] = false /\
  c09s_compile [DFor [120] [110; 111; 116] false false [] None] = Err 2.
Proof. vm_compute. repeat split; reflexivity. Qed.

Print Assumptions tie_lex_syntax.
Print Assumptions tie_parse_syntax.
Print Assumptions tie_syntax_stages.
Print Assumptions tie_compile_syntax.
Print Assumptions tie_render_syntax.
Print Assumptions tie_if_source_semantics.
Print Assumptions tie_cond_evals_pure.
Print Assumptions tie_c09s_witness.
Print Assumptions tie_c09s_if_witness.
Print Assumptions tie_c09s_needed.
