(* Tie for C06 (rendering half): the lemmas of Proofs/Render.v with their side conditions on
   the generated tables discharged by computation, and end-to-end witnesses. *)
From PV Require Export Proofs.Render.
From PV Require Import Model.Api Spec.SpecLex Spec.SpecRender gen.Tables.
From PV Require Import Tie.C16b.
Open Scope N_scope.

Lemma tie_render_text_identity : forall (w : world) (s : str) (ctx : list (str * cval)),
  delim_free s = true ->
  keys_ok (ctx_update (w_globals w) ctx) = true ->
  api_render_string w s ctx = OOk s.
Proof. exact render_text_identity. Qed.

Lemma tie_keys_ok_merged : forall (globals ctx : list (str * cval)),
  keys_ok globals = true -> keys_ok ctx = true -> keys_ok (ctx_update globals ctx) = true.
Proof. intros g c Hg Hc. exact (keys_ok_ctx_update c g Hg Hc). Qed.

Lemma tie_render_literal_frags : forall (w : world) (l : list frag) (ctx : list (str * cval)),
  frags_ok l -> forallb frag_literal l = true ->
  N.of_nat (length l) <= 59000 ->
  keys_ok (ctx_update (w_globals w) ctx) = true ->
  api_render_string w (frags_src l) ctx = OOk (frags_text l).
Proof. exact (render_literal_frags verb_prefix_check_ok). Qed.

(* the generated templatetag table is the documented one *)
Lemma tie_templatetag_table : templatetag_map = templatetag_spec.
Proof. vm_compute. reflexivity. Qed.

Lemma tie_templatetag_parse : forall se f level t st ts out,
  is_typ t TIdentifier = true ->
  assoc_get (tval t) templatetag_spec = Some out ->
  tag_parser se (S f) level
    [116; 97; 103; 84; 101; 109; 112; 108; 97; 116; 101; 84; 97; 103; 80; 97; 114; 115; 101; 114]
    [t] st ts = Ok (NTemplatetag out, ts, st).
Proof. rewrite <- tie_templatetag_table. exact templatetag_parse. Qed.

Lemma tie_templatetag_parse_unknown : forall se f level t rest st ts,
  assoc_get (tval t) templatetag_spec = None ->
  tag_parser se (S f) level
    [116; 97; 103; 84; 101; 109; 112; 108; 97; 116; 101; 84; 97; 103; 80; 97; 114; 115; 101; 114]
    (t :: rest) st ts = Err 2.
Proof. rewrite <- tie_templatetag_table. exact templatetag_parse_unknown. Qed.

(* "templatetag" and "comment" dispatch to the parsers the two lemmas above are about *)
Lemma tie_tag_dispatch :
  assoc_get [116; 101; 109; 112; 108; 97; 116; 101; 116; 97; 103] (* templatetag *) tag_impl =
    Some [116; 97; 103; 84; 101; 109; 112; 108; 97; 116; 101; 84; 97; 103; 80; 97; 114; 115; 101; 114] /\
  assoc_get [99; 111; 109; 109; 101; 110; 116] (* comment *) tag_impl =
    Some [116; 97; 103; 67; 111; 109; 109; 101; 110; 116; 80; 97; 114; 115; 101; 114].
Proof. vm_compute. split; reflexivity. Qed.

(* ---------- witnesses ---------- *)
Definition c06_world : world :=
  mkWorld [] true true [] [] [] []
          [([103] (* g *), CV (as_value (VInt 1)))].
Definition c06_ctx : list (str * cval) := [([120; 95; 49] (* x_1 *), CV (as_value (VStr [104; 105])))].
(* "a { b {\n}} %} \xff" - braces that open nothing, an invalid UTF-8 byte *)
Definition c06_text : str := [97; 32; 123; 32; 98; 32; 123; 10; 125; 125; 32; 37; 125; 32; 255].

Lemma tie_c06r_witness :
  delim_free c06_text = true /\ keys_ok (ctx_update (w_globals c06_world) c06_ctx) = true /\
  delim_free [] = true.
Proof. vm_compute. repeat split; reflexivity. Qed.

(* text, a comment, a verbatim block holding delimiters, text *)
Definition c06_frags : list frag :=
  [FText [97]; FComment [32; 99; 32]; FVerbatim [123; 123; 121; 125; 125]; FText [10]].

Lemma c06_frags_ok : frags_ok c06_frags.
Proof.
  unfold c06_frags. cbn [frags_ok frag_ok].
  split; [split; [discriminate|reflexivity]|]. split; [|exact I].
  split; [split; reflexivity|]. split; [|exact I].
  split; [reflexivity|]. split; [|exact I].
  split; [split; [discriminate|reflexivity]|]. split; exact I.
Qed.

Lemma tie_c06r_frags_witness :
  frags_ok c06_frags /\ forallb frag_literal c06_frags = true /\
  frags_text c06_frags = [97; 123; 123; 121; 125; 125; 10] /\
  api_render_string c06_world (frags_src c06_frags) c06_ctx = OOk [97; 123; 123; 121; 125; 125; 10].
Proof.
  split; [exact c06_frags_ok|]. split; [reflexivity|]. split; [reflexivity|].
  apply (tie_render_literal_frags c06_world c06_frags c06_ctx c06_frags_ok); vm_compute; congruence.
Qed.

(* end to end: {% templatetag openblock %} renders to {% ; a{% comment %}b{% endcomment %}c to ac *)
Lemma tie_c06r_tags_witness :
  api_render_string c06_world
    [123; 37; 32; 116; 101; 109; 112; 108; 97; 116; 101; 116; 97; 103; 32; 111; 112; 101; 110; 98; 108; 111; 99; 107; 32; 37; 125]
    c06_ctx = OOk [123; 37] /\
  api_render_string c06_world
    [97; 123; 37; 32; 99; 111; 109; 109; 101; 110; 116; 32; 37; 125; 98; 123; 37; 32; 101; 110; 100; 99; 111; 109; 109; 101; 110; 116; 32; 37; 125; 99]
    c06_ctx = OOk [97; 99].
Proof. vm_compute. split; reflexivity. Qed.

Print Assumptions tie_render_text_identity.
Print Assumptions tie_render_literal_frags.
Print Assumptions tie_templatetag_parse.
Print Assumptions tie_c06r_frags_witness.
