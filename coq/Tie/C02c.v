(* Tie for property C02 at the level of the source text (Props/C02c.v): the lemmas of
   Proofs/Taint3.v with the two facts they assume about generated tables (gen/Tables.v) - in
   tag_impl the five parsers the scan cares about are registered under the five names it looks
   for, and the texts of templatetag_map need no escaping - both by computation; and their
   composition with the execution half (Tie/C02b.v).  Part II (templates with markup) needs
   only the first. *)
From PV Require Import Lib.Bytes Model.Value Model.Doc Model.ParseDoc Model.Exec Model.Api
  Spec.SpecEsc Spec.SpecTaint Spec.SpecTaint2 Spec.SpecTaint3.
From PV Require Import gen.Tables Tie.C02b.
From PV Require Export Proofs.Taint3.
Open Scope N_scope.

(* ---------- the generated tables ---------- *)
Lemma tie_tag_names_ok : tag_names_ok tag_impl = true.
Proof. vm_compute. reflexivity. Qed.

Lemma tie_templatetags_inert : templatetags_inert templatetag_map = true.
Proof. vm_compute. reflexivity. Qed.

(* ---------- from the source to [ok_template] ---------- *)
Lemma tie_compile_src_ok_template : forall lz se f name isstr src g t g',
  no_optout_set lz se = true -> no_optout_source lz src = true ->
  compile_src se f name isstr src g = Ok (t, g') -> ok_template lz t = true.
Proof. exact (compile_src_ok_template tie_tag_names_ok tie_templatetags_inert). Qed.

Lemma tie_compile_file_ok_template : forall lz se f name g t g',
  no_optout_set lz se = true ->
  compile_file se f name g = Ok (t, g') ->
  ok_template lz t = true /\ forallb (fun m => ok_macro lz (snd m)) (tpl_exported t) = true.
Proof. exact (compile_file_ok_template tie_tag_names_ok tie_templatetags_inert). Qed.

Lemma tie_lazy_ok_of_set : forall lz se, no_optout_set lz se = true -> lazy_ok lz se.
Proof. exact (lazy_ok_of_set tie_tag_names_ok tie_templatetags_inert). Qed.

Lemma tie_parse_doc_ok_nodes : forall lz se f tst g toks ns st',
  no_optout_set lz se = true -> no_optout_tokens lz toks = true ->
  t_blocks tst = [] -> t_exported tst = [] -> t_parent tst = None ->
  parse_doc se f (tst, g) (annotate None toks) = Ok (ns, st') -> ok_nodes lz ns = true.
Proof. exact (parse_doc_ok_nodes tie_tag_names_ok tie_templatetags_inert). Qed.

Lemma tie_no_optout_mono : forall se src,
  (no_optout_source false src = true -> no_optout_source true src = true) /\
  (no_optout_set false se = true -> no_optout_set true se = true).
Proof. intros se src. split; [apply no_optout_source_mono|apply no_optout_set_mono]. Qed.

(* ---------- the whole pipeline ---------- *)
(* compile (any fuel), then the harness entry point run_template *)
Lemma tie_source_level_run_src : forall lz w f name isstr src gc ctx o,
  no_optout_world lz w = true -> no_optout_source lz src = true ->
  ctx_ok lz (w_globals w) = true -> unmarked_ctx ctx = true ->
  match compile_src (world_senv w) f name isstr src gc with
  | Ok (t, g) => run_template w t g ctx
  | other => obs_of_compile other
  end = OOk o -> html_clean o = true.
Proof.
  intros lz w f name isstr src gc ctx o Hw Hs Hg Hc H.
  destruct (compile_src (world_senv w) f name isstr src gc) as [[t g]| | | |] eqn:E; try discriminate H.
  exact (tie_run_template_clean lz w t g ctx o
           (tie_compile_src_ok_template _ _ _ _ _ _ _ _ _ Hw Hs E) Hg (tie_lazy_ok_of_set _ _ Hw) Hc H).
Qed.

Lemma tie_source_level_run_file : forall lz w f name gc ctx o,
  no_optout_world lz w = true ->
  ctx_ok lz (w_globals w) = true -> unmarked_ctx ctx = true ->
  match compile_file (world_senv w) f name gc with
  | Ok (t, g) => run_template w t g ctx
  | other => obs_of_compile other
  end = OOk o -> html_clean o = true.
Proof.
  intros lz w f name gc ctx o Hw Hg Hc H.
  destruct (compile_file (world_senv w) f name gc) as [[t g]| | | |] eqn:E; try discriminate H.
  exact (tie_run_template_clean lz w t g ctx o
           (proj1 (tie_compile_file_ok_template _ _ _ _ _ _ _ Hw E)) Hg (tie_lazy_ok_of_set _ _ Hw) Hc H).
Qed.

(* the two entry points, one definition unfolded (the fuel constant stays folded) *)
Lemma api_render_string_eq : forall w src ctx, api_render_string w src ctx =
  match compile_src (world_senv w) big_fuel [60; 115; 116; 114; 105; 110; 103; 62] true src g0 with
  | Ok (t, g) => run_template w t g ctx
  | other => obs_of_compile other
  end.
Proof. reflexivity. Qed.
Lemma api_render_file_eq : forall w name ctx, api_render_file w name ctx =
  match compile_file (world_senv w) big_fuel name g0 with
  | Ok (t, g) => run_template w t g ctx
  | other => obs_of_compile other
  end.
Proof. reflexivity. Qed.

(* set.FromString(src) then Execute(ctx) *)
Lemma tie_source_level_string : forall lz w src ctx o,
  no_optout_world lz w = true -> no_optout_source lz src = true ->
  ctx_ok lz (w_globals w) = true -> unmarked_ctx ctx = true ->
  api_render_string w src ctx = OOk o -> html_clean o = true.
Proof.
  intros lz w src ctx o Hw Hs Hg Hc H. rewrite api_render_string_eq in H.
  exact (tie_source_level_run_src lz w big_fuel [60; 115; 116; 114; 105; 110; 103; 62] true src g0 ctx o Hw Hs Hg Hc H).
Qed.

(* set.FromFile(name) then Execute(ctx) *)
Lemma tie_source_level_file : forall lz w name ctx o,
  no_optout_world lz w = true ->
  ctx_ok lz (w_globals w) = true -> unmarked_ctx ctx = true ->
  api_render_file w name ctx = OOk o -> html_clean o = true.
Proof.
  intros lz w name ctx o Hw Hg Hc H. rewrite api_render_file_eq in H.
  exact (tie_source_level_run_file lz w big_fuel name g0 ctx o Hw Hg Hc H).
Qed.

(* any fuel, any compile-wide state, buffered or not: compile, then execute *)
Lemma tie_source_level_execute : forall lz se globals fc fe name isstr src gc t gc' nd g ctx o st',
  no_optout_set lz se = true -> no_optout_source lz src = true ->
  ctx_ok lz globals = true -> unmarked_ctx ctx = true ->
  compile_src se fc name isstr src gc = Ok (t, gc') ->
  exec_template se globals fe (mkM [] nd g) t ctx = (o, Ok st') -> html_clean o = true.
Proof.
  intros lz se globals fc fe name isstr src gc t gc' nd g ctx o st' Hw Hs Hg Hc E H.
  exact (tie_no_raw_context_text lz se globals fe nd g t ctx o st'
           (tie_compile_src_ok_template _ _ _ _ _ _ _ _ _ Hw Hs E) Hg (tie_lazy_ok_of_set _ _ Hw) Hc H).
Qed.

(* ================= Part II: templates whose own text contains markup ================= *)
Lemma tie_compile_src_ok_template_m : forall lit lz se f name isstr src g t g',
  templatetags_in lit = true ->
  no_optout_set_m lit lz se = true -> no_optout_source_m lit lz src = true ->
  compile_src se f name isstr src g = Ok (t, g') -> ok_template_m lit lz t = true.
Proof. intros lit lz se f name isstr src g t g' Hl. exact (compile_src_ok_template_m tie_tag_names_ok lit Hl lz se f name isstr src g t g'). Qed.

Lemma tie_compile_file_ok_template_m : forall lit lz se f name g t g',
  templatetags_in lit = true ->
  no_optout_set_m lit lz se = true ->
  compile_file se f name g = Ok (t, g') ->
  ok_template_m lit lz t = true /\ forallb (fun m => ok_macro_m lit lz (snd m)) (tpl_exported t) = true.
Proof. intros lit lz se f name g t g' Hl. exact (compile_file_ok_template_m tie_tag_names_ok lit Hl lz se f name g t g'). Qed.

Lemma tie_lazy_m_of_set : forall lit lz se,
  templatetags_in lit = true -> no_optout_set_m lit lz se = true -> lazy_m lit lz se.
Proof. intros lit lz se Hl. exact (lazy_m_of_set tie_tag_names_ok lit Hl lz se). Qed.

Lemma tie_source_level_markup_run_src : forall lit lz w f name isstr src gc ctx o,
  templatetags_in lit = true ->
  no_optout_world_m lit lz w = true -> no_optout_source_m lit lz src = true ->
  ctx_m lit lz (w_globals w) -> unmarked_ctx ctx = true ->
  match compile_src (world_senv w) f name isstr src gc with
  | Ok (t, g) => run_template w t g ctx
  | other => obs_of_compile other
  end = OOk o -> pieces lit o.
Proof.
  intros lit lz w f name isstr src gc ctx o Hl Hw Hs Hg Hc H.
  destruct (compile_src (world_senv w) f name isstr src gc) as [[t g]| | | |] eqn:E; try discriminate H.
  exact (tie_run_template_pieces lit lz w t g ctx o
           (tie_compile_src_ok_template_m _ _ _ _ _ _ _ _ _ _ Hl Hw Hs E) Hg (tie_lazy_m_of_set _ _ _ Hl Hw) Hc H).
Qed.

Lemma tie_source_level_markup_run_file : forall lit lz w f name gc ctx o,
  templatetags_in lit = true ->
  no_optout_world_m lit lz w = true ->
  ctx_m lit lz (w_globals w) -> unmarked_ctx ctx = true ->
  match compile_file (world_senv w) f name gc with
  | Ok (t, g) => run_template w t g ctx
  | other => obs_of_compile other
  end = OOk o -> pieces lit o.
Proof.
  intros lit lz w f name gc ctx o Hl Hw Hg Hc H.
  destruct (compile_file (world_senv w) f name gc) as [[t g]| | | |] eqn:E; try discriminate H.
  exact (tie_run_template_pieces lit lz w t g ctx o
           (proj1 (tie_compile_file_ok_template_m _ _ _ _ _ _ _ _ Hl Hw E)) Hg (tie_lazy_m_of_set _ _ _ Hl Hw) Hc H).
Qed.

Lemma tie_source_level_markup_string : forall lit lz w src ctx o,
  templatetags_in lit = true ->
  no_optout_world_m lit lz w = true -> no_optout_source_m lit lz src = true ->
  ctx_m lit lz (w_globals w) -> unmarked_ctx ctx = true ->
  api_render_string w src ctx = OOk o -> pieces lit o.
Proof.
  intros lit lz w src ctx o Hl Hw Hs Hg Hc H. rewrite api_render_string_eq in H.
  exact (tie_source_level_markup_run_src lit lz w big_fuel [60; 115; 116; 114; 105; 110; 103; 62] true src g0 ctx o Hl Hw Hs Hg Hc H).
Qed.

Lemma tie_source_level_markup_file : forall lit lz w name ctx o,
  templatetags_in lit = true ->
  no_optout_world_m lit lz w = true ->
  ctx_m lit lz (w_globals w) -> unmarked_ctx ctx = true ->
  api_render_file w name ctx = OOk o -> pieces lit o.
Proof.
  intros lit lz w name ctx o Hl Hw Hg Hc H. rewrite api_render_file_eq in H.
  exact (tie_source_level_markup_run_file lit lz w big_fuel name g0 ctx o Hl Hw Hg Hc H).
Qed.

(* with the sources' own text tokens as [lit], the scan need not look at literal text *)
Lemma tie_lit_of_templatetags : forall srcs, templatetags_in (lit_of srcs) = true.
Proof. exact lit_of_templatetags. Qed.

Lemma tie_source_level_own_text : forall lz w src ctx o,
  no_optout_world_t lz w = true -> no_optout_source_t lz src = true ->
  ctx_m (lit_of (src :: world_sources w)) lz (w_globals w) -> unmarked_ctx ctx = true ->
  api_render_string w src ctx = OOk o -> pieces (lit_of (src :: world_sources w)) o.
Proof.
  intros lz w src ctx o Hw Hs Hg Hc H. destruct (own_text_scans lz w src Hw Hs) as [Hw' Hs'].
  exact (tie_source_level_markup_string _ lz w src ctx o (tie_lit_of_templatetags _) Hw' Hs' Hg Hc H).
Qed.

Lemma tie_source_level_own_text_file : forall lz w name ctx o,
  no_optout_world_t lz w = true ->
  ctx_m (lit_of (world_sources w)) lz (w_globals w) -> unmarked_ctx ctx = true ->
  api_render_file w name ctx = OOk o -> pieces (lit_of (world_sources w)) o.
Proof.
  intros lz w name ctx o Hw Hg Hc H.
  refine (tie_source_level_markup_file _ lz w name ctx o (tie_lit_of_templatetags _) _ Hg Hc H).
  apply scan_set_lit_of; [|exact Hw]. intros kv Hin. unfold world_sources. apply in_map. exact Hin.
Qed.

Lemma tie_markup_no_optout_mono : forall lit se src,
  (no_optout_source_m lit false src = true -> no_optout_source_m lit true src = true) /\
  (no_optout_set_m lit false se = true -> no_optout_set_m lit true se = true).
Proof. intros lit se src. split; [apply scan_source_mono|apply scan_set_mono]. Qed.

(* ---------- witnesses ---------- *)
(* the witnesses' world: every file is without opt-out tokens *)
Lemma tie_s3_world_ok : no_optout_world false s3_world = true /\ no_optout_world true s3_world = true.
Proof. vm_compute. split; reflexivity. Qed.

(* Part II: the world and the child of Spec/SpecTaint2.v (a base with html / body / i elements, a
   child whose macro wraps its argument in a b element with a quoted attribute): scanned without
   looking at literal text *)
Lemma tie_e2m_scans : no_optout_world_t false e2m_world = true /\ no_optout_source_t false e2m_child = true.
Proof. vm_compute. split; reflexivity. Qed.

(* no text token of those sources (and no templatetag text) contains a single quote *)
Lemma tie_e2m_own_text_no_quote : forall val,
  lit_of (e2m_child :: world_sources e2m_world) val = true -> ~ In 39 val.
Proof.
  intros val H. unfold lit_of in H. apply str_in_true_In in H. rename H into Hin.
  assert (Hall : forallb (fun v => negb (mem_byte 39 v))
                   (flat_map text_tokens (e2m_child :: world_sources e2m_world) ++ templatetag_texts) = true)
    by (vm_compute; reflexivity).
  pose proof (proj1 (forallb_forall _ _) Hall val Hin) as Hv. cbv beta in Hv.
  apply negb_true_iff in Hv. intro Hq. unfold mem_byte in Hv.
  assert (Ht : existsb (N.eqb 39) val = true) by (apply existsb_exists; exists 39; split; [exact Hq|reflexivity]).
  rewrite Ht in Hv. discriminate Hv.
Qed.

(* so, whatever the (unmarked) context holds, rendering the child never writes a single quote *)
Lemma tie_e2m_source_never_writes_quote : forall ctx o,
  unmarked_ctx ctx = true -> api_render_string e2m_world e2m_child ctx = OOk o -> ~ In 39 o.
Proof.
  intros ctx o Hc H. destruct tie_e2m_scans as [Hw Hs].
  apply (tie_pieces_no_foreign_byte (lit_of (e2m_child :: world_sources e2m_world)) 39 o eq_refl
           tie_e2m_own_text_no_quote).
  exact (tie_source_level_own_text false e2m_world e2m_child ctx o Hw Hs
           (proj1 (tie_markup_hypotheses_simple _ false (world_senv e2m_world) ctx)) Hc H).
Qed.
