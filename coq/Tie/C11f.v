(* Tie for property C11, whole compilation (Props/C11f.v): the lemmas of Proofs/Fetch.v with their
   side condition on the generated tag table (gen/Tables.v tag_impl) discharged by computation,
   and the facts about the concrete example world of Spec/SpecFetch.v. *)
From PV Require Export Proofs.Fetch.
From PV Require Import Model.ParseDoc Spec.SpecLoaders Spec.SpecFetch gen.Tables.
Open Scope N_scope.

(* in the generated table the four fetching parsers are registered under include / extends /
   import / ssi and under no other name *)
Lemma tie_fetch_tags_ok : fetch_tags_ok tag_impl = true.
Proof. vm_compute; reflexivity. Qed.

Definition tie_compile_fetches_only_referenced := compile_fetches_only_referenced tie_fetch_tags_ok.
Definition tie_compile_src_fetches_only_referenced := compile_src_fetches_only_referenced tie_fetch_tags_ok.
Definition tie_compile_fetches_within_closed_set := compile_fetches_within_closed_set tie_fetch_tags_ok.
Definition tie_compile_leaf_fetches_itself := compile_leaf_fetches_itself tie_fetch_tags_ok.

(* ---- the example world ---- *)
Lemma fx_reach_exact : forall p, reach fx_se fx_main p <-> In p fx_reachable.
Proof.
  intros p. split.
  - intros H. induction H as [|q src n Hq IH Hs Hn].
    + left. reflexivity.
    + destruct IH as [<-|[<-|[<-|[<-|[<-|[]]]]]]; vm_compute in Hs;
        try discriminate Hs; injection Hs as <-; vm_compute in Hn;
        repeat match goal with H : _ \/ _ |- _ => destruct H as [H|H] end;
        try contradiction; subst n; vm_compute; tauto.
  - intros H. apply (reach_upto_sound fx_se fx_main 2).
    destruct H as [<-|[<-|[<-|[<-|[<-|[]]]]]]; vm_compute; tauto.
Qed.

Lemma fx_unused_not_reached : ~ reach fx_se fx_main fx_unused.
Proof.
  intros H. apply fx_reach_exact in H. unfold fx_reachable in H. cbn [In] in H.
  repeat match goal with H : _ \/ _ |- _ => destruct H as [H|H] end; try discriminate H. exact H.
Qed.
