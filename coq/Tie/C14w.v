(* Tie for C14 (wrappers): the Go entry-point wrappers of template.go, as translated into
   gen/Wrappers.v on this run, mean what Spec/SpecWriter.v specifies.  Every proof is the same
   script (Proofs/Wrappers.v, wrapper_crunch): evaluate the interpretation of the regenerated term,
   split on the outcome of the model's primitives and of the caller's writer, compare.  A change
   of the Go source that changes what a wrapper does makes the script fail here; a change outside
   the translated fragment is a GSUnknown/GEUnknown node (and a translator PROBLEM). *)
From PV Require Export Proofs.Wrappers.
From PV Require Import Model.Api Spec.SpecWriter Lib.GoStmt Spec.SpecWrappers gen.Wrappers gen.Tables.
From PV Require Import Tie.C14.
From Coq Require Import String Lia.
Open Scope string_scope.

(* templateWriter.Write / WriteString: the caller's writer is written, its error handed back *)
Lemma tie_templateWriter_Write : forall via d, (2 <= d)%nat -> forall se globals (s : str) w fuel st,
  as_write_result (go_call go_wrappers via se globals d tw_value "Write" [GVBytes s] (world0 w fuel st))
  = Some (w_write w s).
Proof.
  intros via d Hd se globals s w fuel st.
  do 2 (destruct d as [|d]; [exfalso; lia|]); clear Hd. wrapper_crunch.
Qed.

Lemma tie_templateWriter_WriteString : forall via d, (2 <= d)%nat -> forall se globals (s : str) w fuel st,
  as_write_result (go_call go_wrappers via se globals d tw_value "WriteString" [GVBytes s] (world0 w fuel st))
  = Some (w_write w s).
Proof.
  intros via d Hd se globals s w fuel st.
  do 2 (destruct d as [|d]; [exfalso; lia|]); clear Hd. wrapper_crunch.
Qed.

(* Template.execute into the caller's writer (wrapped) and into a private buffer *)
Lemma tie_execute_writer : forall via, In via stream_methods -> forall d, (6 <= d)%nat ->
  forall se globals fuel st t ctx w,
  as_writer_result (go_call go_wrappers via se globals d (GVTemplate t) "execute" [GVContext ctx; tw_value]
                         (world0 w fuel st))
  = Some (execute_writer_unbuffered se globals fuel st t ctx w).
Proof.
  intros via Hvia d Hd se globals fuel st t ctx w.
  rewrite execute_writer_unbuffered_prim.
  peel_depth d Hd. each_method Hvia; wrapper_crunch.
Qed.

Lemma tie_execute_buffer : forall via, In via stream_methods -> forall d, (6 <= d)%nat ->
  forall se globals fuel st t ctx w (b0 : str),
  as_buffer0_result (go_call go_wrappers via se globals d (GVTemplate t) "execute" [GVContext ctx; GVBuffer 0]
                          (mkGW w [b0] fuel st))
  = (let '(o, r) := exec_template_unbuffered se globals fuel st t ctx in Some ((b0 ++ o)%list, failure_of r)).
Proof.
  intros via Hvia d Hd se globals fuel st t ctx w b0.
  rewrite exec_unbuffered_buffer_prim.
  peel_depth d Hd. each_method Hvia; wrapper_crunch.
Qed.

Lemma tie_newTemplateWriterAndExecute : forall via, In via stream_methods -> forall d, (6 <= d)%nat ->
  forall se globals fuel st t ctx w,
  as_writer_result (go_call go_wrappers via se globals d (GVTemplate t) "newTemplateWriterAndExecute"
                         [GVContext ctx; GVWriter] (world0 w fuel st))
  = Some (execute_writer_unbuffered se globals fuel st t ctx w).
Proof.
  intros via Hvia d Hd se globals fuel st t ctx w.
  rewrite execute_writer_unbuffered_prim.
  peel_depth d Hd. each_method Hvia; wrapper_crunch.
Qed.

(* newBufferAndExecute: the buffer on success, nil and the error otherwise *)
Lemma tie_newBufferAndExecute : forall via, In via stream_methods -> forall d, (6 <= d)%nat ->
  forall se globals fuel st t ctx w,
  as_buffer_result (go_call go_wrappers via se globals d (GVTemplate t) "newBufferAndExecute" [GVContext ctx]
                         (world0 w fuel st))
  = Some (buffer_and_execute se globals fuel st t ctx).
Proof.
  intros via Hvia d Hd se globals fuel st t ctx w.
  rewrite buffer_and_execute_prim. unfold prim_run.
  peel_depth d Hd. each_method Hvia; wrapper_crunch.
Qed.

(* the four exported entry points *)
Lemma tie_ExecuteWriter : forall via, In via stream_methods -> forall d, (6 <= d)%nat ->
  forall se globals fuel st t ctx w,
  as_writer_result (go_call go_wrappers via se globals d (GVTemplate t) "ExecuteWriter" [GVContext ctx; GVWriter]
                         (world0 w fuel st))
  = Some (execute_writer se globals fuel st t ctx w).
Proof.
  intros via Hvia d Hd se globals fuel st t ctx w.
  rewrite execute_writer_prim. unfold prim_run.
  peel_depth d Hd. each_method Hvia; wrapper_crunch.
Qed.

Lemma tie_ExecuteWriterUnbuffered : forall via, In via stream_methods -> forall d, (6 <= d)%nat ->
  forall se globals fuel st t ctx w,
  as_writer_result (go_call go_wrappers via se globals d (GVTemplate t) "ExecuteWriterUnbuffered"
                         [GVContext ctx; GVWriter] (world0 w fuel st))
  = Some (execute_writer_unbuffered se globals fuel st t ctx w).
Proof.
  intros via Hvia d Hd se globals fuel st t ctx w.
  rewrite execute_writer_unbuffered_prim.
  peel_depth d Hd. each_method Hvia; wrapper_crunch.
Qed.

Lemma tie_Execute : forall via, In via stream_methods -> forall d, (6 <= d)%nat ->
  forall se globals fuel st t ctx w,
  as_value_result (GVBytes []) (go_call go_wrappers via se globals d (GVTemplate t) "Execute" [GVContext ctx]
                                     (world0 w fuel st))
  = Some (execute se globals fuel st t ctx).
Proof.
  intros via Hvia d Hd se globals fuel st t ctx w.
  unfold execute. rewrite buffer_and_execute_prim. unfold prim_run.
  peel_depth d Hd. each_method Hvia; wrapper_crunch.
Qed.

Lemma tie_ExecuteBytes : forall via, In via stream_methods -> forall d, (6 <= d)%nat ->
  forall se globals fuel st t ctx w,
  as_value_result GVNil (go_call go_wrappers via se globals d (GVTemplate t) "ExecuteBytes" [GVContext ctx]
                              (world0 w fuel st))
  = Some (execute_bytes se globals fuel st t ctx).
Proof.
  intros via Hvia d Hd se globals fuel st t ctx w.
  unfold execute_bytes. rewrite buffer_and_execute_prim. unfold prim_run.
  peel_depth d Hd. each_method Hvia; wrapper_crunch.
Qed.

(* The caller's writer is not touched by the entry points that are not given one. *)
Lemma tie_Execute_no_write : forall via, In via stream_methods -> forall d, (6 <= d)%nat ->
  forall se globals fuel st t ctx w m, In m ["Execute"; "ExecuteBytes"; "newBufferAndExecute"] ->
  match go_call go_wrappers via se globals d (GVTemplate t) m [GVContext ctx] (world0 w fuel st) with
  | GOk (_, w') => gw_out w' = w
  | _ => False
  end.
Proof.
  intros via Hvia d Hd se globals fuel st t ctx w m Hm.
  peel_depth d Hd. simpl In in Hm.
  destruct Hm as [Hm|[Hm|[Hm|[]]]]; subst m; each_method Hvia; wrapper_crunch.
Qed.

(* a node that is not understood blocks the interpretation: nothing like the lemmas above can be
   proved about a function that reaches one *)
Definition c14w_unknown_demo : gfunc :=
  mkGF (Some ("tpl", "Template")) "ExecuteWriter" ["context"; "writer"] 1
       [ GSUnknown "defer tpl.unlock()"; GSReturn [GENil] ].
Lemma tie_unknown_blocks : forall via se globals d t ctx gw,
  as_writer_result (go_call [c14w_unknown_demo] via se globals (S d) (GVTemplate t) "ExecuteWriter"
                         [GVContext ctx; GVWriter] gw) = None.
Proof. intros. reflexivity. Qed.

(* witness: the C14 witness templates through the translated wrappers.  "ab{{ 1/0 }}cd":
   ExecuteWriter fails and leaves the writer (holding ">") alone, ExecuteWriterUnbuffered has
   written "ab"; "ab{{ 1 }}cd" into a writer that takes 4 bytes: ">ab1" and the writer's error. *)
Lemma tie_c14w_witness :
  exists t g t' g',
    compile_src c14_senv 100 c14_name true c14_src g0 = Ok (t, g) /\
    compile_src c14_senv 100 c14_name true c14_src_ok g0 = Ok (t', g') /\
    as_writer_result (go_call go_wrappers "WriteString" c14_senv [] 6 (GVTemplate t) "ExecuteWriter"
                           [GVContext []; GVWriter] (world0 (c14_w None) 100 (mkM [] [] g)))
      = Some (c14_w None, WExecFail (FErr 3)) /\
    as_writer_result (go_call go_wrappers "WriteString" c14_senv [] 6 (GVTemplate t) "ExecuteWriterUnbuffered"
                           [GVContext []; GVWriter] (world0 (c14_w None) 100 (mkM [] [] g)))
      = Some (mkW [62; 97; 98]%N None, WExecFail (FErr 3)) /\
    as_value_result (GVBytes []) (go_call go_wrappers "Write" c14_senv [] 6 (GVTemplate t') "Execute"
                           [GVContext []] (world0 (c14_w None) 100 (mkM [] [] g')))
      = Some (inl [97; 98; 49; 99; 100]%N) /\
    as_writer_result (go_call go_wrappers "Write" c14_senv [] 6 (GVTemplate t') "ExecuteWriter"
                           [GVContext []; GVWriter] (world0 (c14_w (Some 4%nat)) 100 (mkM [] [] g')))
      = Some (mkW [62; 97; 98; 49]%N (Some 4%nat), WWriteErr).
Proof.
  do 4 eexists.
  split; [vm_compute; reflexivity|]. split; [vm_compute; reflexivity|].
  vm_compute. repeat split; reflexivity.
Qed.

Print Assumptions tie_ExecuteWriter.
Print Assumptions tie_ExecuteWriterUnbuffered.
Print Assumptions tie_Execute.
Print Assumptions tie_ExecuteBytes.
Print Assumptions tie_newBufferAndExecute.
Print Assumptions tie_c14w_witness.
