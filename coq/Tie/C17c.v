(* Property C17, striptags / removetags: the final lemmas under the names Props/C17.v
   expects.  No generated table is involved, so there is no side condition to discharge;
   [deletes_between] (used in the second statement) is exported from Proofs/EscC.v. *)
From PV Require Import Lib.Bytes Lib.Utf8 Lib.GoInt gen.Tables Model.EscFilters Spec.SpecEsc.
From PV Require Export Proofs.EscC.
Open Scope N_scope.

Lemma tie_striptags_no_complete_tag : forall s : str, has_complete_tag (filter_striptags s) = false.
Proof. exact striptags_no_complete_tag. Qed.

Lemma tie_striptags_only_tags : forall s : str,
  exists r0, deletes_between s r0 /\ trimmed_of r0 (filter_striptags s).
Proof. exact striptags_only_tags. Qed.

Lemma tie_removetags_only_named : forall (s param r : str),
  filter_removetags s param = Some r ->
  exists tags r0, Forall (fun t => is_alpha t = true) tags /\ deletes_seq tags s r0 /\ trimmed_of r0 r.
Proof. exact removetags_only_named. Qed.
