(* Tie for the lexer properties (C06 lexer half, C16): the lemmas of Proofs/Lex{A,B}.v with
   their side conditions on the regenerated symbol table and character classes discharged by
   vm_compute. *)
From PV Require Export Tie.C16a Tie.C16b.
