(* Tie for C09 (translated, the ifchanged tag): tagIfchangedNode.Execute and its helper state of
   tags_ifchanged.go - as translated into gen/TagFuncs.v (go_statefuncs) on this run - mean what the
   hand-written executor of Model/Exec.v does on NIfchanged, in both modes, for every body, list of
   watched expressions, state, fuel and whatever the writer held - under the hypotheses of
   Spec/SpecTagFuncs3.v.  The scripts step through the regenerated term statement by statement
   (Proofs/TagFuncs3.v); the two loops are handled by [uexprs_loop_eval_list] and
   [uvalues_loop_changed], whose "one turn" hypotheses are again proved by stepping.  A change of the
   Go source that changes what the method does makes a script fail here. *)
From PV Require Export Proofs.TagFuncs3.
From PV Require Import Model.Exec Model.Api Lib.GoStmt Spec.SpecFlow Spec.SpecTagFuncs Spec.SpecTagFuncs2 Spec.SpecTagFuncs3.
From PV Require Import gen.TagFuncs Proofs.Flow Proofs.TagFuncs Proofs.TagFuncs2.
From Coq Require Import String Lia.
Open Scope string_scope.

(* ---------- node.state(ctx) ---------- *)
(* the pointer the map holds for the node (its key), or a fresh state object bound to the key *)
Lemma tie_tagIfchangedNode_state : forall se globals deeper id watched thenb elseb o st f k,
  uf_call_step se globals go_statefuncs deeper (UVIfchangedNode id watched thenb elseb) "state" [UVCtx] (mkUW o st f []) k =
  match top_frame st with
  | Ok fr =>
      match ns_get (f_exec fr) id (ms_nodes st) with
      | Some (NSIfchanged _ _) => k [UVStateKey (f_exec fr) id] (mkUW o st f [])
      | _ => k [UVPtr 0] (mkUW o st f [HBound (f_exec fr) id])
      end
  | other => UStop (stop_of other) (mkUW o st f [])
  end.
Proof.
  intros. u3_enter. u3_step.
  destruct (top_frame st) as [fr|kd| | |s] eqn:Hfr; u3_run; try reflexivity.
  u3_step.
  destruct (ns_get (f_exec fr) id (ms_nodes st)) as [[j|l c]|] eqn:Hns; u3_run.
  all: repeat u3_step; reflexivity.
Qed.

(* the depth hypothesis 3 <= d was peeled: name the two inner call levels [callr], keep what they do
   on a primitive and on node.state(ctx) *)
Ltac abstract_callr se globals :=
  match goal with |- context [uf_call_step se globals ?p (uf_call_step se globals ?p (uf_call_step se globals ?p ?u))] =>
    let callr := fresh "callr" in
    pose proof (tie_tagIfchangedNode_state se globals (uf_call_step se globals p u)) as Hstate;
    assert (Hprim : forall recv m args w k, utype_of recv = None ->
              uf_call_step se globals p (uf_call_step se globals p u) recv m args w k = ubuiltin se globals recv m args w k)
      by (intros recv m args w k Hty; rewrite uf_call_step_eq, Hty; reflexivity);
    set (callr := uf_call_step se globals p (uf_call_step se globals p u)) in *;
    clearbody callr
  end.

(* ---------- content mode ---------- *)
Lemma tie_tagIfchangedNode_Execute_content : forall site d, (3 <= d)%nat -> forall se globals id thenb elseb o0 st fuel,
  ifch_body_keeps_mode se globals fuel st id thenb ->
  uread_exec site (state_tag_execute se globals go_statefuncs d (UVIfchangedNode id [] thenb elseb) o0 st fuel)
  = Some (after o0 (exec_node se globals fuel st (NIfchanged id [] thenb elseb))).
Proof.
  intros site d Hd se globals id thenb elseb o0 st fuel Hkept. peel_three d Hd.
  abstract_callr se globals.
  destruct fuel as [|f].
  - rewrite exec_node_0. u3_enter. u3_fin.
  - rewrite exec_node_S_ifchanged_c. unfold ifch_body_keeps_mode in Hkept. cbn [pred] in Hkept. u3_enter.
    u3_step. rewrite Hstate.
    destruct (top_frame_cases st) as [Hfr|[fr Hfr]]; u3_run; try (u3_fin; fail).
    specialize (Hkept fr Hfr).
    destruct (exec_nodes se globals f st thenb) as [o r] eqn:Hbody.
    destruct (ifch_content st (f_exec fr) id) as [c|] eqn:Hc;
    (destruct (ns_get (f_exec fr) id (ms_nodes st)) as [[j|l c']|] eqn:Hns; u3_run;
     (destruct r as [st1|k| | |s]; repeat u3_step; try (u3_fin; fail);
      specialize (Hkept o st1 eq_refl); u3_known; rewrite <- ?str_eqb_nil_l;
      match goal with |- context [str_eqb ?a ?b] => destruct (str_eqb a b) end; repeat u3_step; u3_fin)).
Qed.

(* ---------- watched mode ---------- *)
Ltac u3_exprs_loop se globals :=
  match goal with |- uread_exec ?site (uexprs_loop ?bf ?key ?val ?es ?i ?f0 ?env ?w ?kn) = _ =>
    match bf with (fun env' w' kn' kb' => uexec_block _ ?kr _ env' w' kn' kb') =>
      match eval pattern (@nil value) in env with ?F _ =>
        etransitivity; [ apply (uexprs_loop_eval_list se globals site bf key val F kn kr) with (acc := @nil value) | ]
      end
    end
  end.
Ltac u3_values_loop nowv cv :=
  match goal with |- uread_exec ?site (uvalues_loop ?bf ?key ?val ?r 0 ?env ?w ?kn) = _ =>
    match env with context [UVBool ?b0] =>
      match eval pattern (UVBool b0) in env with ?F _ =>
        etransitivity;
        [ apply (f_equal (uread_exec site));
          apply (uvalues_loop_changed bf key val (fun b => F (UVBool b)) nowv kn) with (c := cv) (b := b0) | ]
      end
    end
  end.
Ltac u3_values_turn :=
  let i := fresh "i" in let x := fresh "x" in let Hn := fresh "Hn" in let Hb := fresh "Hb" in
  intros i x ? ? ? ? ? ? Hn Hb; u3_run; u3_step;
  match goal with |- context [seq_index ?l i] => destruct (seq_index l i) as [?y|] end; u3_go;
  [ match goal with |- context [equal_value_to ?a ?b] => destruct (equal_value_to a b) as [[|]|] end;
    repeat u3_step; first [reflexivity | apply Hn | apply Hb]
  | reflexivity ].
Ltac u3_crunch :=
  repeat u3_step;
  first [ solve [u3_fin]
        | match goal with |- context [exec_nodes ?a ?b ?c ?d ?e] =>
            destruct (exec_nodes a b c d e) as [?o [?st2|?k| | |?s]] end; u3_crunch ].

Lemma tie_tagIfchangedNode_Execute_watched : forall site d, (3 <= d)%nat -> forall se globals id w ws thenb elseb o0 st fuel,
  ifch_watched_keeps_mode se globals fuel st id (w :: ws) ->
  uread_exec site (state_tag_execute se globals go_statefuncs d (UVIfchangedNode id (w :: ws) thenb elseb) o0 st fuel)
  = Some (after o0 (exec_node se globals fuel st (NIfchanged id (w :: ws) thenb elseb))).
Proof.
  intros site d Hd se globals id w0 ws thenb elseb o0 st fuel Hkept. peel_three d Hd.
  abstract_callr se globals.
  destruct fuel as [|f].
  - rewrite exec_node_0. u3_enter. u3_fin.
  - rewrite exec_node_S_ifchanged_w. unfold ifch_watched_keeps_mode in Hkept. cbn [pred] in Hkept. u3_enter.
    u3_step. rewrite Hstate.
    destruct (top_frame_cases st) as [Hfr|[fr Hfr]]; u3_run; try (u3_fin; fail).
    destruct (Hkept fr Hfr) as [Hshort Hrun]. clear Hkept.
    destruct (ns_get (f_exec fr) id (ms_nodes st)) as [[j|l c']|] eqn:Hns; u3_run.
    all: u3_step; u3_step; u3_step; u3_step; u3_exprs_loop se globals;
      [ intros i e acc o st' f' heap kn' kb' next Hnext; u3_run; u3_step;
        destruct (PV.Model.Exec.eval se globals f' st' e) as [[v st1]|k| | |s]; repeat u3_step;
        first [reflexivity | apply Hnext]
      | intros kind w; reflexivity
      | ].
    all: destruct (eval_list se globals f st (w0 :: ws)) as [[now st1]|k| | |s] eqn:Hev; try (u3_fin; fail).
    all: destruct (Hrun now st1 eq_refl) as [Hcont Hmod]; clear Hrun;
      rewrite <- changed_model_spec in Hmod; pose proof (eval_list_length se globals _ _ _ _ _ Hev) as Hlen;
      cbn [app]; unfold ifch_entry_short in Hshort;
      (destruct (changed_model (ifch_vals st (f_exec fr) id) now) as [c|] eqn:Hcm; [|exfalso; apply Hmod; reflexivity]);
      destruct (ifch_vals st (f_exec fr) id) as [|x lv] eqn:Hv.
    all: u3_step; u3_step.
    all: match goal with
         | Hcm : changed_model [] _ = _ |- _ =>
             u3_values_loop now false;
             [ u3_values_turn | cbn [List.length]; lia | reflexivity
             | rewrite changed_model_nil in Hcm; injection Hcm as <-; u3_crunch ]
         | Hcm : changed_model (_ :: _) _ = _ |- _ =>
             u3_values_loop now c;
             [ u3_values_turn | rewrite Hlen; exact Hshort | rewrite changed_model_cons in Hcm; exact Hcm
             | destruct c; [|destruct elseb as [eb|]]; u3_crunch ]
         end.
Qed.

(* ---------- both modes ---------- *)
Lemma tie_tagIfchangedNode_Execute : forall site d, (3 <= d)%nat -> forall se globals id watched thenb elseb o0 st fuel,
  ifch_tie_hyps se globals fuel st id watched thenb ->
  uread_exec site (state_tag_execute se globals go_statefuncs d (UVIfchangedNode id watched thenb elseb) o0 st fuel)
  = Some (after o0 (exec_node se globals fuel st (NIfchanged id watched thenb elseb))).
Proof.
  intros site d Hd se globals id watched thenb elseb o0 st fuel H. destruct watched as [|w ws]; cbn [ifch_tie_hyps] in H.
  - apply tie_tagIfchangedNode_Execute_content; assumption.
  - apply tie_tagIfchangedNode_Execute_watched; assumption.
Qed.

(* ---------- witnesses: states reached by executing the tag satisfy the hypotheses ---------- *)
From PV Require Import Spec.SpecSyntax Tie.C09s Tie.C09x.
Definition c09y_se : senv := world_senv c09s_world.
Definition c09y_after (n : node) (st : mstate) : mstate :=
  match exec_node c09y_se [] 20 st n with (_, Ok st') => st' | _ => st end.
(* {% ifchanged %}A{% endifchanged %} (node 7) and {% ifchanged 1 2 %}A{% else %}B{% endifchanged %} (node 8) *)
Definition c09y_body : list node := [c09x_html [65]].
Definition c09y_else : list node := [c09x_html [66]].
Definition c09y_watched : list expr := [EInt 1; EInt 2].
Definition c09y_st1 : mstate := c09y_after (NIfchanged 7 [] c09y_body None) c09s_state.
Definition c09y_st2 : mstate := c09y_after (NIfchanged 8 c09y_watched c09y_body (Some c09y_else)) c09s_state.
Definition c09y_run (v : uval) (st : mstate) (o0 : str) : option xres :=
  uread_exec 0 (state_tag_execute c09y_se [] go_statefuncs 3 v o0 st 20).
Definition c09y_exec : N := match top_frame c09s_state with Ok fr => f_exec fr | _ => 0%N end.

Ltac c09y_content_hyp :=
  intros fr Hfr o st1 H; vm_compute in Hfr; injection Hfr as <-; vm_compute in H; injection H as <- <-;
  vm_compute; reflexivity.
Ltac c09y_watched_hyp :=
  intros fr Hfr; vm_compute in Hfr; injection Hfr as <-; split;
  [ vm_compute; repeat constructor
  | intros now st1 H; vm_compute in H; injection H as <- <-; split; [vm_compute; reflexivity | vm_compute; discriminate] ].

(* before the first execution, and after it (the entry was written by the node itself) *)
Lemma tie_c09y_hyps_reached :
  ifch_tie_hyps c09y_se [] 20 c09s_state 7 [] c09y_body /\
  ifch_tie_hyps c09y_se [] 20 c09y_st1 7 [] c09y_body /\
  ifch_tie_hyps c09y_se [] 20 c09s_state 8 c09y_watched c09y_body /\
  ifch_tie_hyps c09y_se [] 20 c09y_st2 8 c09y_watched c09y_body /\
  ifch_content c09y_st1 c09y_exec 7 = Some [65] /\
  List.length (ifch_vals c09y_st2 c09y_exec 8) = 2%nat.
Proof.
  split; [c09y_content_hyp|]. split; [c09y_content_hyp|]. split; [c09y_watched_hyp|]. split; [c09y_watched_hyp|].
  vm_compute. split; reflexivity.
Qed.

(* the second execution: the same content prints nothing; unchanged values take the else block *)
Lemma tie_c09y_second_run :
  option_map fst (c09y_run (UVIfchangedNode 7 [] c09y_body None) c09y_st1 [60]) = Some [60] /\
  option_map fst (c09y_run (UVIfchangedNode 8 c09y_watched c09y_body (Some c09y_else)) c09y_st2 [60]) = Some [60; 66] /\
  c09y_run (UVIfchangedNode 8 c09y_watched c09y_body (Some c09y_else)) c09y_st2 [60] =
    Some (after [60] (exec_node c09y_se [] 20 c09y_st2 (NIfchanged 8 c09y_watched c09y_body (Some c09y_else)))).
Proof. vm_compute. repeat split. Qed.

(* the hypotheses are needed: with three values remembered for one watched expression (a state no
   execution reaches) the Go code panics on nowValues[idx], the model pairs up and goes on *)
Definition c09y_st_long : mstate :=
  ns_set c09s_state c09y_exec 8 (NSIfchanged [as_value (VInt 1); as_value (VInt 1); as_value (VInt 1)] None).
Lemma tie_c09y_long_entry_differs :
  ugo_panics (state_tag_execute c09y_se [] go_statefuncs 3 (UVIfchangedNode 8 [EInt 1] c09y_body (Some c09y_else)) [] c09y_st_long 20) = true /\
  fst (exec_node c09y_se [] 20 c09y_st_long (NIfchanged 8 [EInt 1] c09y_body (Some c09y_else))) = [66].
Proof. vm_compute. split; reflexivity. Qed.

(* ... and with values remembered under a node without watched expressions the Go code keeps them,
   the model's store drops them *)
Definition c09y_st_mixed : mstate := ns_set c09s_state c09y_exec 7 (NSIfchanged [as_value (VInt 1)] None).
Lemma tie_c09y_mixed_entry_differs :
  option_map (fun x => match snd x with Ok st' => ifch_vals st' c09y_exec 7 | _ => [] end)
             (c09y_run (UVIfchangedNode 7 [] c09y_body None) c09y_st_mixed []) = Some [as_value (VInt 1)] /\
  match snd (exec_node c09y_se [] 20 c09y_st_mixed (NIfchanged 7 [] c09y_body None)) with
  | Ok st' => ifch_vals st' c09y_exec 7 | _ => [as_value (VInt 1)] end = [].
Proof. vm_compute. split; reflexivity. Qed.
