(* Property C08, second part: the lemmas of Proofs/Walk2.v under the names Props/C08b.v cites,
   non-vacuity witnesses evaluated on the model, and the findings: what the model (which
   mirrors pongo2's variable.go, with fix D38: only an integer key is an index) does with
   keys at the edges of the property.  Nothing here depends on a generated table. *)
From Coq Require Import List NArith ZArith Lia.
From PV Require Import Model.Exec Model.Api Spec.SpecWalk Spec.SpecWalk2 Spec.SpecWriter.
From PV Require Export Proofs.Walk2.
Import ListNotations.
Open Scope N_scope.

Definition tie_walk_follows_subscripts := walk_follows2.
Definition tie_resolve_data_subscripts := resolve_data2.
Definition tie_lookup_order := lookup_order.
Definition tie_lookup_root := lookup_root_frame.
Definition tie_set_shadows := set_then_lookup.
Definition tie_with_shadows := with_body_lookup.
Definition tie_for_shadows := for_first_lookup.
Definition tie_for_iteration_shadows := for_iteration_lookup.
Definition tie_follow2_extends := follow2_lift.
Definition tie_sub_int_is_index := sub_int_is_index.
Definition tie_sub_str_is_name := sub_str_is_name.
Definition tie_sub_out_of_range := sub_out_of_range.
Definition tie_sub_non_integer_key := sub_non_integer_key.
Definition tie_pure_int := pure_int.
Definition tie_pure_str := pure_str.
Definition tie_pure_var := pure_var.
Definition tie_pure_key_mono := pure_key_mono.
Lemma tie_pure_literals : forall se globals st,
  (forall z, pure_key se globals 1 st (EInt z) (VInt z)) /\
  (forall s, pure_key se globals 1 st (EStr s) (VStr s)).
Proof. intros se globals st. split; [exact (pure_int se globals st)|exact (pure_str se globals st)]. Qed.

(* ---------- a concrete state ---------- *)
Definition c08_senv : senv := world_senv (mkWorld [] false false [] [] [] [] []).
Definition c08_list : val := VList [VInt 10; VInt 20; VInt 30].
Definition c08_map : val := VMap [ ([49] (* 1 *), VStr [111; 110; 101] (* one *)); ([107] (* k *), VNil); ([108] (* l *), c08_list) ].
Definition c08_struct : val := VStruct [ ([70] (* F *), VInt 5); ([49] (* 1 *), VInt 6) ].
(* public context: a = the list, m = the map, s = the struct, i = 1 *)
Definition c08_frame : frame :=
  mkF [] [ ([97] (* a *), CV (as_value c08_list)); ([109] (* m *), CV (as_value c08_map));
           ([115] (* s *), CV (as_value c08_struct)); ([105] (* i *), CV (as_value (VInt 1))) ] true 0 0 [].
Definition c08_state : mstate := mkM [c08_frame] [] g0.

(* the reference on computed keys: m["l"][i] with i = 1; out of range; a nil on the way;
   a subscript on a number *)
Lemma tie_c08b_witness :
  follow2 c08_map [SSub (VStr [108] (* l *)); SSub (VInt 1)] = Found (VInt 20) /\
  follow2 c08_map [SSub (VStr [108] (* l *)); SSub (VInt 3)] = Empty /\
  follow2 c08_map [SSub (VStr [108] (* l *)); SSub (VInt (-1))] = Empty /\
  follow2 c08_map [SSub (VStr [107] (* k *)); SSub (VInt 0); SName [97] (* a *)] = Empty /\
  follow2 c08_map [SSub (VStr [108] (* l *)); SSub (VInt 0); SSub (VInt 0)] = ExecError.
Proof. vm_compute. repeat split. Qed.

(* the hypotheses of the main theorem are met by a real path: m["l"][i].  The keys are a string
   literal and a name of the context; the theorem then gives the model's answer for every
   sufficient fuel, and the model computes the same at a concrete fuel *)
Lemma tie_c08b_hyp_witness :
  Forall2 (denotes (pure_key c08_senv [] 3 c08_state))
    [PSub (EStr [108] (* l *)) None; PSub (EVar [PIdent [105] (* i *) None]) None]
    [SSub (VStr [108] (* l *)); SSub (VInt 1)].
Proof.
  constructor; [|constructor; [|constructor]]; constructor.
  - apply (pure_key_mono c08_senv [] 1 3); [lia|apply pure_str].
  - apply (pure_var c08_senv [] 0 c08_state c08_frame [105] (* i *) (as_value (VInt 1)) [] []);
      [reflexivity|reflexivity|constructor|reflexivity].
Qed.

Lemma tie_c08b_walk_witness : forall f, (5 < f)%nat ->
  walk c08_senv [] f c08_state c08_map false
    [PSub (EStr [108] (* l *)) None; PSub (EVar [PIdent [105] (* i *) None]) None] =
  Ok (mkV (VInt 20) false, c08_state).
Proof.
  intros f Hf. rewrite (walk_follows2 c08_senv [] 3 c08_state _ _ tie_c08b_hyp_witness) by (cbn [length]; lia).
  reflexivity.
Qed.

Lemma tie_c08b_model_witness :
  walk c08_senv [] 6 c08_state c08_map false
    [PSub (EStr [108] (* l *)) None; PSub (EVar [PIdent [105] (* i *) None]) None] =
  Ok (mkV (VInt 20) false, c08_state).
Proof. vm_compute. reflexivity. Qed.

(* the hypotheses of the three shadowing theorems are met in the concrete state, for the name i
   that the context binds to 1: {% set i = "s" %} succeeds; the pairs of {% with i="w" %}
   evaluate; the object of {% for i in a %} evaluates in the tag's entry state and has a first
   item *)
Lemma tie_c08b_shadow_hyp_witness :
  (exists st', exec_node c08_senv [] 3 c08_state (NSet [105] (* i *) (EStr [115] (* s *))) = ([], Ok st')) /\
  (exists st1, eval_pairs c08_senv [] 3 c08_state [ ([105] (* i *), EStr [119] (* w *)) ] =
               Ok ([ ([105] (* i *), CV (as_value (VStr [119] (* w *)))) ], st1)) /\
  (exists st1, eval c08_senv [] 4 (for_entry_state c08_state c08_frame) (EVar [PIdent [97] (* a *) None]) =
               Ok (as_value c08_list, st1) /\
               iter_items c08_list false false =
               Ok (Some [ (VInt 10, None); (VInt 20, None); (VInt 30, None) ])).
Proof.
  split; [|split].
  - eexists. vm_compute. reflexivity.
  - eexists. vm_compute. reflexivity.
  - eexists. split; vm_compute; reflexivity.
Qed.

(* ---------- findings: keys at the edges of the property (model = pongo2's code, fix D38) ---------- *)
Definition c08_sub (cur : val) (e : expr) : res val :=
  match walk c08_senv [] 20 c08_state cur false [PSub e None] with
  | Ok (v, _) => Ok (vv v) | Err k => Err k | Unmod => Unmod | Fuel => Fuel | Panic s => Panic s
  end.
Definition c08_1_9 : float := f_div (f_of_int 19) (f_of_int 10).
Definition c08_undefined : expr := EVar [PIdent [122] (* z *) None].   (* no such name: nil *)

Lemma tie_c08b_findings :
  (* a[-1]: empty, no counting from the end *)
  c08_sub c08_list (EInt (-1)) = Ok VNil /\
  (* a[1]: the element; only an integer key is an index (fix D38) ... *)
  c08_sub c08_list (EInt 1) = Ok (VInt 20) /\
  (* ... a["1"], a[1.9]: empty - the string is not read as a number, the float is not truncated *)
  c08_sub c08_list (EStr [49] (* 1 *)) = Ok VNil /\
  c08_sub c08_list (EFloat c08_1_9) = Ok VNil /\
  (* a[nil], a[true], a["x"], a[[]]: empty, not element 0 *)
  c08_sub c08_list c08_undefined = Ok VNil /\
  c08_sub c08_list (EBool true) = Ok VNil /\
  c08_sub c08_list (EStr [120] (* x *)) = Ok VNil /\
  c08_sub c08_list (EArray []) = Ok VNil /\
  (* a["1e1"], a["nan"]: empty as well (the string is never parsed, so Go's float syntax does
     not matter here any more) *)
  c08_sub c08_list (EStr [49; 101; 49] (* 1e1 *)) = Ok VNil /\
  c08_sub c08_list (EStr [110; 97; 110] (* nan *)) = Ok VNil /\
  (* "abc"["1"]: the same on a string *)
  c08_sub (VStr [97; 98; 99] (* abc *)) (EStr [49] (* 1 *)) = Ok VNil /\
  (* "abc"[1]: the byte as a number, 98, not the string "b" *)
  c08_sub (VStr [97; 98; 99] (* abc *)) (EInt 1) = Ok (VInt 98) /\
  (* m[1] on a map with the key "1": empty, the integer is not turned into text; m["1"] finds it *)
  c08_sub c08_map (EInt 1) = Ok VNil /\
  c08_sub c08_map (EStr [49] (* 1 *)) = Ok (VStr [111; 110; 101] (* one *)) /\
  (* m[nil]: empty *)
  c08_sub c08_map c08_undefined = Ok VNil /\
  (* s[1] on a struct: the key's text "1" names the field (a Go struct has no such field, the
     model's struct here has one to show the conversion); s[nil] is the field "" : empty *)
  c08_sub c08_struct (EInt 1) = Ok (VInt 6) /\
  c08_sub c08_struct c08_undefined = Ok VNil /\
  (* s[[]]: the text of a list contains Go type syntax: not modelled *)
  c08_sub c08_struct (EArray []) = Unmod /\
  (* 3[0], and a nil reached inside a walk: execution error; a nil found under a key ends the
     walk with the empty value before any further subscript is looked at *)
  c08_sub (VInt 3) (EInt 0) = Err 3 /\
  c08_sub VNil (EInt 0) = Err 3 /\
  walk c08_senv [] 20 c08_state c08_map false
    [PSub (EStr [107] (* k *)) None; PSub (EInt 0) None; PIdent [120] (* x *) None] = Ok (as_value VNil, c08_state).
Proof. vm_compute. repeat split. Qed.

(* the static and the computed form of the same key differ on the "wrong" container:
   m.1 is an error, m[1] is empty; a.x is an error, a["x"] is empty *)
Lemma tie_c08b_static_vs_computed :
  follow2 c08_map [SIndex 1] = ExecError /\ follow2 c08_map [SSub (VInt 1)] = Empty /\
  follow2 c08_list [SName [120] (* x *)] = ExecError /\ follow2 c08_list [SSub (VStr [120] (* x *))] = Empty.
Proof. vm_compute. repeat split. Qed.

(* ---------- the lookup order, end to end: compile and execute ---------- *)
Definition c08_render (globals ctx : list (str * cval)) (src : str) : option str :=
  match compile_src c08_senv 300 [60; 115; 62] (* <s> *) true src g0 with
  | Ok (t, g) => match execute c08_senv globals 300 (mkM [] [] g) t ctx with inl o => Some o | inr _ => None end
  | _ => None
  end.
Definition c08_sv (s : str) : cval := CV (as_value (VStr s)).
Definition c08_globals : list (str * cval) := [ ([120] (* x *), c08_sv [103] (* g *)) ].
Definition c08_ctx : list (str * cval) := [ ([120] (* x *), c08_sv [99] (* c *)); ([108] (* l *), CV (as_value (VList [VStr [102] (* f *)]))) ].

Lemma tie_c08b_order_witness :
  (* {{ x }} : a global alone; a context key over it *)
  c08_render c08_globals [] [123; 123; 32; 120; 32; 125; 125] = Some [103] (* g *) /\
  c08_render c08_globals c08_ctx [123; 123; 32; 120; 32; 125; 125] = Some [99] (* c *) /\
  (* {% set x = "s" %}{{ x }} *)
  c08_render c08_globals c08_ctx [123; 37; 32; 115; 101; 116; 32; 120; 32; 61; 32; 34; 115; 34; 32; 37; 125; 123; 123; 32; 120; 32; 125; 125] = Some [115] (* s *) /\
  (* {% with x="w" %}{{ x }}{% endwith %}{{ x }} *)
  c08_render c08_globals c08_ctx [123; 37; 32; 119; 105; 116; 104; 32; 120; 61; 34; 119; 34; 32; 37; 125; 123; 123; 32; 120; 32; 125; 125; 123; 37; 32; 101; 110; 100; 119; 105; 116; 104; 32; 37; 125; 123; 123; 32; 120; 32; 125; 125] = Some [119; 99] (* wc *) /\
  (* {% for x in l %}{{ x }}{% endfor %}{{ x }} *)
  c08_render c08_globals c08_ctx [123; 37; 32; 102; 111; 114; 32; 120; 32; 105; 110; 32; 108; 32; 37; 125; 123; 123; 32; 120; 32; 125; 125; 123; 37; 32; 101; 110; 100; 102; 111; 114; 32; 37; 125; 123; 123; 32; 120; 32; 125; 125] = Some [102; 99] (* fc *).
Proof. vm_compute. repeat split. Qed.

Print Assumptions tie_c08b_walk_witness.
Print Assumptions tie_c08b_shadow_hyp_witness.
Print Assumptions tie_c08b_findings.
Print Assumptions tie_c08b_order_witness.
