(* Tie for property C02, the full node language (Props/C02b.v): the lemmas of Proofs/Taint2.v
   with the two facts they assume about generated tables - the escape filter's output is in
   escaped form (escape_pairs; C17, via Tie/C02.v [esc_ok]) and the filter names allowed in a
   filter tag are bound in filter_impl to Go functions that keep escaped form (by computation). *)
From PV Require Import Lib.Bytes Model.Value Model.Doc Model.Exec Model.Filters Model.Api
  Spec.SpecEsc Spec.SpecTaint Spec.SpecTaint2.
From PV Require Import gen.Tables Tie.C02.
From PV Require Export Proofs.Taint2.
Open Scope N_scope.

(* ---------- the generated table filter_impl ---------- *)
Lemma tie_tag_table_ok : tag_table_ok clean_tag_filters = true.
Proof. vm_compute. reflexivity. Qed.

Lemma tie_tag_filters_keep_clean : forall se name x p r,
  str_in name clean_tag_filters = true -> val_clean (vv x) = true ->
  apply_filter_se se name x p = Ok r -> val_clean (vv r) = true.
Proof. exact (tag_filters_clean esc_ok _ tie_tag_table_ok). Qed.

(* ---------- the invariant, for every construct ---------- *)
Lemma tie_eval_clean : forall lz se globals f st e v st',
  ctx_ok lz globals = true -> lazy_ok lz se ->
  tclean lz st -> eval se globals f st e = Ok (v, st') -> tclean lz st' /\ mark_ok v = true.
Proof.
  intros lz se globals f st e v st' Hg Hl. exact (eval_clean se globals lz esc_ok (tie_tag_filters_keep_clean se) Hg Hl f st e v st').
Qed.

Lemma tie_macro_result_clean : forall lz se globals f st m fi args v st',
  ctx_ok lz globals = true -> lazy_ok lz se ->
  tclean lz st -> ok_macro lz m = true -> call_macro se globals f st m fi args = Ok (v, st') ->
  tclean lz st' /\ vsafe v = true /\ exists out, vv v = VStr out /\ html_clean out = true.
Proof.
  intros lz se globals f st m fi args v st' Hg Hl.
  exact (call_macro_clean se globals lz esc_ok (tie_tag_filters_keep_clean se) Hg Hl f st m fi args v st').
Qed.

Lemma tie_nodes_output_clean : forall lz se globals f st ns o st',
  ctx_ok lz globals = true -> lazy_ok lz se ->
  tclean lz st -> ok_nodes lz ns = true -> exec_nodes se globals f st ns = (o, Ok st') ->
  html_clean o = true /\ tclean lz st'.
Proof.
  intros lz se globals f st ns o st' Hg Hl.
  exact (exec_nodes_clean se globals lz esc_ok (tie_tag_filters_keep_clean se) Hg Hl f st ns o st').
Qed.

Lemma tie_template_in_state : forall lz se globals f st t ctx o st',
  ctx_ok lz globals = true -> lazy_ok lz se ->
  tclean lz st -> ok_template lz t = true -> ctx_ok lz ctx = true ->
  exec_template se globals f st t ctx = (o, Ok st') -> html_clean o = true /\ tclean lz st'.
Proof.
  intros lz se globals f st t ctx o st' Hg Hl.
  exact (exec_template_clean se globals lz esc_ok (tie_tag_filters_keep_clean se) Hg Hl f st t ctx o st').
Qed.

Lemma tie_template_unbuffered_in_state : forall lz se globals f st t ctx o st',
  ctx_ok lz globals = true -> lazy_ok lz se ->
  tclean lz st -> ok_template lz t = true -> ctx_ok lz ctx = true ->
  exec_template_unbuffered se globals f st t ctx = (o, Ok st') -> html_clean o = true /\ tclean lz st'.
Proof.
  intros lz se globals f st t ctx o st' Hg Hl.
  exact (exec_template_unbuffered_clean se globals lz esc_ok (tie_tag_filters_keep_clean se) Hg Hl f st t ctx o st').
Qed.

(* ---------- the main statement ---------- *)
Lemma tie_no_raw_context_text : forall lz se globals f nd g t ctx o st',
  ok_template lz t = true -> ctx_ok lz globals = true -> lazy_ok lz se -> unmarked_ctx ctx = true ->
  exec_template se globals f (mkM [] nd g) t ctx = (o, Ok st') -> html_clean o = true.
Proof.
  intros lz se globals f nd g t ctx o st' Ht Hg Hl Hc.
  exact (render_buffered_clean se globals lz esc_ok (tie_tag_filters_keep_clean se) Hg Hl f nd g t ctx o st' Ht Hc).
Qed.

Lemma tie_no_raw_context_text_execute : forall lz se globals f nd g t ctx o st',
  ok_template lz t = true -> ctx_ok lz globals = true -> lazy_ok lz se -> unmarked_ctx ctx = true ->
  exec_template_unbuffered se globals f (mkM [] nd g) t ctx = (o, Ok st') -> html_clean o = true.
Proof.
  intros lz se globals f nd g t ctx o st' Ht Hg Hl Hc.
  exact (render_clean se globals lz esc_ok (tie_tag_filters_keep_clean se) Hg Hl f nd g t ctx o st' Ht Hc).
Qed.

(* without lazy includes nothing is assumed about the compiler *)
Lemma tie_no_raw_context_text_static : forall se globals f nd g t ctx o st',
  ok_template false t = true -> ctx_ok false globals = true -> unmarked_ctx ctx = true ->
  exec_template_unbuffered se globals f (mkM [] nd g) t ctx = (o, Ok st') -> html_clean o = true.
Proof.
  intros se globals f nd g t ctx o st' Ht Hg Hc.
  exact (tie_no_raw_context_text_execute false se globals f nd g t ctx o st' Ht Hg (lazy_ok_static se) Hc).
Qed.

Lemma tie_run_template_clean : forall lz w t g ctx o,
  ok_template lz t = true -> ctx_ok lz (w_globals w) = true -> lazy_ok lz (world_senv w) ->
  unmarked_ctx ctx = true -> run_template w t g ctx = OOk o -> html_clean o = true.
Proof.
  intros lz w t g ctx o Ht Hg Hl Hc.
  exact (run_template_clean lz w t g ctx o esc_ok (tie_tag_filters_keep_clean (world_senv w)) Hg Hl Ht Hc).
Qed.

Lemma tie_unmarked_ctx_ok : forall lz ctx, unmarked_ctx ctx = true -> ctx_ok lz ctx = true.
Proof. exact unmarked_ctx_ok. Qed.

(* ---------- why the filter tag is restricted: its chain's result is written raw ---------- *)
Definition n_upper : str := [117; 112; 112; 101; 114].                                   (* upper *)
Definition n_first : str := [102; 105; 114; 115; 116].                                   (* first *)
Definition n_truncatechars : str := [116; 114; 117; 110; 99; 97; 116; 101; 99; 104; 97; 114; 115].  (* truncatechars *)
(* body {{ x }} with x = <b>& writes &lt;b&gt;&amp; ; then upper gives &LT;B&GT;&AMP; , first gives & ,
   truncatechars:4 gives &... , add:"<" appends a raw < *)
Lemma tie_filter_tag_not_clean :
  fst (exec_node w_se [] 20 w_state (NFilterTag [(n_upper, None)] [NVar w_var]))
    = [38; 76; 84; 59; 66; 38; 71; 84; 59; 38; 65; 77; 80; 59] /\
  html_clean [38; 76; 84; 59; 66; 38; 71; 84; 59; 38; 65; 77; 80; 59] = false /\
  fst (exec_node w_se [] 20 w_state (NFilterTag [(n_first, None)] [NVar w_var])) = [38] /\
  html_clean [38] = false /\
  fst (exec_node w_se [] 20 w_state (NFilterTag [(n_truncatechars, Some (EInt 4))] [NVar w_var])) = [38; 46; 46; 46] /\
  html_clean [38; 46; 46; 46] = false /\
  fst (exec_node w_se [] 20 w_state (NFilterTag [(n_add, Some (EStr [60]))] [NVar w_var])) = w_escaped ++ [60] /\
  html_clean (w_escaped ++ [60]) = false.
Proof. vm_compute. repeat split; reflexivity. Qed.

(* ---------- witnesses ---------- *)
(* no loader: every run-time compile fails, so lazy includes are (vacuously) fine *)
Lemma tie_lazy_ok_no_loader : lazy_ok true w_se.
Proof.
  intros _ f name g t g' H. destruct f as [|f]; [discriminate H|].
  assert (E : compile_file w_se (S f) name g = Err 4) by reflexivity.
  rewrite E in H. discriminate H.
Qed.

(* ================= Part II: templates whose own text contains markup ================= *)
Lemma tie_markup_table_ok : markup_table_ok markup_tag_filters = true.
Proof. vm_compute. reflexivity. Qed.

Lemma tie_markup_filters_pieces : forall lit se name x p r,
  str_in name markup_tag_filters = true -> val_pieces lit (vv x) ->
  apply_filter_se se name x p = Ok r -> val_pieces lit (vv r).
Proof. intros lit. exact (markup_filters_pieces lit esc_ok _ tie_markup_table_ok). Qed.

Lemma tie_output_literals_and_escaped : forall lit lz se globals f nd g t ctx o st',
  ok_template_m lit lz t = true -> ctx_m lit lz globals -> lazy_m lit lz se -> unmarked_ctx ctx = true ->
  exec_template se globals f (mkM [] nd g) t ctx = (o, Ok st') -> pieces lit o.
Proof.
  intros lit lz se globals f nd g t ctx o st' Ht Hg Hl Hc.
  exact (render_buffered_clean_m se globals lit lz esc_ok (tie_markup_filters_pieces lit se) Hg Hl f nd g t ctx o st' Ht Hc).
Qed.

Lemma tie_output_literals_and_escaped_execute : forall lit lz se globals f nd g t ctx o st',
  ok_template_m lit lz t = true -> ctx_m lit lz globals -> lazy_m lit lz se -> unmarked_ctx ctx = true ->
  exec_template_unbuffered se globals f (mkM [] nd g) t ctx = (o, Ok st') -> pieces lit o.
Proof.
  intros lit lz se globals f nd g t ctx o st' Ht Hg Hl Hc.
  exact (render_clean_m se globals lit lz esc_ok (tie_markup_filters_pieces lit se) Hg Hl f nd g t ctx o st' Ht Hc).
Qed.

Lemma tie_run_template_pieces : forall lit lz w t g ctx o,
  ok_template_m lit lz t = true -> ctx_m lit lz (w_globals w) -> lazy_m lit lz (world_senv w) ->
  unmarked_ctx ctx = true -> run_template w t g ctx = OOk o -> pieces lit o.
Proof.
  intros lit lz w t g ctx o Ht Hg Hl Hc.
  exact (run_template_pieces lit lz w t g ctx o esc_ok (tie_markup_filters_pieces lit (world_senv w)) Hg Hl Ht Hc).
Qed.

Lemma tie_markup_nodes : forall lit lz se globals f st ns o st',
  ctx_m lit lz globals -> lazy_m lit lz se ->
  tclean_m lit lz st -> ok_nodes_m lit lz ns = true -> exec_nodes se globals f st ns = (o, Ok st') ->
  pieces lit o /\ tclean_m lit lz st'.
Proof.
  intros lit lz se globals f st ns o st' Hg Hl.
  exact (exec_nodes_clean_m se globals lit lz esc_ok (tie_markup_filters_pieces lit se) Hg Hl f st ns o st').
Qed.

Lemma tie_markup_template_in_state : forall lit lz se globals f st t ctx o st',
  ctx_m lit lz globals -> lazy_m lit lz se ->
  tclean_m lit lz st -> ok_template_m lit lz t = true -> ctx_m lit lz ctx ->
  exec_template se globals f st t ctx = (o, Ok st') -> pieces lit o /\ tclean_m lit lz st'.
Proof.
  intros lit lz se globals f st t ctx o st' Hg Hl.
  exact (exec_template_clean_m se globals lit lz esc_ok (tie_markup_filters_pieces lit se) Hg Hl f st t ctx o st').
Qed.

Lemma tie_markup_eval : forall lit lz se globals f st e v st',
  ctx_m lit lz globals -> lazy_m lit lz se ->
  tclean_m lit lz st -> eval se globals f st e = Ok (v, st') -> tclean_m lit lz st' /\ mark_pieces lit v.
Proof.
  intros lit lz se globals f st e v st' Hg Hl.
  exact (eval_clean_m se globals lit lz esc_ok (tie_markup_filters_pieces lit se) Hg Hl f st e v st').
Qed.

Lemma tie_markup_macro_result : forall lit lz se globals f st m fi args v st',
  ctx_m lit lz globals -> lazy_m lit lz se ->
  tclean_m lit lz st -> ok_macro_m lit lz m = true -> call_macro se globals f st m fi args = Ok (v, st') ->
  tclean_m lit lz st' /\ vsafe v = true /\ exists out, vv v = VStr out /\ pieces lit out.
Proof.
  intros lit lz se globals f st m fi args v st' Hg Hl.
  exact (call_macro_clean_m se globals lit lz esc_ok (tie_markup_filters_pieces lit se) Hg Hl f st m fi args v st').
Qed.

Lemma tie_lazy_m_static : forall lit se, lazy_m lit false se.
Proof. exact lazy_m_static. Qed.
Lemma tie_ctx_m_nil : forall lit lz, ctx_m lit lz [].
Proof. exact ctx_m_nil. Qed.
Lemma tie_unmarked_ctx_m : forall lit lz ctx, unmarked_ctx ctx = true -> ctx_m lit lz ctx.
Proof. exact unmarked_ctx_m. Qed.

Lemma tie_pieces_no_foreign_byte : forall lit b o,
  dangerous b = true -> (forall val, lit val = true -> ~ In b val) -> pieces lit o -> ~ In b o.
Proof. exact pieces_no_foreign_byte. Qed.
Lemma tie_pieces_inert_clean : forall lit o,
  (forall val, lit val = true -> forallb inert_byte val = true) -> pieces lit o -> html_clean o = true.
Proof. exact pieces_inert_clean. Qed.

(* the witness set of literals contains no single quote *)
Lemma tie_e2m_no_quote : forall val, e2m_lit val = true -> ~ In 39 val.
Proof.
  intros val H Hin. unfold e2m_lit, str_in in H. apply existsb_exists in H. destruct H as [l [Hl He]].
  apply str_eqb_true2 in He. subst l. unfold e2m_lits in Hl. cbn [In] in Hl.
  repeat (destruct Hl as [Hl|Hl]; [subst val; cbn [In] in Hin;
          repeat (destruct Hin as [Hin|Hin]; [discriminate Hin|]); exact Hin|]).
  exact Hl.
Qed.

Lemma tie_markup_hypotheses_simple : forall lit lz se ctx,
  ctx_m lit lz [] /\ lazy_m lit false se /\ (unmarked_ctx ctx = true -> ctx_m lit lz ctx).
Proof.
  intros lit lz se ctx. split; [exact (tie_ctx_m_nil lit lz)|]. split; [exact (tie_lazy_m_static lit se)|].
  exact (tie_unmarked_ctx_m lit lz ctx).
Qed.

Lemma tie_e2m_never_writes_quote : forall t g ctx o,
  ok_template_m e2m_lit false t = true -> unmarked_ctx ctx = true ->
  run_template e2m_world t g ctx = OOk o -> ~ In 39 o.
Proof.
  intros t g ctx o Ht Hc H. apply (tie_pieces_no_foreign_byte e2m_lit 39 o eq_refl tie_e2m_no_quote).
  apply (tie_run_template_pieces e2m_lit false e2m_world t g ctx o Ht);
    [constructor|exact (tie_lazy_m_static _ _)|exact Hc|exact H].
Qed.
