(* Tie for property C10, second part (a child's text outside its blocks is ignored): the lemmas
   of Proofs/Inherit2.v.  No generated table is involved: the simulation is over the executor
   of Model/Exec.v itself. *)
From PV Require Export Proofs.Inherit2.
