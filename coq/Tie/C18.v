(* Tie for property C18: the filter names of the generated table [filter_impl] reach the
   branch bodies that Proofs/FilterProofs.v talks about (if the Go source re-points a filter
   name to another function, the dispatch lemma of that name stops compiling), and the
   generated padding cap satisfies the side condition of the padding lemmas. *)
From PV Require Import Model.Filters Spec.SpecFilters.
(* gen.Tables is re-exported: Props/C18.v names [max_char_padding] *)
From PV Require Export gen.Tables Proofs.FilterProofs.
Open Scope N_scope.

(* [apply_filter <closed name> x p]: look the name up in the table by computation, then
   resolve the chain of closed [str_eqb] tests one by one (never computing on x or p) *)
Ltac dispatch :=
  intros; unfold apply_filter;
  match goal with |- context [assoc_get ?n filter_impl] =>
    let r := eval vm_compute in (assoc_get n filter_impl) in
    change (assoc_get n filter_impl) with r end;
  cbv beta iota zeta;
  repeat (match goal with |- context [str_eqb ?a ?b] =>
            let r := eval vm_compute in (str_eqb a b) in
            change (str_eqb a b) with r; cbv iota end);
  reflexivity.

Lemma dispatch_slice : forall x p, apply_filter [115; 108; 105; 99; 101] x p = slice_body x p.
Proof. dispatch. Qed.
Lemma dispatch_length : forall x p, apply_filter [108; 101; 110; 103; 116; 104] x p = length_body x.
Proof. dispatch. Qed.
Lemma dispatch_first : forall x p, apply_filter [102; 105; 114; 115; 116] x p = first_body x.
Proof. dispatch. Qed.
Lemma dispatch_last : forall x p, apply_filter [108; 97; 115; 116] x p = last_body x.
Proof. dispatch. Qed.
Lemma dispatch_ljust : forall x p, apply_filter [108; 106; 117; 115; 116] x p = ljust_body x p.
Proof. dispatch. Qed.
Lemma dispatch_rjust : forall x p, apply_filter [114; 106; 117; 115; 116] x p = rjust_body x p.
Proof. dispatch. Qed.
Lemma dispatch_center : forall x p, apply_filter [99; 101; 110; 116; 101; 114] x p = center_body x p.
Proof. dispatch. Qed.
Lemma dispatch_truncatechars : forall x p,
  apply_filter [116; 114; 117; 110; 99; 97; 116; 101; 99; 104; 97; 114; 115] x p = truncatechars_body x p.
Proof. dispatch. Qed.
Lemma dispatch_divisibleby : forall x p,
  apply_filter [100; 105; 118; 105; 115; 105; 98; 108; 101; 98; 121] x p = divisibleby_body x p.
Proof. dispatch. Qed.

Lemma cap_ok : padding_cap_ok max_char_padding = true.
Proof. vm_compute. reflexivity. Qed.

(* ------------------------------------------------------------------ *)

Lemma tie_slice_list_is_python :
  forall (l : list val) (a b : option Z), opt_in_window a -> opt_in_window b ->
    (Z.of_nat (length l) < two63)%Z ->
    apply_filter [115; 108; 105; 99; 101] (as_value (VList l)) (as_value (VStr (slice_arg a b)))
    = Ok (as_value (VList (py_slice l a b))).
Proof. intros l a b Ha Hb Hlen. rewrite dispatch_slice. apply slice_list_is_python; assumption. Qed.

Lemma tie_slice_string_is_python :
  forall (s : str) (a b : option Z), opt_in_window a -> opt_in_window b ->
    (Z.of_nat (rune_len s) < two63)%Z ->
    apply_filter [115; 108; 105; 99; 101] (as_value (VStr s)) (as_value (VStr (slice_arg a b)))
    = Ok (as_value (VStr (of_runes (py_slice (runes s) a b)))).
Proof. intros s a b Ha Hb Hlen. rewrite dispatch_slice. apply slice_string_is_python; assumption. Qed.

Lemma tie_length_counts :
  forall (l : list val) (s : str),
    apply_filter [108; 101; 110; 103; 116; 104] (as_value (VList l)) (as_value VNil) = Ok (as_value (VInt (Z.of_nat (length l)))) /\
    apply_filter [108; 101; 110; 103; 116; 104] (as_value (VStr s)) (as_value VNil) = Ok (as_value (VInt (Z.of_nat (rune_len s)))).
Proof. intros l s. rewrite !dispatch_length. apply length_counts. Qed.

Lemma tie_first_last_list :
  forall (x : val) (l : list val),
    apply_filter [102; 105; 114; 115; 116] (as_value (VList (x :: l))) (as_value VNil) = Ok (as_value x) /\
    apply_filter [108; 97; 115; 116] (as_value (VList (l ++ [x]))) (as_value VNil) = Ok (as_value x).
Proof.
  intros x l. rewrite dispatch_first, dispatch_last. split; [apply first_list | apply last_list].
Qed.

Lemma tie_ljust_shape :
  forall (s : str) (w : Z), (0 <= w <= max_char_padding)%Z -> (Z.of_nat (rune_len s) < two63)%Z ->
    exists pad, apply_filter [108; 106; 117; 115; 116] (as_value (VStr s)) (as_value (VInt w)) = Ok (as_value (VStr (s ++ pad))) /\
                all_spaces pad = true /\
                length pad = Z.to_nat (Z.max 0 (w - Z.of_nat (rune_len s))).
Proof. intros s w Hw Hlen. rewrite dispatch_ljust. apply (ljust_shape cap_ok); assumption. Qed.

Lemma tie_rjust_shape :
  forall (s : str) (w : Z), (w <= max_char_padding)%Z ->
    exists pad, apply_filter [114; 106; 117; 115; 116] (as_value (VStr s)) (as_value (VInt w)) = Ok (as_value (VStr (pad ++ s))) /\
                all_spaces pad = true /\
                length pad = Z.to_nat (Z.max 0 (w - Z.of_nat (rune_len s))).
Proof. intros s w Hw. rewrite dispatch_rjust. apply (rjust_shape cap_ok); assumption. Qed.

Lemma tie_center_shape :
  forall (s : str) (w : Z), (Z.of_nat (rune_len s) < w)%Z -> (w - Z.of_nat (rune_len s) <= max_char_padding)%Z ->
    exists left right,
      apply_filter [99; 101; 110; 116; 101; 114] (as_value (VStr s)) (as_value (VInt w)) = Ok (as_value (VStr (left ++ s ++ right))) /\
      all_spaces left = true /\ all_spaces right = true /\
      (length left + length right = Z.to_nat (w - Z.of_nat (rune_len s)))%nat /\
      (length left = length right \/ length left = S (length right)).
Proof. intros s w Hlt Hle. rewrite dispatch_center. apply (center_shape cap_ok); assumption. Qed.

Lemma tie_truncatechars_shape :
  forall (s : str) (n : Z), (0 < n)%Z -> (n < Z.of_nat (rune_len s))%Z ->
    exists kept, apply_filter [116; 114; 117; 110; 99; 97; 116; 101; 99; 104; 97; 114; 115]
                   (as_value (VStr s)) (as_value (VInt n)) = Ok (as_value (VStr (of_runes kept ++ (if (3 <=? n)%Z then ellipsis else [])))) /\
                 kept = firstn (Z.to_nat (if (3 <=? n)%Z then n - 3 else n)) (runes s).
Proof. intros s n Hpos Hlt. rewrite dispatch_truncatechars. apply truncatechars_shape; assumption. Qed.

Lemma tie_divisibleby :
  forall (x d : Z), d <> 0%Z ->
    apply_filter [100; 105; 118; 105; 115; 105; 98; 108; 101; 98; 121] (as_value (VInt x)) (as_value (VInt d))
    = Ok (as_value (VBool (Z.rem x d =? 0)%Z)).
Proof. intros x d Hd. rewrite dispatch_divisibleby. apply divisibleby_int; exact Hd. Qed.

Lemma tie_filters_never_panic :
  forall (name : str) (x p : value) (site : N), apply_filter name x p <> Panic site.
Proof. exact filters_never_panic. Qed.

Print Assumptions tie_slice_list_is_python.
Print Assumptions tie_slice_string_is_python.
Print Assumptions tie_length_counts.
Print Assumptions tie_first_last_list.
Print Assumptions tie_ljust_shape.
Print Assumptions tie_rjust_shape.
Print Assumptions tie_center_shape.
Print Assumptions tie_truncatechars_shape.
Print Assumptions tie_divisibleby.
Print Assumptions tie_filters_never_panic.

From PV Require Export Tie.E2.
