(* Tie for C11 (translation): the loader lookup of template_sets.go - resolveFilename,
   resolveFilenameForLoader, resolveTemplate, isMissing, FromFile, fromFileRelative - as translated
   into gen/LoaderFuncs.v on this run, means what the hand-written lookup of Model/ParseDoc.v says
   (resolve_filename, resolve_template, fetch / compile_file, served, log_misses).  The proofs are
   scripts (Proofs/LoaderFuncs.v): evaluate the interpretation (Spec/SpecLoaderFuncs.v) of the
   regenerated term statement by statement, put what was proved about a called function in the
   place of the call, replace resolveTemplate's loop by [ask_each] through [loaders_loop_search],
   split on what the loaders answer and on the outcome of the compile primitive, compare.  The
   first half (Sections Calls, Ties) is proved for loaders with ANY Abs methods, each its own, so
   that it shows which loader's Abs is called where (a resolveTemplate that resolves the name
   with the first loader for everybody fails there); the second half puts the model's loaders
   (all with FSLoader's Abs, model_abs) and compares with Model/ParseDoc.v.  A
   change of the Go source that changes what a function does makes a script fail here; a change
   outside the translated fragment is a GSUnknown/GEUnknown node (and a translator PROBLEM).

   FINDING of the first run of this tie.  The model fetches a file that a FILE template refers
   to by resolving the name twice: once against the referrer (iname = resolve_filename ...), and
   then, in compile_file/fetch/served, once more from the loaders' root (root_name iname).  The
   Go code (fromFileRelative, isMissing) resolves once.  The two agree exactly when the resolved
   name is its own root name ([same_lookup]); they differ when the referrer's name is rooted, e.g.
   a template loaded as FromFile("/r/a.tpl") that includes "x.tpl": Go asks the loaders for
   "/r/x.tpl", the model for "r/x.tpl" (tie_finding_rooted_referrer; observed on the real code
   with a loader holding both names: Go renders the one, the model the other).  And a file that a
   STRING template refers to is compiled by Go under the loader's name for it, by the model under
   the name as written ([same_name]; tie_finding_string_referrer_name: include "a/.." names the
   template "." in Go and "a/.." in the model, so ITS includes are resolved differently).
   The ties to compile_file, served and log_misses are therefore stated under exactly these two
   hypotheses and named _partial; [same_lookup_unrooted] proves the first one for every referrer
   whose name is not rooted, [same_lookup_string] / [same_name_file] the trivial halves. *)
From PV Require Export Proofs.LoaderFuncs Proofs.PathRoot.
From PV Require Import Model.ParseDoc Model.Api Lib.GoStmt Spec.SpecLoaders Spec.SpecLoaderFuncs gen.LoaderFuncs Proofs.Compose.
From Coq Require Import String Lia.
Open Scope string_scope.

(* the evaluation unfolds the program; fold it again *)
Ltac refold c := let p := eval lazy in c in change p with c.
Ltac lf_enter_prog := lf_enter; refold go_loaderfuncs.
Ltac lf_step_prog := lf_step; refold go_loaderfuncs.
(* the three kinds of referring template: a string template, a file template, none *)
Ltac ref_names :=
  unfold lookup_then_compile, model_name, asked_name, root_name, ref_file_only, resolve_filename, resolved_by,
         ref_isstr, ref_name, ref_val in *.
Ltac ref_cases r := destruct r as [[[|] ?n]|]; ref_names.

(* ---------- a call of resolveFilename / resolveTemplate, at any continuation ---------- *)
Section Calls.
  Variable labs : nat -> loader -> str -> str -> str.      (* every loader's own Abs *)
  Variable compile : str -> bool -> str -> gstate -> res (template * gstate).
  Variable fid : str -> str -> gstate -> str * str.
  Variable X : lcallT.                      (* what runs the calls below the third level: never reached *)
  Notation step := (lf_call_step go_loaderfuncs labs compile fid).

  (* resolveFilename(tpl, path): what the FIRST loader's Abs makes of it; no loader is asked for a
     file, nothing is logged *)
  Lemma rf_call : forall r path l ls g cr k,
    step (step (step X)) LVSet "resolveFilename" [ref_val r; LVStr path] (mkLW (l :: ls) g cr) k =
    k [LVStr (resolved_by (labs 0 l) r path)] (mkLW (l :: ls) g cr).
  Proof.
    intros r path l ls g cr k.
    ref_cases r;
      first [ lf_eval; reflexivity
            | fail 1 "resolveFilename is not: a string template keeps the path, otherwise the first loader's Abs" ].
  Qed.

  (* a set without loaders (NewSet refuses to make one): set.loaders[0] panics *)
  Lemma rf_call_no_loader : forall r path g cr k,
    step (step (step X)) LVSet "resolveFilename" [ref_val r; LVStr path] (mkLW [] g cr) k =
    LPanic "index out of range".
  Proof. intros r path g cr k. ref_cases r; lf_eval; reflexivity. Qed.

  (* the variables of resolveTemplate's scope when the four named results hold a b c d *)
  Definition rt_E (tv pv a b c d : lval) : lenv :=
    match lf_call_env go_resolveTemplate LVSet [tv; pv] with
    | Some (rn, _, env0) => match lall_lhs lenv_assign rn [a; b; c; d] env0 with Some e => e | None => [] end
    | None => []
    end.

  (* resolveTemplate(tpl, path): every loader, in order, resolves the name ITSELF (its own Abs) and
     is asked for that name; the first hit returns (that name, the loader, its reader, nil); after
     the last miss (path, nil, nil, an error); every attempt is logged *)
  Lemma rt_call : forall r path all g cr k,
    step (step (step X)) LVSet "resolveTemplate" [ref_val r; LVStr path] (mkLW all g cr) k =
    match ask_each (fun i l => resolved_by (labs i l) r path) all 0 g with
    | (found, g') => k (lookup_values (fun i l => resolved_by (labs i l) r path) path found) (mkLW all g' cr)
    end.
  Proof.
    intros r path all g cr k.
    ref_cases r.
    all: lf_enter_prog;
      first [ rewrite lf_exec_list_cons, lf_exec_rangeset
            | fail 1 "resolveTemplate no longer starts with a range loop that assigns its variables" ];
      lf_eval_stmt; refold go_loaderfuncs.
    all: lazymatch goal with |- _ = ?R => lazymatch R with context [ask_each ?N _ _ _] =>
      etransitivity;
      [ first [ apply (loaders_loop_search _ _ _ N all cr (rt_E _ (LVStr path))
                         (fun j l c w => k [LVStr (N j l); LVLoader j l; LVReader c; LVNil] w)
                         (fun w => k [LVStr path; LVNil; LVNil; LVErr] w))
                  with (a := LVStr []) (b := LVNil) (c := LVNil) (d := LVNil)
              | fail 1 "resolveTemplate's loop is not over all of set.loaders from the first one, or its variables are not the named results" ];
        [ intros i l a b c d g0 kn'; lf_eval;
          first [ match goal with |- context [assoc_get ?x (l_files l)] => destruct (assoc_get x (l_files l)) end; reflexivity
                | fail 1 "one turn of resolveTemplate's loop is not: this loader resolves the name, is asked for it, a hit returns, a miss goes on" ]
        | intros a b c d w; lf_eval;
          first [ reflexivity | fail 1 "what follows resolveTemplate's loop is not: return path, nil, nil, an error" ] ]
      | destruct (ask_each N all 0 g) as [[[[j l] c]|] g1]; reflexivity ] end end.
  Qed.

  (* the same, by the kind of the first argument (for rewriting) *)
  Lemma rf_call_nil : forall path l ls g cr k,
    step (step (step X)) LVSet "resolveFilename" [LVNil; LVStr path] (mkLW (l :: ls) g cr) k =
    k [LVStr (resolved_by (labs 0 l) None path)] (mkLW (l :: ls) g cr).
  Proof. intros. exact (rf_call None _ _ _ _ _ _). Qed.
  Lemma rf_call_tpl : forall b n path l ls g cr k,
    step (step (step X)) LVSet "resolveFilename" [LVTplRef b n; LVStr path] (mkLW (l :: ls) g cr) k =
    k [LVStr (resolved_by (labs 0 l) (Some (b, n)) path)] (mkLW (l :: ls) g cr).
  Proof. intros. exact (rf_call (Some (b, n)) _ _ _ _ _ _). Qed.
  Lemma rt_call_nil : forall path all g cr k,
    step (step (step X)) LVSet "resolveTemplate" [LVNil; LVStr path] (mkLW all g cr) k =
    match ask_each (fun i l => resolved_by (labs i l) None path) all 0 g with
    | (found, g') => k (lookup_values (fun i l => resolved_by (labs i l) None path) path found) (mkLW all g' cr)
    end.
  Proof. intros. exact (rt_call None _ _ _ _ _). Qed.
  Lemma rt_call_tpl : forall b n path all g cr k,
    step (step (step X)) LVSet "resolveTemplate" [LVTplRef b n; LVStr path] (mkLW all g cr) k =
    match ask_each (fun i l => resolved_by (labs i l) (Some (b, n)) path) all 0 g with
    | (found, g') => k (lookup_values (fun i l => resolved_by (labs i l) (Some (b, n)) path) path found) (mkLW all g' cr)
    end.
  Proof. intros. exact (rt_call (Some (b, n)) _ _ _ _ _). Qed.
End Calls.

(* put what was proved about a called function in the place of the call *)
Ltac lf_calls :=
  first [ rewrite rt_call_nil | rewrite rt_call_tpl | rewrite rf_call_nil | rewrite rf_call_tpl ].
(* one case split on something folded *)
Ltac lf_split :=
  match goal with
  | |- context [ask_each ?n ?ls ?i ?g] => destruct (ask_each n ls i g) as [[[[?j ?l] ?c]|] ?g1]
  | |- context [match ?x with Ok _ => _ | Err _ => _ | Unmod => _ | Fuel => _ | Panic _ => _ end] =>
      destruct x as [[?t ?g2]|?k| | |?s]
  | |- context [str_eqb ?a ?b] => destruct (str_eqb a b)
  end.
(* run a function that calls resolveTemplate / resolveFilename: statement by statement *)
Ltac lf_crunch :=
  first [ reflexivity
        | lf_calls; ref_names; lf_eval_stmt; refold go_loaderfuncs; lf_crunch
        | lf_step_prog; lf_crunch
        | lf_split; lf_eval_stmt; refold go_loaderfuncs; lf_crunch
        | fail 1 "this run of the translated Go function differs from what Model/ParseDoc.v says" ].

Section Ties.
  Variable labs : nat -> loader -> str -> str -> str.
  Variable compile : str -> bool -> str -> gstate -> res (template * gstate).
  Variable fid : str -> str -> gstate -> str * str.
  Notation run := (loader_call go_loaderfuncs labs compile fid).

  (* ---------- resolveFilename ---------- *)
  Lemma tie_resolveFilename_any : forall d, (4 <= d)%nat -> forall r path l ls g cr,
    run d "resolveFilename" [ref_val r; LVStr path] (mkLW (l :: ls) g cr) =
    LOk ([LVStr (resolved_by (labs 0 l) r path)], mkLW (l :: ls) g cr).
  Proof.
    intros d Hd r path l ls g cr. peel_four d Hd. rewrite rf_call. reflexivity.
  Qed.

  Lemma tie_resolveFilename_no_loader_any : forall d, (4 <= d)%nat -> forall r path g cr,
    run d "resolveFilename" [ref_val r; LVStr path] (mkLW [] g cr) = LPanic "index out of range".
  Proof.
    intros d Hd r path g cr. peel_four d Hd. rewrite rf_call_no_loader. reflexivity.
  Qed.

  (* ---------- resolveTemplate ---------- *)
  (* the run, exactly: values and world *)
  Lemma tie_resolveTemplate_run_any : forall d, (4 <= d)%nat -> forall r path all g cr,
    run d "resolveTemplate" [ref_val r; LVStr path] (mkLW all g cr) =
    LOk (lookup_values (fun i l => resolved_by (labs i l) r path) path
                       (fst (ask_each (fun i l => resolved_by (labs i l) r path) all 0 g)),
         mkLW all (snd (ask_each (fun i l => resolved_by (labs i l) r path) all 0 g)) cr).
  Proof.
    intros d Hd r path all g cr. peel_four d Hd. rewrite rt_call.
    destruct (ask_each (fun i l => resolved_by (labs i l) r path) all 0 g) as [found g1]. reflexivity.
  Qed.

  (* ---------- isMissing ---------- *)
  (* for an error of which Sender and Filename can be read: it is a "fromfile" error about the name
     as the FIRST loader resolves it (a string template counting as none) *)
  Lemma tie_isMissing_any : forall d, (4 <= d)%nat -> forall e s fn r fname l ls g cr,
    err_fields e = Some (s, fn) ->
    run d "isMissing" [e; ref_val r; LVStr fname] (mkLW (l :: ls) g cr) =
    LOk ([LVBool (str_eqb s (str_of "fromfile") && str_eqb fn (resolved_by (labs 0 l) (ref_file_only r) fname))],
         mkLW (l :: ls) g cr).
  Proof.
    intros d Hd e s fn r fname l ls g cr He. peel_four d Hd.
    destruct e; try discriminate He; cbn [err_fields] in He; injection He as -> ->.
    all: ref_cases r; lf_enter_prog; lf_crunch.
  Qed.

  (* ---------- FromFile ---------- *)
  (* the run, exactly: every loader is asked for ITS resolution of the name given (no referring
     template); what is found is compiled under the name as given *)
  Lemma tie_FromFile_run_any : forall d, (4 <= d)%nat -> forall filename all g cr,
    run d "FromFile" [LVStr filename] (mkLW all g cr) =
    lookup_then_compile compile fid all (fun i l => resolved_by (labs i l) None filename)
                        (fun _ _ => filename) filename g.
  Proof.
    intros d Hd filename all g cr. peel_four d Hd.
    ref_names. lf_enter_prog. lf_crunch.
  Qed.

  (* ---------- fromFileRelative ---------- *)
  (* the run, exactly: every loader is asked for ITS resolution of the name against the referrer (a
     string template counting as none); what is found is compiled under the name the answering
     loader resolved; the error of a miss names the FIRST loader's resolution *)
  Lemma tie_fromFileRelative_run_any : forall d, (4 <= d)%nat -> forall r fname l ls g cr,
    run d "fromFileRelative" [ref_val r; LVStr fname] (mkLW (l :: ls) g cr) =
    lookup_then_compile compile fid (l :: ls)
                        (fun i l' => resolved_by (labs i l') (ref_file_only r) fname)
                        (fun i l' => resolved_by (labs i l') (ref_file_only r) fname)
                        (resolved_by (labs 0 l) (ref_file_only r) fname) g.
  Proof.
    intros d Hd r fname l ls g cr. peel_four d Hd.
    ref_cases r; lf_enter_prog; lf_crunch.
  Qed.
End Ties.

(* ---------- the same, for the loaders of the model: every loader has FSLoader's Abs ---------- *)
Lemma resolved_by_model : forall i l r path, resolved_by (model_abs i l) r path = model_name r path.
Proof. reflexivity. Qed.
Lemma asked_name_resolved : forall i l r fname, resolved_by (model_abs i l) (ref_file_only r) fname = asked_name r fname.
Proof. intros i l [[[|] n]|] fname; reflexivity. Qed.

Lemma ask_each_model : forall r path all idx g,
  ask_each (fun i l => resolved_by (model_abs i l) r path) all idx g = ask_all all idx (model_name r path) g.
Proof. intros r path all idx g. exact (ask_each_const (model_name r path) all idx g). Qed.

Section ModelTies.
  Variable compile : str -> bool -> str -> gstate -> res (template * gstate).
  Variable fid : str -> str -> gstate -> str * str.
  Notation run := (loader_call go_loaderfuncs model_abs compile fid).

  Lemma tie_resolveFilename : forall d, (4 <= d)%nat -> forall r path l ls g cr,
    run d "resolveFilename" [ref_val r; LVStr path] (mkLW (l :: ls) g cr) =
    LOk ([LVStr (resolve_filename (ref_isstr r) (ref_name r) path)], mkLW (l :: ls) g cr).
  Proof. intros d Hd r path l ls g cr. exact (tie_resolveFilename_any model_abs compile fid d Hd r path l ls g cr). Qed.

  Lemma tie_resolveFilename_no_loader : forall d, (4 <= d)%nat -> forall r path g cr,
    run d "resolveFilename" [ref_val r; LVStr path] (mkLW [] g cr) = LPanic "index out of range".
  Proof. exact (tie_resolveFilename_no_loader_any model_abs compile fid). Qed.

  (* every loader is asked for the one name resolve_filename tpl path *)
  Lemma tie_resolveTemplate_run : forall d, (4 <= d)%nat -> forall r path all g cr,
    run d "resolveTemplate" [ref_val r; LVStr path] (mkLW all g cr) =
    LOk (lookup_values (fun _ _ => model_name r path) path (fst (ask_all all 0 (model_name r path) g)),
         mkLW all (snd (ask_all all 0 (model_name r path) g)) cr).
  Proof.
    intros d Hd r path all g cr.
    rewrite (tie_resolveTemplate_run_any model_abs compile fid d Hd), ask_each_model. reflexivity.
  Qed.

  (* no referring template: result AND log of the model's resolve_template *)
  Lemma tie_resolveTemplate : forall d, (4 <= d)%nat -> forall path all g cr,
    read_lookup (run d "resolveTemplate" [LVNil; LVStr path] (mkLW all g cr)) =
    Some (resolve_template all 0 path g).
  Proof.
    intros d Hd path all g cr.
    rewrite (tie_resolveTemplate_run d Hd None), resolve_template_ask_all.
    change (model_name None path) with (root_name path).
    destruct (ask_all all 0 (root_name path) g) as [[[[j l] c]|] g1]; reflexivity.
  Qed.

  (* any referring template, when the name it resolves to is its own root name *)
  Lemma tie_resolveTemplate_partial : forall d, (4 <= d)%nat -> forall r path all g cr,
    root_name (model_name r path) = model_name r path ->
    read_lookup (run d "resolveTemplate" [ref_val r; LVStr path] (mkLW all g cr)) =
    Some (resolve_template all 0 (model_name r path) g).
  Proof.
    intros d Hd r path all g cr Hst.
    rewrite (tie_resolveTemplate_run d Hd r), resolve_template_ask_all, Hst.
    destruct (ask_all all 0 (model_name r path) g) as [[[[j l] c]|] g1]; reflexivity.
  Qed.

  Lemma tie_isMissing : forall d, (4 <= d)%nat -> forall e s fn r fname l ls g cr,
    err_fields e = Some (s, fn) ->
    run d "isMissing" [e; ref_val r; LVStr fname] (mkLW (l :: ls) g cr) =
    LOk ([LVBool (str_eqb s (str_of "fromfile") && str_eqb fn (asked_name r fname))], mkLW (l :: ls) g cr).
  Proof.
    intros d Hd e s fn r fname l ls g cr He.
    rewrite (tie_isMissing_any model_abs compile fid d Hd e s fn r fname l ls g cr He), asked_name_resolved.
    reflexivity.
  Qed.

  Lemma tie_FromFile_run : forall d, (4 <= d)%nat -> forall filename all g cr,
    run d "FromFile" [LVStr filename] (mkLW all g cr) =
    fetch_then_compile compile fid all (root_name filename) filename filename g.
  Proof.
    intros d Hd filename all g cr.
    exact (tie_FromFile_run_any model_abs compile fid d Hd filename all g cr).
  Qed.

  Lemma tie_fromFileRelative_run : forall d, (4 <= d)%nat -> forall r fname l ls g cr,
    run d "fromFileRelative" [ref_val r; LVStr fname] (mkLW (l :: ls) g cr) =
    fetch_then_compile compile fid (l :: ls) (asked_name r fname) (asked_name r fname) (asked_name r fname) g.
  Proof.
    intros d Hd r fname l ls g cr.
    rewrite (tie_fromFileRelative_run_any model_abs compile fid d Hd).
    destruct r as [[[|] n]|]; reflexivity.
  Qed.
End ModelTies.

(* ---------- when the model asks for the same name as the Go code ---------- *)
(* a file template that is not rooted: always; a rooted one: never *)
Lemma same_lookup_unrooted : forall n f, path_is_abs n = false -> same_lookup (Some (false, n)) f.
Proof. intros n f Hn. exact (fsloader_abs_root_stable n f Hn). Qed.

Lemma same_lookup_rooted : forall n f, path_is_abs n = true -> ~ same_lookup (Some (false, n)) f.
Proof. intros n f Hn. exact (fsloader_abs_root_unstable n f Hn). Qed.

(* no template: always (the root name of a root name is that root name) *)
Lemma same_lookup_nil : forall f, same_lookup None f.
Proof. intros f. exact (fsloader_abs_root_stable [] f eq_refl). Qed.

(* the three together: the lookups differ exactly for file templates with a rooted name *)
Lemma same_lookup_iff : forall r f,
  same_lookup r f <-> match r with Some (false, n) => path_is_abs n = false | _ => True end.
Proof.
  intros [[[|] n]|] f.
  - split; [trivial|intros _; apply same_lookup_string].
  - split.
    + intros H. destruct (path_is_abs n) eqn:E; [|reflexivity]. exfalso. exact (same_lookup_rooted n f E H).
    + apply same_lookup_unrooted.
  - split; [trivial|intros _; apply same_lookup_nil].
Qed.

(* ---------- against the model's fetch, compile_file, served, log_misses ---------- *)
Section Model.
  Variable se : senv.
  Variable f : nat.                                     (* the fuel of the compile primitive *)
  Variable fid : str -> str -> gstate -> str * str.
  Notation run := (loader_call go_loaderfuncs model_abs (compile_src se f) fid).
  Notation all := (se_loaders se).

  (* the loader part of FromFile is the model's fetch, followed by the compile primitive: compile_file *)
  Lemma tie_FromFile : forall d, (4 <= d)%nat -> forall filename g cr,
    read_compiled (run d "FromFile" [LVStr filename] (mkLW all g cr)) =
    Some (compile_file se (S f) filename g).
  Proof.
    intros d Hd filename g cr.
    rewrite (tie_FromFile_run _ _ d Hd), compile_file_S. unfold fetch_then_compile, lookup_then_compile, fetch.
    rewrite resolve_template_ask_all, ask_each_const.
    destruct (ask_all all 0 (root_name filename) g) as [[[[j l] c]|] g1]; cbn [content_of fst snd bind]; [|reflexivity].
    destruct (compile_src se f filename false c g1) as [[t g2]|k| | |s]; reflexivity.
  Qed.

  (* fromFileRelative is compile_file of the name the model resolves, when the model asks the
     loaders for the same name and compiles under the same name as the Go code *)
  Lemma tie_fromFileRelative_partial : forall d, (4 <= d)%nat -> forall r fname l ls g cr,
    all = l :: ls ->
    same_lookup r fname -> same_name r fname ->
    read_compiled (run d "fromFileRelative" [ref_val r; LVStr fname] (mkLW all g cr)) =
    Some (compile_file se (S f) (model_name r fname) g).
  Proof.
    intros d Hd r fname l ls g cr Hall Hlook Hname.
    rewrite Hall, (tie_fromFileRelative_run _ _ d Hd), <- Hall, compile_file_S.
    unfold fetch_then_compile, lookup_then_compile, fetch. rewrite resolve_template_ask_all, ask_each_const.
    unfold same_lookup in Hlook. unfold same_name in Hname. rewrite Hlook, Hname.
    destruct (ask_all all 0 (asked_name r fname) g) as [[[[j l0] c]|] g1]; cbn [content_of fst snd bind]; [|reflexivity].
    destruct (compile_src se f (asked_name r fname) false c g1) as [[t g2]|k| | |s]; reflexivity.
  Qed.

  (* result AND log of a miss: the error names the resolved name, and the state afterwards is the
     model's log_misses (what the model continues with under if_exists) *)
  Lemma tie_fromFileRelative_missing_partial : forall d, (4 <= d)%nat -> forall r fname l ls g cr,
    all = l :: ls ->
    same_lookup r fname ->
    served all (model_name r fname) = false ->
    read_error_value (run d "fromFileRelative" [ref_val r; LVStr fname] (mkLW all g cr)) =
    Some (LVError (str_of "fromfile") (asked_name r fname), log_misses all (model_name r fname) g).
  Proof.
    intros d Hd r fname l ls g cr Hall Hlook Hserved.
    rewrite (served_ask_all _ _ g) in Hserved.
    rewrite log_misses_ask_all
      by (destruct (fst (ask_all all 0 (root_name (model_name r fname)) g)); [discriminate Hserved|reflexivity]).
    unfold same_lookup in Hlook. rewrite Hlook in *.
    rewrite Hall at 1. rewrite (tie_fromFileRelative_run _ _ d Hd), <- Hall.
    unfold fetch_then_compile, lookup_then_compile. rewrite ask_each_const.
    destruct (ask_all all 0 (asked_name r fname) g) as [[[[j l0] c]|] g1]; [discriminate Hserved|reflexivity].
  Qed.
End Model.

(* ---------- isMissing against the model's [served] ---------- *)
(* For the error of a failed fromFileRelative(tpl, filename), isMissing(err, tpl, filename) says
   exactly "no loader serves the name" (the model's condition for if_exists), provided
   - the model asks the loaders for the same name as the Go code (same_lookup), and
   - an error that comes out of the compile primitive (raised further down, while compiling the
     file that WAS found) is not a "fromfile" error about this very name.  The model cannot say
     this itself - its errors carry no file name -; with loaders that answer the same way every
     time it holds, because such an error is about a name that no loader has, and this name was
     just found. *)
Lemma tie_isMissing_is_not_served_partial :
  forall compile fid d, (4 <= d)%nat -> forall r fname l ls g cr e g',
  same_lookup r fname ->
  (forall c g0, fid (asked_name r fname) c g0 <> (str_of "fromfile", asked_name r fname)) ->
  read_error_value (loader_call go_loaderfuncs model_abs compile fid d "fromFileRelative" [ref_val r; LVStr fname] (mkLW (l :: ls) g cr))
    = Some (e, g') ->
  forall g2 cr2,
  read_bool (loader_call go_loaderfuncs model_abs compile fid d "isMissing" [e; ref_val r; LVStr fname] (mkLW (l :: ls) g2 cr2))
    = Some (negb (served (l :: ls) (model_name r fname))).
Proof.
  intros compile fid d Hd r fname l ls g cr e g' Hlook Hfid Hrun g2 cr2.
  rewrite (served_ask_all _ _ g). unfold same_lookup in Hlook. rewrite Hlook.
  rewrite (tie_fromFileRelative_run _ _ d Hd) in Hrun. unfold fetch_then_compile, lookup_then_compile in Hrun.
  rewrite ask_each_const in Hrun.
  destruct (ask_all (l :: ls) 0 (asked_name r fname) g) as [[[[j l0] c]|] g1]; cbn [fst].
  - (* found: the error, if any, is the compile primitive's *)
    destruct (compile (asked_name r fname) false c g1) as [[t g3]|k| | |s]; cbn in Hrun; try discriminate Hrun.
    all: injection Hrun as <- <-.
    all: rewrite (tie_isMissing _ _ d Hd (LVFail _ _ _) _ _ r fname l ls g2 cr2 eq_refl); cbn [read_bool negb]; f_equal.
    all: destruct (str_eqb (fst (fid (asked_name r fname) c g1)) (str_of "fromfile")) eqn:E1; [|reflexivity].
    all: destruct (str_eqb (snd (fid (asked_name r fname) c g1)) (asked_name r fname)) eqn:E2; [|reflexivity].
    all: exfalso; apply (Hfid c g1).
    all: apply str_eqb_eq in E1; apply str_eqb_eq in E2.
    all: destruct (fid (asked_name r fname) c g1) as [s1 s2]; cbn [fst snd] in E1, E2; subst; reflexivity.
  - (* nobody has it: the function's own error *)
    cbn in Hrun. injection Hrun as <- <-.
    rewrite (tie_isMissing _ _ d Hd (LVError _ _) _ _ r fname l ls g2 cr2 eq_refl). cbn [read_bool negb]. f_equal.
    assert (E : str_eqb (asked_name r fname) (asked_name r fname) = true) by (apply str_eqb_eq; reflexivity).
    rewrite E. reflexivity.
Qed.

(* ---------- the findings, on concrete worlds ---------- *)
Notation c11w_run := (loader_call go_loaderfuncs model_abs c11w_no_compile parser_ident 4).

(* FINDING 1.  The template loaded as FromFile("/r/a.tpl") (served as "r/a.tpl", named as given)
   refers to "x.tpl".  Go asks the loaders for "/r/x.tpl"; the model, resolving a second time from
   the root, for "r/x.tpl".  With a loader that holds both, they read different files; with one
   that holds only "r/x.tpl", Go reports the file missing (and isMissing agrees: if_exists renders
   nothing) while the model's [served] is true and it includes the file. *)
Lemma tie_finding_rooted_referrer :
  let x := str_of "x.tpl" in
  let both := [c11w_loader [("/r/x.tpl", "GO"); ("r/x.tpl", "MODEL")]] in
  let one := [c11w_loader [("r/x.tpl", "MODEL")]] in
  same_lookupb c11w_rooted x = false /\
  asked_name c11w_rooted x = str_of "/r/x.tpl" /\
  root_name (model_name c11w_rooted x) = str_of "r/x.tpl" /\
  read_lookup (c11w_run "resolveTemplate" [ref_val c11w_rooted; LVStr x] (mkLW both c11w_g0 false))
    = Some (Some (str_of "GO"), mkG 1 [LGet 0 (str_of "/r/x.tpl") true]) /\
  resolve_template both 0 (model_name c11w_rooted x) c11w_g0
    = (Some (str_of "MODEL"), mkG 1 [LGet 0 (str_of "r/x.tpl") true]) /\
  read_error_value (c11w_run "fromFileRelative" [ref_val c11w_rooted; LVStr x] (mkLW one c11w_g0 false))
    = Some (LVError (str_of "fromfile") (str_of "/r/x.tpl"), mkG 1 [LGet 0 (str_of "/r/x.tpl") false]) /\
  read_bool (c11w_run "isMissing" [LVError (str_of "fromfile") (str_of "/r/x.tpl"); ref_val c11w_rooted; LVStr x]
                      (mkLW one c11w_g0 true)) = Some true /\
  served one (model_name c11w_rooted x) = true.
Proof. vm_compute. repeat split; reflexivity. Qed.

(* FINDING 2.  A string template refers to "a/..".  Both ask the loaders for "."; Go names the
   compiled template ".", the model "a/.." - so a name that THIS template refers to is resolved
   from the top directory by Go and from a/ by the model. *)
Lemma tie_finding_string_referrer_name :
  let x := str_of "a/.." in
  same_nameb c11w_string x = false /\
  asked_name c11w_string x = str_of "." /\
  model_name c11w_string x = str_of "a/.." /\
  root_name (model_name c11w_string x) = asked_name c11w_string x /\
  fsloader_abs (asked_name c11w_string x) (str_of "c") = str_of "c" /\
  fsloader_abs (model_name c11w_string x) (str_of "c") = str_of "a/c".
Proof. vm_compute. repeat split; reflexivity. Qed.

(* The same two findings end to end, on the whole model (Model/Api.v), next to what the real code
   prints for the same loaders (one in-memory loader with FSLoader's Abs and exact lookup; run with
   go run on the repository at the commit this tie was written for):
     files r/a.tpl = {% include "x.tpl" %}, /r/x.tpl = GO, r/x.tpl = MODEL;  FromFile("/r/a.tpl"):
         Go "GO" (Get "r/a.tpl" hit, Get "/r/x.tpl" hit)          model "MODEL"
     files r/a.tpl = [{% include "x.tpl" if_exists %}], r/x.tpl = MODEL;  FromFile("/r/a.tpl"):
         Go "[]" (Get "/r/x.tpl" miss, isMissing true)            model "[MODEL]"
     files r/a.tpl = [{% include "x.tpl" if_exists %}], /r/x.tpl = {% include "nothere" %}:
         Go: error, fromfile /r/nothere (isMissing false)          model "[]"
     files . = DOT{% include "c" %}, a/c = C-in-a, c = C-top;  FromString({% include "a/.." %}):
         Go "DOTC-top"                                             model "DOTC-in-a" *)
Definition c11w_world (fs : list (string * string)) : world :=
  mkWorld [c11w_loader fs] false false [] [] [] [] [].
Lemma tie_finding_model_end_to_end :
  api_render_file (c11w_world [("r/a.tpl", "{% include ""x.tpl"" %}"); ("/r/x.tpl", "GO"); ("r/x.tpl", "MODEL")])
                  (str_of "/r/a.tpl") [] = OOk (str_of "MODEL") /\
  api_render_file (c11w_world [("r/a.tpl", "[{% include ""x.tpl"" if_exists %}]"); ("r/x.tpl", "MODEL")])
                  (str_of "/r/a.tpl") [] = OOk (str_of "[MODEL]") /\
  api_render_file (c11w_world [("r/a.tpl", "[{% include ""x.tpl"" if_exists %}]"); ("/r/x.tpl", "{% include ""nothere"" %}")])
                  (str_of "/r/a.tpl") [] = OOk (str_of "[]") /\
  api_render_string (c11w_world [(".", "DOT{% include ""c"" %}"); ("a/c", "C-in-a"); ("c", "C-top")])
                    (str_of "{% include ""a/.."" %}") [] = OOk (str_of "DOTC-in-a").
Proof. vm_compute. repeat split; reflexivity. Qed.

(* ---------- witnesses: the hypotheses are satisfiable, the runs are not trivial ---------- *)
(* two loaders; the second has d/c.  From the file template d/e, "c" is d/c: a miss on loader 0,
   a hit on loader 1; Go and model ask for the same name and agree *)
Lemma tie_c11w_witness :
  let ls := [c11w_loader [("a", "A")]; c11w_loader [("b", "B"); ("d/c", "C")]] in
  let r : referrer := Some (false, str_of "d/e") in
  let c := str_of "c" in
  same_lookup r c /\ same_name r c /\
  model_name r c = str_of "d/c" /\
  c11w_run "resolveTemplate" [ref_val r; LVStr c] (mkLW ls c11w_g0 false)
    = LOk ([LVStr (str_of "d/c"); LVLoader 1 (c11w_loader [("b", "B"); ("d/c", "C")]); LVReader (str_of "C"); LVNil],
           mkLW ls (mkG 1 [LGet 1 (str_of "d/c") true; LGet 0 (str_of "d/c") false]) false) /\
  resolve_template ls 0 (model_name r c) c11w_g0
    = (Some (str_of "C"), mkG 1 [LGet 1 (str_of "d/c") true; LGet 0 (str_of "d/c") false]) /\
  served ls (model_name r (str_of "zz")) = false /\
  read_error_value (c11w_run "fromFileRelative" [ref_val r; LVStr (str_of "zz")] (mkLW ls c11w_g0 false))
    = Some (LVError (str_of "fromfile") (str_of "d/zz"), log_misses ls (str_of "d/zz") c11w_g0).
Proof.
  cbv zeta. split; [apply same_lookup_unrooted; reflexivity|]. split; [apply same_name_file|].
  vm_compute. repeat split; reflexivity.
Qed.

(* errors whose Sender is the parser's are no fromfile errors *)
Lemma tie_parser_ident_ok : forall name c g0, parser_ident name c g0 <> (str_of "fromfile", name).
Proof. intros name c g0. vm_compute. discriminate. Qed.

(* ---------- what is not understood blocks ---------- *)
Definition c11w_unknown_demo : gfunc :=
  mkGF (Some ("set", "TemplateSet")) "resolveTemplate" ["tpl"; "path"] 4
       [ GSUnknown "for i := len(set.loaders) - 1; i >= 0; i-- { ... }" ].
Lemma tie_loaderfuncs_unknown_blocks : forall labs compile fid d r path w,
  read_lookup (loader_call [c11w_unknown_demo] labs compile fid (S d) "resolveTemplate" [ref_val r; LVStr path] w) = None.
Proof. intros. reflexivity. Qed.

Print Assumptions tie_resolveFilename_any.
Print Assumptions tie_resolveTemplate_run_any.
Print Assumptions tie_isMissing_any.
Print Assumptions tie_FromFile_run_any.
Print Assumptions tie_fromFileRelative_run_any.
Print Assumptions tie_resolveFilename.
Print Assumptions tie_resolveFilename_no_loader.
Print Assumptions tie_resolveTemplate_run.
Print Assumptions tie_resolveTemplate.
Print Assumptions tie_resolveTemplate_partial.
Print Assumptions tie_isMissing.
Print Assumptions tie_FromFile_run.
Print Assumptions tie_FromFile.
Print Assumptions tie_fromFileRelative_run.
Print Assumptions tie_fromFileRelative_partial.
Print Assumptions tie_fromFileRelative_missing_partial.
Print Assumptions tie_isMissing_is_not_served_partial.
Print Assumptions same_lookup_iff.
Print Assumptions tie_finding_rooted_referrer.
Print Assumptions tie_finding_string_referrer_name.
Print Assumptions tie_finding_model_end_to_end.
Print Assumptions tie_c11w_witness.
