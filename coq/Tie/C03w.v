(* Tie for C03 (translation): template_sets.go's BanTag and BanFilter, as translated into
   gen/SetFuncs.v on this run, mean what the set state machine of Model/SetModel.v says (s_step
   on OBanTag / OBanFilter, with the registered names of gen/Tables.v as the registries tags and
   filters), and leave the cache and its mutex alone; every function that creates a template
   returns with the firstTemplateCreated flag set, whatever the functions it calls do, as long as
   they do not clear the flag.  The proofs are the scripts of Proofs/SetFuncs.v run on the
   regenerated terms. *)
From PV Require Export Proofs.SetFuncs gen.Tables.
From PV Require Import Model.SetModel Lib.GoStmt Spec.SpecSet Spec.SpecSetFuncs gen.SetFuncs.
From Coq Require Import String Lia.
Open Scope string_scope.

Lemma tie_BanTag : forall ext d, (2 <= d)%nat -> forall s n,
  observe read_error (set_call go_setfuncs registered_tags registered_filters ext d "BanTag" [SVStr n] (world_of s))
  = Some (s_step s (OBanTag n)).
Proof.
  intros ext d Hd s n. peel_two d Hd.
  destruct s as [files created btags bfilters cache debug stamp fetches].
  sf_crunch.
Qed.

Lemma tie_BanFilter : forall ext d, (2 <= d)%nat -> forall s n,
  observe read_error (set_call go_setfuncs registered_tags registered_filters ext d "BanFilter" [SVStr n] (world_of s))
  = Some (s_step s (OBanFilter n)).
Proof.
  intros ext d Hd s n. peel_two d Hd.
  destruct s as [files created btags bfilters cache debug stamp fetches].
  sf_crunch.
Qed.

(* neither touches the cache map or the mutex *)
Lemma tie_bans_leave_cache_alone : forall tags filters ext d, (2 <= d)%nat -> forall s n m,
  In m ["BanTag"; "BanFilter"] ->
  trace_of (set_call go_setfuncs tags filters ext d m [SVStr n] (world_of s)) = Some [].
Proof.
  intros tags filters ext d Hd s n m Hm. peel_two d Hd.
  destruct s as [files created btags bfilters cache debug stamp fetches].
  cbn [In] in Hm. destruct Hm as [Hm|[Hm|[]]]; subst m; sf_crunch.
Qed.

(* every creator, taken alone: whatever it calls is [ext] (set.FromFile: the model's) *)
Lemma tie_creators_set_flag : forall f, In f go_setcreators ->
  forall tags filters ext, keeps_flag ext -> forall d args w,
  flag_set (set_call [f] tags filters ext d (gf_name f) args w).
Proof.
  intros f Hf tags filters ext H d args w.
  destruct w as [[files created btags bfilters cache debug stamp fetches] lk tr].
  destruct d as [|d]; [exact I|].
  cbn [In go_setcreators] in Hf.
  destruct d as [|d].
  - each_member Hf ltac:(cr_crunch ext H).
  - rewrite set_call_SS.
    match goal with |- context [sf_call ?p ?t ?g ?e d] => generalize (sf_call p t g e d); intros deeper end.
    each_member Hf ltac:(cr_crunch ext H).
Qed.

(* the creators are the six functions of template_sets.go that hand out or render a template *)
Lemma tie_creator_names :
  map gf_name go_setcreators =
  ["FromString"; "FromBytes"; "FromFile"; "RenderTemplateString"; "RenderTemplateBytes"; "RenderTemplateFile"].
Proof. reflexivity. Qed.

(* witness: on a new set "include" is banned; FromString (translated, newTemplateString handing
   back some template and a nil error) sets the flag; after that the ban of "extends" is refused and changes nothing *)
Definition c03w_ext : string -> list sval -> sworld -> list sval * sworld := fun _ _ w => ([SVOpaque; SVNil], w).
Lemma tie_c03w_witness :
  let ban n s := set_call go_setfuncs registered_tags registered_filters no_ext 2 "BanTag" [SVStr (bytes_of_string n)]
                          (world_of s) in
  exists s1 w2,
    observe read_error (ban "include" (s_init [])) = Some (s1, ROk) /\
    s_btags s1 = [bytes_of_string "include"] /\ s_created s1 = false /\
    keeps_flag c03w_ext /\
    set_call [go_set_FromString] [] [] c03w_ext 2 "FromString" [SVStr (bytes_of_string "x")] (world_of s1)
      = GOk ([SVOpaque; SVNil], w2) /\
    s_created (sw_state w2) = true /\
    observe read_error (ban "extends" (sw_state w2)) = Some (sw_state w2, RErr) /\
    observe read_error (ban "no such tag" s1) = Some (s1, RErr).
Proof.
  cbv zeta. do 2 eexists.
  split; [vm_compute; reflexivity|].
  split; [reflexivity|]. split; [reflexivity|].
  split; [intros m args w Hw; exact Hw|].
  split; [vm_compute; reflexivity|].
  vm_compute. repeat split; reflexivity.
Qed.

Print Assumptions tie_BanTag.
Print Assumptions tie_BanFilter.
Print Assumptions tie_bans_leave_cache_alone.
Print Assumptions tie_creators_set_flag.
Print Assumptions tie_c03w_witness.
