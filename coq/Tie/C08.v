(* Property C08: the lemmas of Proofs/WalkProofs.v under the names Props/C08.v cites, plus a
   non-vacuity witness evaluated on the model. *)
From PV Require Import Model.Exec Spec.SpecWalk.
From PV Require Export Proofs.WalkProofs.
Open Scope N_scope.

Definition tie_walk_follows := walk_follows.
Definition tie_resolve_data := resolve_data.
Definition tie_resolve_unknown := resolve_unknown.
Definition tie_ctx_get_update := ctx_get_update.

(* a.b.1 through a map, a struct and a list; then out of range; then an index on a number *)
Definition w_data : val :=
  VMap [ ([98], VStruct [ ([120], VList [VInt 7; VStr [104; 105]]) ]) ].
Lemma tie_c08_witness :
  follow w_data [SKey [98]; SKey [120]; SIdx 1] = FVal (VStr [104; 105]) /\
  follow w_data [SKey [98]; SKey [120]; SIdx 2] = FEmpty /\
  follow w_data [SKey [98]; SKey [121]; SIdx 0] = FEmpty /\
  follow w_data [SKey [98]; SKey [120]; SIdx 0; SIdx 0] = FError.
Proof. vm_compute. repeat split. Qed.
