(* Tie for C20 (translation): template_sets.go's FromCache and CleanCache, as translated into
   gen/SetFuncs.v on this run, mean what the set state machine of Model/SetModel.v says (s_step), and
   touch the cache map only with the set's mutex held.  The proofs are scripts (Proofs/SetFuncs.v):
   evaluate the interpretation (Spec/SpecSetFuncs.v) of the regenerated term, split on Debug, on the
   cache lookup and on the outcome of the compile, compare; CleanCache's loop goes through
   [range_loop_steps].  A change of the Go source that changes what a function does makes a script
   fail here; a change outside the translated fragment is a GSUnknown/GEUnknown node (and a
   translator PROBLEM).

   History: the first run of this tie found Model/SetModel.v stale - since the fix "FromCache could
   only load what the first loader has" a miss loads the name as given (set.FromFile(filename)) and
   caches under the resolved name, while s_step still loaded the resolved name; the two differ for
   instance on "d/x/..".  The model was repaired; tie_FromCache is unconditional, and
   tie_dotdot_name keeps the instance. *)
From PV Require Export Proofs.SetFuncs.
From PV Require Import Model.SetModel Lib.GoStmt Spec.SpecSet Spec.SpecSetFuncs gen.SetFuncs.
From Coq Require Import String Lia.
Open Scope string_scope.

(* ---------- FromCache ---------- *)
Lemma tie_FromCache : forall tags filters ext d, (2 <= d)%nat -> forall s name,
  observe read_template (set_call go_setfuncs tags filters ext d "FromCache" [SVStr name] (world_of s))
  = Some (s_step s (OFromCache name)).
Proof.
  intros tags filters ext d Hd s name. peel_two d Hd.
  destruct s as [files created btags bfilters cache debug stamp fetches].
  sf_crunch.
Qed.

(* the cache map is read and written with the mutex held only, and the mutex is free at the end *)
Lemma tie_FromCache_locked : forall tags filters ext d, (2 <= d)%nat -> forall s name,
  match trace_of (set_call go_setfuncs tags filters ext d "FromCache" [SVStr name] (world_of s)) with
  | Some tr => cache_guarded tr = true
  | None => False
  end.
Proof.
  intros tags filters ext d Hd s name. peel_two d Hd.
  destruct s as [files created btags bfilters cache debug stamp fetches].
  sf_crunch.
Qed.

(* The instance on which model and Go once differed: the set {d: include "y", y} and the name
   "d/x/..", which resolves to "d".  The template d is loaded under the name as given, so it looks
   for what it includes in d/x/: an error, in Go and in the model, and nothing is cached. *)
Definition dotdot_files : list (str * str) :=
  [(bytes_of_string "d", bytes_of_string "{% include ""y"" %}"); (bytes_of_string "y", bytes_of_string "hello")].
Definition dotdot_name : str := bytes_of_string "d/x/..".

Lemma tie_dotdot_name :
  cache_key dotdot_name = bytes_of_string "d" /\
  (forall tags filters ext d, (2 <= d)%nat ->
     observe read_template (set_call go_setfuncs tags filters ext d "FromCache" [SVStr dotdot_name]
                                     (world_of (s_init dotdot_files)))
     = Some (with_created (s_init dotdot_files), RErr)) /\
  s_step (s_init dotdot_files) (OFromCache dotdot_name) = (with_created (s_init dotdot_files), RErr) /\
  snd (s_step (s_init dotdot_files) (OFromCache (cache_key dotdot_name))) = RTpl 1.
Proof.
  split; [vm_compute; reflexivity|].
  assert (E : s_step (s_init dotdot_files) (OFromCache dotdot_name) = (with_created (s_init dotdot_files), RErr))
    by (vm_compute; reflexivity).
  split; [|split; [exact E|vm_compute; reflexivity]].
  intros tags filters ext d Hd. rewrite (tie_FromCache tags filters ext d Hd), E. reflexivity.
Qed.

(* ---------- CleanCache ---------- *)
Lemma tie_CleanCache : forall tags filters ext d, (2 <= d)%nat -> forall s names,
  observe read_nothing (set_call go_setfuncs tags filters ext d "CleanCache" [SVStrs names] (world_of s))
  = Some (s_step s (OCleanCache names)).
Proof.
  intros tags filters ext d Hd s names. peel_two d Hd.
  destruct s as [files created btags bfilters cache debug stamp fetches].
  destruct names as [|n names'].
  - first [ lazy; reflexivity
          | fail 1 "CleanCache() without names differs from the set state machine of Model/SetModel.v" ].
  - sf_cleancache_loop.
    first [ rewrite cleancache_fold_filter; reflexivity
          | fail 1 "CleanCache(names...) differs from the set state machine of Model/SetModel.v" ].
Qed.

Lemma tie_CleanCache_locked : forall tags filters ext d, (2 <= d)%nat -> forall s names,
  match trace_of (set_call go_setfuncs tags filters ext d "CleanCache" [SVStrs names] (world_of s)) with
  | Some tr => cache_guarded tr = true
  | None => False
  end.
Proof.
  intros tags filters ext d Hd s names. peel_two d Hd.
  destruct s as [files created btags bfilters cache debug stamp fetches].
  destruct names as [|n names'].
  - first [ lazy; reflexivity
          | fail 1 "CleanCache() without names touches the cache map without the mutex, or does not end with the mutex free" ].
  - sf_cleancache_loop.
    first [ rewrite !lock_scan_app; cbn [lock_scan]; rewrite lock_scan_writes; reflexivity
          | fail 1 "CleanCache(names...) touches the cache map without the mutex, or does not end with the mutex free" ].
Qed.

(* ---------- what is not understood blocks ---------- *)
(* a node that is not understood blocks the interpretation: nothing like the lemmas above can be
   proved about a function that reaches one *)
Definition c20w_unknown_demo : gfunc :=
  mkGF (Some ("set", "TemplateSet")) "CleanCache" ["filenames"] 0
       [ GSUnknown "go set.clean(filenames)" ].
Lemma tie_setfuncs_unknown_blocks : forall tags filters ext d names w,
  observe read_nothing (set_call [c20w_unknown_demo] tags filters ext (S d) "CleanCache" [SVStrs names] w) = None.
Proof. intros. reflexivity. Qed.

(* ---------- witness ---------- *)
(* One file; FromCache("./a.tpl") misses, compiles once and caches under "a.tpl" (the name is
   not its own resolved form); FromCache("a.tpl") then hits: the same template, nothing changes; CleanCache("x/../a.tpl") removes the entry. *)
Definition c20w_files : list (str * str) := [(bytes_of_string "a.tpl", bytes_of_string "x{{ 1 }}y")].
Definition c20w_run (m : string) (args : list sval) (s : sstate) : sans :=
  set_call go_setfuncs [] [] no_ext 2 m args (world_of s).

Lemma tie_c20w_witness :
  let s0 := s_init c20w_files in
  let a := bytes_of_string "a.tpl" in
  let dot_a := bytes_of_string "./a.tpl" in
  cache_key dot_a = a /\ cache_key a = a /\
  exists s1 s2,
    observe read_template (c20w_run "FromCache" [SVStr dot_a] s0) = Some (s1, RTpl 1) /\
    s_cache s1 = [(a, 1%N)] /\ s_fetches s1 = 1%N /\
    trace_of (c20w_run "FromCache" [SVStr dot_a] s0) = Some [EvLock; EvCacheRead; EvCacheWrite; EvUnlock] /\
    observe read_template (c20w_run "FromCache" [SVStr a] s1) = Some (s1, RTpl 1) /\
    trace_of (c20w_run "FromCache" [SVStr a] s1) = Some [EvLock; EvCacheRead; EvUnlock] /\
    observe read_nothing (c20w_run "CleanCache" [SVStrs [bytes_of_string "x/../a.tpl"]] s1) = Some (s2, ROk) /\
    s_cache s2 = [] /\
    trace_of (c20w_run "CleanCache" [SVStrs [bytes_of_string "x/../a.tpl"]] s1) = Some [EvLock; EvCacheWrite; EvUnlock].
Proof.
  cbv zeta.
  split; [vm_compute; reflexivity|]. split; [vm_compute; reflexivity|].
  do 2 eexists.
  split; [vm_compute; reflexivity|].
  vm_compute. repeat split; reflexivity.
Qed.

Print Assumptions tie_FromCache.
Print Assumptions tie_FromCache_locked.
Print Assumptions tie_dotdot_name.
Print Assumptions tie_CleanCache.
Print Assumptions tie_CleanCache_locked.
Print Assumptions tie_c20w_witness.
