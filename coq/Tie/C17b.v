(* C17, escapejs: the generic lemmas of Proofs/EscB.v instantiated on the generated
   predicate [escapejs_keep] of gen/Tables.v. *)
From PV Require Import Lib.Bytes Lib.Utf8 Lib.GoInt gen.Tables Model.EscFilters Spec.SpecEsc.
From PV Require Import Proofs.EscB.
From Coq Require Import ZifyN ZifyBool Lia.
Open Scope N_scope.

(* The model's loop is the generic one at the generated predicate (same text). *)
Lemma escapejs_go_gen : forall k s, escapejs_go k s = escapejs_gen escapejs_keep k s.
Proof. reflexivity. Qed.

(* The obligation on the generated condition: it keeps only ASCII letters, space and '/'.
   Robust to reordering / equivalent comparisons; fails if the condition lets through anything
   outside [js_plain]. *)
Lemma escapejs_keep_ok : forall z : Z, escapejs_keep z = true ->
  js_plain (Z.to_N z) = true /\ (0 <= z < 128)%Z.
Proof.
  intros z H. unfold escapejs_keep in H.
  unfold js_plain, is_alpha, is_upper, is_lower.
  rewrite ?orb_true_iff, ?andb_true_iff, ?negb_true_iff, ?orb_false_iff, ?andb_false_iff,
    ?Z.leb_le, ?Z.ltb_lt, ?Z.geb_le, ?Z.gtb_lt, ?Z.eqb_eq, ?Z.leb_gt, ?Z.ltb_ge, ?Z.eqb_neq
    in H.
  rewrite ?orb_true_iff, ?andb_true_iff, ?N.leb_le, ?N.eqb_eq.
  lia.
Qed.

Lemma tie_escapejs_alphabet : forall s : str, js_units 0 (filter_escapejs s) <> None.
Proof.
  intros s. unfold filter_escapejs. rewrite escapejs_go_gen.
  apply (escapejs_gen_alphabet escapejs_keep escapejs_keep_ok).
Qed.

(* The byte-range hypothesis is not needed by the proof (list elements >= 256 are treated by
   [decode_rune] as invalid bytes on both sides); it is kept because Props/C17.v states it. *)
Lemma tie_escapejs_decodes : forall s : str,
  Forall (fun b => b < 256) s -> no_bs_rn s = true ->
  js_decode (filter_escapejs s) = Some (valid_runes s).
Proof.
  intros s _ Hn. unfold filter_escapejs.
  rewrite (escapejs_go_gen 0 s).
  apply (escapejs_gen_decodes escapejs_keep escapejs_keep_ok). exact Hn.
Qed.

Lemma tie_escapejs_decodes_refuted :
  ~ (forall s : str, Forall (fun b => b < 256) s -> js_decode (filter_escapejs s) = Some (valid_runes s)).
Proof.
  intros H. specialize (H [92; 110]).
  assert (Hb : Forall (fun b => b < 256) [92; 110]).
  { repeat constructor. }
  specialize (H Hb). vm_compute in H. discriminate H.
Qed.
