(* Tie for property C18, third part: the widthratio law on a maximum of zero.  The lemmas are
   about [exec_node] itself (no generated table is involved). *)
From PV Require Import Lib.GoFloat Model.Value Model.Doc Model.Exec Spec.SpecWidthratio.
From PV Require Export Proofs.Widthratio.
Open Scope N_scope.

Lemma tie_widthratio_zero_max : forall se globals f st cur mx width c st1 m st2 w st3,
  eval se globals f st cur = Ok (c, st1) ->
  eval se globals f st1 mx = Ok (m, st2) ->
  eval se globals f st2 width = Ok (w, st3) ->
  numeric (vv c) -> zero_number (vv m) -> numeric (vv w) ->
  exec_node se globals (S f) st (NWidthratio cur mx width []) = xok text_zero st3.
Proof. exact widthratio_zero_max. Qed.

Lemma tie_widthratio_zero_max_as : forall se globals f st cur mx width name c st1 m st2 w st3,
  eval se globals f st cur = Ok (c, st1) ->
  eval se globals f st1 mx = Ok (m, st2) ->
  eval se globals f st2 width = Ok (w, st3) ->
  numeric (vv c) -> zero_number (vv m) -> numeric (vv w) -> name <> [] ->
  exec_node se globals (S f) st (NWidthratio cur mx width name) = bind_zero st3 name.
Proof. exact widthratio_zero_max_as. Qed.

Lemma tie_widthratio_zero_values :
  zero_number (VInt 0) /\ (forall sign, zero_number (VFloat (S754_zero sign))) /\
  (forall z, numeric (VInt z)) /\ (forall x, numeric (VFloat x)).
Proof.
  split; [exact zero_number_int|]. split; [intro sign; apply zero_number_float; reflexivity|].
  split; [exact numeric_int|exact numeric_float].
Qed.
