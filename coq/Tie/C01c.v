(* Tie for C01c: "the compiler only produces well-formed templates" and what follows from it.
   The lemmas of Proofs/WfParse.v hold for every set environment (any registered / banned
   tags and filters, any loaders; [tag_impl] and [templatetag_map] of gen/Tables.v are only
   looked up), so nothing has to be instantiated on a generated table.  Here they are
   combined with the execution half over the same well-formedness (Proofs/NoPanicExecC.v)
   and with "the compiler does not panic" (Tie/C01.v) into statements that assume nothing
   about the compiler, and carried to the entry points the correspondence driver calls. *)
From PV Require Import Lib.Outcome Model.ParseDoc Model.Exec Model.Api Spec.SpecWf Spec.SpecWfParse.
From PV Require Import Tie.C01.
From PV Require Export Proofs.WfParse Proofs.NoPanicExecC.
Open Scope N_scope.

Definition tie_parse_expr_wf := parse_expr_wf.
Definition tie_tag_args_wf := tag_args_wf.
Definition tie_doc_parsers_wf := doc_parsers_wf.
Definition tie_compile_src_cwf := compile_src_cwf.
Definition tie_compiler_cwf_holds := compiler_cwf_holds.
Definition tie_initial_pst_wf := initial_pst_wf.
Definition tie_wf_template_cwf := wf_template_cwf.
Definition tie_wf_node_cwf := wf_node_cwf.
Definition tie_cx_compiled_not_wf := cx_compiled_not_wf.
Definition tie_compiler_wf_is_false := compiler_wf_is_false.

(* ---- the execution theorems with both compiler hypotheses discharged ---- *)
Lemma tie_exec_compiled_never_panics :
  forall (se : senv) (globals : list (str * cval)), plain_ctx globals ->
  forall (fuel : nat) (g : gstate) (t : template) (ctx : list (str * cval)) (site : N),
    cwf_template t = true -> plain_ctx ctx ->
    snd (exec_template se globals fuel (mkM [] [] g) t ctx) <> Panic site /\
    snd (exec_template_unbuffered se globals fuel (mkM [] [] g) t ctx) <> Panic site.
Proof.
  intros se globals Hg fuel g t ctx site W Hc.
  exact (cwf_exec_never_panics se globals Hg (compiler_cwf_holds se) (tie_compiler_no_panic_holds se)
           fuel g t ctx site W Hc).
Qed.

Lemma tie_exec_never_panics_unconditional :
  forall (se : senv) (globals : list (str * cval)), plain_ctx globals ->
  forall (fuel : nat) (g : gstate) (t : template) (ctx : list (str * cval)) (site : N),
    wf_template t = true -> plain_ctx ctx ->
    snd (exec_template se globals fuel (mkM [] [] g) t ctx) <> Panic site /\
    snd (exec_template_unbuffered se globals fuel (mkM [] [] g) t ctx) <> Panic site.
Proof.
  intros se globals Hg fuel g t ctx site W Hc.
  apply tie_exec_compiled_never_panics; [exact Hg|exact (wf_template_cwf t W)|exact Hc].
Qed.

Lemma tie_exec_in_state_never_panics_unconditional :
  forall (se : senv) (globals : list (str * cval)), plain_ctx globals ->
  forall (fuel : nat) (st : mstate) (t : template) (ctx : list (str * cval)) (site : N),
    cwf_state st -> cwf_template t = true -> cwf_ctx (length (ms_frames st)) ctx ->
    snd (exec_template se globals fuel st t ctx) <> Panic site /\
    snd (exec_template_unbuffered se globals fuel st t ctx) <> Panic site.
Proof.
  intros se globals Hg.
  exact (cwf_exec_template_np se globals Hg (compiler_cwf_holds se) (tie_compiler_no_panic_holds se)).
Qed.

Lemma tie_eval_never_panics_unconditional :
  forall (se : senv) (globals : list (str * cval)), plain_ctx globals ->
  forall (fuel : nat) (st : mstate) (e : expr) (site : N),
    cexec_inv st -> wf_expr e = true -> eval se globals fuel st e <> Panic site.
Proof.
  intros se globals Hg.
  exact (cwf_eval_never_panics se globals Hg (compiler_cwf_holds se) (tie_compiler_no_panic_holds se)).
Qed.

Lemma tie_nodes_never_panic_unconditional :
  forall (se : senv) (globals : list (str * cval)), plain_ctx globals ->
  forall (fuel : nat) (st : mstate) (ns : list node) (site : N),
    cexec_inv st -> forallb cwf_node ns = true ->
    snd (exec_nodes se globals fuel st ns) <> Panic site.
Proof.
  intros se globals Hg.
  exact (cwf_exec_nodes_never_panic se globals Hg (compiler_cwf_holds se) (tie_compiler_no_panic_holds se)).
Qed.

Lemma tie_nodes_keep_invariant_unconditional :
  forall (se : senv) (globals : list (str * cval)), plain_ctx globals ->
  forall (fuel : nat) (st : mstate) (ns : list node) (o : str) (st' : mstate),
    cexec_inv st -> forallb cwf_node ns = true ->
    exec_nodes se globals fuel st ns = (o, Ok st') -> cexec_inv st'.
Proof.
  intros se globals Hg.
  exact (cwf_exec_nodes_keep_invariant se globals Hg (compiler_cwf_holds se) (tie_compiler_no_panic_holds se)).
Qed.

Lemma tie_root_state_cinv :
  forall (globals : list (str * cval)) (t : template) (ctx : list (str * cval)) (e : N) n g,
    plain_ctx globals -> cwf_template t = true -> plain_ctx ctx ->
    cexec_inv (mkM [root_frame globals t ctx e] n g).
Proof.
  intros globals t ctx e n g Hg Wt Hc.
  apply (good_root globals Hg (mkM [] [] g) t ctx e n g); [exact I|exact Wt|apply cwf_ctx_plain, Hc].
Qed.

(* ---- the entry points of Model/Api.v ---- *)
Lemma tie_run_compiled_never_panics :
  forall (w : world) (t : template) (g : gstate) (ctx : list (str * cval)) (site : N),
    plain_ctx (w_globals w) -> cwf_template t = true -> plain_ctx ctx ->
    run_template w t g ctx <> OPanic site.
Proof.
  intros w t g ctx site Hg Wt Hc. unfold run_template. generalize big_fuel. intros fuel H.
  pose proof (proj2 (tie_exec_compiled_never_panics (world_senv w) (w_globals w) Hg fuel g t ctx site Wt Hc)) as P.
  destruct (exec_template_unbuffered (world_senv w) (w_globals w) fuel (mkM [] [] g) t ctx) as [o r].
  destruct r; try discriminate H. injection H as ->. apply P. reflexivity.
Qed.

Lemma tie_run_template_never_panics_unconditional :
  forall (w : world) (t : template) (g : gstate) (ctx : list (str * cval)) (site : N),
    plain_ctx (w_globals w) -> wf_template t = true -> plain_ctx ctx ->
    run_template w t g ctx <> OPanic site.
Proof.
  intros w t g ctx site Hg Wt Hc.
  apply tie_run_compiled_never_panics; [exact Hg|exact (wf_template_cwf t Wt)|exact Hc].
Qed.

(* [obs_of_compile] maps [Ok _] to [OPanic 99], but the entry points only apply it to an
   outcome that is not [Ok]: the [Ok] case has been taken by the branch above it *)
Lemma tie_render_string_never_panics :
  forall (w : world) (src : str) (ctx : list (str * cval)) (site : N),
    plain_ctx (w_globals w) -> plain_ctx ctx -> api_render_string w src ctx <> OPanic site.
Proof.
  intros w src ctx site Hg Hc. unfold api_render_string. generalize big_fuel. intro fuel.
  pose proof (tie_compile_never_panics (world_senv w) fuel [60; 115; 116; 114; 105; 110; 103; 62] true src g0) as Hn.
  destruct (compile_src (world_senv w) fuel [60; 115; 116; 114; 105; 110; 103; 62] true src g0)
    as [[t g]|k| | |s] eqn:E; cbn [obs_of_compile]; try discriminate.
  - unfold run_template. generalize big_fuel. intros fuel' H.
    pose proof (proj2 (tie_exec_compiled_never_panics (world_senv w) (w_globals w) Hg fuel' g t ctx site
                         (compile_src_cwf _ _ _ _ _ _ _ _ E) Hc)) as P.
    destruct (exec_template_unbuffered (world_senv w) (w_globals w) fuel' (mkM [] [] g) t ctx) as [o r].
    destruct r; try discriminate H. injection H as ->. apply P. reflexivity.
  - exfalso. exact (proj1 (Hn s) eq_refl).
Qed.

Lemma tie_render_file_never_panics :
  forall (w : world) (name : str) (ctx : list (str * cval)) (site : N),
    plain_ctx (w_globals w) -> plain_ctx ctx -> api_render_file w name ctx <> OPanic site.
Proof.
  intros w name ctx site Hg Hc. unfold api_render_file. generalize big_fuel. intro fuel.
  pose proof (tie_compile_never_panics (world_senv w) fuel name false [] g0) as Hn.
  destruct (compile_file (world_senv w) fuel name g0) as [[t g]|k| | |s] eqn:E;
    cbn [obs_of_compile]; try discriminate.
  - unfold run_template. generalize big_fuel. intros fuel' H.
    pose proof (proj2 (tie_exec_compiled_never_panics (world_senv w) (w_globals w) Hg fuel' g t ctx site
                         (compiler_cwf_holds _ _ _ _ _ _ E) Hc)) as P.
    destruct (exec_template_unbuffered (world_senv w) (w_globals w) fuel' (mkM [] [] g) t ctx) as [o r].
    destruct r; try discriminate H. injection H as ->. apply P. reflexivity.
  - exfalso. exact (proj2 (Hn s) eq_refl).
Qed.

(* the access-log variant of the file entry point *)
Lemma tie_render_file_log_never_panics :
  forall (w : world) (name : str) (ctx : list (str * cval)) (site : N),
    plain_ctx (w_globals w) -> plain_ctx ctx -> fst (api_render_file_log w name ctx) <> OPanic site.
Proof.
  intros w name ctx site Hg Hc. unfold api_render_file_log. generalize big_fuel. intro fuel.
  pose proof (tie_compile_never_panics (world_senv w) fuel name false [] g0) as Hn.
  destruct (compile_file (world_senv w) fuel name g0) as [[t g]|k| | |s] eqn:E;
    cbn [obs_of_compile fst]; try discriminate.
  - intro H.
    pose proof (proj2 (tie_exec_compiled_never_panics (world_senv w) (w_globals w) Hg fuel g t ctx site
                         (compiler_cwf_holds _ _ _ _ _ _ E) Hc)) as P.
    destruct (exec_template_unbuffered (world_senv w) (w_globals w) fuel (mkM [] [] g) t ctx) as [o r].
    destruct r; cbn [fst] in H; try discriminate H. injection H as ->. apply P. reflexivity.
  - exfalso. exact (proj2 (Hn s) eq_refl).
Qed.

Print Assumptions tie_exec_compiled_never_panics.
Print Assumptions tie_exec_never_panics_unconditional.
Print Assumptions tie_render_string_never_panics.
Print Assumptions tie_render_file_never_panics.
Print Assumptions tie_render_file_log_never_panics.
