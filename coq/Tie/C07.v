(* Tie for property C07: the lemmas of Proofs/Expr{A,B}.v (no generated table is involved:
   the operator symbols the parser looks for are part of the parser model; that the lexer
   produces those tokens from the regenerated symbol table is Tie/C16's side condition and
   the correspondence run). *)
From PV Require Export Proofs.ExprA Proofs.ExprB.
