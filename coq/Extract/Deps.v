(* Everything the extracted model consists of (no proofs): building this file builds the
   executable model even when a proof file is broken. *)
From PV Require Export Lib.Bytes Lib.GoInt Lib.Utf8 gen.Tables gen.Scalar Model.EscFilters Model.Lexer Model.Api Model.SetModel.
