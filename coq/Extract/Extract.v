(* Extraction of the executable model to OCaml for the correspondence check.
   Only ExtrOcamlBasic's directives are used; N, Z, positive, nat stay data types. *)
Require Extraction.
Require Import ExtrOcamlBasic.
From PV Require Import Extract.Deps.
Extraction Language OCaml.
Extraction "model.ml"
  filter_escape filter_addslashes filter_safe filter_escapejs filter_urlencode
  filter_iriencode filter_striptags filter_removetags
  lex api_render_string api_render_file api_render_file_log s_run s_init api_compile_only mkWorld mkLoader apply_filter
  parse_expression parse_fuel itoa format6 fsloader_abs path_clean.
