(* Proofs for property C02 (autoescape).  Parts:
     A  rendering of nil / booleans / integers / floats needs no escaping
     B  no modelled filter marks anything safe (its result is its input, its parameter, or unmarked)
     F  the autoescape flags of the whole context stack survive every evaluator / executor function
     D  in a context without macros, block handles and marked values, expressions yield unmarked
        values and leave the state alone
     C  the output sites: {{ e }}, firstof, cycle, widthratio
     E  {% autoescape %} sets the flag for its body and puts the old one back
   The one-step unfoldings of the big mutual fixpoint come from Proofs/TaintUnfold.v. *)
From PV Require Import Lib.Bytes Lib.GoInt Lib.GoFloat Model.Value Model.Doc Model.Exec Model.Filters Spec.SpecEsc Spec.SpecTaint.
From PV Require Import gen.Tables Proofs.TaintUnfold.
From Coq Require Import ZifyN ZifyNat ZifyBool.
Ltac Zify.zify_post_hook ::= Z.div_mod_to_equations.
Open Scope N_scope.

(* ================= A. rendering ================= *)
(* ---------- inert bytes and clean strings ---------- *)
Lemma inert_clean : forall s, forallb inert_byte s = true -> html_clean s = true.
Proof.
  unfold html_clean. induction s as [|b s IH]; [reflexivity|].
  cbn [forallb amp_ok]. unfold inert_byte at 1. intros H.
  apply andb_true_iff in H. destruct H as [Hb Hs].
  apply andb_true_iff in Hb. destruct Hb as [Hd Ha].
  specialize (IH Hs). apply andb_true_iff in IH. destruct IH as [I1 I2].
  rewrite Hd, I1, I2. apply negb_true_iff in Ha. rewrite Ha. reflexivity.
Qed.

Lemma forallb_app_intro : forall (P : N -> bool) a b,
  forallb P a = true -> forallb P b = true -> forallb P (a ++ b) = true.
Proof. intros P a b Ha Hb. rewrite forallb_app, Ha, Hb. reflexivity. Qed.

Lemma forallb_repeat : forall (P : N -> bool) x n, P x = true -> forallb P (List.repeat x n) = true.
Proof. intros P x n Hx. induction n as [|n IH]; [reflexivity|]. cbn. rewrite Hx, IH. reflexivity. Qed.

Definition digit_or_minus (b : N) : bool := is_digit b || (b =? 45).
Lemma digit_inert : forall b, digit_or_minus b = true -> inert_byte b = true.
Proof.
  intros b. unfold digit_or_minus, is_digit, inert_byte, dangerous. lia.
Qed.

Lemma dec_digits_ok : forall fuel n acc,
  forallb digit_or_minus acc = true -> forallb digit_or_minus (dec_digits fuel n acc) = true.
Proof.
  induction fuel as [|fuel IH]; intros n acc Hacc; [exact Hacc|].
  cbn [dec_digits].
  assert (Hd : forallb digit_or_minus ((48 + Z.to_N (n mod 10)) :: acc) = true).
  { cbn [forallb]. rewrite Hacc, andb_true_r. unfold digit_or_minus, is_digit.
    assert (0 <= n mod 10 < 10)%Z by (apply Z.mod_pos_bound; lia). lia. }
  destruct (n / 10 =? 0)%Z; [exact Hd|]. apply IH. exact Hd.
Qed.

Lemma itoa_ok : forall z, forallb digit_or_minus (itoa z) = true.
Proof.
  intros z. unfold itoa. destruct (z <? 0)%Z.
  - cbn [forallb]. rewrite dec_digits_ok; reflexivity.
  - apply dec_digits_ok. reflexivity.
Qed.

Lemma forallb_impl : forall (P Q : N -> bool) s,
  (forall b, P b = true -> Q b = true) -> forallb P s = true -> forallb Q s = true.
Proof.
  intros P Q s H. induction s as [|b s IH]; [reflexivity|]. cbn. intros Hs.
  apply andb_true_iff in Hs. destruct Hs as [H1 H2]. rewrite (H _ H1), (IH H2). reflexivity.
Qed.

Lemma itoa_inert : forall z, forallb inert_byte (itoa z) = true.
Proof. intros z. apply (forallb_impl _ _ _ digit_inert). apply itoa_ok. Qed.

Lemma itoa_wide_inert : forall z, forallb inert_byte (itoa_wide z) = true.
Proof.
  intros z. apply (forallb_impl _ _ _ digit_inert). unfold itoa_wide. apply dec_digits_ok. reflexivity.
Qed.

Lemma format_fixed_inert : forall d x, forallb inert_byte (format_fixed d x) = true.
Proof.
  intros d x. unfold format_fixed. destruct x as [s|s| |s m e].
  - apply forallb_app_intro; [destruct s; reflexivity|].
    apply forallb_app_intro; [reflexivity|].
    destruct d; [reflexivity|]. cbn [forallb]. rewrite forallb_repeat; reflexivity.
  - destruct s; reflexivity.
  - reflexivity.
  - cbv zeta. apply forallb_app_intro; [destruct s; reflexivity|].
    apply forallb_app_intro; [apply itoa_wide_inert|].
    destruct d; [reflexivity|]. cbn [forallb]. unfold pad_left_zeros.
    rewrite forallb_app_intro; [reflexivity| |apply itoa_inert].
    apply forallb_repeat. reflexivity.
Qed.

(* Value.String() of nil, booleans, integers and floats needs no escaping *)
Lemma to_string_nonstring_inert : forall v s,
  is_string v = false -> to_string v = Some s -> forallb inert_byte s = true.
Proof.
  intros v s Hns Hs. destruct v as [|b|z|x|t|l|m|m]; cbn in Hs; try discriminate.
  - inversion Hs. reflexivity.
  - destruct b; inversion Hs; reflexivity.
  - inversion Hs. apply itoa_inert.
  - inversion Hs. apply format_fixed_inert.
Qed.

(* ================= B. filters ================= *)
(* the result of a filter is its input, its parameter, or an unmarked value *)
Definition passes (x p : value) (r : fres) : Prop :=
  forall v, r = Ok v -> v = x \/ v = p \/ vsafe v = false.

Lemma passes_okv : forall x p v, passes x p (okv v).
Proof. intros x p v r H. inversion H. right. right. reflexivity. Qed.
Lemma passes_x : forall x p, passes x p (Ok x).
Proof. intros x p r H. inversion H. left. reflexivity. Qed.
Lemma passes_p : forall x p, passes x p (Ok p).
Proof. intros x p r H. inversion H. right. left. reflexivity. Qed.
Lemma passes_err : forall x p k, passes x p (Err k).
Proof. intros x p k r H. discriminate. Qed.
Lemma passes_unmod : forall x p, passes x p Unmod.
Proof. intros x p r H. discriminate. Qed.
Lemma passes_bind : forall A x p (r : res A) k,
  (forall a, passes x p (k a)) -> passes x p (bind r k).
Proof. intros A x p r k H. destruct r; cbn [bind]; try (intros v Hv; discriminate). apply H. Qed.

Ltac passes_step :=
  first
    [ apply passes_okv | apply passes_x | apply passes_p | apply passes_err | apply passes_unmod
    | apply passes_bind; intros ?
    | match goal with
      | |- passes _ _ (if ?c then _ else _) => destruct c
      | |- passes _ _ (match ?c with _ => _ end) => destruct c
      | |- passes _ _ (let '(_, _) := ?c in _) => destruct c
      end ].

Lemma apply_filter_passes : forall name x p, passes x p (apply_filter name x p).
Proof.
  intros name x p. unfold apply_filter.
  destruct (assoc_get name filter_impl) as [impl|]; [|apply passes_err].
  cbv zeta. unfold ferr.
  repeat passes_step.
Qed.

Lemma apply_filter_no_launder : forall name x p r,
  apply_filter name x p = Ok r -> vsafe r = true -> vsafe x = true \/ vsafe p = true.
Proof.
  intros name x p r H Hr. destruct (apply_filter_passes name x p r H) as [E|[E|E]].
  - subst r. left. exact Hr.
  - subst r. right. exact Hr.
  - rewrite E in Hr. discriminate Hr.
Qed.

(* what the table has to say for the two filters the property names *)
Lemma apply_filter_escape_g : forall name x p,
  assoc_get name filter_impl = Some [102;105;108;116;101;114;69;115;99;97;112;101] (* filterEscape *) ->
  apply_filter name x p = (do s <- str_of x; okv (VStr (filter_escape s))).
Proof. intros name x p H. unfold apply_filter. rewrite H. reflexivity. Qed.
Lemma apply_filter_safe_g : forall name x p,
  assoc_get name filter_impl = Some [102;105;108;116;101;114;83;97;102;101] (* filterSafe *) ->
  apply_filter name x p = Ok x.
Proof. intros name x p H. unfold apply_filter. rewrite H. reflexivity. Qed.

(* ================= F. the autoescape flags are lexically scoped ================= *)
Notation flags := auto_flags.

Lemma flags_push : forall st fr, flags (push_frame st fr) = f_auto fr :: flags st.
Proof. reflexivity. Qed.
Lemma flags_pop : forall st, flags (pop_frame st) = tl (flags st).
Proof. intros st. unfold auto_flags, pop_frame. cbn [ms_frames]. destruct (ms_frames st); reflexivity. Qed.
Lemma flags_mk : forall fs n g, flags (mkM fs n g) = map f_auto fs.
Proof. reflexivity. Qed.
Lemma flags_ns_set : forall st e n s, flags (ns_set st e n s) = flags st.
Proof. reflexivity. Qed.
Lemma flags_top : forall st fr, top_frame st = Ok fr -> flags st = f_auto fr :: tl (flags st).
Proof.
  intros st fr H. unfold top_frame, auto_flags in *. destruct (ms_frames st) as [|x r]; [discriminate H|].
  inversion H. reflexivity.
Qed.
Lemma flags_set_top : forall st fr', flags (set_top st fr') =
  match flags st with [] => [] | _ :: r => f_auto fr' :: r end.
Proof. intros st fr'. unfold set_top, auto_flags. destruct (ms_frames st) eqn:E; [rewrite E|]; reflexivity. Qed.
Lemma flags_set_top_same : forall st fr fr',
  top_frame st = Ok fr -> f_auto fr' = f_auto fr -> flags (set_top st fr') = flags st.
Proof.
  intros st fr fr' H Ha. rewrite flags_set_top, (flags_top _ _ H), Ha. reflexivity.
Qed.
Lemma flags_set_top_priv : forall st fr p,
  top_frame st = Ok fr -> flags (set_top st (with_priv fr p)) = flags st.
Proof. intros st fr p H. apply (flags_set_top_same _ _ _ H). reflexivity. Qed.
Lemma flags_set_priv : forall st k v st', set_priv st k v = Ok st' -> flags st' = flags st.
Proof.
  intros st k v st' H. unfold set_priv in H. destruct (top_frame st) as [fr| | | |] eqn:E; try discriminate H.
  cbn [bind] in H. inversion H. apply flags_set_top_priv. exact E.
Qed.

Lemma map_update_nth : forall (l : list frame) i x y,
  nth_error l i = Some x -> f_auto y = f_auto x -> map f_auto (update_nth l i y) = map f_auto l.
Proof.
  induction l as [|z l IH]; intros i x y Hn Ha; [reflexivity|].
  destruct i as [|i]; cbn [update_nth map nth_error] in *.
  - inversion Hn. subst z. rewrite Ha. reflexivity.
  - rewrite (IH i x y Hn Ha). reflexivity.
Qed.
Lemma flags_set_frame_at : forall st i fr fr',
  frame_at st i = Some fr -> f_auto fr' = f_auto fr -> flags (set_frame_at st i fr') = flags st.
Proof.
  intros st i fr fr' H Ha. unfold set_frame_at, frame_at, auto_flags in *. cbn [ms_frames].
  rewrite map_rev, (map_update_nth _ _ _ _ H Ha), <- map_rev, rev_involutive. reflexivity.
Qed.

Lemma cycle_out_state : forall fr item v st o st', cycle_out fr item v st = (o, Ok st') -> st' = st.
Proof.
  intros fr item v st o st' H. unfold cycle_out in H. destruct (to_string (vv v)); [|discriminate H].
  match type of H with (if ?c then _ else _) = _ => destruct c end; inversion H; reflexivity.
Qed.

(* one case split on the head scrutinee of H; failing branches go away *)
Ltac fwd1 H :=
  match type of H with
  | bind ?c _ = _ =>
      let E := fresh "E" in destruct c eqn:E; cbn [bind] in H; try discriminate H; cbv beta iota in H
  | match ?c with _ => _ end = _ =>
      let E := fresh "E" in destruct c eqn:E; try discriminate H; cbv beta iota in H
  end.

Section FlagsStep.
  Variable se : senv.
  Variable globals : list (str * cval).
  Variable f : nat.
  Hypothesis IHeval : forall st e a st', eval se globals f st e = Ok (a, st') -> flags st' = flags st.
  Hypothesis IHlist : forall st es a st', eval_list se globals f st es = Ok (a, st') -> flags st' = flags st.
  Hypothesis IHchain : forall st v c a st', apply_chain se globals f st v c = Ok (a, st') -> flags st' = flags st.
  Hypothesis IHres : forall st ps a st', resolve se globals f st ps = Ok (a, st') -> flags st' = flags st.
  Hypothesis IHwalk : forall st cur sf ps a st', walk se globals f st cur sf ps = Ok (a, st') -> flags st' = flags st.
  Hypothesis IHmacro : forall st m fi args a st', call_macro se globals f st m fi args = Ok (a, st') -> flags st' = flags st.
  Hypothesis IHdef : forall st ps a st', macro_defaults se globals f st ps = Ok (a, st') -> flags st' = flags st.
  Hypothesis IHsuper : forall st fi ws a st', call_super se globals f st fi ws = Ok (a, st') -> flags st' = flags st.
  Hypothesis IHnodes : forall st ns o st', exec_nodes se globals f st ns = (o, Ok st') -> flags st' = flags st.
  Hypothesis IHnode : forall st n o st', exec_node se globals f st n = (o, Ok st') -> flags st' = flags st.
  Hypothesis IHif : forall st cs ws i o st', exec_if se globals f st cs ws i = (o, Ok st') -> flags st' = flags st.
  Hypothesis IHfor : forall st k v p b its i c o st', exec_for se globals f st k v p b its i c = (o, Ok st') -> flags st' = flags st.
  Hypothesis IHfirst : forall st args o st', exec_firstof se globals f st args = (o, Ok st') -> flags st' = flags st.
  Hypothesis IHpairs : forall st ps a st', eval_pairs se globals f st ps = Ok (a, st') -> flags st' = flags st.
  Hypothesis IHtag : forall st v c a st', apply_tag_chain se globals f st v c = Ok (a, st') -> flags st' = flags st.
  Hypothesis IHtpl : forall st t c o st', exec_template se globals f st t c = (o, Ok st') -> flags st' = flags st.
  Hypothesis IHtplu : forall st t c o st', exec_template_unbuffered se globals f st t c = (o, Ok st') -> flags st' = flags st.

  (* turn every successful recursive call in the context into a fact about the flags *)
  Ltac harvest :=
    repeat match goal with
      | E : eval se globals f _ _ = Ok (_, _) |- _ => apply IHeval in E
      | E : eval_list se globals f _ _ = Ok (_, _) |- _ => apply IHlist in E
      | E : apply_chain se globals f _ _ _ = Ok (_, _) |- _ => apply IHchain in E
      | E : resolve se globals f _ _ = Ok (_, _) |- _ => apply IHres in E
      | E : walk se globals f _ _ _ _ = Ok (_, _) |- _ => apply IHwalk in E
      | E : call_macro se globals f _ _ _ _ = Ok (_, _) |- _ => apply IHmacro in E
      | E : macro_defaults se globals f _ _ = Ok (_, _) |- _ => apply IHdef in E
      | E : call_super se globals f _ _ _ = Ok (_, _) |- _ => apply IHsuper in E
      | E : exec_nodes se globals f _ _ = (_, Ok _) |- _ => apply IHnodes in E
      | E : exec_node se globals f _ _ = (_, Ok _) |- _ => apply IHnode in E
      | E : exec_if se globals f _ _ _ _ = (_, Ok _) |- _ => apply IHif in E
      | E : exec_for se globals f _ _ _ _ _ _ _ _ = (_, Ok _) |- _ => apply IHfor in E
      | E : exec_firstof se globals f _ _ = (_, Ok _) |- _ => apply IHfirst in E
      | E : eval_pairs se globals f _ _ = Ok (_, _) |- _ => apply IHpairs in E
      | E : apply_tag_chain se globals f _ _ _ = Ok (_, _) |- _ => apply IHtag in E
      | E : exec_template se globals f _ _ _ = (_, Ok _) |- _ => apply IHtpl in E
      | E : exec_template_unbuffered se globals f _ _ _ = (_, Ok _) |- _ => apply IHtplu in E
      | E : set_priv _ _ _ = Ok _ |- _ => apply flags_set_priv in E
      | E : cycle_out _ _ _ _ = (_, Ok _) |- _ => apply cycle_out_state in E; subst
      | E : match ?c with _ => _ end = Ok _ |- _ => destruct c; try discriminate E
      | E : @Ok _ _ = Ok _ |- _ => inversion E; subst; clear E
      end.

  Ltac chase :=
    repeat first
      [ rewrite flags_pop | rewrite flags_push | rewrite flags_ns_set | rewrite flags_mk
      | erewrite flags_set_top_priv by eassumption
      | match goal with |- context [map f_auto (ms_frames ?s)] => change (map f_auto (ms_frames s)) with (flags s) end
      | match goal with Hq : flags ?s = _ |- context [flags ?s] => rewrite Hq end ];
    cbn [tl]; try reflexivity.

  Ltac fin H := unfold xok in H; inversion H; subst; clear H; harvest; chase.

  Lemma eval_step : forall st e a st', eval se globals (S f) st e = Ok (a, st') -> flags st' = flags st.
  Proof.
    intros st e a st' H. rewrite eval_S in H. destruct e; cbv zeta in H; repeat fwd1 H; fin H.
  Qed.

  Lemma eval_list_step : forall st es a st', eval_list se globals (S f) st es = Ok (a, st') -> flags st' = flags st.
  Proof. intros st es a st' H. rewrite eval_list_S in H. repeat fwd1 H; fin H. Qed.
  Lemma apply_chain_step : forall st v c a st', apply_chain se globals (S f) st v c = Ok (a, st') -> flags st' = flags st.
  Proof. intros st v c a st' H. rewrite apply_chain_S in H. repeat fwd1 H; fin H. Qed.
  Lemma resolve_step : forall st ps a st', resolve se globals (S f) st ps = Ok (a, st') -> flags st' = flags st.
  Proof. intros st ps a st' H. rewrite resolve_S in H. cbv zeta in H. repeat fwd1 H; fin H. Qed.
  Lemma walk_step : forall st cur sf ps a st', walk se globals (S f) st cur sf ps = Ok (a, st') -> flags st' = flags st.
  Proof. intros st cur sf ps a st' H. rewrite walk_S in H. cbv zeta in H. repeat fwd1 H; fin H. Qed.
  Lemma macro_defaults_step : forall st ps a st', macro_defaults se globals (S f) st ps = Ok (a, st') -> flags st' = flags st.
  Proof. intros st ps a st' H. rewrite macro_defaults_S in H. repeat fwd1 H; fin H. Qed.
  Lemma eval_pairs_step : forall st ps a st', eval_pairs se globals (S f) st ps = Ok (a, st') -> flags st' = flags st.
  Proof. intros st ps a st' H. rewrite eval_pairs_S in H. repeat fwd1 H; fin H. Qed.
  Lemma apply_tag_chain_step : forall st v c a st', apply_tag_chain se globals (S f) st v c = Ok (a, st') -> flags st' = flags st.
  Proof. intros st v c a st' H. rewrite apply_tag_chain_S in H. repeat fwd1 H; fin H. Qed.
  Lemma exec_nodes_step : forall st ns o st', exec_nodes se globals (S f) st ns = (o, Ok st') -> flags st' = flags st.
  Proof. intros st ns o st' H. rewrite exec_nodes_S in H. repeat fwd1 H; fin H. Qed.
  Lemma exec_if_step : forall st cs ws i o st', exec_if se globals (S f) st cs ws i = (o, Ok st') -> flags st' = flags st.
  Proof. intros st cs ws i o st' H. rewrite exec_if_S in H. repeat fwd1 H; fin H. Qed.
  Lemma exec_for_step : forall st k v p b its i c o st', exec_for se globals (S f) st k v p b its i c = (o, Ok st') -> flags st' = flags st.
  Proof. intros st k v p b its i c o st' H. rewrite exec_for_S in H. cbv zeta in H. repeat fwd1 H; fin H. Qed.
  Lemma exec_firstof_step : forall st args o st', exec_firstof se globals (S f) st args = (o, Ok st') -> flags st' = flags st.
  Proof. intros st args o st' H. rewrite exec_firstof_S in H. repeat fwd1 H; fin H. Qed.
  Lemma exec_template_step : forall st t c o st', exec_template se globals (S f) st t c = (o, Ok st') -> flags st' = flags st.
  Proof. intros st t c o st' H. rewrite exec_template_S in H. repeat fwd1 H; fin H. Qed.
  Lemma exec_template_unbuffered_step : forall st t c o st', exec_template_unbuffered se globals (S f) st t c = (o, Ok st') -> flags st' = flags st.
  Proof. intros st t c o st' H. rewrite exec_template_unbuffered_S in H. cbv zeta in H. repeat fwd1 H; fin H. Qed.

  Lemma call_super_step : forall st fi ws a st', call_super se globals (S f) st fi ws = Ok (a, st') -> flags st' = flags st.
  Proof. intros st fi ws a st' H. rewrite call_super_S in H. cbv zeta in H. repeat fwd1 H; fin H. Qed.
  Lemma exec_node_step : forall st n o st', exec_node se globals (S f) st n = (o, Ok st') -> flags st' = flags st.
  Proof.
    intros st n o st' H. rewrite exec_node_S in H. destruct n; cbv beta iota zeta in H.
    all: repeat fwd1 H.
    all: fin H.
    (* what is left is the autoescape tag: the flag is set, the body keeps it, the old one is put back *)
    match goal with
    | Ht : top_frame st = Ok ?a, Hb : flags ?s1 = flags (set_top st (with_auto ?a _))
      |- flags (set_top ?s1 _) = flags st =>
        rewrite flags_set_top, Hb, flags_set_top, (flags_top _ _ Ht); reflexivity
    end.
  Qed.

  Lemma call_macro_step : forall st m fi args a st', call_macro se globals (S f) st m fi args = Ok (a, st') -> flags st' = flags st.
  Proof.
    intros st m fi args a st' H. rewrite call_macro_S in H. destruct m as [mname params body ex].
    cbv beta iota zeta in H. repeat fwd1 H. unfold xok in H; inversion H; subst; clear H; harvest.
    (* the defining frame's depth is bumped; the defaults run on the stack cut at that frame;
       the body runs in a pushed frame that is popped; the depth goes back *)
    match goal with
    | Hfa : frame_at st fi = Some ?f0,
      Hd : flags ?m = flags (mkM (skipn ?n (ms_frames ?s0)) _ _),
      Hb : flags ?a1 = flags (push_frame _ _) |- _ =>
        assert (H0 : flags s0 = flags st) by (apply (flags_set_frame_at _ _ _ _ Hfa); reflexivity);
        assert (Hgoal : flags (pop_frame a1) = flags st)
          by (rewrite flags_pop, Hb, flags_push; cbn [tl]; rewrite flags_mk, map_app;
              change (map f_auto (ms_frames m)) with (flags m); rewrite Hd, flags_mk;
              rewrite <- map_app, firstn_skipn; exact H0)
    end.
    match goal with
    | |- flags (match ?c with Some _ => _ | None => _ end) = _ => destruct c eqn:Ef; [|exact Hgoal]
    end.
    rewrite (flags_set_frame_at _ _ _ _ Ef); [exact Hgoal|reflexivity].
  Qed.
End FlagsStep.

Section FlagsAll.
  Variable se : senv.
  Variable globals : list (str * cval).

  Definition flags_inv (f : nat) : Prop :=
    (forall st e a st', eval se globals f st e = Ok (a, st') -> flags st' = flags st) /\
    (forall st es a st', eval_list se globals f st es = Ok (a, st') -> flags st' = flags st) /\
    (forall st v c a st', apply_chain se globals f st v c = Ok (a, st') -> flags st' = flags st) /\
    (forall st ps a st', resolve se globals f st ps = Ok (a, st') -> flags st' = flags st) /\
    (forall st cur sf ps a st', walk se globals f st cur sf ps = Ok (a, st') -> flags st' = flags st) /\
    (forall st m fi args a st', call_macro se globals f st m fi args = Ok (a, st') -> flags st' = flags st) /\
    (forall st ps a st', macro_defaults se globals f st ps = Ok (a, st') -> flags st' = flags st) /\
    (forall st fi ws a st', call_super se globals f st fi ws = Ok (a, st') -> flags st' = flags st) /\
    (forall st ns o st', exec_nodes se globals f st ns = (o, Ok st') -> flags st' = flags st) /\
    (forall st n o st', exec_node se globals f st n = (o, Ok st') -> flags st' = flags st) /\
    (forall st cs ws i o st', exec_if se globals f st cs ws i = (o, Ok st') -> flags st' = flags st) /\
    (forall st k v p b its i c o st', exec_for se globals f st k v p b its i c = (o, Ok st') -> flags st' = flags st) /\
    (forall st args o st', exec_firstof se globals f st args = (o, Ok st') -> flags st' = flags st) /\
    (forall st ps a st', eval_pairs se globals f st ps = Ok (a, st') -> flags st' = flags st) /\
    (forall st v c a st', apply_tag_chain se globals f st v c = Ok (a, st') -> flags st' = flags st) /\
    (forall st t c o st', exec_template se globals f st t c = (o, Ok st') -> flags st' = flags st) /\
    (forall st t c o st', exec_template_unbuffered se globals f st t c = (o, Ok st') -> flags st' = flags st).

  Lemma flags_inv_all : forall f, flags_inv f.
  Proof.
    induction f as [|f IH].
    - unfold flags_inv. repeat split; intros; discriminate.
    - destruct IH as (I1 & I2 & I3 & I4 & I5 & I6 & I7 & I8 & I9 & I10 & I11 & I12 & I13 & I14 & I15 & I16 & I17).
      unfold flags_inv. repeat split.
      + apply (eval_step se globals f); assumption.
      + apply (eval_list_step se globals f); assumption.
      + apply (apply_chain_step se globals f); assumption.
      + apply (resolve_step se globals f); assumption.
      + apply (walk_step se globals f); assumption.
      + apply (call_macro_step se globals f); assumption.
      + apply (macro_defaults_step se globals f); assumption.
      + apply (call_super_step se globals f); assumption.
      + apply (exec_nodes_step se globals f); assumption.
      + apply (exec_node_step se globals f); assumption.
      + apply (exec_if_step se globals f); assumption.
      + apply (exec_for_step se globals f); assumption.
      + apply (exec_firstof_step se globals f); assumption.
      + apply (eval_pairs_step se globals f); assumption.
      + apply (apply_tag_chain_step se globals f); assumption.
      + apply (exec_template_step se globals f); assumption.
      + apply (exec_template_unbuffered_step se globals f); assumption.
  Qed.
End FlagsAll.

(* ================= D. plain contexts ================= *)
Lemma ctx_get_plain : forall k m c,
  forallb entry_plain m = true -> ctx_get k m = Some c -> entry_plain (k, c) = true.
Proof.
  intros k m c. induction m as [|[k' v] m IH]; cbn [ctx_get forallb]; [discriminate|].
  intros Hm Hg. apply andb_true_iff in Hm. destruct Hm as [H1 H2].
  destruct (str_eqb k k').
  - inversion Hg. subst v. exact H1.
  - apply IH; assumption.
Qed.


(* "this computation, if it succeeds, leaves the state alone and yields an unmarked value" *)
Definition quiet (st : mstate) (r : res (value * mstate)) : Prop :=
  forall v st', r = Ok (v, st') -> st' = st /\ vsafe v = false.

Lemma quiet_ok : forall st v, vsafe v = false -> quiet st (Ok (v, st)).
Proof. intros st v Hv w st' H. inversion H. subst. split; [reflexivity|exact Hv]. Qed.
Lemma quiet_okv : forall st x, quiet st (Ok (as_value x, st)).
Proof. intros st x. apply quiet_ok. reflexivity. Qed.
Lemma quiet_err : forall st k, quiet st (Err k).
Proof. intros st k v st' H. discriminate. Qed.
Lemma quiet_xerr : forall st, quiet st xerr.
Proof. intros st v st' H. discriminate. Qed.
Lemma quiet_unmod : forall st, quiet st Unmod.
Proof. intros st v st' H. discriminate. Qed.
Lemma quiet_panic : forall st k, quiet st (Panic k).
Proof. intros st k v st' H. discriminate. Qed.
Lemma quiet_bind : forall A st (r : res A) k,
  (forall a, quiet st (k a)) -> quiet st (bind r k).
Proof. intros A st r k H. destruct r; cbn [bind]; try (intros v st' Hv; discriminate). apply H. Qed.
Lemma quiet_bind_val : forall st (r : res value) k,
  (forall a, r = Ok a -> vsafe a = false) ->
  (forall a, vsafe a = false -> quiet st (k a)) -> quiet st (bind r k).
Proof.
  intros st r k Hr H. destruct r; cbn [bind]; try (intros v st' Hv; discriminate).
  apply H. apply Hr. reflexivity.
Qed.
Lemma quiet_bind_ev : forall st (r : res (value * mstate)) k,
  quiet st r -> (forall x, vsafe x = false -> quiet st (k (x, st))) -> quiet st (bind r k).
Proof.
  intros st r k Hr H. destruct r as [[x st1]| | | |]; cbn [bind]; try (intros v st' Hv; discriminate).
  destruct (Hr x st1 eq_refl) as [E Hx]. subst st1. apply H. exact Hx.
Qed.

Section Plain.
  Variable se : senv.
  Variable globals : list (str * cval).

  Lemma apply_filter_se_unsafe : forall name x p r,
    apply_filter_se se name x p = Ok r -> vsafe x = false -> vsafe p = false -> vsafe r = false.
  Proof.
    intros name x p r H Hx Hp. unfold apply_filter_se in H.
    destruct (assoc_get name filter_impl).
    - destruct (apply_filter_passes name x p r H) as [E|[E|E]]; subst; assumption.
    - destruct (str_in name (cfg_filters (se_cfg se))); discriminate.
  Qed.

  Definition plain_inv (f : nat) : Prop :=
    (forall st e, plain_state st -> quiet st (eval se globals f st e)) /\
    (forall st es vs st', plain_state st -> eval_list se globals f st es = Ok (vs, st') -> st' = st) /\
    (forall st v chain, plain_state st -> vsafe v = false -> quiet st (apply_chain se globals f st v chain)) /\
    (forall st parts, plain_state st -> quiet st (resolve se globals f st parts)) /\
    (forall st cur parts, plain_state st -> quiet st (walk se globals f st cur false parts)).

  Ltac quiet_pure :=
    repeat first
      [ apply quiet_okv | apply quiet_err | apply quiet_xerr | apply quiet_unmod | apply quiet_panic
      | apply quiet_bind; intros ?
      | match goal with
        | |- quiet _ (if ?c then _ else _) => destruct c
        | |- quiet _ (match ?c with _ => _ end) => destruct c
        end ].

  Lemma plain_inv_all : forall f, plain_inv f.
  Proof.
    induction f as [|f IH].
    { split; [|split; [|split; [|split]]]; intros; try (intros ? ? Hf; discriminate Hf). discriminate. }
    destruct IH as (IHe & IHl & IHc & IHr & IHw).
    assert (Hev : forall st e, plain_state st -> quiet st (eval se globals (S f) st e)).
    { intros st e Hp. rewrite eval_S. destruct e as [z|x|s|b|parts|items|e0 chain|a b|op a b|ns ng a rest|op a b|ia a b].
      - apply quiet_okv.
      - apply quiet_okv.
      - apply quiet_okv.
      - apply quiet_okv.
      - apply IHr. exact Hp.
      - intros v st' H. destruct (eval_list se globals f st items) as [[vs st1]| | | |] eqn:E; cbn [bind] in H; try discriminate.
        apply IHl in E; [|exact Hp]. subst st1. inversion H. split; reflexivity.
      - apply quiet_bind_ev; [apply IHe; exact Hp|]. intros x Hx. cbv beta iota. apply IHc; assumption.
      - apply quiet_bind_ev; [apply IHe; exact Hp|]. intros x Hx. cbv beta iota.
        apply quiet_bind_ev; [apply IHe; exact Hp|]. intros y Hy. cbv beta iota. quiet_pure.
      - apply quiet_bind_ev; [apply IHe; exact Hp|]. intros x Hx. cbv beta iota.
        apply quiet_bind_ev; [apply IHe; exact Hp|]. intros y Hy. cbv beta iota zeta. quiet_pure.
      - apply quiet_bind_ev; [apply IHe; exact Hp|]. intros t1 Ht1. cbv beta iota zeta.
        assert (Hr1 : vsafe (if ng then as_value (negate (vv t1)) else t1) = false) by (destruct ng; [reflexivity|exact Ht1]).
        set (r1 := if ng then as_value (negate (vv t1)) else t1) in *. clearbody r1.
        apply quiet_bind_val.
        { intros a0 Ha. destruct ns; [|inversion Ha; subst; exact Hr1].
          destruct (is_number (vv r1)); [|discriminate].
          destruct (is_float (vv r1)).
          - destruct (float_of r1); cbn [bind] in Ha; try discriminate. inversion Ha. reflexivity.
          - destruct (int_of r1); cbn [bind] in Ha; try discriminate. inversion Ha. reflexivity. }
        intros r2 Hr2. destruct rest as [[op b]|]; [|apply quiet_ok; exact Hr2].
        apply quiet_bind_ev; [apply IHe; exact Hp|]. intros t2 Ht2. cbv beta iota. quiet_pure.
      - apply quiet_bind_ev; [apply IHe; exact Hp|]. intros x Hx. cbv beta iota.
        apply quiet_bind_ev; [apply IHe; exact Hp|]. intros y Hy. cbv beta iota zeta. quiet_pure.
      - apply quiet_bind_ev; [apply IHe; exact Hp|]. intros x Hx. cbv beta iota.
        destruct ia.
        + destruct (negb (is_true (vv x))); [apply quiet_okv|].
          apply quiet_bind_ev; [apply IHe; exact Hp|]. intros y Hy. cbv beta iota. apply quiet_okv.
        + destruct (is_true (vv x)); [apply quiet_okv|].
          apply quiet_bind_ev; [apply IHe; exact Hp|]. intros y Hy. cbv beta iota. apply quiet_okv. }
    split; [exact Hev|]. split; [|split; [|split]].
    - (* eval_list *)
      intros st es vs st' Hp H. rewrite eval_list_S in H. destruct es as [|e r]; [inversion H; reflexivity|].
      destruct (eval se globals f st e) as [[v st1]| | | |] eqn:E1; cbn [bind] in H; try discriminate.
      destruct (IHe st e Hp v st1 E1) as [Est _]. subst st1.
      destruct (eval_list se globals f st r) as [[vs' st2]| | | |] eqn:E2; cbn [bind] in H; try discriminate.
      apply IHl in E2; [|exact Hp]. subst st2. inversion H. reflexivity.
    - (* apply_chain *)
      intros st v chain Hp Hv. rewrite apply_chain_S. destruct chain as [|[name param] rest]; [apply quiet_ok; exact Hv|].
      apply quiet_bind_ev.
      { destruct param as [pe|]; [apply IHe; exact Hp|apply quiet_okv]. }
      intros p Hpv. cbv beta iota.
      destruct (apply_filter_se se name v p) as [r| | | |] eqn:Ef; cbn [bind]; try (intros ? ? Hd; discriminate).
      apply IHc; [exact Hp|]. eapply apply_filter_se_unsafe; eassumption.
    - (* resolve *)
      intros st parts Hp. rewrite resolve_S. destruct Hp as [fr [Htop Hfp]].
      assert (Hp : plain_state st) by (exists fr; split; assumption).
      destruct parts as [|[name call|i call|e call] rest]; try apply quiet_panic.
      rewrite Htop. cbn [bind]. cbv zeta.
      unfold frame_plain in Hfp. apply andb_true_iff in Hfp. destruct Hfp as [Hpriv Hpub].
      assert (Hentry : forall c, match ctx_get name (f_priv fr) with Some c0 => Some c0 | None => ctx_get name (f_pub fr) end = Some c ->
                                 entry_plain (name, c) = true).
      { intros c Hc. destruct (ctx_get name (f_priv fr)) as [c0|] eqn:E1.
        - inversion Hc; subst. exact (ctx_get_plain _ _ _ Hpriv E1).
        - exact (ctx_get_plain _ _ _ Hpub Hc). }
      destruct (match ctx_get name (f_priv fr) with Some c0 => Some c0 | None => ctx_get name (f_pub fr) end) as [c|];
        [|apply quiet_okv].
      specialize (Hentry c eq_refl). destruct c as [v|m fi|fi ws|cid cargs cs cv]; cbn in Hentry; try discriminate Hentry.
      + apply negb_true_iff in Hentry. rewrite Hentry.
        destruct (vv v); try apply quiet_okv; (destruct call; [apply quiet_xerr|apply IHw; exact Hp]).
      + apply quiet_unmod.
    - (* walk *)
      intros st cur parts Hp. rewrite walk_S. destruct parts as [|p rest]; [apply quiet_ok; reflexivity|].
      cbv zeta. destruct p as [name call|i call|e call].
      + destruct cur; try apply quiet_xerr;
          (destruct (assoc_get name m) as [[]|]; try apply quiet_okv;
           (destruct call; [apply quiet_xerr|apply IHw; exact Hp])).
      + destruct (indexable cur); [|apply quiet_xerr].
        destruct (index_val cur i) as [[]|]; try apply quiet_okv;
          (destruct call; [apply quiet_xerr|apply IHw; exact Hp]).
      + destruct cur; try apply quiet_xerr.
        * apply quiet_bind_ev; [apply IHe; exact Hp|]. intros sv Hsv. cbv beta iota.
          destruct (vv sv) as [|?|si|?|?|?|?|?]; try apply quiet_okv.
          destruct (index_val (VStr s) si) as [[]|]; try apply quiet_okv;
            (destruct call; [apply quiet_xerr|apply IHw; exact Hp]).
        * apply quiet_bind_ev; [apply IHe; exact Hp|]. intros sv Hsv. cbv beta iota.
          destruct (vv sv) as [|?|si|?|?|?|?|?]; try apply quiet_okv.
          destruct (index_val (VList l) si) as [[]|]; try apply quiet_okv;
            (destruct call; [apply quiet_xerr|apply IHw; exact Hp]).
        * apply quiet_bind_ev; [apply IHe; exact Hp|]. intros sv Hsv. cbv beta iota.
          destruct (vv sv); try apply quiet_okv.
          destruct (assoc_get s m) as [[]|]; try apply quiet_okv;
            (destruct call; [apply quiet_xerr|apply IHw; exact Hp]).
        * apply quiet_bind_ev; [apply IHe; exact Hp|]. intros sv Hsv. cbv beta iota.
          apply quiet_bind; intros k.
          destruct (assoc_get k m) as [[]|]; try apply quiet_okv;
            (destruct call; [apply quiet_xerr|apply IHw; exact Hp]).
  Qed.
End Plain.

(* ================= C / E. output sites, the autoescape tag ================= *)
Lemma top_set_top : forall st fr fr', top_frame st = Ok fr -> top_frame (set_top st fr') = Ok fr'.
Proof. intros st fr fr' H. unfold top_frame, set_top in *. destruct (ms_frames st); [discriminate H|reflexivity]. Qed.

Section Sites.
  Variable se : senv.
  Variable globals : list (str * cval).
  Hypothesis esc_clean : forall s, html_clean (filter_escape s) = true.


  Lemma autoescaped_clean : forall v s, to_string v = Some s -> html_clean (autoescaped v s) = true.
  Proof.
    intros v s Hs. unfold autoescaped. destruct (is_string v) eqn:E; [apply esc_clean|].
    apply inert_clean. eapply to_string_nonstring_inert; eassumption.
  Qed.

  Lemma escape_inert_clean : forall v s,
    is_string v = false -> to_string v = Some s -> html_clean s = true.
  Proof. intros v s H1 H2. apply inert_clean. eapply to_string_nonstring_inert; eassumption. Qed.

  (* ----- {{ e }} ----- *)
  Lemma exec_node_S_var : forall f st e,
    exec_node se globals (S f) st (NVar e) =
      match eval se globals f st e with
      | Ok (v, st1) =>
          match top_frame st1 with
          | Ok fr =>
              match to_string (vv v) with
              | None => ([], Unmod)
              | Some s =>
                  if negb (filter_applied n_safe e) && negb (vsafe v) && is_string (vv v) && f_auto fr
                  then xok (filter_escape s) st1 else xok s st1
              end
          | other => xfail [] other
          end
      | other => xfail [] other
      end.
  Proof. reflexivity. Qed.

  Lemma var_output_escaped : forall f st e v st1 fr s,
    eval se globals f st e = Ok (v, st1) -> top_frame st1 = Ok fr -> f_auto fr = true ->
    vsafe v = false -> filter_applied n_safe e = false -> to_string (vv v) = Some s ->
    exec_node se globals (S f) st (NVar e) = xok (autoescaped (vv v) s) st1.
  Proof.
    intros f st e v st1 fr s He Ht Ha Hv Hf Hs.
    rewrite exec_node_S_var, He, Ht, Hs, Hf, Hv, Ha. unfold autoescaped.
    destruct (is_string (vv v)); reflexivity.
  Qed.

  Lemma var_output_unmodelled : forall f st e v st1 fr,
    eval se globals f st e = Ok (v, st1) -> top_frame st1 = Ok fr -> to_string (vv v) = None ->
    exec_node se globals (S f) st (NVar e) = ([], Unmod).
  Proof. intros f st e v st1 fr He Ht Hs. rewrite exec_node_S_var, He, Ht, Hs. reflexivity. Qed.

  Lemma var_site : forall fuel st e o st' fr,
    exec_node se globals fuel st (NVar e) = (o, Ok st') ->
    top_frame st' = Ok fr -> f_auto fr = true -> filter_applied n_safe e = false ->
    exists f v, fuel = S f /\ eval se globals f st e = Ok (v, st') /\ escaped_or_marked o v.
  Proof.
    intros fuel st e o st' fr H Ht Ha Hf. destruct fuel as [|f]; [discriminate H|].
    rewrite exec_node_S_var in H.
    destruct (eval se globals f st e) as [[v st1]| | | |] eqn:He; try discriminate H.
    destruct (top_frame st1) as [fr1| | | |] eqn:Ht1; try discriminate H.
    destruct (to_string (vv v)) as [s|] eqn:Hs; [|discriminate H].
    rewrite Hf in H. cbn [negb andb] in H.
    assert (Hst : st1 = st').
    { destruct (negb (vsafe v) && is_string (vv v) && f_auto fr1); inversion H; reflexivity. }
    subst st1. rewrite Ht in Ht1. inversion Ht1. subst fr1. rewrite Ha, andb_true_r in H.
    exists f, v. split; [reflexivity|]. split; [exact He|].
    destruct (vsafe v) eqn:Hv; cbn [negb andb] in H.
    - right. inversion H. subst s. split; assumption.
    - left. destruct (is_string (vv v)) eqn:Hstr; inversion H; subst o.
      + apply esc_clean.
      + eapply escape_inert_clean; eassumption.
  Qed.

  (* ----- {% firstof %} ----- *)
  Lemma exec_node_S_firstof : forall f st args,
    exec_node se globals (S f) st (NFirstof args) = exec_firstof se globals f st args.
  Proof. reflexivity. Qed.

  Lemma firstof_site : forall fuel st args o st' fr,
    exec_firstof se globals fuel st args = (o, Ok st') ->
    top_frame st' = Ok fr -> f_auto fr = true -> none_safe args = true ->
    o = [] \/
    exists a v s f st0, In a args /\ eval se globals f st0 a = Ok (v, st') /\ is_true (vv v) = true /\
                        to_string (vv v) = Some s /\ o = filter_escape s.
  Proof.
    induction fuel as [|f IH]; intros st args o st' fr H Ht Ha Hn; [discriminate H|].
    rewrite exec_firstof_S in H. destruct args as [|a rest]; [inversion H; left; reflexivity|].
    cbn [none_safe forallb] in Hn. apply andb_true_iff in Hn. destruct Hn as [Hna Hnr].
    apply negb_true_iff in Hna.
    destruct (eval se globals f st a) as [[v st1]| | | |] eqn:He; try discriminate H.
    destruct (is_true (vv v)) eqn:Htr.
    - destruct (top_frame st1) as [fr1| | | |] eqn:Ht1; try discriminate H.
      destruct (to_string (vv v)) as [s|] eqn:Hs; [|discriminate H].
      change [115; 97; 102; 101] with n_safe in H. rewrite Hna in H. cbn [negb] in H. rewrite andb_true_r in H.
      assert (Hst : st1 = st') by (destruct (f_auto fr1); inversion H; reflexivity).
      subst st1. rewrite Ht in Ht1. inversion Ht1. subst fr1. rewrite Ha in H. inversion H.
      right. exists a, v, s, f, st. repeat split; try assumption. left. reflexivity.
    - destruct (IH st1 rest o st' fr H Ht Ha Hnr) as [E|(a' & v' & s & f' & st0 & Hin & R)]; [left; exact E|].
      right. exists a', v', s, f', st0. split; [right; exact Hin|exact R].
  Qed.

  Lemma firstof_output_clean : forall fuel st args o st' fr,
    exec_node se globals fuel st (NFirstof args) = (o, Ok st') ->
    top_frame st' = Ok fr -> f_auto fr = true -> none_safe args = true ->
    html_clean o = true.
  Proof.
    intros fuel st args o st' fr H Ht Ha Hn. destruct fuel as [|f]; [discriminate H|].
    rewrite exec_node_S_firstof in H.
    destruct (firstof_site f st args o st' fr H Ht Ha Hn) as [E|(a & v & s & f' & st0 & _ & _ & _ & _ & E)];
      subst o; [reflexivity|apply esc_clean].
  Qed.

  (* ----- {% cycle %} ----- *)
  Lemma cycle_out_escaped : forall fr item v st s,
    f_auto fr = true -> vsafe v = false -> filter_applied n_safe item = false ->
    to_string (vv v) = Some s ->
    cycle_out fr item v st = xok (autoescaped (vv v) s) st.
  Proof.
    intros fr item v st s Ha Hv Hf Hs. unfold cycle_out, autoescaped.
    change [115; 97; 102; 101] with n_safe. rewrite Hs, Ha, Hv, Hf.
    destruct (is_string (vv v)); reflexivity.
  Qed.

  Lemma cycle_out_site : forall fr item v st o st',
    cycle_out fr item v st = (o, Ok st') ->
    f_auto fr = true -> filter_applied n_safe item = false ->
    st' = st /\ escaped_or_marked o v.
  Proof.
    intros fr item v st o st' H Ha Hf. unfold cycle_out in H.
    change [115; 97; 102; 101] with n_safe in H.
    destruct (to_string (vv v)) as [s|] eqn:Hs; [|discriminate H].
    rewrite Ha, Hf in H. cbn [negb andb] in H. rewrite andb_true_r in H.
    destruct (vsafe v) eqn:Hv; cbn [negb andb] in H.
    - inversion H. subst. split; [reflexivity|]. right. split; assumption.
    - destruct (is_string (vv v)) eqn:Hstr; inversion H; subst; (split; [reflexivity|]); left.
      + apply esc_clean.
      + eapply escape_inert_clean; eassumption.
  Qed.

  Lemma none_safe_nth : forall args k,
    none_safe args = true -> filter_applied n_safe (nth k args (EBool false)) = false.
  Proof.
    induction args as [|a r IH]; intros k Hn.
    - destruct k; reflexivity.
    - cbn [none_safe forallb] in Hn. apply andb_true_iff in Hn. destruct Hn as [H1 H2].
      destruct k; cbn [nth]; [apply negb_true_iff; exact H1|apply IH; exact H2].
  Qed.


  Lemma cycle_site : forall fuel st id args asname silent o st' fr,
    exec_node se globals fuel st (NCycle id args asname silent) = (o, Ok st') ->
    top_frame st = Ok fr -> f_auto fr = true -> none_safe args = true -> cycles_none_safe fr ->
    o = [] \/ exists item v f st0 st1, eval se globals f st0 item = Ok (v, st1) /\ escaped_or_marked o v.
  Proof.
    intros fuel st id args asname silent o st' fr H Ht Ha Hn Hc.
    destruct fuel as [|f]; [discriminate H|].
    rewrite exec_node_S in H. cbv beta iota zeta in H. rewrite Ht in H.
    match type of H with
    | context [match ?c with Some _ => _ | None => _ end] =>
        match c with
        | context [ctx_get] => destruct c as [[[[nm cid] cargs] csilent]|] eqn:Ecyc
        end
    end.
    - (* a cycle handle from the context *)
      assert (Hcargs : none_safe cargs = true).
      { match type of Ecyc with
        | match ?it with _ => _ end = _ => destruct it as [| | | | | |e0 ch| | | | |]; try discriminate Ecyc;
            destruct e0 as [| | | |ps| | | | | | |]; try discriminate Ecyc;
            destruct ps as [|[n0 [c0|]|?|?] [|? ?]]; try discriminate Ecyc;
            destruct ch; try discriminate Ecyc
        end.
        destruct (ctx_get n0 (f_priv fr)) as [[| | |cid' cargs' cs' cv']|] eqn:Eg; try discriminate Ecyc.
        inversion Ecyc. subst. eapply Hc. exact Eg. }
      match type of H with
      | context [eval se globals f ?s ?it] => destruct (eval se globals f s it) as [[v st2]| | | |] eqn:He; try discriminate H
      end.
      destruct (set_priv st2 nm (CCycle cid cargs csilent v)) as [st3| | | |]; try discriminate H.
      destruct csilent; [inversion H; left; reflexivity|].
      apply cycle_out_site in H; [|exact Ha|apply none_safe_nth; exact Hcargs].
      destruct H as [_ H]. right. eexists _, v, f, _, st2. split; [exact He|exact H].
    - match type of H with
      | context [eval se globals f ?s ?it] => destruct (eval se globals f s it) as [[v st1]| | | |] eqn:He; try discriminate H
      end.
      match type of H with
      | context [match ?c with Ok _ => _ | _ => _ end] => destruct c as [st2| | | |]; try discriminate H
      end.
      destruct silent; [inversion H; left; reflexivity|].
      apply cycle_out_site in H; [|exact Ha|apply none_safe_nth; exact Hn].
      destruct H as [_ H]. right. eexists _, v, f, _, st1. split; [exact He|exact H].
  Qed.

  (* ----- {% autoescape on|off %} ----- *)
  Lemma exec_node_S_autoescape : forall f st on body,
    exec_node se globals (S f) st (NAutoescape on body) =
      match top_frame st with
      | Ok fr =>
          let old := f_auto fr in
          match exec_nodes se globals f (set_top st (with_auto fr on)) body with
          | (o, Ok st1) =>
              match top_frame st1 with
              | Ok fr1 => xok o (set_top st1 (with_auto fr1 old))
              | other => xfail o other
              end
          | other => other
          end
      | other => xfail [] other
      end.
  Proof. reflexivity. Qed.

  Lemma autoescape_region : forall fuel st on body o st',
    exec_node se globals fuel st (NAutoescape on body) = (o, Ok st') ->
    exists f fr st1 fr1,
      fuel = S f /\ top_frame st = Ok fr /\
      exec_nodes se globals f (set_top st (with_auto fr on)) body = (o, Ok st1) /\
      top_frame (set_top st (with_auto fr on)) = Ok (with_auto fr on) /\
      top_frame st1 = Ok fr1 /\
      st' = set_top st1 (with_auto fr1 (f_auto fr)) /\
      top_frame st' = Ok (with_auto fr1 (f_auto fr)).
  Proof.
    intros fuel st on body o st' H. destruct fuel as [|f]; [discriminate H|].
    rewrite exec_node_S_autoescape in H.
    destruct (top_frame st) as [fr| | | |] eqn:Ht; try discriminate H. cbv zeta in H.
    destruct (exec_nodes se globals f (set_top st (with_auto fr on)) body) as [o1 [st1| | | |]] eqn:Hb; try discriminate H.
    destruct (top_frame st1) as [fr1| | | |] eqn:Ht1; try discriminate H.
    inversion H. subst o1. exists f, fr, st1, fr1.
    split; [reflexivity|]. split; [reflexivity|]. split; [exact Hb|].
    split; [eapply top_set_top; exact Ht|]. split; [exact Ht1|]. split; [reflexivity|].
    eapply top_set_top. exact Ht1.
  Qed.
End Sites.

(* ================= G. assembled statements ================= *)
Lemma auto_on_flags : forall st, auto_on st <-> exists r, flags st = true :: r.
Proof.
  intros st. unfold auto_on, top_frame, auto_flags. split.
  - intros (fr & Ht & Ha). destruct (ms_frames st) as [|x r]; [discriminate Ht|].
    inversion Ht. subst x. exists (map f_auto r). cbn [map]. rewrite Ha. reflexivity.
  - intros (r & Hr). destruct (ms_frames st) as [|x l]; [discriminate Hr|].
    cbn [map] in Hr. inversion Hr. exists x. split; reflexivity.
Qed.

Lemma auto_on_transport : forall st st', flags st' = flags st -> auto_on st -> auto_on st'.
Proof.
  intros st st' H Ha. apply auto_on_flags in Ha. destruct Ha as [r Hr].
  apply auto_on_flags. exists r. rewrite H. exact Hr.
Qed.

Lemma apply_filter_se_passes : forall se name x p, passes x p (apply_filter_se se name x p).
Proof.
  intros se name x p. unfold apply_filter_se. destruct (assoc_get name filter_impl).
  - apply apply_filter_passes.
  - destruct (str_in name (cfg_filters (se_cfg se))); [apply passes_unmod|apply passes_err].
Qed.

Section Assembled.
  Variable se : senv.
  Variable globals : list (str * cval).
  Hypothesis esc_clean : forall s, html_clean (filter_escape s) = true.

  (* F, projected *)
  Lemma eval_keeps_flags : forall f st e v st',
    eval se globals f st e = Ok (v, st') -> auto_flags st' = auto_flags st.
  Proof. intros f. exact (proj1 (flags_inv_all se globals f)). Qed.
  Lemma exec_nodes_keeps_flags : forall f st ns o st',
    exec_nodes se globals f st ns = (o, Ok st') -> auto_flags st' = auto_flags st.
  Proof.
    intros f. destruct (flags_inv_all se globals f) as (_ & _ & _ & _ & _ & _ & _ & _ & H & _). exact H.
  Qed.
  Lemma exec_node_keeps_flags : forall f st n o st',
    exec_node se globals f st n = (o, Ok st') -> auto_flags st' = auto_flags st.
  Proof.
    intros f. destruct (flags_inv_all se globals f) as (_ & _ & _ & _ & _ & _ & _ & _ & _ & H & _). exact H.
  Qed.
  Lemma exec_template_keeps_flags : forall f st t ctx o st',
    exec_template_unbuffered se globals f st t ctx = (o, Ok st') -> auto_flags st' = auto_flags st.
  Proof.
    intros f. destruct (flags_inv_all se globals f)
      as (_ & _ & _ & _ & _ & _ & _ & _ & _ & _ & _ & _ & _ & _ & _ & _ & H). exact H.
  Qed.

  (* D, projected *)
  Lemma eval_plain : forall f st e v st',
    plain_state st -> eval se globals f st e = Ok (v, st') -> st' = st /\ vsafe v = false.
  Proof. intros f st e v st' Hp H. exact (proj1 (plain_inv_all se globals f) st e Hp v st' H). Qed.

  (* {{ e }} with the flag read before the expression is evaluated *)
  Lemma var_output_escaped_on : forall f st e v st1 s,
    auto_on st -> eval se globals f st e = Ok (v, st1) ->
    vsafe v = false -> filter_applied n_safe e = false -> to_string (vv v) = Some s ->
    exec_node se globals (S f) st (NVar e) = xok (autoescaped (vv v) s) st1 /\
    html_clean (autoescaped (vv v) s) = true.
  Proof.
    intros f st e v st1 s Ha He Hv Hf Hs.
    destruct (auto_on_transport st st1 (eval_keeps_flags _ _ _ _ _ He) Ha) as (fr & Ht & Hfa).
    split.
    - eapply var_output_escaped; eassumption.
    - apply autoescaped_clean; assumption.
  Qed.

  Lemma var_site_on : forall fuel st e o st',
    auto_on st -> filter_applied n_safe e = false ->
    exec_node se globals fuel st (NVar e) = (o, Ok st') ->
    exists f v, fuel = S f /\ eval se globals f st e = Ok (v, st') /\ escaped_or_marked o v.
  Proof.
    intros fuel st e o st' Ha Hf H.
    destruct (auto_on_transport st st' (exec_node_keeps_flags _ _ _ _ _ H) Ha) as (fr & Ht & Hfa).
    eapply var_site; eassumption.
  Qed.

  Lemma var_plain_clean : forall fuel st e o st',
    auto_on st -> plain_state st -> filter_applied n_safe e = false ->
    exec_node se globals fuel st (NVar e) = (o, Ok st') ->
    st' = st /\ html_clean o = true.
  Proof.
    intros fuel st e o st' Ha Hp Hf H.
    destruct (var_site_on fuel st e o st' Ha Hf H) as (f & v & _ & He & Hem).
    destruct (eval_plain f st e v st' Hp He) as [Est Hv]. split; [exact Est|].
    destruct Hem as [Hc|[Hs _]]; [exact Hc|]. rewrite Hv in Hs. discriminate Hs.
  Qed.

  Lemma firstof_output_clean_on : forall fuel st args o st',
    auto_on st -> none_safe args = true ->
    exec_node se globals fuel st (NFirstof args) = (o, Ok st') ->
    html_clean o = true.
  Proof.
    intros fuel st args o st' Ha Hn H.
    destruct (auto_on_transport st st' (exec_node_keeps_flags _ _ _ _ _ H) Ha) as (fr & Ht & Hfa).
    eapply firstof_output_clean; eassumption.
  Qed.

  Lemma firstof_site_on : forall fuel st args o st',
    auto_on st -> none_safe args = true ->
    exec_node se globals fuel st (NFirstof args) = (o, Ok st') ->
    o = [] \/
    exists a v s f st0, In a args /\ eval se globals f st0 a = Ok (v, st') /\ is_true (vv v) = true /\
                        to_string (vv v) = Some s /\ o = filter_escape s.
  Proof.
    intros fuel st args o st' Ha Hn H.
    destruct (auto_on_transport st st' (exec_node_keeps_flags _ _ _ _ _ H) Ha) as (fr & Ht & Hfa).
    destruct fuel as [|f]; [discriminate H|]. rewrite exec_node_S_firstof in H.
    eapply firstof_site; eassumption.
  Qed.

  Lemma cycle_site_on : forall fuel st id args asname silent o st' fr,
    top_frame st = Ok fr -> f_auto fr = true -> none_safe args = true -> cycles_none_safe fr ->
    exec_node se globals fuel st (NCycle id args asname silent) = (o, Ok st') ->
    o = [] \/ exists item v f st0 st1, eval se globals f st0 item = Ok (v, st1) /\ escaped_or_marked o v.
  Proof. intros. eapply cycle_site; eassumption. Qed.

  (* {% widthratio %} writes a decimal integer *)
  Lemma widthratio_inert : forall fuel st c m w nm o st',
    exec_node se globals fuel st (NWidthratio c m w nm) = (o, Ok st') -> forallb inert_byte o = true.
  Proof.
    intros fuel st c m w nm o st' H. destruct fuel as [|f]; [discriminate H|].
    rewrite exec_node_S in H. cbv beta iota zeta in H. repeat fwd1 H;
      unfold xok in H; inversion H; subst; try reflexivity; apply itoa_inert.
  Qed.
End Assembled.
